(* C13 — how the registry's events relate to etcd: load (Get at a revision) followed by a
   watch from that revision + 1.

   etcd's history is a list of mutations; the i-th mutation (0-based) produces revision
   i+1.  The registry receives [DLoad r snap calls] (cluster.load: a Get answered at
   revision r, fed to handleChanges) and [DWatch i] (the watch event of mutation i, fed to
   handleWatchEvents).

   HYPOTHESIS [events_after_snapshot]: after a load at revision r the next watch event is
   mutation r (revision r+1), and watch events come in revision order without gaps or
   repetitions; a snapshot lists exactly the etcd state of its revision.  In the code this
   is what [clientv3.WithRev(rev+1)] in cluster.setupWatch, the [rev = c.load(cli, key)]
   in cluster.watch after ErrCompacted, and load-before-watch in cluster.monitor / reload
   are for (etcd guarantees ordered, gap-free watch streams from a given revision).  It is
   NOT implied when the response header revision is 0 (then no WithRev is passed and the
   watch starts "now": mutations between the Get and the Watch are lost) — etcd revisions
   start at 1, so this only happens with mocks. *)
From Coq Require Import List ZArith Bool Lia Permutation.
From GZ Require Import C13.Model C13.Proofs C13.ProofsB C13.ProofsC.
Import ListNotations.
Open Scope Z_scope.

Inductive dlv :=
| DLoad (r : nat) (snap : list (Z * Z)) (calls : list lev)
| DWatch (i : nat).

Definition ev_of (h : list bev) (d : dlv) : ev :=
  match d with
  | DLoad _ snap calls => EReload snap calls
  | DWatch i => match nth_error h i with Some b => EBatch [b] | None => EBatch [] end
  end.

Fixpoint events_after_snapshot (h : list bev) (pos : nat) (ds : list dlv) : Prop :=
  match ds with
  | [] => True
  | DLoad r snap _ :: ds' =>
    (forall k, mget k (snap_map snap) = mget k (etcd_state h r)) /\ events_after_snapshot h r ds'
  | DWatch i :: ds' => i = pos /\ (i < length h)%nat /\ events_after_snapshot h (S pos) ds'
  end.

Fixpoint final_pos (pos : nat) (ds : list dlv) : nat :=
  match ds with
  | [] => pos
  | DLoad r _ _ :: ds' => final_pos r ds'
  | DWatch _ :: ds' => final_pos (S pos) ds'
  end.

Lemma firstn_S_nth : forall A (l : list A) n x, nth_error l n = Some x -> firstn (S n) l = firstn n l ++ [x].
Proof.
  induction l as [|y l IH]; intros n x H; destruct n; cbn in *; try discriminate.
  - inversion H. reflexivity.
  - f_equal. apply IH. exact H.
Qed.

Lemma etcd_state_S : forall h n b, nth_error h n = Some b ->
  etcd_state h (S n) = bapply (etcd_state h n) b.
Proof.
  intros h n b H. unfold etcd_state. rewrite (firstn_S_nth _ h n b H), fold_left_app. reflexivity.
Qed.

Lemma bapply_pointwise : forall m1 m2 b, (forall k, mget k m1 = mget k m2) ->
  forall k, mget k (bapply m1 b) = mget k (bapply m2 b).
Proof.
  intros m1 m2 [k0 v|k0] H k; cbn -[mset].
  - rewrite !mget_mset. destruct (k0 =? k); [reflexivity | apply H].
  - rewrite !mget_mdel. destruct (k0 =? k); [reflexivity | apply H].
Qed.

Lemma truth_tracks_etcd_gen : forall h ds pos t,
  events_after_snapshot h pos ds ->
  (forall k, mget k t = mget k (etcd_state h pos)) ->
  forall k, mget k (fold_left truth_step (map (ev_of h) ds) t) = mget k (etcd_state h (final_pos pos ds)).
Proof.
  intros h ds. induction ds as [|d ds IH]; intros pos t Ho Ht k; cbn [map fold_left final_pos].
  - apply Ht.
  - destruct d as [r snap calls|i]; cbn [events_after_snapshot] in Ho.
    + destruct Ho as [Hs Ho]. apply (IH r); [exact Ho|]. cbn [ev_of truth_step]. exact Hs.
    + destruct Ho as [-> [Hlt Ho]]. apply (IH (S pos)); [exact Ho|].
      cbn [ev_of]. destruct (nth_error h pos) as [b|] eqn:En.
      * cbn [truth_step fold_left]. rewrite (etcd_state_S h pos b En).
        apply bapply_pointwise. exact Ht.
      * apply nth_error_None in En. lia.
Qed.

Lemma truth_tracks_etcd : forall h ds,
  events_after_snapshot h 0 ds ->
  forall k, mget k (truth (map (ev_of h) ds)) = mget k (etcd_state h (final_pos 0 ds)).
Proof. intros h ds H. apply truth_tracks_etcd_gen; [exact H | reflexivity]. Qed.

Lemma registered_pointwise : forall t1 t2 v, (forall k, mget k t1 = mget k t2) ->
  (registered t1 v <-> registered t2 v).
Proof. intros t1 t2 v H. unfold registered. split; intros [k Hk]; exists k; [rewrite <- H | rewrite H]; exact Hk. Qed.

Lemma views_are_etcd_state : forall h ds xs c,
  events_after_snapshot h 0 ds ->
  wf_run (init xs) (map (ev_of h) ds) ->
  In c (conts (run (init xs) (map (ev_of h) ds))) ->
  let now := etcd_state h (final_pos 0 ds) in
  NoDup (c_values c) /\
  (cexcl c = false -> forall v, In v (c_values c) <-> registered now v) /\
  (cexcl c = true -> forall v, In v (c_values c) -> registered now v).
Proof.
  intros h ds xs c Ho W Hin. cbn zeta.
  rewrite (sys_snapshot_current xs _ c Hin).
  destruct (sys_views xs _ c W Hin) as [A [B C]].
  pose proof (truth_tracks_etcd h ds Ho) as T.
  split; [exact A|]. split; intros Hx v.
  - rewrite (B Hx v). apply registered_pointwise. exact T.
  - intros Hv. apply (registered_pointwise _ _ v T). apply (C Hx v Hv).
Qed.
