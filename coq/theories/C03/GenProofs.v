(* C03 — what the GENERATED scripts (coq/gen/Lua_period.v, Lua_token.v) compute, proved
   against whatever periodscript.lua / tokenscript.lua say in the tree today. *)
From Coq Require Import List ZArith String QArith Bool Lia.
From GZ Require Import Lib.RedisStore Lib.RedisStoreFacts.
From GZgen Require Lua_period Lua_token C03Consts.
Import ListNotations.
Open Scope Z_scope.

(* tokenlimit.go today: the in-process rescue limiter is built with the exact rate
   (xrate.Limit(rate), repair 9e9cefb), not from the truncated interval time.Second/rate; the
   monitor pings every 100 ms *)
Lemma rescue_exact_today : C03Consts.gen_rescue_exact = true.
Proof. reflexivity. Qed.

Lemma ping_interval_today : C03Consts.gen_pingInterval_ns = 100000000.
Proof. reflexivity. Qed.

(* the integer the period script returns for the [c]-th request against [q] *)
Definition period_code (c q : Z) : Z := if c <? q then 1 else if c =? q then 2 else 0.

(* the store after EXPIRE key p (seconds) *)
Definition after_expire (k : bulk) (p : Z) (st : rstate) : rstate := snd (exec EXPIRE [k; BInt p] st).

(* periodscript.lua: INCRBY 1; EXPIRE when the counter was just created; compare with limit *)
Lemma period_script_spec st key q p :
  eval Lua_period.script [key] [BInt q; BInt p] st =
  match lookup st key with
  | Some (mkEntry (BStr _) _) => (RErr ENotInt, st)
  | Some (mkEntry (BInt v) ex) =>
    let st1 := store_put st key (mkEntry (BInt (v + 1)) ex) in
    (RInt (period_code (v + 1) q),
     if v + 1 =? 1 then after_expire key p st1 else st1)
  | None =>
    let st1 := store_put st key (mkEntry (BInt 1) None) in
    (RInt (period_code 1 q), after_expire key p st1)
  end.
Proof.
  unfold eval, Lua_period.script. index_simp. cbn [lua_tonumber].
  unfold bind at 1. rewrite redis_call_kz. cbn [exec].
  destruct (lookup st key) as [[[v|s] ex]|] eqn:L; cbn [fst snd]; [| reflexivity |].
  - set (st1 := store_put st key (mkEntry (BInt (v + 1)) ex)).
    destruct (exec_expire_ok key p st1) as [x Hx].
    rewrite lua_eq_z. unfold bind; cbv beta. unfold period_code.
    destruct (v + 1 =? 1); cbn [truthy].
    + rewrite redis_call_kz. unfold after_expire. destruct (exec EXPIRE [key; BInt p] st1) as [r st2].
      cbn [fst] in Hx. subst r. unfold ret; cbn [snd]. rewrite lua_lt_z, lua_eq_z.
      destruct (v + 1 <? q); destruct (v + 1 =? q); reflexivity.
    + unfold ret. rewrite lua_lt_z, lua_eq_z.
      destruct (v + 1 <? q); destruct (v + 1 =? q); reflexivity.
  - set (st1 := store_put st key (mkEntry (BInt 1) None)).
    destruct (exec_expire_ok key p st1) as [x Hx].
    rewrite lua_eq_z. change (1 =? 1) with true. unfold bind; cbv beta. unfold period_code. cbn [truthy].
    rewrite redis_call_kz. unfold after_expire. destruct (exec EXPIRE [key; BInt p] st1) as [r st2].
    cbn [fst] in Hx. subst r. unfold ret; cbn [snd]. rewrite lua_lt_z, lua_eq_z.
    destruct (1 <? q); destruct (1 =? q); reflexivity.
Qed.

(* ------------------------------------------------------------------ tokenscript.lua *)
Definition token_ttl (rt bs : Z) : Z := Z.max 1 (bs * 2 / rt).

Ltac mstep L := rewrite L; rewrite bind_ret_l; cbv beta.

Lemma token_script_spec st kt kts rt bs now n : 0 < rt ->
  eval Lua_token.script [kt; kts] [BInt rt; BInt bs; BInt now; BInt n] st =
  let ttl := token_ttl rt bs in
  let T := match stored_num st kt with Some z => z | None => bs end in
  let s := match stored_num st kts with Some z => z | None => 0 end in
  let filled := Z.min bs (T + Z.max 0 (now - s) * rt) in
  let ok := n <=? filled in
  let T' := if ok then filled - n else filled in
  let ex := Some (rnow st + ttl * 1000) in
  ((if ok then RInt 1 else RNil),
   store_put (store_put st kt (mkEntry (BInt T') ex)) kts (mkEntry (BInt now) ex)).
Proof.
  intro Hrt. unfold eval, Lua_token.script. index_simp. cbn [lua_tonumber]. cbv zeta.
  mstep (lua_div_M bs rt Hrt). mstep lua_mul_qM. mstep lua_floor_M. rewrite (Qfloor_div2 _ _ Hrt).
  rewrite lua_lt_M, bind_ret_l.
  assert (TTL : (if truthy (LBool (bs * 2 / rt <? 1)) then ret (znum 1) else ret (znum (bs * 2 / rt)))
                = @ret lval (znum (token_ttl rt bs))).
  { unfold token_ttl. destruct (bs * 2 / rt <? 1) eqn:E; cbn [truthy]; apply ret_eq, znum_eq.
    - apply Z.ltb_lt in E. lia.
    - apply Z.ltb_ge in E. lia. }
  rewrite TTL, bind_ret_l. clear TTL.
  assert (DEF : forall (o : option Z) d,
            (if truthy (lua_eq (match o with Some z => znum z | None => LNil end) LNil)
             then ret (znum d) else ret (match o with Some z => znum z | None => LNil end))
            = @ret lval (znum (match o with Some z => z | None => d end))).
  { intros [z|] d; reflexivity. }
  rewrite bind_get, tonumber_get_val, DEF, bind_ret_l.
  rewrite bind_get, tonumber_get_val, DEF, bind_ret_l. clear DEF.
  set (T := match stored_num st kt with Some z => z | None => bs end).
  set (s := match stored_num st kts with Some z => z | None => 0 end).
  repeat marith.
  set (filled := Z.min bs (T + Z.max 0 (now - s) * rt)).
  assert (TT : (token_ttl rt bs <=? 0) = false) by (unfold token_ttl; apply Z.leb_gt; lia).
  destruct (n <=? filled) eqn:G; cbn [truthy]; rewrite ?lua_sub_M, ?bind_ret_l; cbv beta;
    rewrite bind_setex, TT, bind_setex; cbn [rnow store_put]; rewrite TT; reflexivity.
Qed.
