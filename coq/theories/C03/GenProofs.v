(* C03 — what the GENERATED scripts (coq/gen/Lua_period.v, Lua_token.v) compute, proved
   against whatever periodscript.lua / tokenscript.lua say in the tree today. *)
From Coq Require Import List ZArith String QArith Bool Lia ZifyBool.
From GZ Require Import Lib.RedisStore Lib.RedisStoreFacts Lib.LuaExec.
From GZgen Require Lua_period Lua_token C03Consts.
Import ListNotations.
Open Scope Z_scope.

(* tokenlimit.go today: the in-process rescue limiter is built with the exact rate
   (xrate.Limit(rate), repair 9e9cefb), not from the truncated interval time.Second/rate; the
   monitor pings every 100 ms *)
Lemma rescue_exact_today : C03Consts.gen_rescue_exact = true.
Proof. reflexivity. Qed.

Lemma ping_interval_today : C03Consts.gen_pingInterval_ns = 100000000.
Proof. reflexivity. Qed.

(* The two script lemmas below are proved by SYMBOLIC EXECUTION of whatever the generated scripts are today
   (Lib/LuaExec.v: lua_exec runs the script on a symbolic store, splitting on every test it makes;
   lua_finish compares each path with the specification by linear arithmetic).  Nothing in the proofs
   depends on the text of the scripts: renamed locals, expressions split into locals or joined, operands
   exchanged, tonumber moved, early returns, `x or default`, math.max instead of an if ... are re-proved
   as they are (translate/neutral/*.lua is the regression corpus, `python3 translate/neutraltest.py`);
   a script that computes something else leaves an unprovable path = a broken obligation. *)

(* the integer the period script returns for the [c]-th request against [q] *)
Definition period_code (c q : Z) : Z := if c <? q then 1 else if c =? q then 2 else 0.

(* the store after EXPIRE key p (seconds) *)
Definition after_expire (k : bulk) (p : Z) (st : rstate) : rstate := snd (exec EXPIRE [k; BInt p] st).

(* periodscript.lua: INCRBY 1; EXPIRE when the counter was just created; compare with limit *)
Definition period_script_meets (script : list lval -> list lval -> M lval) : Prop :=
  forall st key q p,
  eval script [key] [BInt q; BInt p] st =
  match lookup st key with
  | Some (mkEntry (BStr _) _) => (RErr ENotInt, st)
  | Some (mkEntry (BInt v) ex) =>
    let st1 := store_put st key (mkEntry (BInt (v + 1)) ex) in
    (RInt (period_code (v + 1) q),
     if v + 1 =? 1 then after_expire key p st1 else st1)
  | None =>
    let st1 := store_put st key (mkEntry (BInt 1) None) in
    (RInt (period_code 1 q), after_expire key p st1)
  end.

Ltac period_script_tac :=
  intros st key q p; unfold period_code, after_expire; lua_exec; lua_finish.

Lemma period_script_today : period_script_meets Lua_period.script.
Proof. period_script_tac. Qed.

Lemma period_script_spec st key q p :
  eval Lua_period.script [key] [BInt q; BInt p] st =
  match lookup st key with
  | Some (mkEntry (BStr _) _) => (RErr ENotInt, st)
  | Some (mkEntry (BInt v) ex) =>
    let st1 := store_put st key (mkEntry (BInt (v + 1)) ex) in
    (RInt (period_code (v + 1) q),
     if v + 1 =? 1 then after_expire key p st1 else st1)
  | None =>
    let st1 := store_put st key (mkEntry (BInt 1) None) in
    (RInt (period_code 1 q), after_expire key p st1)
  end.
Proof. exact (period_script_today st key q p). Qed.

(* ------------------------------------------------------------------ tokenscript.lua *)
Definition token_ttl (rt bs : Z) : Z := Z.max 1 (bs * 2 / rt).

Definition token_script_meets (script : list lval -> list lval -> M lval) : Prop :=
  forall st kt kts rt bs now n, 0 < rt ->
  eval script [kt; kts] [BInt rt; BInt bs; BInt now; BInt n] st =
  let ttl := token_ttl rt bs in
  let T := match stored_num st kt with Some z => z | None => bs end in
  let s := match stored_num st kts with Some z => z | None => 0 end in
  let filled := Z.min bs (T + Z.max 0 (now - s) * rt) in
  let ok := n <=? filled in
  let T' := if ok then filled - n else filled in
  let ex := Some (rnow st + ttl * 1000) in
  ((if ok then RInt 1 else RNil),
   store_put (store_put st kt (mkEntry (BInt T') ex)) kts (mkEntry (BInt now) ex)).

Ltac token_script_tac :=
  intros st kt kts rt bs now n Hrt; unfold token_ttl; lua_exec; lua_finish.

Lemma token_script_today : token_script_meets Lua_token.script.
Proof. token_script_tac. Qed.

Lemma token_script_spec st kt kts rt bs now n : 0 < rt ->
  eval Lua_token.script [kt; kts] [BInt rt; BInt bs; BInt now; BInt n] st =
  let ttl := token_ttl rt bs in
  let T := match stored_num st kt with Some z => z | None => bs end in
  let s := match stored_num st kts with Some z => z | None => 0 end in
  let filled := Z.min bs (T + Z.max 0 (now - s) * rt) in
  let ok := n <=? filled in
  let T' := if ok then filled - n else filled in
  let ex := Some (rnow st + ttl * 1000) in
  ((if ok then RInt 1 else RNil),
   store_put (store_put st kt (mkEntry (BInt T') ex)) kts (mkEntry (BInt now) ex)).
Proof. exact (token_script_today st kt kts rt bs now n). Qed.
