(* C03 — correspondence / property evaluation on histories observed on the implementation.
   Executable only. *)
From Coq Require Import List ZArith String Bool.
From GZ Require Export Lib.CheckLib C03.Model.
Import ListNotations.
Open Scope Z_scope.

(* what the executor saw for one TokenLimiter op *)
Inductive seen_t :=
| OA (granted alive_before alive_after : bool)
| ON.

(* the executor runs on miniredis: expiry_inclusive = true *)
Inductive case :=
| CPeriod (cfg : pcfg) (base_ms : Z) (ops : list pop) (obs : list pobs)
| CToken (rt bs : Z) (base_ms : Z) (ninst : nat) (ops : list top) (obs : list seen_t).

(* the circuit breaker of go-zero's redis client is not modelled; its decision is the oracle
   [brk] of an op, read off the error class.  It is ACCEPTED only where the real breaker can
   reject at all: protection = 5 failed commands must be in its window, and one call is at most
   2 commands (EVALSHA, EVAL) after the run's initial NOSCRIPT, i.e. at least 3 calls failed
   before (2*2+1 = 5 < 6 <= 2*3+1). *)
Definition brk_min_failed_calls : Z := 3.

Definition token_cfg (rt bs : Z) : tcfg := mkCfg rt bs (BStr "{tk}.tokens") (BStr "{tk}.ts").

(* ------------------------------------------------------------------ agreement *)
Definition pobs_eqb (a b : pobs) : bool :=
  match a, b with
  | PAns c e, PAns c' e' => pcode_eqb c c' && Bool.eqb e e'
  | PTtlIs t, PTtlIs t' => opt_eqb (opt_eqb Z.eqb) t t'
  | PNone, PNone => true
  | _, _ => false
  end.

(* every "breaker open" oracle comes after enough failed calls *)
Fixpoint pbrk_ok (failed : Z) (ops : list pop) (obs : list pobs) : bool :=
  match ops, obs with
  | PTake _ brk :: ops', PAns _ e :: obs' =>
    (brk || (brk_min_failed_calls <=? failed)) && pbrk_ok (if e then failed + 1 else failed) ops' obs'
  | _ :: ops', _ :: obs' => pbrk_ok failed ops' obs'
  | _, _ => true
  end.

Fixpoint tbrk_ok (failed : Z) (ops : list top) (obs : list seen_t) : bool :=
  match ops, obs with
  | TAllow _ _ _ _ brk :: ops', OA _ b a :: obs' =>
    (brk || (brk_min_failed_calls <=? failed)) && tbrk_ok (if (b && negb a)%bool then failed + 1 else failed) ops' obs'
  | _ :: ops', _ :: obs' => tbrk_ok failed ops' obs'
  | _, _ => true
  end.

Definition alive_of (s : tstate) (i : nat) : bool :=
  match nth_error (tinsts s) i with Some t => alive t | None => false end.

Fixpoint tagree (c : tcfg) (s : tstate) (ops : list top) (obs : list seen_t) : bool :=
  match ops, obs with
  | [], [] => true
  | o :: ops', ob :: obs' =>
    let '(s', r) := tstep c s o in
    match o, ob, r with
    | TAllow i _ _ _ _, OA g b a, TR g' a' _ =>
      Bool.eqb g g' && Bool.eqb a a' && Bool.eqb b (alive_of s i)
    | TAllow _ _ _ _ _, _, _ => false
    | _, ON, TU => true
    | _, _, _ => false
    end && tagree c s' ops' obs'
  | _, _ => false
  end.

Definition agrees (c : case) : bool :=
  match c with
  | CPeriod cfg base ops obs => list_eqb pobs_eqb (prun cfg (pinit true base) ops) obs && pbrk_ok 0 ops obs
  | CToken rt bs base n ops obs => tagree (token_cfg rt bs) (tinit true base n) ops obs && tbrk_ok 0 ops obs
  end.

(* ------------------------------------------------------------------ the property *)
Definition pop_wf (o : pop) : bool := match o with PAdvance ms => 0 <=? ms | _ => true end.

(* rescue-mode calls of one instance: (now_ns, n, granted) *)
Fixpoint bound_from (I cap t0 acc : Z) (calls : list (Z * Z * bool)) : bool :=
  match calls with
  | [] => true
  | (t, n, g) :: cs =>
    let acc' := if g then acc + n * I else acc in
    (acc' <=? cap + (t - t0)) && bound_from I cap t0 acc' cs
  end.

(* over EVERY interval of the instance's rescue calls: granted <= burst + elapsed/interval *)
Fixpoint local_bound_ok (I cap : Z) (calls : list (Z * Z * bool)) : bool :=
  match calls with
  | [] => true
  | (t, n, g) :: cs => bound_from I cap t 0 calls && local_bound_ok I cap cs
  end.

(* walk the observed history: decisions taken with a reachable store and redisAlive = 1 must be
   the ideal shared bucket's (and must not fall back); the others are collected per instance *)
Fixpoint token_walk (rt bs : Z) (b : bucket) (down : bool) (ops : list top) (obs : list seen_t)
                    (acc : list (nat * (Z * Z * bool))) : bool * list (nat * (Z * Z * bool)) :=
  match ops, obs with
  | TAllow i now n _ brk :: ops', OA g before after :: obs' =>
    if (before && negb down && brk)%bool then      (* the command reached a reachable store *)
      let '(b', e) := bucket_take rt bs b (unix_s now) n in
      let '(ok, acc') := token_walk rt bs b' down ops' obs' acc in
      (Bool.eqb g e && after && ok, acc')
    else token_walk rt bs b down ops' obs' (acc ++ [(i, (now * 1000000, n, g))])
  | TDown :: ops', _ :: obs' => token_walk rt bs b true ops' obs' acc
  | TUp :: ops', _ :: obs' => token_walk rt bs b false ops' obs' acc
  | _ :: ops', _ :: obs' => token_walk rt bs b down ops' obs' acc
  | _, _ => (true, acc)
  end.

Definition calls_of (i : nat) (acc : list (nat * (Z * Z * bool))) : list (Z * Z * bool) :=
  map snd (filter (fun x => Nat.eqb (fst x) i) acc).

Definition prop_ok (c : case) : bool :=
  match c with
  | CPeriod cfg base ops obs =>
    if (1 <=? pperiod cfg) && forallb pop_wf ops
    then list_eqb pobs_eqb (sp_prun cfg (sp_pinit true base) ops) obs
    else true
  | CToken rt bs base n ops obs =>
    if (1 <=? rt) && (rt <=? 1000000000) && (0 <=? bs) && (0 <=? base) && twf base ops then
      let '(ok, acc) := token_walk rt bs (mkB bs 0) false ops obs [] in
      ok && forallb (fun i => local_bound_ok (interval_ns rt) (bs * interval_ns rt) (calls_of i acc)) (seq 0 n)
    else true
  end.

Definition model_obs (c : case) :=
  match c with
  | CPeriod cfg base ops obs => (prun cfg (pinit true base) ops, [])
  | CToken rt bs base n ops obs => ([], trun (token_cfg rt bs) (tinit true base n) ops)
  end.
