(* C03 — correspondence / property evaluation on histories observed on the implementation.
   Executable only. *)
From Coq Require Import List ZArith String Bool.
From GZ Require Export Lib.CheckLib C03.Model.
From GZgen Require C03Consts.
Import ListNotations.
Open Scope Z_scope.

(* what the executor saw for one TokenLimiter op *)
Inductive seen_t :=
| OA (granted alive_before alive_after : bool)
| OP (alive : bool)          (* after a monitor tick (the executor waited >= 20 monitor periods) *)
| ON.

(* the executor runs on miniredis: expiry_inclusive = true *)
Inductive case :=
| CPeriod (cfg : pcfg) (base_ms : Z) (ops : list pop) (obs : list pobs)
| CToken (rt bs : Z) (kt kts : bulk) (base_ms : Z) (ninst : nat) (ops : list top) (obs : list seen_t)
| CBoth (a b : case).
      (* limiters on DIFFERENT keys (each with its own rate / burst) driven on one store in one
         history: every key's limiters with the part of the history that concerns them (their own
         calls, the clock, outages).  Limiters on other keys must not interfere: the script touches
         its two keys only (Props.token_script_refines_bucket, frame clause) and token_keys_distinct. *)

(* the circuit breaker of go-zero's redis client is not modelled; its decision is the oracle
   [brk] of an op, read off the error class.  It is ACCEPTED only where the real breaker can
   reject at all: protection = 5 failed commands must be in its window, and one call is at most
   2 commands (EVALSHA, EVAL) after the run's initial NOSCRIPT, i.e. at least 3 calls failed
   before (2*2+1 = 5 < 6 <= 2*3+1). *)
Definition brk_min_failed_calls : Z := 3.


(* ------------------------------------------------------------------ agreement *)
Definition pobs_eqb (a b : pobs) : bool :=
  match a, b with
  | PAns c e, PAns c' e' => pcode_eqb c c' && Bool.eqb e e'
  | PTtlIs t, PTtlIs t' => opt_eqb (opt_eqb Z.eqb) t t'
  | PNone, PNone => true
  | _, _ => false
  end.

(* every "breaker open" oracle comes after enough failed calls *)
Fixpoint pbrk_ok (failed : Z) (ops : list pop) (obs : list pobs) : bool :=
  match ops, obs with
  | PTake _ brk :: ops', PAns _ e :: obs' =>
    (brk || (brk_min_failed_calls <=? failed)) && pbrk_ok (if e then failed + 1 else failed) ops' obs'
  | _ :: ops', _ :: obs' => pbrk_ok failed ops' obs'
  | _, _ => true
  end.

Fixpoint tbrk_ok (failed : Z) (ops : list top) (obs : list seen_t) : bool :=
  match ops, obs with
  | TAllow _ _ _ _ brk :: ops', OA _ b a :: obs'
  | TAllowLate _ _ _ _ brk :: ops', OA _ b a :: obs' =>
    (brk || (brk_min_failed_calls <=? failed)) && tbrk_ok (if (b && negb a)%bool then failed + 1 else failed) ops' obs'
  | TAllowF _ _ _ _ (RErr _) :: ops', OA _ b a :: obs' =>
    tbrk_ok (if (b && negb a)%bool then failed + 1 else failed) ops' obs'
  | _ :: ops', _ :: obs' => tbrk_ok failed ops' obs'
  | _, _ => true
  end.

Definition alive_of (s : tstate) (i : nat) : bool :=
  match nth_error (tinsts s) i with Some t => alive t | None => false end.

Fixpoint tagree (c : tcfg) (s : tstate) (ops : list top) (obs : list seen_t) : bool :=
  match ops, obs with
  | [], [] => true
  | o :: ops', ob :: obs' =>
    let '(s', r) := tstep c s o in
    match o, ob, r with
    | TAllow i _ _ _ _, OA g b a, TR g' a' _
    | TAllowF i _ _ _ _, OA g b a, TR g' a' _
    | TAllowC i _ _ _, OA g b a, TR g' a' _
    | TAllowD i _ _ _ _, OA g b a, TR g' a' _ =>
      Bool.eqb g g' && Bool.eqb a a' && Bool.eqb b (alive_of s i)
    | TAllowLate _ _ _ _ _, OA g _ a, TR g' a' _ =>      (* the flag was read earlier: not compared *)
      Bool.eqb g g' && Bool.eqb a a'
    | TAllow _ _ _ _ _, _, _ | TAllowF _ _ _ _ _, _, _ | TAllowC _ _ _ _, _, _ | TAllowLate _ _ _ _ _, _, _
    | TAllowD _ _ _ _ _, _, _ => false
    | TPing i, OP a, TU | TPong i, OP a, TU => Bool.eqb a (alive_of s' i)
    | _, ON, TU => true
    | _, _, _ => false
    end && tagree c s' ops' obs'
  | _, _ => false
  end.

Fixpoint agrees (c : case) : bool :=
  match c with
  | CPeriod cfg base ops obs => list_eqb pobs_eqb (prun cfg (pinit true base) ops) obs && pbrk_ok 0 ops obs
  | CToken rt bs kt kts base n ops obs => tagree (mkCfg rt bs kt kts) (tinit true base n) ops obs && tbrk_ok 0 ops obs
  | CBoth a b => agrees a && agrees b
  end.

(* ------------------------------------------------------------------ the property *)
(* time does not run backwards; the faulty store does not forge a verdict of the script *)
Definition pop_wf (o : pop) : bool :=
  match o with PAdvance ms => 0 <=? ms | PTakeF _ f => negb (pforged f) | _ => true end.

(* rescue-mode calls of one instance: (now_ns, n, granted); a grant of n costs n*I, an elapsed
   ns is worth m, the bucket holds cap *)
Fixpoint bound_from (I m cap t0 acc : Z) (calls : list (Z * Z * bool)) : bool :=
  match calls with
  | [] => true
  | (t, n, g) :: cs =>
    let acc' := if g then acc + n * I else acc in
    (acc' <=? cap + m * (t - t0)) && bound_from I m cap t0 acc' cs
  end.

(* over EVERY interval of the instance's rescue calls *)
Fixpoint local_bound_ok (I m cap : Z) (calls : list (Z * Z * bool)) : bool :=
  match calls with
  | [] => true
  | (t, n, g) :: cs => bound_from I m cap t 0 calls && local_bound_ok I m cap cs
  end.

(* THE LOCAL BOUND of the property: granted <= burst + rate * elapsed, in units of 10^-9 token:
   granted*10^9 <= burst*10^9 + rate*(elapsed ns + 2).  (The 2 ns: x/time/rate truncates the
   waiting time of a reservation to whole ns, so it grants up to 1 ns early.)
   The tree as it was before the repair 9e9cefb (rescue limiter built from the truncated interval
   floor(10^9/rate) ns: regenerated flag C03Consts.gen_rescue_exact = false, which breaks
   GenProofs.rescue_exact_today) only met granted*interval <= burst*interval + elapsed ns and fails
   this check (Pinned.rescue_truncated_interval_refuted). *)
Definition rescue_bound_ok (rt bs : Z) (calls : list (Z * Z * bool)) : bool :=
  local_bound_ok 1000000000 rt (bs * 1000000000 + 2 * rt) calls.

(* walk the observed history: decisions taken with a reachable store and redisAlive = 1 must be
   the ideal shared bucket's (and must not fall back); the others are collected per instance *)
Fixpoint token_walk (rt bs : Z) (b : bucket) (down : bool) (ops : list top) (obs : list seen_t)
                    (acc : list (nat * (Z * Z * bool))) : bool * list (nat * (Z * Z * bool)) :=
  match ops, obs with
  | TAllow i now n _ brk :: ops', OA g before after :: obs' =>
    if (before && negb down && brk)%bool then      (* the command reached a reachable store *)
      let '(b', e) := bucket_take rt bs b (unix_s now) n in
      let '(ok, acc') := token_walk rt bs b' down ops' obs' acc in
      (Bool.eqb g e && after && ok, acc')
    else token_walk rt bs b down ops' obs' (acc ++ [(i, (now * 1000000, n, g))])
  | TAllowLate i now n _ brk :: ops', OA g _ after :: obs' =>
    (* a concurrent call of an instance that had passed the flag: judged like any call that sends
       its command - by the shared bucket if the command reaches a reachable store (it does not make
       the instance fall back: the flag may already be off), by the local bound otherwise *)
    if (negb down && brk)%bool then
      let '(b', e) := bucket_take rt bs b (unix_s now) n in
      let '(ok, acc') := token_walk rt bs b' down ops' obs' acc in
      (Bool.eqb g e && ok, acc')
    else token_walk rt bs b down ops' obs' (acc ++ [(i, (now * 1000000, n, g))])
  | TAllowF i now n _ r :: ops', OA g before after :: obs' =>
    (* a faulted call: a reply that is no verdict of the script is never a grant by the store -
       nil / another number: refused, the instance stays on the store; an error / a non-integer:
       the instance falls back and the answer is its rescue limiter's *)
    if before then
      match r with
      | RNil | RInt _ =>
        let '(ok, acc') := token_walk rt bs b down ops' obs' acc in
        ((match r with RInt 1 => true | _ => negb g end) && after && ok, acc')
      | _ =>
        let '(ok, acc') := token_walk rt bs b down ops' obs' (acc ++ [(i, (now * 1000000, n, g))]) in
        (negb after && ok, acc')
      end
    else token_walk rt bs b down ops' obs' (acc ++ [(i, (now * 1000000, n, g))])
  | TAllowC i now n _ :: ops', OA g before after :: obs' =>
    (* the caller's context is already cancelled: refused, no fallback *)
    if before then
      let '(ok, acc') := token_walk rt bs b down ops' obs' acc in (negb g && after && ok, acc')
    else token_walk rt bs b down ops' obs' (acc ++ [(i, (now * 1000000, n, g))])
  | TAllowD i now n _ ran :: ops', OA g before after :: obs' =>
    (* the caller's context became done DURING the store call: refused, and the instance must NOT
       fall back (that is no store failure); if the script had run, the shared bucket was charged *)
    if before then
      let b1 := if ran then fst (bucket_take rt bs b (unix_s now) n) else b in
      let '(ok, acc') := token_walk rt bs b1 down ops' obs' acc in (negb g && after && ok, acc')
    else token_walk rt bs b down ops' obs' (acc ++ [(i, (now * 1000000, n, g))])
  | TPing i :: ops', OP a :: obs' =>
    (* RECOVERY: once the store answers again, every instance is back on the shared bucket
       within a monitor period (the executor gave it >= 20) *)
    let '(ok, acc') := token_walk rt bs b down ops' obs' acc in ((down || a) && ok, acc')
  | TPong i :: ops', OP a :: obs' =>
    (* the store answered the monitor's ping: the instance switches back (even if the store has gone
       down again meanwhile: the next call will notice) *)
    let '(ok, acc') := token_walk rt bs b down ops' obs' acc in (a && ok, acc')
  | TDown :: ops', _ :: obs' => token_walk rt bs b true ops' obs' acc
  | TUp :: ops', _ :: obs' => token_walk rt bs b false ops' obs' acc
  | _ :: ops', _ :: obs' => token_walk rt bs b down ops' obs' acc
  | _, _ => (true, acc)
  end.

Definition calls_of (i : nat) (acc : list (nat * (Z * Z * bool))) : list (Z * Z * bool) :=
  map snd (filter (fun x => Nat.eqb (fst x) i) acc).

Fixpoint prop_ok (c : case) : bool :=
  match c with
  | CBoth a b => prop_ok a && prop_ok b
  | CPeriod cfg base ops obs =>
    if (1 <=? pperiod cfg) && forallb pop_wf ops
    then list_eqb pobs_eqb (sp_prun cfg (sp_pinit true base) ops) obs
    else true
  | CToken rt bs kt kts base n ops obs =>
    if (1 <=? rt) && (rt <=? 1000000000) && (0 <=? bs) && (0 <=? base) && twf base ops then
      let '(ok, acc) := token_walk rt bs (mkB bs 0) false ops obs [] in
      ok && forallb (fun i => rescue_bound_ok rt bs (calls_of i acc)) (seq 0 n)
    else true
  end.

Fixpoint model_obs (c : case) : list pobs * list tobs :=
  match c with
  | CPeriod cfg base ops obs => (prun cfg (pinit true base) ops, [])
  | CToken rt bs kt kts base n ops obs => ([], trun (mkCfg rt bs kt kts) (tinit true base n) ops)
  | CBoth a b => (fst (model_obs a) ++ fst (model_obs b), snd (model_obs a) ++ snd (model_obs b))
  end.
