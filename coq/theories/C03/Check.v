(* C03 — correspondence / property evaluation on histories observed on the implementation.
   Executable only. *)
From Coq Require Import List ZArith String Bool.
From GZ Require Export Lib.CheckLib C03.Model.
Import ListNotations.
Open Scope Z_scope.

(* what the executor saw for one TokenLimiter op *)
Inductive seen_t :=
| OA (granted alive_before alive_after : bool)
| ON.

Inductive case :=
| CPeriod (quota period : Z) (ops : list pop) (obs : list pobs)
| CToken (rt bs : Z) (base_ms : Z) (ninst : nat) (ops : list top) (obs : list seen_t).

Definition token_cfg (rt bs : Z) : tcfg := mkCfg rt bs (BStr "{tk}.tokens") (BStr "{tk}.ts").

(* ------------------------------------------------------------------ agreement *)
Definition pobs_eqb (a b : pobs) : bool :=
  match a, b with
  | Some (c, e), Some (c', e') => pcode_eqb c c' && Bool.eqb e e'
  | None, None => true
  | _, _ => false
  end.

Definition alive_of (s : tstate) (i : nat) : bool :=
  match nth_error (tinsts s) i with Some t => alive t | None => false end.

Fixpoint tagree (c : tcfg) (s : tstate) (ops : list top) (obs : list seen_t) : bool :=
  match ops, obs with
  | [], [] => true
  | o :: ops', ob :: obs' =>
    let '(s', r) := tstep c s o in
    match o, ob, r with
    | TAllow i _ _ _, OA g b a, TR g' a' _ =>
      Bool.eqb g g' && Bool.eqb a a' && Bool.eqb b (alive_of s i)
    | TAllow _ _ _ _, _, _ => false
    | _, ON, TU => true
    | _, _, _ => false
    end && tagree c s' ops' obs'
  | _, _ => false
  end.

Definition agrees (c : case) : bool :=
  match c with
  | CPeriod q p ops obs => list_eqb pobs_eqb (prun q p pinit ops) obs
  | CToken rt bs base n ops obs => tagree (token_cfg rt bs) (tinit base n) ops obs
  end.

(* ------------------------------------------------------------------ the property *)
Definition pop_wf (o : pop) : bool := match o with PAdvance ms => 0 <=? ms | _ => true end.

(* rescue-mode calls of one instance: (now_ns, n, granted) *)
Fixpoint bound_from (I cap t0 acc : Z) (calls : list (Z * Z * bool)) : bool :=
  match calls with
  | [] => true
  | (t, n, g) :: cs =>
    let acc' := if g then acc + n * I else acc in
    (acc' <=? cap + (t - t0)) && bound_from I cap t0 acc' cs
  end.

(* over EVERY interval of the instance's rescue calls: granted <= burst + elapsed/interval *)
Fixpoint local_bound_ok (I cap : Z) (calls : list (Z * Z * bool)) : bool :=
  match calls with
  | [] => true
  | (t, n, g) :: cs => bound_from I cap t 0 calls && local_bound_ok I cap cs
  end.

(* walk the observed history: decisions taken with a reachable store and redisAlive = 1 must be
   the ideal shared bucket's (and must not fall back); the others are collected per instance *)
Fixpoint token_walk (rt bs : Z) (b : bucket) (down : bool) (ops : list top) (obs : list seen_t)
                    (acc : list (nat * (Z * Z * bool))) : bool * list (nat * (Z * Z * bool)) :=
  match ops, obs with
  | TAllow i now n _ :: ops', OA g before after :: obs' =>
    if (before && negb down)%bool then
      let '(b', e) := bucket_take rt bs b (unix_s now) n in
      let '(ok, acc') := token_walk rt bs b' down ops' obs' acc in
      (Bool.eqb g e && after && ok, acc')
    else token_walk rt bs b down ops' obs' (acc ++ [(i, (now * 1000000, n, g))])
  | TDown :: ops', _ :: obs' => token_walk rt bs b true ops' obs' acc
  | TUp :: ops', _ :: obs' => token_walk rt bs b false ops' obs' acc
  | _ :: ops', _ :: obs' => token_walk rt bs b down ops' obs' acc
  | _, _ => (true, acc)
  end.

Definition calls_of (i : nat) (acc : list (nat * (Z * Z * bool))) : list (Z * Z * bool) :=
  map snd (filter (fun x => Nat.eqb (fst x) i) acc).

Definition prop_ok (c : case) : bool :=
  match c with
  | CPeriod q p ops obs =>
    if (1 <=? p) && forallb pop_wf ops
    then list_eqb pobs_eqb (sp_prun q p sp_pinit ops) obs
    else true
  | CToken rt bs base n ops obs =>
    if (1 <=? rt) && (rt <=? 1000000000) && (0 <=? bs) && (0 <=? base) && twf base ops then
      let '(ok, acc) := token_walk rt bs (mkB bs 0) false ops obs [] in
      ok && forallb (fun i => local_bound_ok (interval_ns rt) (bs * interval_ns rt) (calls_of i acc)) (seq 0 n)
    else true
  end.

Definition model_obs (c : case) :=
  match c with
  | CPeriod q p ops obs => (prun q p pinit ops, [])
  | CToken rt bs base n ops obs => ([], trun (token_cfg rt bs) (tinit base n) ops)
  end.
