(* C03 — PeriodLimit: exact quota per key and period; errors never grant. *)
From Coq Require Import List ZArith String Bool Lia.
From GZ Require Import Lib.RedisStore Lib.RedisStoreFacts C03.Model C03.GenProofs.
Import ListNotations.
Open Scope Z_scope.

Lemma period_reply_code c q : period_reply (RInt (period_code c q)) = (code_of c q, false).
Proof. unfold period_code, code_of. destruct (c <? q); destruct (c =? q); reflexivity. Qed.

(* a store error / unknown reply is reported as (Unknown, error); a grant is never an error *)
Lemma period_reply_sound r :
  (snd (period_reply r) = true -> fst (period_reply r) = Unknown) /\
  (fst (period_reply r) <> Unknown -> snd (period_reply r) = false /\ exists n, r = RInt n /\ 0 <= n <= 2).
Proof.
  destruct r as [|z|b|s|e]; cbn; try (split; [auto|intro H; congruence]).
  destruct z as [|p|p]; cbn.
  - split; [discriminate|]. intros _. split; auto. exists 0. split; auto; lia.
  - destruct p as [p|p|]; cbn; try (split; [auto|intro H; congruence]).
    + destruct p; cbn; try (split; [auto|intro H; congruence]).
      split; [discriminate|]. intros _. split; auto. exists 2. split; auto; lia.
    + split; [discriminate|]. intros _. split; auto. exists 1. split; auto; lia.
  - split; [auto|intro H; congruence].
Qed.

Lemma after_expire_other k k' p st : bulk_eqb k k' = false ->
  find k (rdata (after_expire k' p st)) = find k (rdata st).
Proof.
  intro N. unfold after_expire. cbn [exec]. destruct (lookup st k') as [e|]; [|reflexivity].
  destruct (p <=? 0); cbn [snd store_del store_put rdata].
  - now apply find_remove_other.
  - now apply find_put_other.
Qed.

Lemma after_expire_incl k p st : expiry_inclusive (after_expire k p st) = expiry_inclusive st.
Proof.
  unfold after_expire. cbn [exec]. destruct (lookup st k) as [e|]; [|reflexivity].
  destruct (p <=? 0); reflexivity.
Qed.

Lemma after_expire_now k p st : rnow (after_expire k p st) = rnow st.
Proof.
  unfold after_expire. cbn [exec]. destruct (lookup st k) as [e|]; [|reflexivity].
  destruct (p <=? 0); reflexivity.
Qed.

Section Period.
Variable c : pcfg.
(* every window the limiter can ask for is at least one second (period >= 1, see window_spec) *)
Hypothesis Hwin : forall t, 1 <= window c t.
Variable key : bulk.
Notation q := (pquota c).

(* first request of a period *)
Lemma take_fresh s :
  pdown s = false -> lookup (pstore s) key = None ->
  exists st2, take c key true s = (mkP st2 false, (code_of 1 q, false)) /\
    find key (rdata st2) = Some (mkEntry (BInt 1) (Some (rnow (pstore s) + window c (rnow (pstore s)) * 1000))) /\
    rnow st2 = rnow (pstore s) /\ expiry_inclusive st2 = expiry_inclusive (pstore s).
Proof.
  intros Hd HL. unfold take. rewrite Hd. cbn [orb negb]. rewrite period_script_spec, HL. cbv beta iota zeta.
  rewrite period_reply_code. unfold after_expire. cbn [exec].
  rewrite lookup_put_same. cbn [live eexp].
  pose proof (Hwin (rnow (pstore s))) as W.
  assert (E : (window c (rnow (pstore s)) <=? 0) = false) by (apply Z.leb_gt; lia). rewrite E. cbn [snd evalue].
  eexists. split; [reflexivity|]. split; [|split; reflexivity].
  cbn [store_put rdata rnow]. now rewrite find_put_same.
Qed.

(* a later request within the period *)
Lemma take_counted s n E :
  pdown s = false -> 1 <= n ->
  find key (rdata (pstore s)) = Some (mkEntry (BInt n) (Some E)) ->
  before (expiry_inclusive (pstore s)) (rnow (pstore s)) E = true ->
  take c key true s =
  (mkP (store_put (pstore s) key (mkEntry (BInt (n + 1)) (Some E))) false, (code_of (n + 1) q, false)).
Proof.
  intros Hd Hc HF HE. unfold take. rewrite Hd. cbn [orb negb]. rewrite period_script_spec.
  assert (HL : lookup (pstore s) key = Some (mkEntry (BInt n) (Some E))).
  { unfold lookup. rewrite HF. unfold live; cbn. now rewrite HE. }
  rewrite HL. cbv beta iota zeta. rewrite period_reply_code.
  assert (N : (n + 1 =? 1) = false) by (apply Z.eqb_neq; lia). now rewrite N.
Qed.

(* a request on another key does not touch this key's counter *)
Lemma take_other s k' brk :
  bulk_eqb key k' = false ->
  let s' := fst (take c k' brk s) in
  find key (rdata (pstore s')) = find key (rdata (pstore s)) /\
  rnow (pstore s') = rnow (pstore s) /\ pdown s' = pdown s /\
  expiry_inclusive (pstore s') = expiry_inclusive (pstore s).
Proof.
  intro N. unfold take. destruct (pdown s || negb brk)%bool eqn:Hd; [cbn; auto|].
  apply orb_false_iff in Hd. destruct Hd as [Hd _].
  rewrite period_script_spec.
  destruct (lookup (pstore s) k') as [[[v|x] ex]|]; cbv zeta; cbn [fst pstore pdown].
  - destruct (v + 1 =? 1).
    + rewrite after_expire_other, after_expire_now, after_expire_incl by assumption. cbn. now rewrite find_put_other.
    + cbn. now rewrite find_put_other.
  - auto.
  - rewrite after_expire_other, after_expire_now, after_expire_incl by assumption. cbn. now rewrite find_put_other.
Qed.

(* histories that leave this key's period alone: requests on any key by any caller (answered by
   Redis, failed by an outage or cut off by the circuit breaker), outages, time passing, TTL
   observations, foreign writes to OTHER keys *)
Definition calm (o : pop) : bool :=
  match o with
  | PAdvance ms => 0 <=? ms
  | PPoke k _ => negb (bulk_eqb key k)
  | _ => true
  end.

Fixpoint pelapsed (ops : list pop) : Z :=
  match ops with
  | [] => 0
  | PAdvance ms :: ops' => ms + pelapsed ops'
  | _ :: ops' => pelapsed ops'
  end.

(* the answers given to the requests on this key, in order *)
Fixpoint answers (ops : list pop) (rs : list pobs) : list pobs :=
  match ops, rs with
  | PTake k _ :: ops', r :: rs' | PTakeF k _ :: ops', r :: rs' =>
    if bulk_eqb key k then r :: answers ops' rs' else answers ops' rs'
  | _ :: ops', _ :: rs' => answers ops' rs'
  | _, _ => []
  end.

(* what they must be: the request that makes the counter n+1 gets code_of (n+1); a request that
   does not reach Redis (outage, breaker open) gets (Unknown, error) and is not counted; a
   faulted request (context done, forged reply) gets the wrapper's answer and is not counted *)
Fixpoint expect (n : Z) (down : bool) (ops : list pop) : list pobs :=
  match ops with
  | [] => []
  | PTake k brk :: ops' =>
    if bulk_eqb key k
    then if (down || negb brk)%bool then PAns Unknown true :: expect n down ops'
         else PAns (code_of (n + 1) q) false :: expect (n + 1) down ops'
    else expect n down ops'
  | PTakeF k f :: ops' => if bulk_eqb key k then pfault_ans f :: expect n down ops' else expect n down ops'
  | PDown :: ops' => expect n true ops'
  | PUp :: ops' => expect n false ops'
  | _ :: ops' => expect n down ops'
  end.

Fixpoint counted (n : Z) (down : bool) (ops : list pop) : Z :=
  match ops with
  | [] => n
  | PTake k brk :: ops' =>
    if (bulk_eqb key k && negb (down || negb brk))%bool then counted (n + 1) down ops' else counted n down ops'
  | PDown :: ops' => counted n true ops'
  | PUp :: ops' => counted n false ops'
  | _ :: ops' => counted n down ops'
  end.

Lemma pelapsed_nonneg ops : forallb calm ops = true -> 0 <= pelapsed ops.
Proof.
  induction ops as [|o ops IH]; cbn; [lia|]. intro HQ. apply andb_true_iff in HQ.
  destruct HQ as [H1 H2]. specialize (IH H2). destruct o; cbn in H1; try lia.
Qed.

Lemma period_history : forall ops s n E,
  1 <= n -> find key (rdata (pstore s)) = Some (mkEntry (BInt n) (Some E)) ->
  rnow (pstore s) + pelapsed ops < E -> forallb calm ops = true ->
  answers ops (prun c s ops) = expect n (pdown s) ops /\
  find key (rdata (pstore (pfinal c s ops))) = Some (mkEntry (BInt (counted n (pdown s) ops)) (Some E)) /\
  rnow (pstore (pfinal c s ops)) = rnow (pstore s) + pelapsed ops /\
  expiry_inclusive (pstore (pfinal c s ops)) = expiry_inclusive (pstore s).
Proof.
  induction ops as [|o ops IH]; intros s n E Hc HF HE HQ.
  - cbn. repeat split; auto. lia.
  - cbn [forallb] in HQ. apply andb_true_iff in HQ. destruct HQ as [Hq HQ].
    pose proof (pelapsed_nonneg ops HQ) as Hel.
    destruct o as [k brk|ms| | |k v|k|k f]; cbn [prun pfinal pstep answers expect counted pelapsed] in *.
    + destruct (bulk_eqb key k) eqn:EK.
      * apply bulk_eqb_eq in EK. subst k. cbn [andb].
        destruct (pdown s || negb brk)%bool eqn:Hd.
        -- unfold take. rewrite Hd. cbn [fst snd negb].
           destruct (IH s n E Hc HF HE HQ) as [A [B [C D]]]. rewrite A. auto.
        -- apply orb_false_iff in Hd. destruct Hd as [Hd Hb]. apply negb_false_iff in Hb. subst brk.
           rewrite (take_counted s n E Hd Hc HF ltac:(apply before_lt; lia)). cbn [fst snd negb].
           destruct (IH (mkP (store_put (pstore s) key (mkEntry (BInt (n + 1)) (Some E))) false) (n + 1) E) as [A [B [C D]]];
             auto; try lia.
           ++ cbn. now rewrite find_put_same.
           ++ cbn in *. rewrite Hd in *. rewrite A. auto.
      * cbn [andb]. destruct (take_other s k brk EK) as [T1 [T2 [T3 T4]]].
        destruct (take c k brk s) as [s' [cd e]]. cbn [fst snd] in *.
        destruct (IH s' n E Hc) as [A [B [C D]]]; auto; try congruence; try lia.
        rewrite T3 in A, B. rewrite T2 in C. rewrite T4 in D. auto.
    + apply Z.leb_le in Hq.
      destruct (IH (mkP (advance (pstore s) ms) (pdown s)) n E Hc) as [A [B [C D]]]; auto; cbn in *; try lia.
      repeat split; auto. lia.
    + destruct (IH (mkP (pstore s) true) n E Hc) as [A [B [C D]]]; auto.
    + destruct (IH (mkP (pstore s) false) n E Hc) as [A [B [C D]]]; auto.
    + apply negb_true_iff in Hq. cbn [fst].
      destruct (pdown s) eqn:Hd.
      * destruct (IH s n E Hc) as [A [B [C D]]]; auto. rewrite Hd in A, B. auto.
      * destruct (IH (mkP (store_put (pstore s) k (mkEntry v None)) false) n E Hc) as [A [B [C D]]]; auto.
        cbn. now rewrite find_put_other.
    + cbn [fst]. destruct (IH s n E Hc) as [A [B [C D]]]; auto.
    + cbn [fst snd]. destruct (IH s n E Hc) as [A [B [C D]]]; auto.
      destruct (bulk_eqb key k); [rewrite A|]; auto.
Qed.
End Period.

(* the window of a PeriodLimit: the period, or with Align() the distance to the next multiple
   of the period on the local clock *)
Lemma window_spec c now_ms : 1 <= pperiod c ->
  1 <= window c now_ms <= pperiod c /\
  (palign c = true -> (now_ms / 1000 + poffset c + window c now_ms) mod pperiod c = 0) /\
  (palign c = false -> window c now_ms = pperiod c).
Proof.
  intro Hp. unfold window. destruct (palign c).
  - pose proof (Z.mod_pos_bound (now_ms / 1000 + poffset c) (pperiod c) ltac:(lia)) as B.
    split; [lia|]. split; [|discriminate]. intros _.
    replace (now_ms / 1000 + poffset c + (pperiod c - (now_ms / 1000 + poffset c) mod pperiod c))
      with ((now_ms / 1000 + poffset c - (now_ms / 1000 + poffset c) mod pperiod c) + 1 * pperiod c) by lia.
    rewrite Z.mod_add by lia.
    rewrite Zminus_mod, Zmod_mod, Z.sub_diag. reflexivity.
  - split; [lia|]. split; [discriminate|auto].
Qed.
