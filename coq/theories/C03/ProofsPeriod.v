(* C03 — PeriodLimit: exact quota per key and period; errors never grant. *)
From Coq Require Import List ZArith String Bool Lia.
From GZ Require Import Lib.RedisStore Lib.RedisStoreFacts C03.Model C03.GenProofs.
Import ListNotations.
Open Scope Z_scope.

Lemma period_reply_code c q : period_reply (RInt (period_code c q)) = (code_of c q, false).
Proof. unfold period_code, code_of. destruct (c <? q); destruct (c =? q); reflexivity. Qed.

(* a store error / unknown reply is reported as (Unknown, error); a grant is never an error *)
Lemma period_reply_sound r :
  (snd (period_reply r) = true -> fst (period_reply r) = Unknown) /\
  (fst (period_reply r) <> Unknown -> snd (period_reply r) = false /\ exists n, r = RInt n /\ 0 <= n <= 2).
Proof.
  destruct r as [|z|b|s|e]; cbn; try (split; [auto|intro H; congruence]).
  destruct z as [|p|p]; cbn.
  - split; [discriminate|]. intros _. split; auto. exists 0. split; auto; lia.
  - destruct p as [p|p|]; cbn; try (split; [auto|intro H; congruence]).
    + destruct p; cbn; try (split; [auto|intro H; congruence]).
      split; [discriminate|]. intros _. split; auto. exists 2. split; auto; lia.
    + split; [discriminate|]. intros _. split; auto. exists 1. split; auto; lia.
  - split; [auto|intro H; congruence].
Qed.

Lemma after_expire_other k k' p st : bulk_eqb k k' = false ->
  find k (rdata (after_expire k' p st)) = find k (rdata st).
Proof.
  intro N. unfold after_expire. cbn [exec]. destruct (lookup st k') as [e|]; [|reflexivity].
  destruct (p <=? 0); cbn [snd store_del store_put rdata].
  - now apply find_remove_other.
  - now apply find_put_other.
Qed.

Lemma after_expire_now k p st : rnow (after_expire k p st) = rnow st.
Proof.
  unfold after_expire. cbn [exec]. destruct (lookup st k) as [e|]; [|reflexivity].
  destruct (p <=? 0); reflexivity.
Qed.

Section Period.
Variables q p : Z.
Hypothesis Hp : 1 <= p.
Variable key : bulk.

(* first request of a period *)
Lemma take_fresh s :
  pdown s = false -> lookup (pstore s) key = None ->
  exists st2, take q p key s = (mkP st2 false, (code_of 1 q, false)) /\
    find key (rdata st2) = Some (mkEntry (BInt 1) (Some (rnow (pstore s) + p * 1000))) /\
    rnow st2 = rnow (pstore s).
Proof.
  intros Hd HL. unfold take. rewrite Hd, period_script_spec, HL. cbv beta iota zeta.
  rewrite period_reply_code. unfold after_expire. cbn [exec].
  rewrite lookup_put_same. cbn [live eexp].
  assert (E : (p <=? 0) = false) by (apply Z.leb_gt; lia). rewrite E. cbn [snd evalue].
  eexists. split; [reflexivity|]. split; [|reflexivity].
  cbn [store_put rdata rnow]. now rewrite find_put_same.
Qed.

(* a later request within the period *)
Lemma take_counted s c E :
  pdown s = false -> 1 <= c ->
  find key (rdata (pstore s)) = Some (mkEntry (BInt c) (Some E)) -> rnow (pstore s) < E ->
  take q p key s =
  (mkP (store_put (pstore s) key (mkEntry (BInt (c + 1)) (Some E))) false, (code_of (c + 1) q, false)).
Proof.
  intros Hd Hc HF HE. unfold take. rewrite Hd, period_script_spec.
  assert (HL : lookup (pstore s) key = Some (mkEntry (BInt c) (Some E))).
  { unfold lookup. rewrite HF. unfold live; cbn. apply Z.ltb_lt in HE. now rewrite HE. }
  rewrite HL. cbv beta iota zeta. rewrite period_reply_code.
  assert (N : (c + 1 =? 1) = false) by (apply Z.eqb_neq; lia). now rewrite N.
Qed.

(* a request on another key does not touch this key's counter *)
Lemma take_other s k' :
  bulk_eqb key k' = false ->
  let s' := fst (take q p k' s) in
  find key (rdata (pstore s')) = find key (rdata (pstore s)) /\
  rnow (pstore s') = rnow (pstore s) /\ pdown s' = pdown s.
Proof.
  intro N. unfold take. destruct (pdown s) eqn:Hd; [cbn; rewrite Hd; auto|].
  rewrite period_script_spec.
  destruct (lookup (pstore s) k') as [[[v|x] ex]|]; cbv zeta; cbn [fst pstore pdown].
  - destruct (v + 1 =? 1).
    + rewrite after_expire_other, after_expire_now by assumption. cbn. now rewrite find_put_other.
    + cbn. now rewrite find_put_other.
  - auto.
  - rewrite after_expire_other, after_expire_now by assumption. cbn. now rewrite find_put_other.
Qed.

(* histories that leave this key's period alone: requests on any key by any caller, outages,
   time passing, foreign writes to OTHER keys *)
Definition calm (o : pop) : bool :=
  match o with
  | PAdvance ms => 0 <=? ms
  | PPoke k _ => negb (bulk_eqb key k)
  | _ => true
  end.

Fixpoint pelapsed (ops : list pop) : Z :=
  match ops with
  | [] => 0
  | PAdvance ms :: ops' => ms + pelapsed ops'
  | _ :: ops' => pelapsed ops'
  end.

(* the answers given to the requests on this key, in order *)
Fixpoint answers (ops : list pop) (rs : list pobs) : list pobs :=
  match ops, rs with
  | PTake k :: ops', r :: rs' => if bulk_eqb key k then r :: answers ops' rs' else answers ops' rs'
  | _ :: ops', _ :: rs' => answers ops' rs'
  | _, _ => []
  end.

(* what they must be: the request that makes the counter c+1 gets code_of (c+1); a request
   during an outage gets (Unknown, error) and is not counted *)
Fixpoint expect (c : Z) (down : bool) (ops : list pop) : list pobs :=
  match ops with
  | [] => []
  | PTake k :: ops' =>
    if bulk_eqb key k
    then if down then Some (Unknown, true) :: expect c down ops'
         else Some (code_of (c + 1) q, false) :: expect (c + 1) down ops'
    else expect c down ops'
  | PDown :: ops' => expect c true ops'
  | PUp :: ops' => expect c false ops'
  | _ :: ops' => expect c down ops'
  end.

Fixpoint counted (c : Z) (down : bool) (ops : list pop) : Z :=
  match ops with
  | [] => c
  | PTake k :: ops' => if (bulk_eqb key k && negb down)%bool then counted (c + 1) down ops' else counted c down ops'
  | PDown :: ops' => counted c true ops'
  | PUp :: ops' => counted c false ops'
  | _ :: ops' => counted c down ops'
  end.

Lemma period_history : forall ops s c E,
  1 <= c -> find key (rdata (pstore s)) = Some (mkEntry (BInt c) (Some E)) ->
  rnow (pstore s) + pelapsed ops < E -> forallb calm ops = true ->
  answers ops (prun q p s ops) = expect c (pdown s) ops /\
  find key (rdata (pstore (pfinal q p s ops))) = Some (mkEntry (BInt (counted c (pdown s) ops)) (Some E)) /\
  rnow (pstore (pfinal q p s ops)) = rnow (pstore s) + pelapsed ops.
Proof.
  induction ops as [|o ops IH]; intros s c E Hc HF HE HQ.
  - cbn. repeat split; auto. lia.
  - cbn [forallb] in HQ. apply andb_true_iff in HQ. destruct HQ as [Hq HQ].
    assert (Hel : 0 <= pelapsed ops).
    { clear -HQ. induction ops as [|o ops IH]; cbn; [lia|]. cbn in HQ. apply andb_true_iff in HQ.
      destruct HQ as [H1 H2]. specialize (IH H2). destruct o; cbn in H1; try lia. }
    destruct o as [k|ms| | |k v]; cbn [prun pfinal pstep answers expect counted pelapsed] in *.
    + destruct (bulk_eqb key k) eqn:EK.
      * apply bulk_eqb_eq in EK. subst k. cbn [andb].
        destruct (pdown s) eqn:Hd.
        -- unfold take. rewrite Hd. cbn [fst snd negb].
           destruct (IH s c E Hc HF HE HQ) as [A [B C]]. rewrite Hd in A, B. rewrite A. auto.
        -- rewrite (take_counted s c E Hd Hc HF ltac:(lia)). cbn [fst snd negb].
           destruct (IH (mkP (store_put (pstore s) key (mkEntry (BInt (c + 1)) (Some E))) false) (c + 1) E) as [A [B C]];
             auto; try lia.
           ++ cbn. now rewrite find_put_same.
           ++ cbn in *. rewrite A. auto.
      * cbn [andb]. destruct (take_other s k EK) as [T1 [T2 T3]].
        destruct (take q p k s) as [s' r]. cbn [fst snd] in *.
        destruct (IH s' c E Hc) as [A [B C]]; auto; try congruence; try lia.
        rewrite T3 in A, B. rewrite T2 in C. auto.
    + apply Z.leb_le in Hq.
      destruct (IH (mkP (advance (pstore s) ms) (pdown s)) c E Hc) as [A [B C]]; auto; cbn in *; try lia.
      repeat split; auto. lia.
    + destruct (IH (mkP (pstore s) true) c E Hc) as [A [B C]]; auto.
    + destruct (IH (mkP (pstore s) false) c E Hc) as [A [B C]]; auto.
    + apply negb_true_iff in Hq. cbn [fst].
      destruct (pdown s) eqn:Hd.
      * destruct (IH s c E Hc) as [A [B C]]; auto. rewrite Hd in A, B. auto.
      * destruct (IH (mkP (store_put (pstore s) k (mkEntry v None)) false) c E Hc) as [A [B C]]; auto.
        cbn. now rewrite find_put_other.
Qed.
End Period.
