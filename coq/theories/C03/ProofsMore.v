(* C03 — follow-up proofs: faulted calls (forged replies, cancelled contexts), the exact local
   bound of the repaired rescue limiter, the key formats. *)
From Coq Require Import List ZArith String Bool Lia.
From GZ Require Import Lib.RedisStore Lib.RedisStoreFacts C03.Model C03.GenProofs C03.ProofsBucket C03.Proofs.
From GZgen Require C03Consts.
Import ListNotations.
Open Scope Z_scope.

(* ------------------------------------------------------------------ PeriodLimit faults *)
Lemma period_reply_unforged r :
  pforged (FReply r) = false -> period_reply r = (Unknown, true).
Proof.
  destruct r as [|z|b|s|e]; cbn; try reflexivity.
  destruct z as [|p|p]; cbn; try discriminate; try reflexivity.
  destruct p as [p|p|]; cbn; try discriminate; try reflexivity;
    destruct p; cbn; try discriminate; reflexivity.
Qed.

Lemma period_fault_all c s key f :
  fst (pstep c s (PTakeF key f)) = s /\
  (pforged f = false -> snd (pstep c s (PTakeF key f)) = PAns Unknown true) /\
  (forall cd e, snd (pstep c s (PTakeF key f)) = PAns cd e -> (e = true -> cd = Unknown)).
Proof.
  cbn [pstep fst snd]. split; [reflexivity|]. split.
  - destruct f as [|r]; cbn [pfault_ans]; [reflexivity|]. intro H. now rewrite (period_reply_unforged r H).
  - intros cd e. destruct f as [|r]; cbn [pfault_ans].
    + intro H. inversion H. auto.
    + intro H. inversion H; subst. apply (proj1 (ProofsPeriod.period_reply_sound r)).
Qed.

(* ------------------------------------------------------------------ TokenLimiter faults *)
Lemma token_fault_all c s i now n rescue r t :
  nth_error (tinsts s) i = Some t -> alive t = true -> monitor t = false ->
  let s' := fst (tstep c s (TAllowF i now n rescue r)) in
  let ob := snd (tstep c s (TAllowF i now n rescue r)) in
  tstore s' = tstore s /\ tdown s' = tdown s /\
  match r with
  | RNil => ob = TR false true true /\ nth_error (tinsts s') i = Some t
  | RInt code => ob = TR (code =? 1) true true /\ nth_error (tinsts s') i = Some t
  | _ => ob = TR rescue false false /\ nth_error (tinsts s') i = Some (mkT false true)
  end.
Proof.
  intros Hn Ha Hm. cbn [tstep]. rewrite Hn, Ha. cbn [negb].
  assert (SN : forall (x : tinst), nth_error (set_nth i x (tinsts s)) i = Some x).
  { intro x. clear Ha Hm. revert i Hn. induction (tinsts s) as [|y l IH]; intros i Hn; destruct i; cbn in *; try discriminate; auto. }
  destruct r as [|z|b|st|e]; cbn [token_reply fst snd tstore tdown tinsts]; unfold start_monitor; rewrite ?Hm; cbn [alive];
    repeat split; auto.
Qed.

Lemma token_cancel_all c s i now n rescue t :
  nth_error (tinsts s) i = Some t ->
  tstep c s (TAllowC i now n rescue) =
  (s, if alive t then TR false true false else TR rescue false false).
Proof. intro Hn. cbn [tstep]. now rewrite Hn. Qed.

(* ------------------------------------------------------------------ the exact local bucket *)
(* the repaired rescue limiter xrate.NewLimiter(xrate.Limit(rate), burst), ideal version:
   rate tokens per second = rate units per ns in units of 10^-9 token, capacity burst*10^9 *)
Definition giga : Z := 1000000000.

Definition exact_take (rt bs : Z) (b : bucket) (now_ns n : Z) : bucket * bool :=
  bucket_take rt (bs * giga) b now_ns (n * giga).

Fixpoint exact_run (rt bs : Z) (b : bucket) (calls : list (Z * Z)) : list bool :=
  match calls with
  | [] => []
  | (t, n) :: cs => let '(b', g) := exact_take rt bs b t n in g :: exact_run rt bs b' cs
  end.

Lemma exact_run_is_bucket rt bs : forall calls b,
  exact_run rt bs b calls = bucket_run rt (bs * giga) b (map (fun x => (fst x, snd x * giga)) calls).
Proof.
  induction calls as [|[t n] cs IH]; intro b; cbn [exact_run bucket_run map fst snd]; [reflexivity|].
  unfold exact_take. destruct (bucket_take _ _ _ _ _) as [b' g]. now rewrite IH.
Qed.

(* granted <= burst + rate * elapsed, exactly, over any calls in time order *)
Lemma rescue_exact_bound_all rt bs calls b t0 :
  0 <= rt -> 0 <= bs -> 0 <= btokens b -> calls_ok t0 calls ->
  local_granted calls (exact_run rt bs b calls) * giga <= bs * giga + rt * (last_time t0 calls - t0).
Proof.
  intros H1 H3 H4 H5. unfold giga in *.
  rewrite exact_run_is_bucket, <- local_granted_scaled. unfold giga.
  set (calls' := map (fun x => (fst x, snd x * 1000000000)) calls).
  assert (OK : calls_ok t0 calls').
  { unfold calls'. clear -H5. revert t0 H5. induction calls as [|[t n] cs IH]; intros t0 H; cbn; auto.
    destruct H as [A [B C]]. repeat split; auto. lia. }
  assert (LT : last_time t0 calls' = last_time t0 calls).
  { unfold calls'. clear. revert t0. induction calls as [|[t n] cs IH]; intro t0; cbn; auto. }
  pose proof (bucket_bound rt (bs * 1000000000) H1 ltac:(lia) calls' b t0 H4 OK) as B.
  pose proof (level_le_burst rt (bs * 1000000000) b t0). rewrite LT in B. lia.
Qed.

(* ------------------------------------------------------------------ key formats *)
Lemma append_cancel_l a : forall x y, (a ++ x)%string = (a ++ y)%string -> x = y.
Proof. induction a as [|ch a IH]; cbn; intros x y H; [exact H|]. inversion H. auto. Qed.

(* fmt.Sprintf(tokenFormat, key) / fmt.Sprintf(timestampFormat, key) with today's formats *)
Definition tokens_key (key : string) : bulk :=
  BStr (C03Consts.gen_token_prefix ++ key ++ C03Consts.gen_token_suffix).
Definition ts_key (key : string) : bulk :=
  BStr (C03Consts.gen_ts_prefix ++ key ++ C03Consts.gen_ts_suffix).

Lemma token_keys_distinct_all key : tokens_key key <> ts_key key.
Proof.
  unfold tokens_key, ts_key. intro H. inversion H as [H1]. clear H.
  cbn in H1. repeat (first [discriminate | apply append_cancel_l in H1 | injection H1 as H1]).
  all: try discriminate.
Qed.

(* ------------------------------------------------------------------ the caller's context *)
From GZ Require Import C03.ProofsToken.

(* one call whose context is done before (TAllowC) or becomes done during (TAllowD) the store call,
   on an instance that is on the shared bucket: refused, the instance is untouched (no monitor,
   still on the store), the store's reachability flag is untouched; if the script had not run
   nothing changes at all *)
Lemma caller_context_step_all c s i now n rescue ran t :
  nth_error (tinsts s) i = Some t -> alive t = true ->
  tstep c s (TAllowC i now n rescue) = (s, TR false true false) /\
  (let s' := fst (tstep c s (TAllowD i now n rescue ran)) in
   snd (tstep c s (TAllowD i now n rescue ran)) = TR false true ran /\
   tinsts s' = tinsts s /\ tdown s' = tdown s /\ (ran = false -> s' = s)).
Proof.
  intros Hn Ha. split.
  - rewrite token_cancel_all with (t := t) by exact Hn. now rewrite Ha.
  - cbn [tstep]. rewrite Hn, Ha. cbn [negb]. destruct ran.
    + destruct (eval _ _ _ _) as [r st']. cbn. repeat split; auto. discriminate.
    + cbn. repeat split; auto.
Qed.

(* histories without a store failure: the store is never taken down, no reply is forged, the
   circuit breaker lets every command through; requests may carry any context *)
Definition healthy (o : top) : bool :=
  match o with
  | TAllow _ _ _ _ brk | TAllowLate _ _ _ _ brk => brk
  | TAllowF _ _ _ _ _ | TDown => false
  | _ => true
  end.

Definition no_fallback (r : tobs) : Prop := match r with TR _ a _ => a = true | TU => True end.

Definition fresh (l : list tinst) : Prop := Forall (fun t => t = mkT true false) l.

Lemma fresh_set_nth i l : fresh l -> fresh (set_nth i (mkT true false) l).
Proof.
  revert i. induction l as [|y l IH]; intros i H; destruct i; cbn; auto; inversion H; subst; constructor; auto.
  apply IH; auto.
Qed.

Lemma fresh_nth l i t : fresh l -> nth_error l i = Some t -> t = mkT true false.
Proof. intros H Hn. unfold fresh in H. rewrite Forall_forall in H. apply H. eapply nth_error_In; eauto. Qed.

Lemma sp_no_rescue c : forall ops a,
  sp_tdown a = false -> fresh (sp_insts a) -> forallb healthy ops = true ->
  Forall no_fallback (sp_trun c a ops) /\ fresh (sp_insts (sp_tfinal c a ops)).
Proof.
  induction ops as [|o ops IH]; intros a Hd Hf Hh; cbn [sp_trun sp_tfinal]; [split; [constructor|exact Hf]|].
  cbn [forallb] in Hh. apply andb_true_iff in Hh. destruct Hh as [Ho Hh].
  assert (STEP : no_fallback (snd (sp_tstep c a o)) /\ sp_tdown (fst (sp_tstep c a o)) = false /\
                 fresh (sp_insts (fst (sp_tstep c a o)))).
  { destruct o as [i now n rescue brk|ms| | |i|i now n rescue r|i now n rescue|i now n rescue ran|i|i now n rescue brk];
      cbn [healthy] in Ho; try discriminate; cbn [sp_tstep].
    - subst brk. destruct (nth_error (sp_insts a) i) as [t|] eqn:Hn; [|cbn; auto].
      rewrite (fresh_nth _ _ _ Hf Hn). cbn [alive negb]. rewrite Hd. cbn [orb negb].
      destruct (bucket_take _ _ _ _ _) as [b' g]. cbn. repeat split; auto. now apply fresh_set_nth.
    - cbn; auto.
    - cbn; auto.
    - destruct (nth_error (sp_insts a) i) as [t|] eqn:Hn; [|cbn; auto].
      rewrite (fresh_nth _ _ _ Hf Hn). cbn; auto.
    - destruct (nth_error (sp_insts a) i) as [t|] eqn:Hn; [|cbn; auto].
      rewrite (fresh_nth _ _ _ Hf Hn). cbn; auto.
    - destruct (nth_error (sp_insts a) i) as [t|] eqn:Hn; [|cbn; auto].
      rewrite (fresh_nth _ _ _ Hf Hn). cbn [alive negb]. destruct ran; [|cbn; auto].
      destruct (bucket_take _ _ _ _ _) as [b' g]. cbn; auto.
    - destruct (nth_error (sp_insts a) i) as [t|] eqn:Hn; [|cbn; auto].
      rewrite (fresh_nth _ _ _ Hf Hn). cbn; auto.
    - subst brk. destruct (nth_error (sp_insts a) i) as [t|] eqn:Hn; [|cbn; auto].
      rewrite (fresh_nth _ _ _ Hf Hn). rewrite Hd. cbn [orb negb].
      destruct (bucket_take _ _ _ _ _) as [b' g]. cbn. repeat split; auto. now apply fresh_set_nth. }
  destruct (sp_tstep c a o) as [a' r]. cbn [fst snd] in *. destruct STEP as [S1 [S2 S3]].
  destruct (IH a' S2 S3 Hh) as [I1 I2]. split; [constructor; auto|exact I2].
Qed.

Lemma fresh_repeat n : fresh (repeat (mkT true false) n).
Proof. induction n; cbn; constructor; auto. Qed.

(* RESCUE MODE ONLY AFTER A STORE FAILURE.  n instances, ANY history in which the store never fails
   (never down, no forged reply, no breaker cut) - calls by any instances with any contexts: live,
   already done (TAllowC), becoming done during the store call with the script run or not
   (TAllowD), concurrent (TAllowLate), clock advances, monitor ticks: no call makes an instance fall
   back, every instance stays on the shared bucket with no monitor, and (token_joint_bound) the
   tokens granted stay within burst + rate * elapsed. *)
Lemma caller_context_never_starts_rescue_all c incl base n ops :
  1 <= rate c -> 0 <= burst c -> ktokens c <> kts c -> 0 <= base ->
  twf base ops = true -> forallb healthy ops = true ->
  Forall no_fallback (trun c (tinit incl base n) ops) /\
  tinsts (tfinal c (tinit incl base n) ops) = repeat (mkT true false) n.
Proof.
  intros Hr Hb Hk Hbase Hwf Hh.
  set (a0 := mkSp (mkB (burst c) 0) base false (repeat (mkT true false) n)).
  pose proof (rel_init c Hr Hb incl base n Hbase) as R0.
  destruct (trun_refines c Hr Hb Hk ops (tinit incl base n) a0 R0 Hwf) as [E R].
  destruct (sp_no_rescue c ops a0 eq_refl (fresh_repeat n) Hh) as [F1 F2].
  split; [rewrite E; exact F1|].
  destruct R as [_ [_ [_ [RI _]]]]. rewrite RI.
  assert (L : forall l, fresh l -> l = repeat (mkT true false) (List.length l)).
  { induction l as [|y l IHl]; intro H; [reflexivity|]. inversion H; subst. cbn. f_equal. auto. }
  rewrite (L _ F2). f_equal.
  (* the number of instances never changes *)
  assert (LEN : forall ops a, List.length (sp_insts (sp_tfinal c a ops)) = List.length (sp_insts a)).
  { assert (SN : forall (i : nat) (x : tinst) l, List.length (set_nth i x l) = List.length l).
    { intros i x l. revert i. induction l as [|y l IHl]; intro i; destruct i; cbn; auto. }
    induction ops0 as [|o ops0 IHo]; intro a; cbn [sp_tfinal]; [reflexivity|]. rewrite IHo.
    destruct o as [i now n0 rescue brk|ms| | |i|i now n0 rescue r|i now n0 rescue|i now n0 rescue ran|i|i now n0 rescue brk]; cbn [sp_tstep]; try reflexivity;
      destruct (nth_error (sp_insts a) i) as [t|]; try reflexivity.
    - destruct (alive t); cbn [negb]; [|reflexivity]. destruct (sp_tdown a || negb brk)%bool; cbn; [now rewrite SN|].
      destruct (bucket_take _ _ _ _ _). cbn. now rewrite SN.
    - destruct (monitor t && negb (sp_tdown a))%bool; cbn; [now rewrite SN|reflexivity].
    - destruct (alive t); cbn [negb]; [|reflexivity]. destruct (token_reply t r rescue). cbn. now rewrite SN.
    - destruct (alive t); cbn [negb]; [|reflexivity]. destruct ran; [|reflexivity]. destruct (bucket_take _ _ _ _ _). reflexivity.
    - destruct (monitor t); cbn; [now rewrite SN|reflexivity].
    - destruct (sp_tdown a || negb brk)%bool; cbn; [now rewrite SN|]. destruct (bucket_take _ _ _ _ _). cbn. now rewrite SN. }
  rewrite LEN. unfold a0. cbn. apply repeat_length.
Qed.
