(* C03 — follow-up proofs: faulted calls (forged replies, cancelled contexts), the exact local
   bound of the repaired rescue limiter, the key formats. *)
From Coq Require Import List ZArith String Bool Lia.
From GZ Require Import Lib.RedisStore Lib.RedisStoreFacts C03.Model C03.GenProofs C03.ProofsBucket C03.Proofs.
From GZgen Require C03Consts.
Import ListNotations.
Open Scope Z_scope.

(* ------------------------------------------------------------------ PeriodLimit faults *)
Lemma period_reply_unforged r :
  pforged (FReply r) = false -> period_reply r = (Unknown, true).
Proof.
  destruct r as [|z|b|s|e]; cbn; try reflexivity.
  destruct z as [|p|p]; cbn; try discriminate; try reflexivity.
  destruct p as [p|p|]; cbn; try discriminate; try reflexivity;
    destruct p; cbn; try discriminate; reflexivity.
Qed.

Lemma period_fault_all c s key f :
  fst (pstep c s (PTakeF key f)) = s /\
  (pforged f = false -> snd (pstep c s (PTakeF key f)) = PAns Unknown true) /\
  (forall cd e, snd (pstep c s (PTakeF key f)) = PAns cd e -> (e = true -> cd = Unknown)).
Proof.
  cbn [pstep fst snd]. split; [reflexivity|]. split.
  - destruct f as [|r]; cbn [pfault_ans]; [reflexivity|]. intro H. now rewrite (period_reply_unforged r H).
  - intros cd e. destruct f as [|r]; cbn [pfault_ans].
    + intro H. inversion H. auto.
    + intro H. inversion H; subst. apply (proj1 (ProofsPeriod.period_reply_sound r)).
Qed.

(* ------------------------------------------------------------------ TokenLimiter faults *)
Lemma token_fault_all c s i now n rescue r t :
  nth_error (tinsts s) i = Some t -> alive t = true -> monitor t = false ->
  let s' := fst (tstep c s (TAllowF i now n rescue r)) in
  let ob := snd (tstep c s (TAllowF i now n rescue r)) in
  tstore s' = tstore s /\ tdown s' = tdown s /\
  match r with
  | RNil => ob = TR false true true /\ nth_error (tinsts s') i = Some t
  | RInt code => ob = TR (code =? 1) true true /\ nth_error (tinsts s') i = Some t
  | _ => ob = TR rescue false false /\ nth_error (tinsts s') i = Some (mkT false true)
  end.
Proof.
  intros Hn Ha Hm. cbn [tstep]. rewrite Hn, Ha. cbn [negb].
  assert (SN : forall (x : tinst), nth_error (set_nth i x (tinsts s)) i = Some x).
  { intro x. clear Ha Hm. revert i Hn. induction (tinsts s) as [|y l IH]; intros i Hn; destruct i; cbn in *; try discriminate; auto. }
  destruct r as [|z|b|st|e]; cbn [token_reply fst snd tstore tdown tinsts]; unfold start_monitor; rewrite ?Hm; cbn [alive];
    repeat split; auto.
Qed.

Lemma token_cancel_all c s i now n rescue t :
  nth_error (tinsts s) i = Some t ->
  tstep c s (TAllowC i now n rescue) =
  (s, if alive t then TR false true false else TR rescue false false).
Proof. intro Hn. cbn [tstep]. now rewrite Hn. Qed.

(* ------------------------------------------------------------------ the exact local bucket *)
(* the repaired rescue limiter xrate.NewLimiter(xrate.Limit(rate), burst), ideal version:
   rate tokens per second = rate units per ns in units of 10^-9 token, capacity burst*10^9 *)
Definition giga : Z := 1000000000.

Definition exact_take (rt bs : Z) (b : bucket) (now_ns n : Z) : bucket * bool :=
  bucket_take rt (bs * giga) b now_ns (n * giga).

Fixpoint exact_run (rt bs : Z) (b : bucket) (calls : list (Z * Z)) : list bool :=
  match calls with
  | [] => []
  | (t, n) :: cs => let '(b', g) := exact_take rt bs b t n in g :: exact_run rt bs b' cs
  end.

Lemma exact_run_is_bucket rt bs : forall calls b,
  exact_run rt bs b calls = bucket_run rt (bs * giga) b (map (fun x => (fst x, snd x * giga)) calls).
Proof.
  induction calls as [|[t n] cs IH]; intro b; cbn [exact_run bucket_run map fst snd]; [reflexivity|].
  unfold exact_take. destruct (bucket_take _ _ _ _ _) as [b' g]. now rewrite IH.
Qed.

(* granted <= burst + rate * elapsed, exactly, over any calls in time order *)
Lemma rescue_exact_bound_all rt bs calls b t0 :
  0 <= rt -> 0 <= bs -> 0 <= btokens b -> calls_ok t0 calls ->
  local_granted calls (exact_run rt bs b calls) * giga <= bs * giga + rt * (last_time t0 calls - t0).
Proof.
  intros H1 H3 H4 H5. unfold giga in *.
  rewrite exact_run_is_bucket, <- local_granted_scaled. unfold giga.
  set (calls' := map (fun x => (fst x, snd x * 1000000000)) calls).
  assert (OK : calls_ok t0 calls').
  { unfold calls'. clear -H5. revert t0 H5. induction calls as [|[t n] cs IH]; intros t0 H; cbn; auto.
    destruct H as [A [B C]]. repeat split; auto. lia. }
  assert (LT : last_time t0 calls' = last_time t0 calls).
  { unfold calls'. clear. revert t0. induction calls as [|[t n] cs IH]; intro t0; cbn; auto. }
  pose proof (bucket_bound rt (bs * 1000000000) H1 ltac:(lia) calls' b t0 H4 OK) as B.
  pose proof (level_le_burst rt (bs * 1000000000) b t0). rewrite LT in B. lia.
Qed.

(* ------------------------------------------------------------------ key formats *)
Lemma append_cancel_l a : forall x y, (a ++ x)%string = (a ++ y)%string -> x = y.
Proof. induction a as [|ch a IH]; cbn; intros x y H; [exact H|]. inversion H. auto. Qed.

(* fmt.Sprintf(tokenFormat, key) / fmt.Sprintf(timestampFormat, key) with today's formats *)
Definition tokens_key (key : string) : bulk :=
  BStr (C03Consts.gen_token_prefix ++ key ++ C03Consts.gen_token_suffix).
Definition ts_key (key : string) : bulk :=
  BStr (C03Consts.gen_ts_prefix ++ key ++ C03Consts.gen_ts_suffix).

Lemma token_keys_distinct_all key : tokens_key key <> ts_key key.
Proof.
  unfold tokens_key, ts_key. intro H. inversion H as [H1]. clear H.
  cbn in H1. repeat (first [discriminate | apply append_cancel_l in H1 | injection H1 as H1]).
  all: try discriminate.
Qed.
