(* C03 — arithmetic of the ideal token bucket (no Redis, no Lua). *)
From Coq Require Import List ZArith Bool Lia.
From GZ Require Import C03.Model.
Import ListNotations.
Open Scope Z_scope.

Section Bucket.
Variables rt bs : Z.
Hypothesis Hrt : 0 <= rt.
Hypothesis Hbs : 0 <= bs.

Lemma level_le_burst b t : level rt bs b t <= bs.
Proof. unfold level. lia. Qed.

Lemma level_nonneg b t : 0 <= btokens b -> 0 <= level rt bs b t.
Proof. intro H. unfold level. assert (0 <= Z.max 0 (t - bsec b) * rt) by (apply Z.mul_nonneg_nonneg; lia). lia. Qed.

(* the level grows by at most rt per second *)
Lemma level_lipschitz b t t' : t <= t' -> level rt bs b t' <= level rt bs b t + rt * (t' - t).
Proof.
  intro H. unfold level.
  assert (Z.max 0 (t' - bsec b) * rt <= Z.max 0 (t - bsec b) * rt + rt * (t' - t)) by nia.
  assert (0 <= rt * (t' - t)) by nia. lia.
Qed.

Lemma level_mono b t t' : t <= t' -> level rt bs b t <= level rt bs b t'.
Proof.
  intro H. unfold level.
  assert (Z.max 0 (t - bsec b) * rt <= Z.max 0 (t' - bsec b) * rt) by nia. lia.
Qed.

Lemma level_at_own_time b : 0 <= btokens b <= bs -> level rt bs b (bsec b) = btokens b.
Proof. intro H. unfold level. rewrite Z.sub_diag. cbn. lia. Qed.

(* one request: what is granted plus what is left is what was there *)
Lemma take_accounts b t n :
  0 <= btokens b -> 0 <= n ->
  let '(b', g) := bucket_take rt bs b t n in
  (if g then n else 0) + btokens b' = level rt bs b t /\
  0 <= btokens b' <= bs /\ bsec b' = t /\
  (g = true <-> n <= level rt bs b t).
Proof.
  intros HT Hn. unfold bucket_take.
  pose proof (level_le_burst b t). pose proof (level_nonneg b t HT).
  destruct (n <=? level rt bs b t) eqn:E; cbn.
  - apply Z.leb_le in E. repeat split; try lia; auto.
  - apply Z.leb_gt in E. repeat split; try lia; try discriminate.
Qed.

(* a list of calls (time, size) in time order *)
Fixpoint calls_ok (t0 : Z) (calls : list (Z * Z)) : Prop :=
  match calls with
  | [] => True
  | (t, n) :: cs => t0 <= t /\ 0 <= n /\ calls_ok t cs
  end.

Fixpoint bucket_run (b : bucket) (calls : list (Z * Z)) : list bool :=
  match calls with
  | [] => []
  | (t, n) :: cs => let '(b', g) := bucket_take rt bs b t n in g :: bucket_run b' cs
  end.

Fixpoint last_time (t0 : Z) (calls : list (Z * Z)) : Z :=
  match calls with [] => t0 | (t, _) :: cs => last_time t cs end.

(* over any run of calls: granted <= level at the start + rt * elapsed <= bs + rt * elapsed *)
Lemma bucket_bound : forall calls b t0,
  0 <= btokens b -> calls_ok t0 calls ->
  local_granted calls (bucket_run b calls) <= level rt bs b t0 + rt * (last_time t0 calls - t0).
Proof.
  induction calls as [|[t n] cs IH]; intros b t0 HT Hok; cbn [local_granted bucket_run last_time].
  - pose proof (level_nonneg b t0 HT). lia.
  - destruct Hok as [H1 [H2 H3]].
    pose proof (take_accounts b t n HT H2) as A.
    destruct (bucket_take rt bs b t n) as [b' g]. destruct A as [A1 [A2 [A3 A4]]].
    specialize (IH b' t (proj1 A2) H3).
    assert (L : level rt bs b' t = btokens b') by (rewrite <- A3; apply level_at_own_time; exact A2).
    pose proof (level_lipschitz b t0 t H1).
    assert (M : t <= last_time t cs).
    { clear -H3. revert t H3. induction cs as [|[t' n'] cs IH]; intros t H; cbn; [lia|].
      destruct H as [H1 [_ H3]]. specialize (IH t' H3). lia. }
    cbn [local_granted]. destruct g; nia.
Qed.
End Bucket.
