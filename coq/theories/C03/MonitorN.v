(* C03 — several TokenLimiters on one store.  Executable model only (no proofs).

   HEAD: every limiter has its own flags, its own rescueLock and its own monitor goroutine; the
   only thing the limiters of a store share is the store's reachability.  [nstate] is a list of
   single-limiter systems (Monitor.mstate), [nstep] lets ONE limiter's thread move, or the store go
   down / come back for all.

   [sh_*]: the variant of seeded change C03-7 - ONE monitor per store with a list of waiting
   limiters; on a successful ping the monitor TAKES the list (under monitorLock), wakes the taken
   limiters one by one, and only in its deferred clean-up removes itself from the registry: two
   separately locked steps, with limiters registering in between. *)
From Coq Require Import List Bool Arith.
From GZ Require Import C03.Monitor.
Import ListNotations.

Definition nstate := list mstate.

Inductive naction :=
| NLim (k : nat) (a : action)      (* a thread of limiter k moves: AReq r / AMon (AUp/ADown are ignored here) *)
| NUp | NDown.                     (* the store, for every limiter *)

Fixpoint set_lim (k : nat) (x : mstate) (l : nstate) : nstate :=
  match l, k with
  | [], _ => []
  | _ :: l', O => x :: l'
  | y :: l', S k' => y :: set_lim k' x l'
  end.

Definition own_action (a : action) : bool := match a with AReq _ | AMon => true | _ => false end.

Definition nstep (fast : bool) (s : nstate) (a : naction) : nstate :=
  match a with
  | NLim k a =>
    if own_action a then
      match nth_error s k with Some m => set_lim k (mstep fast m a) s | None => s end
    else s
  | NUp => map (fun m => mstep fast m AUp) s
  | NDown => map (fun m => mstep fast m ADown) s
  end.

Fixpoint nrun (fast : bool) (s : nstate) (sched : list naction) : nstate :=
  match sched with
  | [] => s
  | a :: sched' => nrun fast (nstep fast s a) sched'
  end.

(* limiter k's part of a system schedule: its own threads' steps and the store's *)
Fixpoint proj_sched (k : nat) (sched : list naction) : list action :=
  match sched with
  | [] => []
  | NLim j a :: sched' => if (Nat.eqb j k && own_action a)%bool then a :: proj_sched k sched' else proj_sched k sched'
  | NUp :: sched' => AUp :: proj_sched k sched'
  | NDown :: sched' => ADown :: proj_sched k sched'
  end.

(* limiters with the given numbers of request threads *)
Definition ninit (threads : list nat) : nstate := map minit threads.

(* ------------------------------------------------------------------ the shared-monitor variant *)
Record shlim := mkShL { sh_alive : bool; sh_started : bool }.

Inductive shmon :=
| ShNone                         (* no monitor registered for the store *)
| ShPing                         (* registered, pinging *)
| ShWaking (todo : list nat).    (* the waiter list has been TAKEN; still registered; waking them one by one *)

Record shstate := mkSh { sh_up : bool; sh_lims : list shlim; sh_waiters : list nat; sh_mon : shmon }.

Inductive shaction :=
| ShFail (k : nat)     (* a request of limiter k reads redisAlive = 1, fails against the store, startMonitor runs *)
| ShMon                (* the monitor's next step *)
| ShUp | ShDown.

Fixpoint set_shl (k : nat) (x : shlim) (l : list shlim) : list shlim :=
  match l, k with
  | [], _ => []
  | _ :: l', O => x :: l'
  | y :: l', S k' => y :: set_shl k' x l'
  end.

Definition shstep (s : shstate) (a : shaction) : shstate :=
  match a with
  | ShFail k =>
    match nth_error (sh_lims s) k with
    | Some l =>
      if (sh_alive l && negb (sh_up s))%bool then
        if sh_started l then s
        else
          let lims := set_shl k (mkShL false true) (sh_lims s) in
          match sh_mon s with
          | ShNone => mkSh (sh_up s) lims [k] ShPing                       (* creates and registers a monitor *)
          | m => mkSh (sh_up s) lims (sh_waiters s ++ [k]) m               (* registers with the one in the map *)
          end
      else s
    | None => s
    end
  | ShMon =>
    match sh_mon s with
    | ShNone => s
    | ShPing => if sh_up s then mkSh (sh_up s) (sh_lims s) [] (ShWaking (sh_waiters s)) else s    (* takeWaiters *)
    | ShWaking (k :: todo) => mkSh (sh_up s) (set_shl k (mkShL true false) (sh_lims s)) (sh_waiters s) (ShWaking todo)
    | ShWaking [] => mkSh (sh_up s) (sh_lims s) (sh_waiters s) ShNone       (* deferred: delete(monitors, store) *)
    end
  | ShUp => mkSh true (sh_lims s) (sh_waiters s) (sh_mon s)
  | ShDown => mkSh false (sh_lims s) (sh_waiters s) (sh_mon s)
  end.

Fixpoint shrun (s : shstate) (sched : list shaction) : shstate :=
  match sched with
  | [] => s
  | a :: sched' => shrun (shstep s a) sched'
  end.

Definition shinit (n : nat) : shstate := mkSh true (repeat (mkShL true false) n) [] ShNone.
