(* C03 — the monitor LTS (C03/Monitor.v): for ALL schedules of any number of request threads, the
   monitor thread and the environment, HEAD's flag logic never gets stuck in rescue mode. *)
From Coq Require Import List Bool Arith Lia.
From GZ Require Import C03.Monitor.
Import ListNotations.

Lemma cnt_set_pc p : forall l i old x, nth_error l i = Some old ->
  cnt p (set_pc i x l) + b2n (p old) = cnt p l + b2n (p x).
Proof.
  induction l as [|y l IH]; intros i old x H; destruct i; cbn in *; try discriminate.
  - inversion H; subst. unfold b2n. destruct (p old), (p x); lia.
  - specialize (IH i old x H). lia.
Qed.

Lemma forallb_idle_cnt p l : (forall x, p x = true -> is_idle x = false) ->
  forallb is_idle l = true -> cnt p l = 0.
Proof.
  intros Hp. induction l as [|y l IH]; cbn; [auto|]. intro H. apply andb_true_iff in H. destruct H as [H1 H2].
  destruct (p y) eqn:E; [rewrite (Hp y E) in H1; discriminate|]. now rewrite IH.
Qed.

Definition mon_exists (m : mpc) : bool := match m with MNone => false | _ => true end.
Definition mon_locked (m : mpc) : bool := match m with MLocked => true | _ => false end.

(* the invariant of HEAD:
   - the lock has exactly one holder when held;
   - monitorStarted is set exactly while a monitor exists or a request is building one;
   - redisAlive = 0 only while a recovery is pending *)
Definition is_store (x : rpc) : bool := match x with RStore => true | _ => false end.

Definition is_lockedpc (x : rpc) : bool := match x with RLocked => true | _ => false end.

Definition Inv (s : mstate) : Prop :=
  b2n (m_lock s) = b2n (mon_locked (m_mon s)) +
                   (cnt is_lockedpc (m_reqs s) + cnt is_store (m_reqs s) + cnt is_spawn (m_reqs s)) /\
  b2n (m_started s) = b2n (mon_exists (m_mon s)) + (cnt is_store (m_reqs s) + cnt is_spawn (m_reqs s)) /\
  (m_alive s = false -> 1 <= recovery_pending s).

Lemma inv_init n : Inv (minit n).
Proof.
  unfold Inv, minit, recovery_pending; cbn.
  assert (Z : forall p, p RIdle = false -> cnt p (repeat RIdle n) = 0).
  { intros p Hp. induction n as [|n IH]; cbn; [auto|]. now rewrite Hp, IH. }
  rewrite !Z by reflexivity. repeat split; auto; try discriminate.
Qed.

Ltac counts Hn :=
  pose proof (cnt_set_pc is_lockedpc _ _ _ RIdle Hn) as CH0;
  pose proof (cnt_set_pc is_lockedpc _ _ _ RSend Hn) as CH1;
  pose proof (cnt_set_pc is_lockedpc _ _ _ RFailed Hn) as CH2;
  pose proof (cnt_set_pc is_lockedpc _ _ _ RLocked Hn) as CH3;
  pose proof (cnt_set_pc is_lockedpc _ _ _ RStore Hn) as CH4;
  pose proof (cnt_set_pc is_lockedpc _ _ _ RSpawn Hn) as CH5;
  pose proof (cnt_set_pc is_store _ _ _ RIdle Hn) as CB0;
  pose proof (cnt_set_pc is_store _ _ _ RSend Hn) as CB1;
  pose proof (cnt_set_pc is_store _ _ _ RFailed Hn) as CB2;
  pose proof (cnt_set_pc is_store _ _ _ RLocked Hn) as CB3;
  pose proof (cnt_set_pc is_store _ _ _ RStore Hn) as CB4;
  pose proof (cnt_set_pc is_store _ _ _ RSpawn Hn) as CB5;
  pose proof (cnt_set_pc is_spawn _ _ _ RIdle Hn) as CS0;
  pose proof (cnt_set_pc is_spawn _ _ _ RSend Hn) as CS1;
  pose proof (cnt_set_pc is_spawn _ _ _ RFailed Hn) as CS2;
  pose proof (cnt_set_pc is_spawn _ _ _ RLocked Hn) as CS3;
  pose proof (cnt_set_pc is_spawn _ _ _ RStore Hn) as CS4;
  pose proof (cnt_set_pc is_spawn _ _ _ RSpawn Hn) as CS5;
  cbn [is_lockedpc is_store is_spawn b2n] in *.

Ltac fin IC :=
  unfold Inv, recovery_pending, with_req;
  cbn [m_alive m_started m_lock m_up m_mon m_reqs mon_pinging mon_locked mon_exists b2n is_lockedpc is_store is_spawn] in *;
  repeat split; try (let HH := fresh in intro HH; try discriminate; try specialize (IC HH)); try lia.

(* every step of HEAD keeps the invariant *)
Lemma inv_step s a : Inv s -> Inv (mstep false s a).
Proof.
  intros [IA [IB IC]]. unfold recovery_pending in *.
  destruct s as [al st lk up mon reqs]. cbn [m_alive m_started m_lock m_up m_mon m_reqs] in *.
  destruct a as [i| | |]; cbn [mstep m_reqs].
  - destruct (nth_error reqs i) as [pc|] eqn:Hn; [|fin IC].
    counts Hn.
    destruct pc; cbn [req_step m_alive m_started m_lock m_up m_mon m_reqs with_req].
    + destruct al; fin IC.
    + destruct up; fin IC.
    + destruct lk, mon; fin IC.
    + destruct lk, mon; fin IC.
    + destruct st, lk, mon; fin IC.
    + destruct lk, mon; fin IC.
    + destruct st, lk, mon; fin IC.
  - unfold mon_step; cbn [m_alive m_started m_lock m_up m_mon m_reqs].
    destruct mon, up, lk, st; fin IC.
  - fin IC.
  - fin IC.
Qed.

Lemma inv_run : forall sched s, Inv s -> Inv (mrun false s sched).
Proof. induction sched as [|a sched IH]; intros s H; cbn [mrun]; [exact H|]. apply IH, inv_step, H. Qed.

(* NO STUCK RESCUE MODE (HEAD).  n request threads, ANY schedule of request steps, monitor steps
   and store outages / recoveries.  In the state reached:
   (a) if redisAlive = 0, a recovery is pending: a monitor that has not reported success yet, or
       a request holding the lock that is about to start one;
   (b) in particular with no monitor and all requests between calls, redisAlive = 1;
   (c) if moreover the store answers and the requests are between calls, the monitor alone brings
       the instance back within 4 of its steps (one successful tick): redisAlive = 1, no monitor. *)
Lemma never_stuck_all n sched :
  let s := mrun false (minit n) sched in
  (m_alive s = false -> 1 <= recovery_pending s) /\
  (quiescent s = true -> m_alive s = true) /\
  (m_up s = true -> forallb is_idle (m_reqs s) = true ->
   let s' := mrun false s [AMon; AMon; AMon; AMon] in m_alive s' = true /\ m_mon s' = MNone).
Proof.
  intro s. pose proof (inv_run sched (minit n) (inv_init n)) as [IA [IB IC]]. fold s in IA, IB, IC.
  split; [exact IC|]. split.
  - unfold quiescent. destruct (m_mon s) eqn:M; try discriminate. intro Q.
    destruct (m_alive s) eqn:A; [reflexivity|]. specialize (IC eq_refl). unfold recovery_pending in IC.
    rewrite M in IC. cbn in IC.
    rewrite (forallb_idle_cnt is_spawn (m_reqs s)) in IC; [lia| |exact Q]. intros x Hx. destruct x; try discriminate; reflexivity.
  - intros U Q.
    assert (H0 : cnt is_lockedpc (m_reqs s) = 0).
    { apply forallb_idle_cnt; [|exact Q]. intros x Hx. destruct x; try discriminate; reflexivity. }
    assert (T0 : cnt is_store (m_reqs s) = 0).
    { apply forallb_idle_cnt; [|exact Q]. intros x Hx. destruct x; try discriminate; reflexivity. }
    assert (S0 : cnt is_spawn (m_reqs s) = 0).
    { apply forallb_idle_cnt; [|exact Q]. intros x Hx. destruct x; try discriminate; reflexivity. }
    unfold recovery_pending in IC. rewrite S0 in IC. rewrite H0, T0, S0 in IA.
    destruct s as [al st lk up mon reqs]. cbn [m_alive m_started m_lock m_up m_mon m_reqs] in *. subst up.
    destruct mon; cbn [mon_locked mon_pinging b2n] in *.
    + cbn. split; [|reflexivity]. destruct al; [reflexivity|]. specialize (IC eq_refl). lia.
    + destruct lk; cbn in IA; [lia|]. cbn. auto.
    + destruct lk; cbn in IA; [lia|]. cbn. auto.
    + destruct lk; cbn in IA; [lia|]. cbn. split; [|reflexivity]. destruct al; [reflexivity|]. specialize (IC eq_refl). lia.
    + cbn. split; [|reflexivity]. destruct al; [reflexivity|]. specialize (IC eq_refl). lia.
Qed.

(* ------------------------------------------------------------------ several limiters on one store *)
From GZ Require Import C03.MonitorN.

Lemma nth_set_lim_same : forall s k x m, nth_error s k = Some m -> nth_error (set_lim k x s) k = Some x.
Proof. induction s as [|y s IH]; intros k x m H; destruct k; cbn in *; try discriminate; eauto. Qed.

Lemma nth_set_lim_other : forall s j k x, j <> k -> nth_error (set_lim j x s) k = nth_error s k.
Proof.
  induction s as [|y s IH]; intros j k x H; destruct j, k; cbn; auto; try congruence.
Qed.

(* FRAME: a step of limiter j's threads does not touch limiter k (j <> k) *)
Lemma nstep_frame fast s j a k : j <> k -> nth_error (nstep fast s (NLim j a)) k = nth_error s k.
Proof.
  intro H. cbn [nstep]. destruct (own_action a); [|reflexivity].
  destruct (nth_error s j); [|reflexivity]. now apply nth_set_lim_other.
Qed.

(* what limiter k goes through in a system schedule is its own single-limiter run on ITS part
   of the schedule (its threads' steps and the store's outages) *)
Lemma nrun_proj fast : forall sched s k m,
  nth_error s k = Some m ->
  nth_error (nrun fast s sched) k = Some (mrun fast m (proj_sched k sched)).
Proof.
  induction sched as [|a sched IH]; intros s k m H; cbn [nrun proj_sched]; [exact H|].
  destruct a as [j a| |].
  - destruct (Nat.eqb j k) eqn:E; cbn [andb].
    + apply Nat.eqb_eq in E. subst j. cbn [nstep]. destruct (own_action a) eqn:O.
      * rewrite H. cbn [mrun]. apply IH. eapply nth_set_lim_same; eauto.
      * apply IH. exact H.
    + apply Nat.eqb_neq in E. apply IH. rewrite nstep_frame; auto.
  - cbn [mrun]. apply IH. cbn [nstep]. rewrite nth_error_map, H. reflexivity.
  - cbn [mrun]. apply IH. cbn [nstep]. rewrite nth_error_map, H. reflexivity.
Qed.

(* NO STUCK RESCUE MODE FOR ANY LIMITER OF A STORE (HEAD): limiters with any numbers of request
   threads, ANY system schedule (steps of any limiter's requests and monitor, store outages);
   for every limiter k the three statements of [never_stuck_all] hold in the state reached,
   whatever the other limiters were doing. *)
Lemma each_limiter_never_stuck_all threads sched k n :
  nth_error threads k = Some n ->
  exists m, nth_error (nrun false (ninit threads) sched) k = Some m /\
    (m_alive m = false -> 1 <= recovery_pending m) /\
    (quiescent m = true -> m_alive m = true) /\
    (m_up m = true -> forallb is_idle (m_reqs m) = true ->
     let m' := mrun false m [AMon; AMon; AMon; AMon] in m_alive m' = true /\ m_mon m' = MNone).
Proof.
  intro H. exists (mrun false (minit n) (proj_sched k sched)). split.
  - apply nrun_proj. unfold ninit. rewrite nth_error_map, H. reflexivity.
  - apply never_stuck_all.
Qed.
