(* C03 — the rescue-mode flag logic of TokenLimiter as a labelled transition system with the REAL
   steps of the code, for interleaving proofs.  Executable model only (no proofs).

   core/limit/tokenlimit.go:
     reserveN      : read redisAlive; if 1: send the command; on failure startMonitor(); rescue limiter
     startMonitor  : rescueLock.Lock(); if monitorStarted {unlock; return}; monitorStarted = true;
                     redisAlive = 0; go waitForRedis(); unlock
     waitForRedis  : every tick Ping(); on success redisAlive = 1; return; deferred:
                     rescueLock.Lock(); monitorStarted = false; unlock
   The monitor leaves in TWO steps locked separately (store redisAlive = 1; later, under the lock,
   monitorStarted = false): requests run in the window between them.

   Threads: any number of request threads (a list of program counters), one monitor thread (or
   none), the environment (the store goes down / comes back).  A schedule is a list of actions; a
   thread that waits for the lock does not move.  [fast = true] is the variant of seeded change
   C03-6: startMonitor first does a lock-free CAS(redisAlive, 1, 0) and returns when it fails, and
   no longer stores 0 under the lock. *)
From Coq Require Import List Bool Arith.
Import ListNotations.

Inductive rpc :=
| RIdle        (* between calls (a call that found redisAlive = 0, or finished, is back here) *)
| RSend        (* read redisAlive = 1: the command is about to be sent *)
| RFailed      (* the command failed: startMonitor is about to be called *)
| RCased       (* fast variant: CAS(redisAlive,1,0) succeeded; about to take the lock *)
| RLocked      (* holds rescueLock, about to look at monitorStarted *)
| RStore       (* holds the lock, monitorStarted := true done, about to store redisAlive = 0 *)
| RSpawn.      (* holds the lock, about to `go waitForRedis()` and unlock *)

Inductive mpc :=
| MNone        (* no monitor goroutine *)
| MPing        (* waiting for the next tick / pinging *)
| MOk          (* a Ping returned true; about to store redisAlive = 1 *)
| MWin         (* redisAlive = 1 stored; THE WINDOW; about to take the lock in the deferred func *)
| MLocked.     (* holds the lock, about to clear monitorStarted and unlock *)

Record mstate := mkM
  { m_alive : bool;       (* redisAlive == 1 *)
    m_started : bool;     (* monitorStarted *)
    m_lock : bool;        (* rescueLock is held *)
    m_up : bool;          (* the store answers *)
    m_mon : mpc;
    m_reqs : list rpc }.

Inductive action := AReq (r : nat) | AMon | AUp | ADown.

Fixpoint set_pc (i : nat) (x : rpc) (l : list rpc) : list rpc :=
  match l, i with
  | [], _ => []
  | _ :: l', O => x :: l'
  | y :: l', S i' => y :: set_pc i' x l'
  end.

Definition with_req (s : mstate) (i : nat) (x : rpc) : mstate :=
  mkM (m_alive s) (m_started s) (m_lock s) (m_up s) (m_mon s) (set_pc i x (m_reqs s)).

Definition req_step (fast : bool) (s : mstate) (i : nat) (pc : rpc) : mstate :=
  match pc with
  | RIdle => if m_alive s then with_req s i RSend else s
  | RSend => if m_up s then with_req s i RIdle else with_req s i RFailed
  | RFailed =>
    if fast then
      if m_alive s
      then mkM false (m_started s) (m_lock s) (m_up s) (m_mon s) (set_pc i RCased (m_reqs s))
      else with_req s i RIdle                                 (* CAS failed: return *)
    else if m_lock s then s                                   (* waits for the lock *)
         else mkM (m_alive s) (m_started s) true (m_up s) (m_mon s) (set_pc i RLocked (m_reqs s))
  | RCased =>
    if m_lock s then s
    else mkM (m_alive s) (m_started s) true (m_up s) (m_mon s) (set_pc i RLocked (m_reqs s))
  | RLocked =>
    if m_started s
    then mkM (m_alive s) true false (m_up s) (m_mon s) (set_pc i RIdle (m_reqs s))       (* unlock; return *)
    else mkM (m_alive s) true true (m_up s) (m_mon s) (set_pc i (if fast then RSpawn else RStore) (m_reqs s))
  | RStore => mkM false (m_started s) (m_lock s) (m_up s) (m_mon s) (set_pc i RSpawn (m_reqs s))
  | RSpawn => mkM (m_alive s) (m_started s) false (m_up s) MPing (set_pc i RIdle (m_reqs s))
  end.

Definition mon_step (s : mstate) : mstate :=
  match m_mon s with
  | MNone => s
  | MPing => if m_up s then mkM (m_alive s) (m_started s) (m_lock s) (m_up s) MOk (m_reqs s) else s
  | MOk => mkM true (m_started s) (m_lock s) (m_up s) MWin (m_reqs s)
  | MWin => if m_lock s then s else mkM (m_alive s) (m_started s) true (m_up s) MLocked (m_reqs s)
  | MLocked => mkM (m_alive s) false false (m_up s) MNone (m_reqs s)
  end.

Definition mstep (fast : bool) (s : mstate) (a : action) : mstate :=
  match a with
  | AReq i => match nth_error (m_reqs s) i with Some pc => req_step fast s i pc | None => s end
  | AMon => mon_step s
  | AUp => mkM (m_alive s) (m_started s) (m_lock s) true (m_mon s) (m_reqs s)
  | ADown => mkM (m_alive s) (m_started s) (m_lock s) false (m_mon s) (m_reqs s)
  end.

Fixpoint mrun (fast : bool) (s : mstate) (sched : list action) : mstate :=
  match sched with
  | [] => s
  | a :: sched' => mrun fast (mstep fast s a) sched'
  end.

(* NewTokenLimiter: redisAlive = 1, no monitor; n request threads *)
Definition minit (n : nat) : mstate := mkM true false false true MNone (repeat RIdle n).

(* ---- observations on a state *)
Fixpoint cnt (p : rpc -> bool) (l : list rpc) : nat :=
  match l with [] => 0 | x :: l' => (if p x then 1 else 0) + cnt p l' end.

Definition is_spawn (x : rpc) : bool := match x with RSpawn => true | _ => false end.
Definition is_builder (x : rpc) : bool := match x with RStore | RSpawn => true | _ => false end.
Definition is_holder (x : rpc) : bool := match x with RLocked | RStore | RSpawn => true | _ => false end.
Definition is_idle (x : rpc) : bool := match x with RIdle => true | _ => false end.

Definition mon_pinging (m : mpc) : bool := match m with MPing | MOk => true | _ => false end.
Definition b2n (b : bool) : nat := if b then 1 else 0.

(* somebody is on the way to switch the instance back: a monitor that has not yet reported
   success, or a request that is about to start one *)
Definition recovery_pending (s : mstate) : nat := b2n (mon_pinging (m_mon s)) + cnt is_spawn (m_reqs s).

Definition quiescent (s : mstate) : bool :=
  match m_mon s with MNone => forallb is_idle (m_reqs s) | _ => false end.
