(* C03 — property theorems only.  Every theorem is closed by [exact] of a lemma proved in
   Proofs*.v / GenProofs.v and followed by [Print Assumptions].

   [pstep q p s o] / [tstep c s o] = one call on the model: the GENERATED Lua script
   (coq/gen/Lua_period.v, Lua_token.v) run atomically on the Redis store model + the Go wrapper.
   Interleavings: Redis runs a script atomically and each call does a single EVAL, so the calls
   of concurrent callers / limiter instances form some sequence; every theorem is for all
   sequences (with arbitrary requests on other keys, outages and clock advances in between). *)
From Coq Require Import List ZArith String Bool.
From GZ Require Import Lib.RedisStore C03.Model C03.GenProofs C03.ProofsBucket C03.ProofsPeriod
                       C03.ProofsPeriodSpec C03.ProofsToken C03.Proofs C03.ProofsMore C03.Monitor C03.MonitorN C03.ProofsMonitor.
From GZgen Require Lua_period Lua_token C03Consts.
Import ListNotations.
Open Scope string_scope.
Open Scope Z_scope.

(* PERIOD: EXACT QUOTA.  [c] is any limiter configuration whose windows are >= 1 s (true for
   period >= 1, aligned or not: [window_is_sane]).  Take any state in which the key's counter is
   absent (never used, or its period has ended), under either expiry convention.  The first
   request starts the period - w = window at that moment - and is answered code_of 1.  Then for
   EVERY history [ops] shorter than w - requests on this key and on others by any callers in any
   order, outages, recoveries, requests cut off by the circuit breaker, TTL reads, foreign writes
   to other keys - the answers to this key's requests are, in order, code_of 2, code_of 3, ...
   ([expect]: the i-th counted request gets Allowed / HitQuota / OverQuota for i <, =, > quota; a
   request that does not reach Redis gets (Unknown, error) and does not count).  Once the window
   is over ([before incl] false: elapsed >= w*1000 on miniredis, > on real Redis) the counter is
   absent again, i.e. the next request starts a new period. *)
Theorem period_exact_quota : forall c key s ops,
  (forall t, 1 <= window c t) -> pdown s = false -> lookup (pstore s) key = None ->
  forallb (calm key) ops = true ->
  let w := window c (rnow (pstore s)) in
  let incl := expiry_inclusive (pstore s) in
  pelapsed ops < w * 1000 ->
  let s1 := fst (pstep c s (PTake key true)) in
  snd (pstep c s (PTake key true)) = PAns (code_of 1 (pquota c)) false /\
  answers key ops (prun c s1 ops) = expect c key 1 false ops /\
  (forall d, before incl (pelapsed ops + d) (w * 1000) = false ->
     lookup (pstore (fst (pstep c (pfinal c s1 ops) (PAdvance d)))) key = None).
Proof. exact period_exact_quota_all. Qed.
Print Assumptions period_exact_quota.

(* calcExpireSeconds: the window is the period, or with Align() the distance (1..period s) to
   the next multiple of the period on the local clock (unix + zone offset) *)
Theorem window_is_sane : forall c now_ms, 1 <= pperiod c ->
  1 <= window c now_ms <= pperiod c /\
  (palign c = true -> (now_ms / 1000 + poffset c + window c now_ms) mod pperiod c = 0) /\
  (palign c = false -> window c now_ms = pperiod c).
Proof. exact window_spec. Qed.
Print Assumptions window_is_sane.

(* ALIGNED PERIOD (PeriodLimit with Align()): the period a first request starts at wall-clock
   second [unix] (zone offset poffset) ends at the next aligned boundary: 1 <= w <= period and
   unix + offset + w is a multiple of the period; within it the quota theorem holds verbatim.
   Hypothesis built into the model: the caller's wall clock is the store's clock. *)
Theorem aligned_period_quota : forall c key s ops,
  1 <= pperiod c -> palign c = true -> pdown s = false -> lookup (pstore s) key = None ->
  forallb (calm key) ops = true ->
  let unix := rnow (pstore s) / 1000 in
  let w := window c (rnow (pstore s)) in
  let incl := expiry_inclusive (pstore s) in
  1 <= w <= pperiod c /\ (unix + poffset c + w) mod pperiod c = 0 /\
  (pelapsed ops < w * 1000 ->
   let s1 := fst (pstep c s (PTake key true)) in
   snd (pstep c s (PTake key true)) = PAns (code_of 1 (pquota c)) false /\
   answers key ops (prun c s1 ops) = expect c key 1 false ops /\
   (forall d, before incl (pelapsed ops + d) (w * 1000) = false ->
      lookup (pstore (fst (pstep c (pfinal c s1 ops) (PAdvance d)))) key = None)).
Proof. exact aligned_period_quota_all. Qed.
Print Assumptions aligned_period_quota.

(* PERIOD: AN ERROR IS NEVER A GRANT.  If the command does not reach Redis - store unreachable,
   or go-zero's circuit breaker open (brk = false: breaker.ErrServiceUnavailable) - the call
   answers (Unknown, error) and changes nothing; in every state, an answer carrying an error has
   code Unknown, and any other code (Allowed, HitQuota, OverQuota) comes without error from a
   command that reached a reachable store. *)
Theorem period_error_not_grant : forall c s key brk,
  ((pdown s = true \/ brk = false) -> pstep c s (PTake key brk) = (s, PAns Unknown true)) /\
  (forall cd e, snd (pstep c s (PTake key brk)) = PAns cd e ->
     (e = true -> cd = Unknown) /\ (cd <> Unknown -> e = false /\ pdown s = false /\ brk = true)).
Proof. exact period_error_not_grant_all. Qed.
Print Assumptions period_error_not_grant.

(* The specification evaluated by Check.prop_ok on the implementation's answers IS the model:
   same answers on every history (any keys, outages, breaker cut-offs, TTL reads, foreign writes
   of ARBITRARY values: a non-integer value makes INCRBY fail -> (Unknown, error), and it stays). *)
Theorem period_spec_refines : forall c incl base ops,
  (forall t, 1 <= window c t) ->
  prun c (pinit incl base) ops = sp_prun c (sp_pinit incl base) ops.
Proof. exact period_spec_refines_all. Qed.
Print Assumptions period_spec_refines.

(* What the generated token script computes, for every store content and all arguments. *)
Theorem tokenscript_meaning : forall st kt kts rt bs now n, 0 < rt ->
  eval Lua_token.script [kt; kts] [BInt rt; BInt bs; BInt now; BInt n] st =
  let ttl := token_ttl rt bs in
  let T := match RedisStoreFacts.stored_num st kt with Some z => z | None => bs end in
  let s := match RedisStoreFacts.stored_num st kts with Some z => z | None => 0 end in
  let filled := Z.min bs (T + Z.max 0 (now - s) * rt) in
  let ok := n <=? filled in
  let T' := if ok then filled - n else filled in
  let ex := Some (rnow st + ttl * 1000) in
  ((if ok then RInt 1 else RNil),
   store_put (store_put st kt (mkEntry (BInt T') ex)) kts (mkEntry (BInt now) ex)).
Proof. exact token_script_spec. Qed.
Print Assumptions tokenscript_meaning.

(* TOKEN SCRIPT = IDEAL BUCKET (TTL expiry included).  [bucket_rel c st b]: the two keys hold
   bucket b's numbers with a common expiry, or are gone and b is full.  Whenever the caller's
   clock is the store's, the script answers like [bucket_take] = min(burst, T + rate*whole
   seconds) >= n, and the store then represents the bucket's next state; no other key changes.
   (The relation also survives any passage of time: [bucket_rel_advance].) *)
Theorem token_script_refines_bucket : forall c, 1 <= rate c -> 0 <= burst c -> ktokens c <> kts c ->
  forall st b n, bucket_rel c st b -> 0 <= rnow st -> 0 <= n ->
  let now := rnow st / 1000 in
  let '(b', g) := bucket_take (rate c) (burst c) b now n in
  exists st',
    eval Lua_token.script [ktokens c; kts c] [BInt (rate c); BInt (burst c); BInt now; BInt n] st
      = ((if g then RInt 1 else RNil), st') /\
    bucket_rel c st' b' /\ rnow st' = rnow st /\
    (forall k, k <> ktokens c -> k <> kts c -> lookup st' k = lookup st k).
Proof. exact script_refines_bucket. Qed.
Print Assumptions token_script_refines_bucket.

Theorem token_bucket_survives_time : forall c st b ms,
  0 <= ms -> bucket_rel c st b -> bucket_rel c (advance st ms) b.
Proof. exact bucket_rel_advance. Qed.
Print Assumptions token_bucket_survives_time.

(* a request for n tokens is granted iff the ideal bucket holds n *)
Theorem bucket_grants_iff_holds : forall rt bs, 0 <= rt -> 0 <= bs -> forall b t n,
  0 <= btokens b -> 0 <= n ->
  let '(b', g) := bucket_take rt bs b t n in
  (if g then n else 0) + btokens b' = level rt bs b t /\
  0 <= btokens b' <= bs /\ bsec b' = t /\
  (g = true <-> n <= level rt bs b t).
Proof. exact take_accounts. Qed.
Print Assumptions bucket_grants_iff_holds.

(* TOKEN JOINT BOUND.  n TokenLimiter instances share the key; [pre ++ mid] is ANY history of
   AllowN calls by any instances (each reaching Redis or cut off by the circuit breaker: then the
   instance falls back exactly as for an outage), calls with an already cancelled context, calls
   answered by a faulty store with a forged reply, CONCURRENT calls on one instance (TAllowLate: a
   call that had read redisAlive = 1 before another call of the instance switched it off; its
   tokens count), clock advances, outages, recoveries and monitor ticks, under either expiry
   convention, with
   the hypotheses [twf] (caller-supplied now = store clock, non-decreasing; sizes >= 0).
   (a) every answer of every instance is the answer of the machine [sp_tstep] in which the
       script is replaced by ONE ideal bucket shared by all (a request for n is granted iff
       that bucket holds n) - and the fallback/monitor logic is the same;
   (b) over the interval [mid] (after any prefix [pre]) the tokens granted by the shared
       bucket to all instances together are at most burst + rate * whole seconds elapsed. *)
Theorem token_joint_bound : forall c incl base n pre mid,
  1 <= rate c -> 0 <= burst c -> ktokens c <> kts c -> 0 <= base ->
  twf base (pre ++ mid) = true ->
  let s0 := tinit incl base n in
  let a0 := mkSp (mkB (burst c) 0) base false (repeat (mkT true false) n) in
  let t1 := base + telapsed pre in
  trun c s0 (pre ++ mid) = sp_trun c a0 (pre ++ mid) /\
  granted_by_script mid (trun c (tfinal c s0 pre) mid)
    <= burst c + rate c * (unix_s (t1 + telapsed mid) - unix_s t1).
Proof. exact token_joint_bound_all. Qed.
Print Assumptions token_joint_bound.

(* RESCUE (LOCAL) BOUND.  The in-process limiter is golang.org/x/time/rate and is NOT modelled:
   what is proved is the bound for the ideal bucket with one token per interval =
   floor(10^9/rate) ns and capacity burst, over any calls in time order: granted*interval <=
   burst*interval + elapsed ns.  Check.prop_ok checks exactly this inequality, over every
   interval, on the decisions the real limiter took in rescue mode. *)
Theorem rescue_local_bound : forall rt bs calls b t0,
  1 <= rt -> rt <= 1000000000 -> 0 <= bs -> 0 <= btokens b -> calls_ok t0 calls ->
  local_granted calls (local_run rt bs b calls) * interval_ns rt
    <= bs * interval_ns rt + (last_time t0 calls - t0).
Proof. exact rescue_local_bound_all. Qed.
Print Assumptions rescue_local_bound.

(* RESCUE (LOCAL) BOUND, EXACT.  Since the repair 9e9cefb the in-process limiter is
   xrate.NewLimiter(xrate.Limit(rate), burst).  For its ideal version - [exact_run]: rate tokens
   per second, capacity burst, in units of 10^-9 token and ns - over any calls in time order:
   granted <= burst + rate * elapsed, the property's bound verbatim.  Check.prop_ok checks this
   inequality (with 2 ns of slack for x/time/rate's truncation of waiting times) over every
   interval of the decisions the real limiter took in rescue mode; [rescue_local_bound] above is the
   weaker bound of the pinned construction (Pinned.rescue_truncated_interval_refuted). *)
Theorem rescue_exact_bound : forall rt bs calls b t0,
  0 <= rt -> 0 <= bs -> 0 <= btokens b -> calls_ok t0 calls ->
  local_granted calls (exact_run rt bs b calls) * 1000000000
    <= bs * 1000000000 + rt * (last_time t0 calls - t0).
Proof. exact rescue_exact_bound_all. Qed.
Print Assumptions rescue_exact_bound.

(* PERIOD: A FAULTED CALL IS NEVER A GRANT.  A TakeCtx whose context is already done (the
   command is not sent) or whose command is answered by a faulty store with anything that is not
   a verdict of the script - an error reply, nil, a string, a number outside 0..2 - answers
   (Unknown, error) and changes nothing; whatever the reply, an error never comes with a code. *)
Theorem period_fault_never_grants : forall c s key f,
  fst (pstep c s (PTakeF key f)) = s /\
  (pforged f = false -> snd (pstep c s (PTakeF key f)) = PAns Unknown true) /\
  (forall cd e, snd (pstep c s (PTakeF key f)) = PAns cd e -> (e = true -> cd = Unknown)).
Proof. exact period_fault_all. Qed.
Print Assumptions period_fault_never_grants.

(* TOKEN: A FAULTED CALL.  Instance i is on the shared bucket (alive, no monitor running) and the
   store answers its command with [r] instead of running the script: the store content does not
   change; nil or a number other than 1 is a refusal and the instance stays on the store; an error
   reply or a non-integer reply starts the monitor, switches the instance to its in-process
   limiter and the answer is that limiter's (bounded by [rescue_exact_bound]).  Only the literal
   reply 1 is a grant. *)
Theorem token_fault_refuses_or_falls_back : forall c s i now n rescue r t,
  nth_error (tinsts s) i = Some t -> alive t = true -> monitor t = false ->
  let s' := fst (tstep c s (TAllowF i now n rescue r)) in
  let ob := snd (tstep c s (TAllowF i now n rescue r)) in
  tstore s' = tstore s /\ tdown s' = tdown s /\
  match r with
  | RNil => ob = TR false true true /\ nth_error (tinsts s') i = Some t
  | RInt code => ob = TR (code =? 1) true true /\ nth_error (tinsts s') i = Some t
  | _ => ob = TR rescue false false /\ nth_error (tinsts s') i = Some (mkT false true)
  end.
Proof. exact token_fault_all. Qed.
Print Assumptions token_fault_refuses_or_falls_back.

(* a call made with an already cancelled context: nothing changes; an instance on the shared
   bucket refuses (and does NOT fall back), an instance in rescue mode asks its local limiter *)
Theorem token_cancelled_context : forall c s i now n rescue t,
  nth_error (tinsts s) i = Some t ->
  tstep c s (TAllowC i now n rescue) =
  (s, if alive t then TR false true false else TR rescue false false).
Proof. exact token_cancel_all. Qed.
Print Assumptions token_cancelled_context.

(* the two Redis keys of a limiter (fmt.Sprintf of today's tokenFormat / timestampFormat, read from
   the source) are different for every key string: hypothesis [ktokens c <> kts c] of the token
   theorems holds for every TokenLimiter *)
Theorem token_keys_distinct : forall key, tokens_key key <> ts_key key.
Proof. exact token_keys_distinct_all. Qed.
Print Assumptions token_keys_distinct.

(* NO STUCK RESCUE MODE, ALL SCHEDULES (the monitor's two-step exit).  Monitor.v is the flag logic
   of tokenlimit.go as an LTS with the real steps: request threads (read redisAlive; send; on
   failure startMonitor = lock, look at monitorStarted, set it, store redisAlive = 0, go
   waitForRedis, unlock), the monitor thread (ping; store redisAlive = 1; [window]; lock; clear
   monitorStarted; unlock) and the environment (store down / up).  For n request threads and EVERY
   schedule, in the state reached: (a) redisAlive = 0 only while a recovery is pending (a monitor
   that has not yet reported success, or a request about to start one); (b) with no monitor and
   all requests between calls redisAlive = 1; (c) once the store answers and the requests are
   between calls, one successful tick of the monitor (4 of its steps) brings the instance back.
   The variant with a lock-free fast path is refuted: Pinned.fast_path_lost_wakeup_refuted. *)
Theorem monitor_never_stuck : forall n sched,
  let s := mrun false (minit n) sched in
  (m_alive s = false -> (1 <= recovery_pending s)%nat) /\
  (quiescent s = true -> m_alive s = true) /\
  (m_up s = true -> forallb is_idle (m_reqs s) = true ->
   let s' := mrun false s [AMon; AMon; AMon; AMon] in m_alive s' = true /\ m_mon s' = MNone).
Proof. exact never_stuck_all. Qed.
Print Assumptions monitor_never_stuck.

(* SEVERAL LIMITERS ON ONE STORE (state shared between instances).  On HEAD the limiters of a store
   share nothing but its reachability: each has its own flags, lock and monitor.  [nstep] moves one
   limiter's thread or the store.  FRAME: a step of limiter j does not touch limiter k; limiter k's
   state after ANY system schedule is its own run on its part of the schedule; hence for every
   limiter, whatever the others do: redisAlive = 0 only while ITS recovery is pending, quiescent =>
   redisAlive = 1, and one successful tick of ITS monitor brings it back.
   The one-monitor-per-store variant is refuted: Pinned.shared_monitor_orphans_a_waiter_refuted. *)
Theorem limiters_do_not_interfere : forall fast s j a k,
  j <> k -> nth_error (nstep fast s (NLim j a)) k = nth_error s k.
Proof. exact nstep_frame. Qed.
Print Assumptions limiters_do_not_interfere.

Theorem each_limiter_never_stuck : forall threads sched k n,
  nth_error threads k = Some n ->
  exists m, nth_error (nrun false (ninit threads) sched) k = Some m /\
    (m_alive m = false -> (1 <= recovery_pending m)%nat) /\
    (quiescent m = true -> m_alive m = true) /\
    (m_up m = true -> forallb is_idle (m_reqs m) = true ->
     let m' := mrun false m [AMon; AMon; AMon; AMon] in m_alive m' = true /\ m_mon m' = MNone).
Proof. exact each_limiter_never_stuck_all. Qed.
Print Assumptions each_limiter_never_stuck.

(* THE CALLER'S CONTEXT IS NOT A STORE FAILURE.  One call whose context is done before the call
   (TAllowC) or BECOMES done during the store call (TAllowD: go-redis returns ctx.Err() while the
   request waits for a connection or sleeps before a retry; deadline or cancel; the script run or
   not), on an instance that is on the shared bucket: refused, the instance untouched - no monitor,
   still on the store; nothing changes at all unless the script had run (then the bucket is charged). *)
Theorem caller_context_is_refused : forall c s i now n rescue ran t,
  nth_error (tinsts s) i = Some t -> alive t = true ->
  tstep c s (TAllowC i now n rescue) = (s, TR false true false) /\
  (let s' := fst (tstep c s (TAllowD i now n rescue ran)) in
   snd (tstep c s (TAllowD i now n rescue ran)) = TR false true ran /\
   tinsts s' = tinsts s /\ tdown s' = tdown s /\ (ran = false -> s' = s)).
Proof. exact caller_context_step_all. Qed.
Print Assumptions caller_context_is_refused.

(* RESCUE MODE ONLY AFTER A STORE FAILURE.  n instances and ANY history in which the store never
   fails ([healthy]: never down, no forged reply, no breaker cut) - calls by any instances with any
   contexts (live, done before, becoming done during the store call with the script run or not),
   concurrent calls, clock advances, monitor ticks: no call makes an instance fall back, and at the
   end every instance is on the shared bucket with no monitor.  (The joint bound for such histories is
   token_joint_bound: TAllowD charges the bucket at most, it never grants.)
   The variant that takes an expired deadline for a store failure: Pinned.deadline_is_store_failure_refuted. *)
Theorem caller_context_never_starts_rescue : forall c incl base n ops,
  1 <= rate c -> 0 <= burst c -> ktokens c <> kts c -> 0 <= base ->
  twf base ops = true -> forallb healthy ops = true ->
  Forall no_fallback (trun c (tinit incl base n) ops) /\
  tinsts (tfinal c (tinit incl base n) ops) = repeat (mkT true false) n.
Proof. exact caller_context_never_starts_rescue_all. Qed.
Print Assumptions caller_context_never_starts_rescue.

(* ---- non-vacuity ---- *)
Definition ex_cfg := mkCfg 5 2 (BStr "{tk}.tokens") (BStr "{tk}.ts").   (* 2*burst < rate *)
Definition ex_ops : list top :=
  [TAllow 0 1700000000400 1 true true; TAllow 1 1700000000400 1 true true; TAllow 0 1700000000400 1 true true;
   TAdvance 600; TAllow 1 1700000001000 2 true true; TAllow 0 1700000001000 1 true true;
   TDown; TAllow 0 1700000001000 1 true true; TUp; TPing 0; TAllow 0 1700000001000 1 false true;
   TAllow 1 1700000001000 0 true false (* breaker open: falls back although the store is up *)].
Example ex_token_hyps : twf 1700000000400 ex_ops = true /\ ktokens ex_cfg <> kts ex_cfg.
Proof. split; [reflexivity|discriminate]. Qed.
Example ex_token_run :
  trun ex_cfg (tinit false 1700000000400 2) ex_ops =
  [TR true true true; TR true true true; TR false true true; TU; TR true true true; TR false true true;
   TU; TR true false false; TU; TU; TR false true true; TR true false false].
Proof. vm_compute. reflexivity. Qed.

Definition ex_pcfg := mkPC 3 2 false 0.
Definition ex_pops : list pop :=
  [PTake (BStr "p:b") true; PTake (BStr "p:a") true; PDown; PTake (BStr "p:a") true; PUp; PTake (BStr "p:a") false;
   PAdvance 1999; PTake (BStr "p:a") true; PTake (BStr "p:a") true].
Example ex_period_hyps : (forall t, 1 <= window ex_pcfg t) /\ forallb (calm (BStr "p:a")) ex_pops = true /\ pelapsed ex_pops < 2 * 1000.
Proof. split; [intro t; cbn; discriminate|split; reflexivity]. Qed.
Example ex_period_run :
  prun ex_pcfg (pinit true 0) (PTake (BStr "p:a") true :: ex_pops ++ [PAdvance 1; PTake (BStr "p:a") true]) =
  [PAns Allowed false; PAns Allowed false; PAns Allowed false; PNone; PAns Unknown true; PNone; PAns Unknown true; PNone;
   PAns HitQuota false; PAns OverQuota false; PNone; PAns Allowed false].
Proof. vm_compute. reflexivity. Qed.
(* aligned to the local day (86400 s, zone +8h): a first request at 2023-11-14 22:13:20 UTC
   (06:13:20 local) gets a window of 63 999 s = until local midnight *)
Example ex_aligned :
  window (mkPC 5 86400 true 28800) 1700000000999 = 64000 /\ (1700000000 + 28800 + 64000) mod 86400 = 0.
Proof. vm_compute. split; reflexivity. Qed.

(* faults in one history: a cancelled context, an error reply (fallback), a forged nil, recovery *)
Example ex_fault_run :
  trun ex_cfg (tinit true 1700000000400 2)
    [TAllowC 0 1700000000400 1 true; TAllowF 0 1700000000400 1 true (RErr EConn); TAllowC 0 1700000000400 1 false;
     TAllowF 1 1700000000400 1 true RNil; TAllow 1 1700000000400 1 true true; TPing 0; TAllow 0 1700000000400 1 false true] =
  [TR false true false; TR true false false; TR false false false; TR false true true; TR true true true; TU; TR true true true].
Proof. vm_compute. reflexivity. Qed.
Example ex_pfault_run :
  prun ex_pcfg (pinit true 0) [PTakeF (BStr "p:a") FCtx; PTakeF (BStr "p:a") (FReply (RInt 7)); PTakeF (BStr "p:a") (FReply (RBulk (BInt 1)));
                               PTake (BStr "p:a") true] =
  [PAns Unknown true; PAns Unknown true; PAns Unknown true; PAns Allowed false].
Proof. vm_compute. reflexivity. Qed.

(* three concurrent calls on instance 0 notice the outage together: the first starts the monitor,
   the others find it started; all are answered by the rescue limiter; after recovery both
   instances are on the shared bucket again *)
Example ex_concurrent_run :
  trun ex_cfg (tinit true 1700000000400 2)
    [TDown; TAllow 0 1700000000400 1 true true; TAllowLate 0 1700000000400 1 true true; TAllowLate 0 1700000000400 2 false true;
     TUp; TPing 0; TPing 1; TAllow 0 1700000000400 2 true true; TAllowLate 1 1700000000400 1 true true] =
  [TU; TR true false false; TR true false false; TR false false false; TU; TU; TU; TR true true true; TR false true true].
Proof. vm_compute. reflexivity. Qed.
