(* C03 — TokenLimiter: the generated script refines the ideal bucket; the whole machine
   (Go wrapper + script) refines the machine with the ideal bucket; joint bound. *)
From Coq Require Import List ZArith String Bool Lia.
From GZ Require Import Lib.RedisStore Lib.RedisStoreFacts C03.Model C03.GenProofs C03.ProofsBucket.
Import ListNotations.
Open Scope Z_scope.

Lemma lookup_advance st ms k : 0 <= ms ->
  lookup (advance st ms) k =
  match lookup st k with
  | Some e => if live (expiry_inclusive st) (rnow st + ms) e then Some e else None
  | None => None
  end.
Proof.
  intro H. unfold lookup, advance; cbn. destruct (find k (rdata st)) as [e|]; [|reflexivity].
  unfold live. destruct e as [v [t|]]; cbn; [|reflexivity].
  destruct (before (expiry_inclusive st) (rnow st) t) eqn:A; [reflexivity|].
  rewrite (before_false_mono _ (rnow st) (rnow st + ms) t ltac:(lia) A). reflexivity.
Qed.

Section Token.
Variable c : tcfg.
Hypothesis Hrate : 1 <= rate c.
Hypothesis Hburst : 0 <= burst c.
Hypothesis Hkeys : ktokens c <> kts c.

Notation lvl := (level (rate c) (burst c)).

(* the TTL the script sets is long enough for the bucket to fill up *)
Lemma ttl_covers : burst c <= token_ttl (rate c) (burst c) * rate c.
Proof.
  unfold token_ttl.
  pose proof (Z.div_mod (burst c * 2) (rate c)) as D.
  pose proof (Z.mod_pos_bound (burst c * 2) (rate c)) as B.
  assert (rate c <> 0) by lia. specialize (D H). assert (0 < rate c) by lia. specialize (B H0).
  destruct (Z.max_spec 1 (burst c * 2 / rate c)) as [[A ->]|[A ->]]; nia.
Qed.

Lemma ttl_pos : 1 <= token_ttl (rate c) (burst c).
Proof. unfold token_ttl. lia. Qed.

(* the store represents bucket [b]: either both keys are live with the bucket's numbers and a
   common expiry after which the ideal bucket is full anyway, or both are gone (never written
   or expired) and the ideal bucket is full from now on *)
Definition bucket_rel (st : rstate) (b : bucket) : Prop :=
  0 <= btokens b <= burst c /\
  ((lookup st (ktokens c) = None /\ lookup st (kts c) = None /\
    forall t, rnow st / 1000 <= t -> lvl b t = burst c)
   \/
   (exists E, lookup st (ktokens c) = Some (mkEntry (BInt (btokens b)) (Some E)) /\
              lookup st (kts c) = Some (mkEntry (BInt (bsec b)) (Some E)) /\
              bsec b <= rnow st / 1000 /\
              forall t, E / 1000 <= t -> lvl b t = burst c)).

Lemma bucket_rel_init incl base : 0 <= base -> bucket_rel (mkR base [] incl) (mkB (burst c) 0).
Proof.
  intro Hb. split; [cbn; lia|]. left. repeat split; auto.
  intros t Ht. unfold level; cbn. cbn in Ht.
  assert (0 <= base / 1000) by (apply Z.div_pos; lia). nia.
Qed.

Lemma bucket_rel_advance st b ms : 0 <= ms -> bucket_rel st b -> bucket_rel (advance st ms) b.
Proof.
  intros Hms [HT [[A [B C]]|[E [A [B [C D]]]]]]; split; auto.
  - left. rewrite !lookup_advance, A, B by lia. repeat split; auto.
    intros t Ht. apply C. cbn in Ht. assert (rnow st / 1000 <= (rnow st + ms) / 1000) by (apply Z.div_le_mono; lia). lia.
  - rewrite !lookup_advance, A, B by lia. unfold live; cbn.
    destruct (before (expiry_inclusive st) (rnow st + ms) E) eqn:L.
    + right. exists E. repeat split; auto. cbn.
      assert (rnow st / 1000 <= (rnow st + ms) / 1000) by (apply Z.div_le_mono; lia). lia.
    + left. repeat split; auto. intros t Ht. apply D. cbn in Ht. apply before_false_ge in L.
      assert (E / 1000 <= (rnow st + ms) / 1000) by (apply Z.div_le_mono; lia). lia.
Qed.

(* TOKEN SCRIPT = IDEAL BUCKET.  With the store representing bucket b and the caller's clock
   equal to the store's, the script (reading keys that may have expired, writing both keys with
   a fresh TTL) answers exactly as the ideal bucket and leaves the store representing the
   ideal bucket's next state; nothing but the two keys changes. *)
Lemma script_refines_bucket st b n :
  bucket_rel st b -> 0 <= rnow st -> 0 <= n ->
  let now := rnow st / 1000 in
  let '(b', g) := bucket_take (rate c) (burst c) b now n in
  exists st',
    eval Lua_token.script [ktokens c; kts c] [BInt (rate c); BInt (burst c); BInt now; BInt n] st
      = ((if g then RInt 1 else RNil), st') /\
    bucket_rel st' b' /\ rnow st' = rnow st /\
    (forall k, k <> ktokens c -> k <> kts c -> lookup st' k = lookup st k).
Proof.
  intros [HT R] Hnow Hn now.
  assert (Hnow' : 0 <= now) by (apply Z.div_pos; lia).
  rewrite token_script_spec by lia. cbv zeta.
  set (T := match stored_num st (ktokens c) with Some z => z | None => burst c end).
  set (s := match stored_num st (kts c) with Some z => z | None => 0 end).
  assert (F : Z.min (burst c) (T + Z.max 0 (now - s) * rate c) = lvl b now).
  { destruct R as [[A [B C]]|[E [A [B [C D]]]]].
    - unfold T, s, stored_num. rewrite A, B. rewrite (C now) by (unfold now; lia). nia.
    - unfold T, s, stored_num. rewrite A, B. reflexivity. }
  rewrite F. unfold bucket_take. fold now.
  pose proof (level_le_burst (rate c) (burst c) b now) as L1.
  pose proof (level_nonneg (rate c) (burst c) ltac:(lia) ltac:(lia) b now ltac:(lia)) as L2.
  pose proof ttl_covers as TC. pose proof ttl_pos as TP.
  set (ttl := token_ttl (rate c) (burst c)) in *.
  set (E' := rnow st + ttl * 1000).
  assert (HE : E' / 1000 = now + ttl) by (unfold E', now; apply Z.div_add; lia).
  assert (Hlive : forall v, live (expiry_inclusive st) (rnow st) (mkEntry v (Some E')) = true).
  { intro v. unfold live; cbn. apply before_lt. unfold E'. lia. }
  assert (K1 : bulk_eqb (ktokens c) (kts c) = false) by (apply bulk_eqb_neq; exact Hkeys).
  assert (K2 : bulk_eqb (kts c) (ktokens c) = false) by (apply bulk_eqb_neq; congruence).
  assert (FULL : forall T', 0 <= T' -> forall t, E' / 1000 <= t -> lvl (mkB T' now) t = burst c).
  { intros T' HT' t Ht. unfold level; cbn. rewrite HE in Ht. nia. }
  destruct (n <=? lvl b now) eqn:G; eexists; (split; [reflexivity|]); (split; [|split]).
  - apply Z.leb_le in G. split; [cbn; lia|]. right. exists E'. cbn [btokens bsec].
    rewrite lookup_put_other, lookup_put_same, lookup_put_same by assumption.
    cbn [rnow store_put expiry_inclusive]. rewrite !Hlive. repeat split; auto; try lia; try (apply FULL; lia).
  - reflexivity.
  - intros k H1 H2. rewrite !lookup_put_other by (apply bulk_eqb_neq; assumption). reflexivity.
  - apply Z.leb_gt in G. split; [cbn; lia|]. right. exists E'. cbn [btokens bsec].
    rewrite lookup_put_other, lookup_put_same, lookup_put_same by assumption.
    cbn [rnow store_put expiry_inclusive]. rewrite !Hlive. repeat split; auto; try lia; try (apply FULL; lia).
  - reflexivity.
  - intros k H1 H2. rewrite !lookup_put_other by (apply bulk_eqb_neq; assumption). reflexivity.
Qed.
End Token.

(* ------------------------------------------------------------------ the whole limiter *)
Fixpoint sp_tfinal (c : tcfg) (a : tspec) (ops : list top) : tspec :=
  match ops with
  | [] => a
  | o :: ops' => sp_tfinal c (fst (sp_tstep c a o)) ops'
  end.

Section Machine.
Variable c : tcfg.
Hypothesis Hrate : 1 <= rate c.
Hypothesis Hburst : 0 <= burst c.
Hypothesis Hkeys : ktokens c <> kts c.

Notation lvl := (level (rate c) (burst c)).

Definition Rel (s : tstate) (a : tspec) : Prop :=
  bucket_rel c (tstore s) (sp_bucket a) /\ rnow (tstore s) = sp_clock a /\
  tdown s = sp_tdown a /\ tinsts s = sp_insts a /\ 0 <= sp_clock a.

Definition op_ok (clock : Z) (o : top) : Prop :=
  match o with
  | TAllow _ now n _ _ | TAllowF _ now n _ _ | TAllowC _ now n _ | TAllowLate _ now n _ _ | TAllowD _ now n _ _ => now = clock /\ 0 <= n
  | TAdvance ms => 0 <= ms
  | _ => True
  end.

Definition dt (o : top) : Z := match o with TAdvance ms => ms | _ => 0 end.

Lemma rel_init incl base n : 0 <= base ->
  Rel (tinit incl base n) (mkSp (mkB (burst c) 0) base false (repeat (mkT true false) n)).
Proof. intro H. unfold Rel; cbn. split; [apply bucket_rel_init; auto | repeat split; auto]. Qed.

Lemma set_nth_same {A} (l : list A) i t : nth_error l i = Some t -> set_nth i t l = l.
Proof.
  revert i. induction l as [|x l IH]; intros i H; destruct i; cbn in *; try discriminate; auto.
  - congruence.
  - now rewrite IH.
Qed.

Lemma tstep_refines s a o :
  Rel s a -> op_ok (sp_clock a) o ->
  snd (tstep c s o) = snd (sp_tstep c a o) /\
  Rel (fst (tstep c s o)) (fst (sp_tstep c a o)) /\
  sp_clock (fst (sp_tstep c a o)) = sp_clock a + dt o.
Proof.
  intros HR Hok. pose proof HR as [RB [RC [RD [RI R0]]]].
  destruct s as [st d l]. destruct a as [b clk d' l'].
  cbn [tstore tdown tinsts sp_bucket sp_clock sp_tdown sp_insts] in *. subst d' l' clk.
  assert (MK : forall st' d l b' k, bucket_rel c st' b' -> rnow st' = k -> 0 <= k ->
            Rel (mkTS st' d l) (mkSp b' k d l)).
  { intros. unfold Rel; cbn. auto. }
  destruct o as [i now n rescue brk|ms| | |i|i now n rescue r|i now n rescue|i now n rescue ran|i|i now n rescue brk]; cbn [tstep sp_tstep dt tstore tdown tinsts sp_bucket sp_clock sp_tdown sp_insts].
  - destruct (nth_error l i) as [t|] eqn:Hn; [|cbn [fst snd]; split; [reflexivity|split; [exact HR|cbn; lia]]].
    unfold reserve.
    destruct (alive t); cbn [negb].
    + destruct (d || negb brk)%bool.
      * cbn [fst snd]. split; [reflexivity|]. split; [|cbn; lia]. apply MK; auto.
      * destruct Hok as [Hn1 Hn2]. subst now. unfold unix_s.
        pose proof (script_refines_bucket c Hrate Hburst Hkeys st b n RB ltac:(lia) Hn2) as S.
        cbv zeta in S.
        destruct (bucket_take (rate c) (burst c) b (rnow st / 1000) n) as [b' g].
        destruct S as [st' [S1 [S2 [S3 S4]]]]. rewrite S1.
        destruct g; cbn [token_reply fst snd]; (split; [reflexivity|]); (split; [|cbn; lia]);
          rewrite (set_nth_same _ _ _ Hn); rewrite <- S3; apply MK; auto; lia.
    + cbn [fst snd]. rewrite (set_nth_same _ _ _ Hn). split; [reflexivity|split; [exact HR|cbn; lia]].
  - cbn [fst snd]. split; [reflexivity|]. split; [|cbn; lia].
    cbn [op_ok] in Hok. apply MK; [apply bucket_rel_advance; auto|cbn; lia|lia].
  - cbn [fst snd]. split; [reflexivity|]. split; [|cbn; lia]. apply MK; auto.
  - cbn [fst snd]. split; [reflexivity|]. split; [|cbn; lia]. apply MK; auto.
  - destruct (nth_error l i) as [t|]; [|cbn [fst snd]; split; [reflexivity|split; [exact HR|cbn; lia]]].
    destruct (monitor t && negb d)%bool; cbn [fst snd]; (split; [reflexivity|]); (split; [|cbn; lia]); auto.
  - destruct (nth_error l i) as [t|]; [|cbn [fst snd]; split; [reflexivity|split; [exact HR|cbn; lia]]].
    destruct (alive t); cbn [negb]; [|cbn [fst snd]; split; [reflexivity|split; [exact HR|cbn; lia]]].
    destruct (token_reply t r rescue) as [t' ob]. cbn [fst snd].
    split; [reflexivity|]. split; [|cbn; lia]. apply MK; auto.
  - destruct (nth_error l i) as [t|]; cbn [fst snd]; (split; [reflexivity|split; [exact HR|cbn; lia]]).
  - destruct (nth_error l i) as [t|]; [|cbn [fst snd]; split; [reflexivity|split; [exact HR|cbn; lia]]].
    destruct (alive t); cbn [negb]; [|cbn [fst snd]; split; [reflexivity|split; [exact HR|cbn; lia]]].
    destruct ran; [|cbn [fst snd]; split; [reflexivity|split; [exact HR|cbn; lia]]].
    destruct Hok as [Hn1 Hn2]. subst now. unfold unix_s.
    pose proof (script_refines_bucket c Hrate Hburst Hkeys st b n RB ltac:(lia) Hn2) as S.
    cbv zeta in S.
    destruct (bucket_take (rate c) (burst c) b (rnow st / 1000) n) as [b' g].
    destruct S as [st' [S1 [S2 [S3 S4]]]]. rewrite S1. cbn [fst snd].
    split; [reflexivity|]. split; [|cbn; lia]. rewrite <- S3. apply MK; auto; lia.
  - destruct (nth_error l i) as [t|]; [|cbn [fst snd]; split; [reflexivity|split; [exact HR|cbn; lia]]].
    destruct (monitor t); cbn [fst snd]; (split; [reflexivity|]); (split; [|cbn; lia]); auto.
  - destruct (nth_error l i) as [t|] eqn:Hn; [|cbn [fst snd]; split; [reflexivity|split; [exact HR|cbn; lia]]].
    unfold reserve_late.
    destruct (d || negb brk)%bool.
    + cbn [fst snd]. split; [reflexivity|]. split; [|cbn; lia]. apply MK; auto.
    + destruct Hok as [Hn1 Hn2]. subst now. unfold unix_s.
      pose proof (script_refines_bucket c Hrate Hburst Hkeys st b n RB ltac:(lia) Hn2) as S.
      cbv zeta in S.
      destruct (bucket_take (rate c) (burst c) b (rnow st / 1000) n) as [b' g].
      destruct S as [st' [S1 [S2 [S3 S4]]]]. rewrite S1.
      destruct g; cbn [fst snd]; (split; [reflexivity|]); (split; [|cbn; lia]);
        rewrite (set_nth_same _ _ _ Hn); rewrite <- S3; apply MK; auto; lia.
Qed.

Lemma twf_cons clock o ops : twf clock (o :: ops) = true -> op_ok clock o /\ twf (clock + dt o) ops = true.
Proof.
  destruct o as [i now n rescue brk|ms| | |i|i now n rescue r|i now n rescue|i now n rescue ran|i|i now n rescue brk]; cbn [twf op_ok dt]; rewrite ?Z.add_0_r; intro H; auto.
  - apply andb_true_iff in H. destruct H as [H H3]. apply andb_true_iff in H. destruct H as [H1 H2].
    apply Z.eqb_eq in H1. apply Z.leb_le in H2. auto.
  - apply andb_true_iff in H. destruct H as [H1 H2]. apply Z.leb_le in H1. auto.
  - apply andb_true_iff in H. destruct H as [H H3]. apply andb_true_iff in H. destruct H as [H1 H2].
    apply Z.eqb_eq in H1. apply Z.leb_le in H2. auto.
  - apply andb_true_iff in H. destruct H as [H H3]. apply andb_true_iff in H. destruct H as [H1 H2].
    apply Z.eqb_eq in H1. apply Z.leb_le in H2. auto.
  - apply andb_true_iff in H. destruct H as [H H3]. apply andb_true_iff in H. destruct H as [H1 H2].
    apply Z.eqb_eq in H1. apply Z.leb_le in H2. auto.
  - apply andb_true_iff in H. destruct H as [H H3]. apply andb_true_iff in H. destruct H as [H1 H2].
    apply Z.eqb_eq in H1. apply Z.leb_le in H2. auto.
Qed.

(* every answer of every instance, on every history, is the answer of the machine in which
   the script is replaced by the ideal shared bucket *)
Lemma trun_refines : forall ops s a,
  Rel s a -> twf (sp_clock a) ops = true ->
  trun c s ops = sp_trun c a ops /\ Rel (tfinal c s ops) (sp_tfinal c a ops).
Proof.
  induction ops as [|o ops IH]; intros s a HR Hwf; cbn [trun sp_trun tfinal sp_tfinal]; [auto|].
  apply twf_cons in Hwf. destruct Hwf as [Hok Hwf].
  destruct (tstep_refines s a o HR Hok) as [A [B C]].
  destruct (tstep c s o) as [s' r]. destruct (sp_tstep c a o) as [a' r']. cbn [fst snd] in *.
  rewrite <- C in Hwf. destruct (IH s' a' B Hwf) as [E F]. split; [congruence|exact F].
Qed.

Lemma unix_s_mono x y : x <= y -> unix_s x <= unix_s y.
Proof. intro H. unfold unix_s. apply Z.div_le_mono; lia. Qed.

(* accounting over a history of the ideal machine *)
Lemma joint_bound_spec : forall ops a t0,
  twf (sp_clock a) ops = true -> 0 <= btokens (sp_bucket a) -> t0 <= unix_s (sp_clock a) ->
  let af := sp_tfinal c a ops in
  granted_by_script ops (sp_trun c a ops) + lvl (sp_bucket af) (unix_s (sp_clock af))
    <= lvl (sp_bucket a) t0 + rate c * (unix_s (sp_clock af) - t0) /\
  0 <= btokens (sp_bucket af) /\ sp_clock af = sp_clock a + telapsed ops.
Proof.
  induction ops as [|o ops IH]; intros a t0 Hwf HT Ht0; cbn [sp_tfinal sp_trun granted_by_script telapsed].
  - cbv zeta. split; [|split; [auto|lia]].
    pose proof (level_lipschitz (rate c) (burst c) ltac:(lia) (sp_bucket a) t0 (unix_s (sp_clock a)) Ht0). lia.
  - apply twf_cons in Hwf. destruct Hwf as [Hok Hwf].
    destruct o as [i now n rescue brk|ms| | |i|i now n rescue r|i now n rescue|i now n rescue ran|i|i now n rescue brk]; cbn [sp_tstep dt] in *; rewrite ?Z.add_0_r in Hwf.
    + destruct (nth_error (sp_insts a) i) as [t|]; [|cbn [fst]; apply IH; auto].
      destruct (alive t); cbn [negb]; [|cbn [fst snd]; destruct rescue; apply IH; auto].
      destruct (sp_tdown a || negb brk)%bool; [cbn [fst snd]; destruct rescue; apply (IH (mkSp _ _ _ _)); auto|].
      destruct Hok as [-> Hn].
      pose proof (take_accounts (rate c) (burst c) ltac:(lia) ltac:(lia) (sp_bucket a) (unix_s (sp_clock a)) n HT Hn) as A.
      destruct (bucket_take (rate c) (burst c) (sp_bucket a) (unix_s (sp_clock a)) n) as [b' g].
      destruct A as [A1 [A2 [A3 A4]]]. cbn [fst].
      specialize (IH (mkSp b' (sp_clock a) (sp_tdown a) (set_nth i t (sp_insts a))) (unix_s (sp_clock a)) Hwf (proj1 A2) (Z.le_refl _)).
      cbv zeta in IH. destruct IH as [I1 [I2 I3]]. cbn [sp_clock sp_bucket] in I1, I3.
      assert (L : lvl b' (unix_s (sp_clock a)) = btokens b') by (rewrite <- A3; apply level_at_own_time; auto).
      pose proof (level_lipschitz (rate c) (burst c) ltac:(lia) (sp_bucket a) t0 (unix_s (sp_clock a)) Ht0).
      cbv zeta. split; [|split; auto].
      destruct g; lia.
    + cbn [fst]. specialize (IH (mkSp (sp_bucket a) (sp_clock a + ms) (sp_tdown a) (sp_insts a)) t0 Hwf HT).
      cbn [sp_clock sp_bucket] in IH. cbv zeta in *. cbn [op_ok] in Hok.
      pose proof (unix_s_mono (sp_clock a) (sp_clock a + ms) ltac:(lia)).
      destruct IH as [I1 [I2 I3]]; [lia|]. repeat split; auto. lia.
    + cbn [fst]. apply (IH (mkSp _ _ _ _)); auto.
    + cbn [fst]. apply (IH (mkSp _ _ _ _)); auto.
    + destruct (nth_error (sp_insts a) i) as [t|]; [|cbn [fst]; apply IH; auto].
      destruct (monitor t && negb (sp_tdown a))%bool; cbn [fst]; [apply (IH (mkSp _ _ _ _))|apply IH]; auto.
    + destruct (nth_error (sp_insts a) i) as [t|]; [|cbn [fst]; apply IH; auto].
      destruct (alive t); cbn [negb]; [|cbn [fst snd]; apply IH; auto].
      destruct (token_reply t r rescue) as [t' ob]. cbn [fst snd]. apply (IH (mkSp _ _ _ _)); auto.
    + destruct (nth_error (sp_insts a) i) as [t|]; cbn [fst snd]; apply IH; auto.
    + destruct (nth_error (sp_insts a) i) as [t|]; [|cbn [fst]; apply IH; auto].
      destruct (alive t); cbn [negb]; [|cbn [fst snd]; apply IH; auto].
      destruct ran; [|cbn [fst snd]; apply IH; auto].
      destruct Hok as [-> Hn].
      pose proof (take_accounts (rate c) (burst c) ltac:(lia) ltac:(lia) (sp_bucket a) (unix_s (sp_clock a)) n HT Hn) as A.
      destruct (bucket_take (rate c) (burst c) (sp_bucket a) (unix_s (sp_clock a)) n) as [b' g].
      destruct A as [A1 [A2 [A3 A4]]]. cbn [fst snd].
      specialize (IH (mkSp b' (sp_clock a) (sp_tdown a) (sp_insts a)) (unix_s (sp_clock a)) Hwf (proj1 A2) (Z.le_refl _)).
      cbv zeta in IH. destruct IH as [I1 [I2 I3]]. cbn [sp_clock sp_bucket] in I1, I3.
      assert (L : lvl b' (unix_s (sp_clock a)) = btokens b') by (rewrite <- A3; apply level_at_own_time; auto).
      pose proof (level_lipschitz (rate c) (burst c) ltac:(lia) (sp_bucket a) t0 (unix_s (sp_clock a)) Ht0).
      cbv zeta. split; [|split; auto].
      destruct g; lia.
    + destruct (nth_error (sp_insts a) i) as [t|]; [|cbn [fst]; apply IH; auto].
      destruct (monitor t); cbn [fst]; [apply (IH (mkSp _ _ _ _))|apply IH]; auto.
    + destruct (nth_error (sp_insts a) i) as [t|]; [|cbn [fst]; apply IH; auto].
      destruct (sp_tdown a || negb brk)%bool; [cbn [fst snd]; destruct rescue; apply (IH (mkSp _ _ _ _)); auto|].
      destruct Hok as [-> Hn].
      pose proof (take_accounts (rate c) (burst c) ltac:(lia) ltac:(lia) (sp_bucket a) (unix_s (sp_clock a)) n HT Hn) as A.
      destruct (bucket_take (rate c) (burst c) (sp_bucket a) (unix_s (sp_clock a)) n) as [b' g].
      destruct A as [A1 [A2 [A3 A4]]]. cbn [fst].
      specialize (IH (mkSp b' (sp_clock a) (sp_tdown a) (set_nth i t (sp_insts a))) (unix_s (sp_clock a)) Hwf (proj1 A2) (Z.le_refl _)).
      cbv zeta in IH. destruct IH as [I1 [I2 I3]]. cbn [sp_clock sp_bucket] in I1, I3.
      assert (L : lvl b' (unix_s (sp_clock a)) = btokens b') by (rewrite <- A3; apply level_at_own_time; auto).
      pose proof (level_lipschitz (rate c) (burst c) ltac:(lia) (sp_bucket a) t0 (unix_s (sp_clock a)) Ht0).
      cbv zeta. split; [|split; auto].
      destruct g; cbn [snd]; destruct (alive t); lia.
Qed.

(* TOKEN JOINT BOUND on the model *)
Lemma joint_bound_model s a ops :
  Rel s a -> twf (sp_clock a) ops = true ->
  trun c s ops = sp_trun c a ops /\
  granted_by_script ops (trun c s ops)
    <= burst c + rate c * (unix_s (sp_clock a + telapsed ops) - unix_s (sp_clock a)).
Proof.
  intros HR Hwf. destruct (trun_refines ops s a HR Hwf) as [E _]. split; [exact E|]. rewrite E.
  destruct HR as [[HT _] _].
  destruct (joint_bound_spec ops a (unix_s (sp_clock a)) Hwf (proj1 HT) (Z.le_refl _)) as [A [B C]].
  cbv zeta in A. rewrite C in A.
  pose proof (level_le_burst (rate c) (burst c) (sp_bucket a) (unix_s (sp_clock a))).
  pose proof (level_nonneg (rate c) (burst c) ltac:(lia) ltac:(lia) (sp_bucket (sp_tfinal c a ops)) (unix_s (sp_clock a + telapsed ops)) B).
  lia.
Qed.
End Machine.
