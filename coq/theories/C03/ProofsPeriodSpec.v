(* C03 — the period specification used by Check.prop_ok (Model.sp_pstep: a counter and a period
   end per key) answers exactly like the model (generated periodscript + TakeCtx wrapper) on
   ALL histories from related states, including foreign writes of arbitrary values: INCRBY on a
   non-integer value is an error reply (ENotInt), reported as (Unknown, error), nothing changes. *)
From Coq Require Import List ZArith String Bool Lia.
From GZ Require Import Lib.RedisStore Lib.RedisStoreFacts C03.Model C03.GenProofs C03.ProofsPeriod.
Import ListNotations.
Open Scope Z_scope.

Definition cell_of (o : option entry) : option pcell :=
  match o with
  | Some (mkEntry (BInt z) ex) => Some (PCount z ex)
  | Some (mkEntry (BStr _) ex) => Some (PGarbage ex)
  | None => None
  end.

Definition PRel (s : pstate) (a : pspec) : Prop :=
  sp_now a = rnow (pstore s) /\ sp_down a = pdown s /\ sp_incl a = expiry_inclusive (pstore s) /\
  forall k, cell_find k (sp_cells a) = cell_of (find k (rdata (pstore s))).

Lemma prel_init incl base : PRel (pinit incl base) (sp_pinit incl base).
Proof. repeat split; auto. Qed.

Lemma cell_find_put_same k c l : cell_find k (cell_put k c l) = Some c.
Proof.
  induction l as [|[k' c'] l IH]; cbn; [now rewrite bulk_eqb_refl|].
  destruct (bulk_eqb k k') eqn:E; cbn; [now rewrite bulk_eqb_refl|now rewrite E].
Qed.

Lemma cell_find_put_other k k' c l : bulk_eqb k' k = false -> cell_find k' (cell_put k c l) = cell_find k' l.
Proof.
  intro N. induction l as [|[k2 c2] l IH]; cbn; [now rewrite N|].
  destruct (bulk_eqb k k2) eqn:E; cbn.
  - apply bulk_eqb_eq in E. subst k2. now rewrite N.
  - destruct (bulk_eqb k' k2); auto.
Qed.

Lemma cell_until_of e : forall cl, cell_of (Some e) = Some cl -> cell_until cl = eexp e.
Proof. destruct e as [[z|x] ex]; cbn; intros cl H; inversion H; reflexivity. Qed.

Lemma cell_seen_rel s a k : PRel s a -> cell_seen a k = cell_of (lookup (pstore s) k).
Proof.
  intros [R1 [R2 [R3 R4]]]. unfold cell_seen, lookup. rewrite R4, R1, R3.
  destruct (find k (rdata (pstore s))) as [[[z|x] [t|]]|]; cbn; try reflexivity;
    destruct (before (expiry_inclusive (pstore s)) (rnow (pstore s)) t); reflexivity.
Qed.

Lemma after_expire_live k p st e : lookup st k = Some e -> 1 <= p ->
  after_expire k p st = store_put st k (mkEntry (evalue e) (Some (rnow st + p * 1000))).
Proof.
  intros L Hp. unfold after_expire. cbn [exec]. rewrite L.
  assert (E : (p <=? 0) = false) by (apply Z.leb_gt; lia). now rewrite E.
Qed.

(* relation after overwriting one key on both sides *)
Lemma prel_put s a key e cl :
  PRel s a -> pdown s = false -> cell_of (Some e) = Some cl ->
  PRel (mkP (store_put (pstore s) key e) false) (sp_with a (cell_put key cl (sp_cells a))).
Proof.
  intros [R1 [R2 [R3 R4]]] Hd Hc. unfold PRel, sp_with; cbn. repeat split; auto; try congruence.
  intro k. destruct (bulk_eqb k key) eqn:E.
  - apply bulk_eqb_eq in E. subst k. now rewrite cell_find_put_same, find_put_same.
  - rewrite cell_find_put_other, find_put_other by assumption. apply R4.
Qed.

Lemma put_put st k e1 e2 : store_put (store_put st k e1) k e2 = store_put st k e2.
Proof.
  unfold store_put; cbn. f_equal. induction (rdata st) as [|[k' e'] d IH]; cbn.
  - now rewrite bulk_eqb_refl.
  - destruct (bulk_eqb k k') eqn:E; cbn; [now rewrite bulk_eqb_refl|]. rewrite E. now rewrite IH.
Qed.

Section Spec.
Variable c : pcfg.
Hypothesis Hwin : forall t, 1 <= window c t.

Lemma pstep_refines s a o :
  PRel s a ->
  snd (pstep c s o) = snd (sp_pstep c a o) /\ PRel (fst (pstep c s o)) (fst (sp_pstep c a o)).
Proof.
  intros HR. pose proof HR as [R1 [R2 [R3 R4]]].
  destruct o as [key brk|ms| | |key v|key|key f]; cbn [pstep sp_pstep].
  - unfold take. rewrite R2.
    destruct (pdown s || negb brk)%bool eqn:Hd; [cbn; auto|].
    apply orb_false_iff in Hd. destruct Hd as [Hd _].
    rewrite period_script_spec, (cell_seen_rel s a key HR), R1.
    pose proof (Hwin (rnow (pstore s))) as W.
    destruct (lookup (pstore s) key) as [[[z|x] ex]|] eqn:L; cbn [cell_of]; cbv beta iota zeta.
    + (* a counter *)
      rewrite period_reply_code. cbn [fst snd]. split; [reflexivity|].
      destruct (z + 1 =? 1) eqn:E1.
      * pose proof (lookup_live _ _ _ L) as LV. unfold live in LV; cbn [eexp] in LV.
        rewrite (after_expire_live key _ _ (mkEntry (BInt (z + 1)) ex));
          [|rewrite lookup_put_same; unfold live; cbn [eexp]; now rewrite LV | exact W].
        rewrite put_put. cbn [evalue rnow store_put]. apply prel_put; auto.
      * apply prel_put; auto.
    + (* garbage: INCRBY fails, nothing changes *)
      cbn [fst snd period_reply]. split; [reflexivity|].
      unfold PRel; cbn. repeat split; auto. congruence.
    + (* absent or expired: a new period *)
      rewrite period_reply_code. cbn [fst snd]. split; [reflexivity|].
      rewrite (after_expire_live key _ _ (mkEntry (BInt 1) None)); [|rewrite lookup_put_same; reflexivity|exact W].
      rewrite put_put. cbn [evalue rnow store_put]. apply prel_put; auto.
  - cbn [fst snd]. split; [reflexivity|]. unfold PRel; cbn. repeat split; auto; congruence.
  - cbn [fst snd]. split; [reflexivity|]. unfold PRel; cbn. repeat split; auto.
  - cbn [fst snd]. split; [reflexivity|]. unfold PRel; cbn. repeat split; auto.
  - cbn [fst snd]. split; [reflexivity|]. rewrite R2. destruct (pdown s) eqn:Hd; [exact HR|].
    apply prel_put; auto. destruct v; reflexivity.
  - cbn [fst snd]. split; [|exact HR]. f_equal. rewrite (cell_seen_rel s a key HR). unfold pttl.
    destruct (lookup (pstore s) key) as [[[z|x] [t|]]|]; cbn; rewrite ?R1; reflexivity.
  - cbn [fst snd]. split; [reflexivity|exact HR].
Qed.

Lemma prun_refines : forall ops s a, PRel s a -> prun c s ops = sp_prun c a ops.
Proof.
  induction ops as [|o ops IH]; intros s a HR; cbn [prun sp_prun]; [reflexivity|].
  destruct (pstep_refines s a o HR) as [A B].
  destruct (pstep c s o) as [s' r]. destruct (sp_pstep c a o) as [a' r']. cbn [fst snd] in *.
  now rewrite A, (IH s' a' B).
Qed.
End Spec.
