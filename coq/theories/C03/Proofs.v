(* C03 — the statements used in Props.v, assembled from ProofsPeriod / ProofsToken / ProofsBucket. *)
From Coq Require Import List ZArith String Bool Lia.
From GZ Require Import Lib.RedisStore Lib.RedisStoreFacts C03.Model C03.GenProofs
                       C03.ProofsBucket C03.ProofsPeriod C03.ProofsPeriodSpec C03.ProofsToken.
Import ListNotations.
Open Scope Z_scope.

(* ------------------------------------------------------------------ PeriodLimit *)
Lemma period_exact_quota_all c key s ops :
  (forall t, 1 <= window c t) -> pdown s = false -> lookup (pstore s) key = None ->
  forallb (calm key) ops = true ->
  let w := window c (rnow (pstore s)) in
  let incl := expiry_inclusive (pstore s) in
  pelapsed ops < w * 1000 ->
  let s1 := fst (pstep c s (PTake key true)) in
  snd (pstep c s (PTake key true)) = PAns (code_of 1 (pquota c)) false /\
  answers key ops (prun c s1 ops) = expect c key 1 false ops /\
  (forall d, before incl (pelapsed ops + d) (w * 1000) = false ->
     lookup (pstore (fst (pstep c (pfinal c s1 ops) (PAdvance d)))) key = None).
Proof.
  intros Hw Hd HL HQ w incl HE. cbn [pstep].
  destruct (take_fresh c Hw key s Hd HL) as [st2 [T1 [T2 [T3 T4]]]]. rewrite T1. cbn [fst snd].
  split; [reflexivity|]. fold w in T2.
  destruct (period_history c key ops (mkP st2 false) 1 (rnow (pstore s) + w * 1000)) as [A [B [C D]]];
    auto; try lia.
  - cbn. lia.
  - split; [exact A|]. intros d Hdd. cbn [fst pstore].
    unfold lookup, advance. cbn [rdata rnow expiry_inclusive]. rewrite B. unfold live. cbn [eexp].
    rewrite C, D. cbn [pstore]. rewrite T3, T4.
    replace (rnow (pstore s) + pelapsed ops + d) with (rnow (pstore s) + (pelapsed ops + d)) by lia.
    rewrite before_shift. fold incl. now rewrite Hdd.
Qed.

(* the same theorem read for an aligned limiter: the period that a first request at time t
   starts ends at the next multiple of the period on the local clock *)
Lemma aligned_period_quota_all c key s ops :
  1 <= pperiod c -> palign c = true -> pdown s = false -> lookup (pstore s) key = None ->
  forallb (calm key) ops = true ->
  let unix := rnow (pstore s) / 1000 in
  let w := window c (rnow (pstore s)) in
  let incl := expiry_inclusive (pstore s) in
  1 <= w <= pperiod c /\ (unix + poffset c + w) mod pperiod c = 0 /\
  (pelapsed ops < w * 1000 ->
   let s1 := fst (pstep c s (PTake key true)) in
   snd (pstep c s (PTake key true)) = PAns (code_of 1 (pquota c)) false /\
   answers key ops (prun c s1 ops) = expect c key 1 false ops /\
   (forall d, before incl (pelapsed ops + d) (w * 1000) = false ->
      lookup (pstore (fst (pstep c (pfinal c s1 ops) (PAdvance d)))) key = None)).
Proof.
  intros Hp Ha Hd HL HQ unix w incl.
  destruct (window_spec c (rnow (pstore s)) Hp) as [W1 [W2 _]].
  split; [exact W1|]. split; [exact (W2 Ha)|]. intro HE.
  apply period_exact_quota_all; auto.
  intro t. destruct (window_spec c t Hp) as [X _]. lia.
Qed.

Lemma period_error_not_grant_all c s key brk :
  ((pdown s = true \/ brk = false) -> pstep c s (PTake key brk) = (s, PAns Unknown true)) /\
  (forall cd e, snd (pstep c s (PTake key brk)) = PAns cd e ->
     (e = true -> cd = Unknown) /\ (cd <> Unknown -> e = false /\ pdown s = false /\ brk = true)).
Proof.
  split.
  - intro H. cbn [pstep]. unfold take.
    assert (X : (pdown s || negb brk)%bool = true) by (destruct H as [-> | ->]; [reflexivity|apply orb_true_r]).
    now rewrite X.
  - intros cd e. cbn [pstep]. unfold take. destruct (pdown s || negb brk)%bool eqn:Hd.
    + cbn. intro H. inversion H; subst. split; [auto|congruence].
    + apply orb_false_iff in Hd. destruct Hd as [Hd Hb]. apply negb_false_iff in Hb.
      destruct (eval _ _ _ _) as [r st']. destruct (period_reply r) as [cd' e'] eqn:PR. cbn [snd]. intro H. inversion H; subst.
      pose proof (period_reply_sound r) as [S1 S2]. rewrite PR in S1, S2. cbn [fst snd] in S1, S2.
      split; [exact S1|]. intro Hc. destruct (S2 Hc) as [S3 _]. auto.
Qed.

(* the specification used by Check.prop_ok is the model, on all histories *)
Lemma period_spec_refines_all c incl base ops :
  (forall t, 1 <= window c t) ->
  prun c (pinit incl base) ops = sp_prun c (sp_pinit incl base) ops.
Proof. intro Hw. apply prun_refines; auto. apply prel_init. Qed.

(* ------------------------------------------------------------------ TokenLimiter *)
Lemma twf_app : forall pre clock mid,
  twf clock (pre ++ mid) = (twf clock pre && twf (clock + telapsed pre) mid)%bool.
Proof.
  induction pre as [|o pre IH]; intros clock mid; cbn [app twf telapsed].
  - now rewrite Z.add_0_r.
  - destruct o; cbn [twf telapsed]; rewrite ?IH, ?andb_assoc; try reflexivity.
    now rewrite Z.add_assoc.
Qed.

Lemma trun_app c : forall pre s mid, trun c s (pre ++ mid) = trun c s pre ++ trun c (tfinal c s pre) mid.
Proof.
  induction pre as [|o pre IH]; intros s mid; cbn [app trun tfinal]; [reflexivity|].
  destruct (tstep c s o) as [s' r]. cbn [fst]. now rewrite IH.
Qed.

Lemma sp_clock_final c : forall ops a, sp_clock (sp_tfinal c a ops) = sp_clock a + telapsed ops.
Proof.
  induction ops as [|o ops IH]; intro a; cbn [sp_tfinal telapsed]; [lia|].
  rewrite IH. destruct o as [i now n r brk|ms| | |i|i now n r rp|i now n r|i now n r ran|i|i now n r brk]; cbn [sp_tstep telapsed]; try (cbn; lia).
  - destruct (nth_error (sp_insts a) i) as [t|]; [|cbn; lia].
    destruct (alive t); cbn [negb]; [|cbn; lia]. destruct (sp_tdown a || negb brk)%bool; [cbn; lia|].
    destruct (bucket_take _ _ _ _ _). cbn. lia.
  - destruct (nth_error (sp_insts a) i) as [t|]; [|cbn; lia].
    destruct (monitor t && negb (sp_tdown a))%bool; cbn; lia.
  - destruct (nth_error (sp_insts a) i) as [t|]; [|cbn; lia].
    destruct (alive t); cbn [negb]; [|cbn; lia]. destruct (token_reply t rp r). cbn. lia.
  - destruct (nth_error (sp_insts a) i) as [t|]; cbn; lia.
  - destruct (nth_error (sp_insts a) i) as [t|]; [|cbn; lia].
    destruct (alive t); cbn [negb]; [|cbn; lia]. destruct ran; [|cbn; lia].
    destruct (bucket_take _ _ _ _ _). cbn. lia.
  - destruct (nth_error (sp_insts a) i) as [t|]; [|cbn; lia].
    destruct (monitor t); cbn; lia.
  - destruct (nth_error (sp_insts a) i) as [t|]; [|cbn; lia].
    destruct (sp_tdown a || negb brk)%bool; [cbn; lia|].
    destruct (bucket_take _ _ _ _ _). cbn. lia.
Qed.

Lemma token_joint_bound_all c incl base n pre mid :
  1 <= rate c -> 0 <= burst c -> ktokens c <> kts c -> 0 <= base ->
  twf base (pre ++ mid) = true ->
  let s0 := tinit incl base n in
  let a0 := mkSp (mkB (burst c) 0) base false (repeat (mkT true false) n) in
  let t1 := base + telapsed pre in
  trun c s0 (pre ++ mid) = sp_trun c a0 (pre ++ mid) /\
  granted_by_script mid (trun c (tfinal c s0 pre) mid)
    <= burst c + rate c * (unix_s (t1 + telapsed mid) - unix_s t1).
Proof.
  intros Hr Hb Hk Hbase Hwf s0 a0 t1.
  pose proof (rel_init c Hr Hb incl base n Hbase) as R0. fold s0 a0 in R0.
  split.
  - exact (proj1 (trun_refines c Hr Hb Hk (pre ++ mid) s0 a0 R0 Hwf)).
  - rewrite twf_app in Hwf. apply andb_true_iff in Hwf. destruct Hwf as [W1 W2].
    destruct (trun_refines c Hr Hb Hk pre s0 a0 R0 W1) as [_ R1].
    pose proof (sp_clock_final c pre a0) as CK. cbn [sp_clock a0] in CK.
    assert (W2' : twf (sp_clock (sp_tfinal c a0 pre)) mid = true) by (rewrite CK; exact W2).
    destruct (joint_bound_model c Hr Hb Hk (tfinal c s0 pre) (sp_tfinal c a0 pre) mid R1 W2') as [_ B].
    rewrite CK in B. exact B.
Qed.

(* the in-process bucket: xrate.NewLimiter(Every(time.Second/rate), burst), ideal version *)
Lemma local_run_is_bucket rt bs : forall calls b,
  local_run rt bs b calls =
  bucket_run 1 (bs * interval_ns rt) b (map (fun x => (fst x, snd x * interval_ns rt)) calls).
Proof.
  induction calls as [|[t n] cs IH]; intro b; cbn [local_run bucket_run map fst snd]; [reflexivity|].
  unfold local_take. destruct (bucket_take _ _ _ _ _) as [b' g]. now rewrite IH.
Qed.

Lemma local_granted_scaled I : forall calls gs,
  local_granted (map (fun x => (fst x, snd x * I)) calls) gs = local_granted calls gs * I.
Proof.
  induction calls as [|[t n] cs IH]; intros gs; cbn [map local_granted fst snd]; [reflexivity|].
  destruct gs as [|[|] gs]; cbn [local_granted]; rewrite ?IH; lia.
Qed.

Lemma rescue_local_bound_all rt bs calls b t0 :
  1 <= rt -> rt <= 1000000000 -> 0 <= bs -> 0 <= btokens b -> calls_ok t0 calls ->
  local_granted calls (local_run rt bs b calls) * interval_ns rt
    <= bs * interval_ns rt + (last_time t0 calls - t0).
Proof.
  intros H1 H2 H3 H4 H5.
  assert (HI : 1 <= interval_ns rt).
  { unfold interval_ns. apply Z.div_le_lower_bound; lia. }
  rewrite local_run_is_bucket, <- local_granted_scaled.
  set (calls' := map (fun x => (fst x, snd x * interval_ns rt)) calls).
  assert (OK : calls_ok t0 calls').
  { unfold calls'. clear -H5 HI. revert t0 H5. induction calls as [|[t n] cs IH]; intros t0 H; cbn; auto.
    destruct H as [A [B C]]. repeat split; auto. nia. }
  assert (LT : last_time t0 calls' = last_time t0 calls).
  { unfold calls'. clear. revert t0. induction calls as [|[t n] cs IH]; intro t0; cbn; auto. }
  pose proof (bucket_bound 1 (bs * interval_ns rt) ltac:(lia) ltac:(nia) calls' b t0 H4 OK) as B.
  pose proof (level_le_burst 1 (bs * interval_ns rt) b t0). rewrite LT in B. lia.
Qed.
