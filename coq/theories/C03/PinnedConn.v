(* C03 — seeded C03-9: a CONNECTION-level fault taken for an unreachable store.  The pooled connection that
   carries a request's script command is dropped (reset by a proxy, idle connection killed, fail-over) while the
   store is up and every other connection works.  The client library sends the command again on another
   connection, so today such a request is an ordinary [TAllow] answered by the shared bucket.  [cd_step]: the
   variant without that second attempt - the request fails, the instance starts its monitor and answers from
   its private bucket.  Rate 1 / burst 5, two instances, the store reachable all the time: the shared bucket is
   drained (5 tokens), then one request of instance 0 loses its connection: it is GRANTED by the private
   bucket, and so are four more before the 100 ms monitor brings the instance back: 10 tokens at one instant,
   bound 5.  HEAD refuses all five and instance 0 never leaves the shared bucket. *)
From Coq Require Import List ZArith String QArith Bool.
From GZ Require Import Lib.RedisStore C03.Model C03.Pinned.
Import ListNotations.
Open Scope Z_scope.

Definition cd_step (c : tcfg) (s : tstate) (fo : bool * top) : tstate * tobs :=
  match fo with
  | (true, TAllow i now n rescue _) =>
    match nth_error (tinsts s) i with
    | Some t => let '(st', t', r) := reserve c t now n rescue (tstore s) true in
                (mkTS st' (tdown s) (set_nth i t' (tinsts s)), r)
    | None => (s, TU)
    end
  | (_, o) => tstep c s o
  end.
Fixpoint cd_run (c : tcfg) (s : tstate) (ops : list (bool * top)) : list tobs :=
  match ops with
  | [] => []
  | o :: ops' => let '(s', r) := cd_step c s o in r :: cd_run c s' ops'
  end.
Definition cd_cfg := mkCfg 1 5 (BStr "{tk}.tokens") (BStr "{tk}.ts").
Definition cd_history : list (bool * top) :=
  [(false, TAllow 0 skew_T 3 false true); (false, TAllow 1 skew_T 2 false true); (false, TAllow 1 skew_T 1 false true);
   (true, TAllow 0 skew_T 1 true true);
   (false, TAllow 0 skew_T 1 true true); (false, TAllow 0 skew_T 1 true true); (false, TAllow 0 skew_T 1 true true);
   (false, TAllow 0 skew_T 1 true true); (false, TAllow 1 skew_T 1 false true)].
Theorem dropped_connection_is_store_failure_refuted :
  twf skew_T (map snd cd_history) = true /\
  cd_run cd_cfg (tinit true skew_T 2) cd_history =
    [TR true true true; TR true true true; TR false true true;
     TR true false false; TR true false false; TR true false false; TR true false false; TR true false false;
     TR false true true] /\
  trun cd_cfg (tinit true skew_T 2) (map snd cd_history) =
    [TR true true true; TR true true true; TR false true true;
     TR false true true; TR false true true; TR false true true; TR false true true; TR false true true;
     TR false true true] /\
  granted_any (map snd cd_history) (cd_run cd_cfg (tinit true skew_T 2) cd_history) = 10 /\
  burst cd_cfg < granted_any (map snd cd_history) (cd_run cd_cfg (tinit true skew_T 2) cd_history).
Proof. vm_compute. repeat split; reflexivity. Qed.
