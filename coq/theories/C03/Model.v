(* C03 — rate limiters.  Executable model only (no proofs).
   The atomic cores are GENERATED from periodscript.lua / tokenscript.lua (coq/gen/Lua_period.v,
   Lua_token.v, translate/lua2coq.py); this file adds the Go wrappers:
     core/limit/periodlimit.go  TakeCtx: arguments, reply -> {Unknown,Allowed,HitQuota,OverQuota} x error
     core/limit/tokenlimit.go   reserveN: redisAlive flag, error classification, fallback to the
                                in-process "rescue" limiter, startMonitor / waitForRedis.
   The rescue limiter is golang.org/x/time/rate (third party): its decision is an ORACLE argument
   of the op (what the implementation answered); it is checked against the ideal local bucket
   bound by Check.prop_ok and never modelled bit-for-bit.

   Concurrency: Redis runs a script atomically and a call does one EVAL, so concurrent callers /
   limiter instances sharing a key are some sequential history; theorems quantify over all. *)
From Coq Require Import List ZArith String Bool.
From GZ Require Export Lib.RedisStore.
From GZgen Require Lua_period Lua_token.
Import ListNotations.
Open Scope Z_scope.

(* ================================================================== PeriodLimit *)
Inductive pcode := Unknown | Allowed | HitQuota | OverQuota.

Definition pcode_eqb (a b : pcode) : bool :=
  match a, b with
  | Unknown, Unknown | Allowed, Allowed | HitQuota, HitQuota | OverQuota, OverQuota => true
  | _, _ => false
  end.

(* reply of the script -> (code, err != nil) *)
Definition period_reply (r : reply) : pcode * bool :=
  match r with
  | RInt 0 => (OverQuota, false)
  | RInt 1 => (Allowed, false)
  | RInt 2 => (HitQuota, false)
  | RInt _ => (Unknown, true)                 (* ErrUnknownCode *)
  | RNil | RErr _ => (Unknown, true)          (* err != nil *)
  | RBulk _ | RStatus _ => (Unknown, true)    (* resp.(int64) fails: ErrUnknownCode *)
  end.

(* NewPeriodLimit(period, quota, store, prefix, [Align()]) + the zone offset (seconds east of
   UTC) of the process: calcExpireSeconds reads time.Now() and its zone when aligned *)
Record pcfg := mkPC { pquota : Z; pperiod : Z; palign : bool; poffset : Z }.

(* calcExpireSeconds at wall-clock time now_ms (the model takes the caller's wall clock to be
   the store's clock) *)
Definition window (c : pcfg) (now_ms : Z) : Z :=
  if palign c then pperiod c - ((now_ms / 1000 + poffset c) mod pperiod c) else pperiod c.

Record pstate := mkP { pstore : rstate; pdown : bool }.

Inductive pfault := FCtx | FReply (r : reply).

Inductive pop :=
| PTake (key : bulk) (brk : bool)
      (* some caller's TakeCtx on keyPrefix+key; [brk] = go-zero's redis circuit breaker let the
         command through (oracle: false iff the call failed with breaker.ErrServiceUnavailable) *)
| PAdvance (ms : Z)
| PDown | PUp                   (* the store becomes unreachable / reachable *)
| PPoke (key : bulk) (v : bulk) (* a foreign client overwrites the counter (no TTL) *)
| PTtl (key : bulk)             (* observe the key's remaining time to live *)
| PTakeF (key : bulk) (f : pfault).
      (* FAULT: a TakeCtx whose context is already done (the command is never sent), or whose
         command is answered [r] by a faulty store / connection instead of being executed *)

Inductive pobs :=
| PAns (c : pcode) (error : bool)
| PTtlIs (t : option (option Z))      (* None: absent; Some None: no expiry; Some (Some ms) *)
| PNone.

Definition take (c : pcfg) (key : bulk) (brk : bool) (s : pstate) : pstate * (pcode * bool) :=
  if (pdown s || negb brk)%bool then (s, (Unknown, true))     (* the command never reaches Redis *)
  else let '(r, st') := eval Lua_period.script [key]
                          [BInt (pquota c); BInt (window c (rnow (pstore s)))] (pstore s) in
       (mkP st' false, period_reply r).

(* what TakeCtx answers when the command is not executed *)
Definition pfault_ans (f : pfault) : pobs :=
  match f with
  | FCtx => PAns Unknown true                         (* ctx.Err() *)
  | FReply r => PAns (fst (period_reply r)) (snd (period_reply r))
  end.

(* a forged reply that the wrapper cannot tell from a verdict of the script *)
Definition pforged (f : pfault) : bool :=
  match f with
  | FReply (RInt n) => (0 <=? n) && (n <=? 2)
  | _ => false
  end.

Definition pstep (c : pcfg) (s : pstate) (o : pop) : pstate * pobs :=
  match o with
  | PTakeF key f => (s, pfault_ans f)
  | PTake key brk => let '(s', (code, e)) := take c key brk s in (s', PAns code e)
  | PAdvance ms => (mkP (advance (pstore s) ms) (pdown s), PNone)
  | PDown => (mkP (pstore s) true, PNone)
  | PUp => (mkP (pstore s) false, PNone)
  | PPoke key v => (if pdown s then s else mkP (store_put (pstore s) key (mkEntry v None)) false, PNone)
  | PTtl key => (s, PTtlIs (pttl (pstore s) key))
  end.

Fixpoint prun (c : pcfg) (s : pstate) (ops : list pop) : list pobs :=
  match ops with
  | [] => []
  | o :: ops' => let '(s', r) := pstep c s o in r :: prun c s' ops'
  end.

Fixpoint pfinal (c : pcfg) (s : pstate) (ops : list pop) : pstate :=
  match ops with
  | [] => s
  | o :: ops' => pfinal c (fst (pstep c s o)) ops'
  end.

Definition pinit (incl : bool) (base_ms : Z) : pstate := mkP (mkR base_ms [] incl) false.

(* ---- the period specification: per key a counter and the end of its period *)
Definition code_of (i quota : Z) : pcode :=
  if i <? quota then Allowed else if i =? quota then HitQuota else OverQuota.

Inductive pcell := PCount (c : Z) (until : option Z) | PGarbage (until : option Z).
Record pspec := mkPS { sp_now : Z; sp_down : bool; sp_cells : list (bulk * pcell); sp_incl : bool }.

Fixpoint cell_find (k : bulk) (l : list (bulk * pcell)) : option pcell :=
  match l with
  | [] => None
  | (k', c) :: l' => if bulk_eqb k k' then Some c else cell_find k l'
  end.
Fixpoint cell_put (k : bulk) (c : pcell) (l : list (bulk * pcell)) : list (bulk * pcell) :=
  match l with
  | [] => [(k, c)]
  | (k', c') :: l' => if bulk_eqb k k' then (k, c) :: l' else (k', c') :: cell_put k c l'
  end.

Definition cell_until (c : pcell) : option Z := match c with PCount _ u | PGarbage u => u end.

(* the cell every caller sees now: periods that have ended are gone *)
Definition cell_seen (a : pspec) (k : bulk) : option pcell :=
  match cell_find k (sp_cells a) with
  | Some c => match cell_until c with
              | Some t => if before (sp_incl a) (sp_now a) t then Some c else None
              | None => Some c
              end
  | None => None
  end.

Definition sp_with (a : pspec) (cells : list (bulk * pcell)) : pspec :=
  mkPS (sp_now a) (sp_down a) cells (sp_incl a).

(* for windows >= 1 s *)
Definition sp_pstep (c : pcfg) (a : pspec) (o : pop) : pspec * pobs :=
  match o with
  | PTakeF key f => (a, pfault_ans f)
  | PTake key brk =>
    if (sp_down a || negb brk)%bool then (a, PAns Unknown true) else
    let fresh_until := Some (sp_now a + window c (sp_now a) * 1000) in
    match cell_seen a key with
    | Some (PGarbage _) => (a, PAns Unknown true)       (* INCRBY on a non-integer: error *)
    | Some (PCount n u) =>
      let u' := if n + 1 =? 1 then fresh_until else u in
      (sp_with a (cell_put key (PCount (n + 1) u') (sp_cells a)), PAns (code_of (n + 1) (pquota c)) false)
    | None =>
      (sp_with a (cell_put key (PCount 1 fresh_until) (sp_cells a)), PAns (code_of 1 (pquota c)) false)
    end
  | PAdvance ms => (mkPS (sp_now a + ms) (sp_down a) (sp_cells a) (sp_incl a), PNone)
  | PDown => (mkPS (sp_now a) true (sp_cells a) (sp_incl a), PNone)
  | PUp => (mkPS (sp_now a) false (sp_cells a) (sp_incl a), PNone)
  | PPoke key v =>
    (if sp_down a then a
     else sp_with a (cell_put key (match v with BInt z => PCount z None | BStr _ => PGarbage None end)
                              (sp_cells a)), PNone)
  | PTtl key =>
    (a, PTtlIs match cell_seen a key with
               | Some cl => Some (match cell_until cl with Some t => Some (t - sp_now a) | None => None end)
               | None => None
               end)
  end.

Fixpoint sp_prun (c : pcfg) (a : pspec) (ops : list pop) : list pobs :=
  match ops with
  | [] => []
  | o :: ops' => let '(a', r) := sp_pstep c a o in r :: sp_prun c a' ops'
  end.

Definition sp_pinit (incl : bool) (base_ms : Z) : pspec := mkPS base_ms false [] incl.

(* ================================================================== TokenLimiter *)
Record tcfg := mkCfg { rate : Z; burst : Z; ktokens : bulk; kts : bulk }.

(* one TokenLimiter object *)
Record tinst := mkT { alive : bool;       (* redisAlive == 1 *)
                      monitor : bool }.   (* monitorStarted *)

Record tstate := mkTS { tstore : rstate; tdown : bool; tinsts : list tinst }.

Inductive top :=
| TAllow (i : nat) (now_ms : Z) (n : Z) (rescue : bool) (brk : bool)
      (* instance i: AllowN(now, n); [rescue] = what the in-process limiter answers if asked;
         [brk] = the redis circuit breaker lets the command through if one is sent *)
| TAdvance (ms : Z)
| TDown | TUp
| TPing (i : nat)      (* instance i's monitor goroutine gets its next 100 ms tick *)
| TAllowF (i : nat) (now_ms : Z) (n : Z) (rescue : bool) (r : reply)
      (* FAULT: if the call sends its command, a faulty store / connection answers [r] instead of
         executing the script *)
| TAllowC (i : nat) (now_ms : Z) (n : Z) (rescue : bool)
      (* AllowNCtx with a context that is already cancelled: the command is never sent *)
| TAllowD (i : nat) (now_ms : Z) (n : Z) (rescue : bool) (ran : bool)
      (* THE CALLER'S CONTEXT BECOMES DONE DURING THE STORE CALL (deadline or cancel; live on entry):
         go-redis gives up with ctx.Err() while the request waits for a connection or sleeps before
         a retry.  [ran]: the script had already been run by the store (the reply was lost) or not.
         reserveN refuses; this is the caller's condition, not a store failure: no monitor. *)
| TPong (i : nat)
      (* the store HAD answered the monitor's Ping (while it was reachable) and only now the
         monitor goes on: it stores redisAlive = 1 and leaves, whatever the store's state is now *)
| TAllowLate (i : nat) (now_ms : Z) (n : Z) (rescue : bool) (brk : bool).
      (* CONCURRENT CALLS ON ONE INSTANCE: a call that read redisAlive = 1 before a concurrent call
         of the same instance switched it off, and sends its command now.  (reserveN = load the
         flag; EVAL; on error startMonitor + rescue limiter: the first call to finish is a [TAllow],
         every other call that had already passed the flag is a [TAllowLate].) *)

Inductive tobs :=
| TR (granted : bool) (alive_after : bool) (by_script : bool)
| TU.

Definition start_monitor (t : tinst) : tinst :=
  if monitor t then t else mkT false true.

Definition unix_s (now_ms : Z) : Z := now_ms / 1000.      (* now.Unix() *)

(* reserveN after the command was answered [r] *)
Definition token_reply (t : tinst) (r : reply) (rescue : bool) : tinst * tobs :=
  match r with
  | RNil => (t, TR false true true)             (* errors.Is(err, redis.Nil) *)
  | RInt code => (t, TR (code =? 1) true true)
  | RErr _ | RBulk _ | RStatus _ =>              (* error, or resp.(int64) fails *)
    let t' := start_monitor t in (t', TR rescue (alive t') false)
  end.

(* reserveN; [down] = the command would not reach Redis (store unreachable or breaker open) *)
Definition reserve (c : tcfg) (t : tinst) (now_ms n : Z) (rescue : bool) (st : rstate) (down : bool)
  : rstate * tinst * tobs :=
  if negb (alive t) then (st, t, TR rescue false false)
  else if down then
    let t' := start_monitor t in (st, t', TR rescue (alive t') false)
  else
    let '(r, st') := eval Lua_token.script [ktokens c; kts c]
                       [BInt (rate c); BInt (burst c); BInt (unix_s now_ms); BInt n] st in
    let '(t', ob) := token_reply t r rescue in (st', t', ob).

(* reserveN from the point where the command is sent (the flag was read as 1 earlier) *)
Definition reserve_late (c : tcfg) (t : tinst) (now_ms n : Z) (rescue : bool) (st : rstate) (down : bool)
  : rstate * tinst * tobs :=
  if down then
    let t' := start_monitor t in (st, t', TR rescue (alive t') false)     (* monitor already started: no-op *)
  else
    let '(r, st') := eval Lua_token.script [ktokens c; kts c]
                       [BInt (rate c); BInt (burst c); BInt (unix_s now_ms); BInt n] st in
    match r with
    | RNil => (st', t, TR false (alive t) true)
    | RInt code => (st', t, TR (code =? 1) (alive t) true)
    | RErr _ | RBulk _ | RStatus _ => let t' := start_monitor t in (st', t', TR rescue (alive t') false)
    end.

Fixpoint set_nth {A} (i : nat) (x : A) (l : list A) : list A :=
  match l, i with
  | [], _ => []
  | _ :: l', O => x :: l'
  | y :: l', S i' => y :: set_nth i' x l'
  end.

Definition tstep (c : tcfg) (s : tstate) (o : top) : tstate * tobs :=
  match o with
  | TAllow i now n rescue brk =>
    match nth_error (tinsts s) i with
    | Some t => let '(st', t', r) := reserve c t now n rescue (tstore s) (tdown s || negb brk)%bool in
                (mkTS st' (tdown s) (set_nth i t' (tinsts s)), r)
    | None => (s, TU)
    end
  | TAdvance ms => (mkTS (advance (tstore s) ms) (tdown s) (tinsts s), TU)
  | TDown => (mkTS (tstore s) true (tinsts s), TU)
  | TUp => (mkTS (tstore s) false (tinsts s), TU)
  | TPing i =>
    match nth_error (tinsts s) i with
    | Some t => if (monitor t && negb (tdown s))%bool
                then (mkTS (tstore s) (tdown s) (set_nth i (mkT true false) (tinsts s)), TU)
                else (s, TU)
    | None => (s, TU)
    end
  | TAllowF i now n rescue r =>
    match nth_error (tinsts s) i with
    | Some t =>
      if negb (alive t) then (s, TR rescue false false)
      else let '(t', ob) := token_reply t r rescue in (mkTS (tstore s) (tdown s) (set_nth i t' (tinsts s)), ob)
    | None => (s, TU)
    end
  | TAllowC i now n rescue =>
    match nth_error (tinsts s) i with
    | Some t => (s, if alive t then TR false true false    (* errorx.In(err, ..., context.Canceled): refused, no fallback *)
                    else TR rescue false false)
    | None => (s, TU)
    end
  | TAllowD i now n rescue ran =>
    match nth_error (tinsts s) i with
    | Some t =>
      if negb (alive t) then (s, TR rescue false false)       (* rescue mode: the store is not asked *)
      else if ran then
        let '(_, st') := eval Lua_token.script [ktokens c; kts c]
                           [BInt (rate c); BInt (burst c); BInt (unix_s now); BInt n] (tstore s) in
        (mkTS st' (tdown s) (tinsts s), TR false true true)   (* the bucket was charged, the answer lost *)
      else (s, TR false true false)
    | None => (s, TU)
    end
  | TPong i =>
    match nth_error (tinsts s) i with
    | Some t => if monitor t
                then (mkTS (tstore s) (tdown s) (set_nth i (mkT true false) (tinsts s)), TU)
                else (s, TU)
    | None => (s, TU)
    end
  | TAllowLate i now n rescue brk =>
    match nth_error (tinsts s) i with
    | Some t => let '(st', t', r) := reserve_late c t now n rescue (tstore s) (tdown s || negb brk)%bool in
                (mkTS st' (tdown s) (set_nth i t' (tinsts s)), r)
    | None => (s, TU)
    end
  end.

Fixpoint trun (c : tcfg) (s : tstate) (ops : list top) : list tobs :=
  match ops with
  | [] => []
  | o :: ops' => let '(s', r) := tstep c s o in r :: trun c s' ops'
  end.

Fixpoint tfinal (c : tcfg) (s : tstate) (ops : list top) : tstate :=
  match ops with
  | [] => s
  | o :: ops' => tfinal c (fst (tstep c s o)) ops'
  end.

Definition tinit (incl : bool) (base_ms : Z) (n : nat) : tstate :=
  mkTS (mkR base_ms [] incl) false (repeat (mkT true false) n).

(* ---- the ideal token bucket: [btokens] tokens at whole second [bsec] *)
Record bucket := mkB { btokens : Z; bsec : Z }.

Definition level (rt bs : Z) (b : bucket) (t : Z) : Z :=
  Z.min bs (btokens b + Z.max 0 (t - bsec b) * rt).

Definition bucket_take (rt bs : Z) (b : bucket) (t n : Z) : bucket * bool :=
  let f := level rt bs b t in
  if n <=? f then (mkB (f - n) t, true) else (mkB f t, false).

(* the same machine with the script replaced by the ideal bucket *)
Record tspec := mkSp { sp_bucket : bucket; sp_clock : Z; sp_tdown : bool; sp_insts : list tinst }.

Definition sp_tstep (c : tcfg) (a : tspec) (o : top) : tspec * tobs :=
  match o with
  | TAllow i now n rescue brk =>
    match nth_error (sp_insts a) i with
    | Some t =>
      if negb (alive t) then (a, TR rescue false false)
      else if (sp_tdown a || negb brk)%bool then
        let t' := start_monitor t in
        (mkSp (sp_bucket a) (sp_clock a) (sp_tdown a) (set_nth i t' (sp_insts a)), TR rescue (alive t') false)
      else
        let '(b', g) := bucket_take (rate c) (burst c) (sp_bucket a) (unix_s now) n in
        (mkSp b' (sp_clock a) (sp_tdown a) (set_nth i t (sp_insts a)), TR g true true)
    | None => (a, TU)
    end
  | TAdvance ms => (mkSp (sp_bucket a) (sp_clock a + ms) (sp_tdown a) (sp_insts a), TU)
  | TDown => (mkSp (sp_bucket a) (sp_clock a) true (sp_insts a), TU)
  | TUp => (mkSp (sp_bucket a) (sp_clock a) false (sp_insts a), TU)
  | TPing i =>
    match nth_error (sp_insts a) i with
    | Some t => if (monitor t && negb (sp_tdown a))%bool
                then (mkSp (sp_bucket a) (sp_clock a) (sp_tdown a) (set_nth i (mkT true false) (sp_insts a)), TU)
                else (a, TU)
    | None => (a, TU)
    end
  | TAllowF i now n rescue r =>
    match nth_error (sp_insts a) i with
    | Some t =>
      if negb (alive t) then (a, TR rescue false false)
      else let '(t', ob) := token_reply t r rescue in (mkSp (sp_bucket a) (sp_clock a) (sp_tdown a) (set_nth i t' (sp_insts a)), ob)
    | None => (a, TU)
    end
  | TAllowC i now n rescue =>
    match nth_error (sp_insts a) i with
    | Some t => (a, if alive t then TR false true false    (* errorx.In(err, ..., context.Canceled): refused, no fallback *)
                    else TR rescue false false)
    | None => (a, TU)
    end
  | TAllowD i now n rescue ran =>
    match nth_error (sp_insts a) i with
    | Some t =>
      if negb (alive t) then (a, TR rescue false false)
      else if ran then
        let '(b', _) := bucket_take (rate c) (burst c) (sp_bucket a) (unix_s now) n in
        (mkSp b' (sp_clock a) (sp_tdown a) (sp_insts a), TR false true true)
      else (a, TR false true false)
    | None => (a, TU)
    end
  | TPong i =>
    match nth_error (sp_insts a) i with
    | Some t => if monitor t
                then (mkSp (sp_bucket a) (sp_clock a) (sp_tdown a) (set_nth i (mkT true false) (sp_insts a)), TU)
                else (a, TU)
    | None => (a, TU)
    end
  | TAllowLate i now n rescue brk =>
    match nth_error (sp_insts a) i with
    | Some t =>
      if (sp_tdown a || negb brk)%bool then
        let t' := start_monitor t in
        (mkSp (sp_bucket a) (sp_clock a) (sp_tdown a) (set_nth i t' (sp_insts a)), TR rescue (alive t') false)
      else
        let '(b', g) := bucket_take (rate c) (burst c) (sp_bucket a) (unix_s now) n in
        (mkSp b' (sp_clock a) (sp_tdown a) (set_nth i t (sp_insts a)), TR g (alive t) true)
    | None => (a, TU)
    end
  end.

Fixpoint sp_trun (c : tcfg) (a : tspec) (ops : list top) : list tobs :=
  match ops with
  | [] => []
  | o :: ops' => let '(a', r) := sp_tstep c a o in r :: sp_trun c a' ops'
  end.

(* hypotheses on a history, as a boolean: the caller-supplied [now] is the store's clock,
   time does not run backwards, request sizes are not negative *)
Fixpoint twf (clock : Z) (ops : list top) : bool :=
  match ops with
  | [] => true
  | TAllow _ now n _ _ :: ops' | TAllowF _ now n _ _ :: ops' | TAllowC _ now n _ :: ops'
  | TAllowLate _ now n _ _ :: ops' | TAllowD _ now n _ _ :: ops' =>
    (now =? clock) && (0 <=? n) && twf clock ops'
  | TAdvance ms :: ops' => (0 <=? ms) && twf (clock + ms) ops'
  | _ :: ops' => twf clock ops'
  end.

(* tokens granted by the shared bucket (script) in a history *)
Fixpoint granted_by_script (ops : list top) (rs : list tobs) : Z :=
  match ops, rs with
  | TAllow _ _ n _ _ :: ops', TR true _ true :: rs'
  | TAllowLate _ _ n _ _ :: ops', TR true _ true :: rs' => n + granted_by_script ops' rs'
  | _ :: ops', _ :: rs' => granted_by_script ops' rs'
  | _, _ => 0
  end.

Fixpoint telapsed (ops : list top) : Z :=
  match ops with
  | [] => 0
  | TAdvance ms :: ops' => ms + telapsed ops'
  | _ :: ops' => telapsed ops'
  end.

(* ---- the ideal in-process bucket (what the rescue limiter is checked against):
   xrate.NewLimiter(Every(time.Second/rate), burst) = one token per [interval] ns, capacity burst.
   It is the same bucket with time in ns, rate 1 and sizes scaled by interval. *)
Definition interval_ns (rt : Z) : Z := 1000000000 / rt.

Definition local_take (rt bs : Z) (b : bucket) (now_ns n : Z) : bucket * bool :=
  bucket_take 1 (bs * interval_ns rt) b now_ns (n * interval_ns rt).

(* decisions of the ideal local bucket on a list of (now_ns, n) calls *)
Fixpoint local_run (rt bs : Z) (b : bucket) (calls : list (Z * Z)) : list bool :=
  match calls with
  | [] => []
  | (t, n) :: cs => let '(b', g) := local_take rt bs b t n in g :: local_run rt bs b' cs
  end.

Fixpoint local_granted (calls : list (Z * Z)) (gs : list bool) : Z :=
  match calls, gs with
  | (_, n) :: cs, true :: gs' => n + local_granted cs gs'
  | _ :: cs, _ :: gs' => local_granted cs gs'
  | _, _ => 0
  end.
