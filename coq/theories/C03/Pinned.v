(* C03 — the token script as it was at the pinned commit (before the `fix:` that clamps the
   TTL to >= 1 s), kept to document defect F5 (DESIGN.md §5): ttl = floor(2*burst/rate) is 0
   when 2*burst < rate, SETEX rejects it, so EVERY call errors, and every TokenLimiter instance
   silently falls back to its private in-process bucket although Redis is reachable.
   [pinned_script] is the translator's output for that version (lua2coq.py, verbatim). *)
From Coq Require Import List ZArith String QArith Bool.
From GZ Require Import Lib.RedisStore C03.Model C03.Monitor C03.MonitorN.
Import ListNotations.
Open Scope string_scope.
Open Scope Z_scope.
Open Scope lua_scope.

Definition pinned_script (KEYS ARGV : list lval) : M lval :=
  let v_rate := (lua_tonumber (index ARGV 1)) in
  let v_capacity := (lua_tonumber (index ARGV 2)) in
  let v_now := (lua_tonumber (index ARGV 3)) in
  let v_requested := (lua_tonumber (index ARGV 4)) in
  t1 <- lua_div v_capacity v_rate ;;
  let v_fill_time := t1 in
  t2 <- lua_mul v_fill_time (znum 2) ;;
  t3 <- lua_floor t2 ;;
  let v_ttl := t3 in
  t4 <- redis_call GET [(index KEYS 1)] ;;
  let v_last_tokens := (lua_tonumber t4) in
  v_last_tokens <- (
    if truthy (lua_eq v_last_tokens LNil) then (
      let v_last_tokens := v_capacity in
      ret v_last_tokens
    ) else (
      ret v_last_tokens
    )
  ) ;;
  t5 <- redis_call GET [(index KEYS 2)] ;;
  let v_last_refreshed := (lua_tonumber t5) in
  v_last_refreshed <- (
    if truthy (lua_eq v_last_refreshed LNil) then (
      let v_last_refreshed := (znum 0) in
      ret v_last_refreshed
    ) else (
      ret v_last_refreshed
    )
  ) ;;
  t6 <- lua_sub v_now v_last_refreshed ;;
  t7 <- lua_max (znum 0) t6 ;;
  let v_delta := t7 in
  t8 <- lua_mul v_delta v_rate ;;
  t9 <- lua_add v_last_tokens t8 ;;
  t10 <- lua_min v_capacity t9 ;;
  let v_filled_tokens := t10 in
  t11 <- lua_ge v_filled_tokens v_requested ;;
  let v_allowed := t11 in
  let v_new_tokens := v_filled_tokens in
  v_new_tokens <- (
    if truthy v_allowed then (
      t12 <- lua_sub v_filled_tokens v_requested ;;
      let v_new_tokens := t12 in
      ret v_new_tokens
    ) else (
      ret v_new_tokens
    )
  ) ;;
  t13 <- redis_call SETEX [(index KEYS 1); v_ttl; v_new_tokens] ;;
  t14 <- redis_call SETEX [(index KEYS 2); v_ttl; v_now] ;;
  ret v_allowed.

Close Scope lua_scope.

(* reserveN / one step with the pinned script (same wrapper as Model.reserve) *)
Definition pinned_reserve (c : tcfg) (t : tinst) (now_ms n : Z) (rescue : bool) (st : rstate) (down : bool)
  : rstate * tinst * tobs :=
  if negb (alive t) then (st, t, TR rescue false false)
  else if down then let t' := start_monitor t in (st, t', TR rescue (alive t') false)
  else
    let '(r, st') := eval pinned_script [ktokens c; kts c]
                       [BInt (rate c); BInt (burst c); BInt (unix_s now_ms); BInt n] st in
    match r with
    | RNil => (st', t, TR false true true)
    | RInt code => (st', t, TR (code =? 1) true true)
    | RErr _ | RBulk _ | RStatus _ => let t' := start_monitor t in (st', t', TR rescue (alive t') false)
    end.

Definition pinned_tstep (c : tcfg) (s : tstate) (o : top) : tstate * tobs :=
  match o with
  | TAllow i now n rescue brk =>
    match nth_error (tinsts s) i with
    | Some t => let '(st', t', r) := pinned_reserve c t now n rescue (tstore s) (tdown s || negb brk)%bool in
                (mkTS st' (tdown s) (set_nth i t' (tinsts s)), r)
    | None => (s, TU)
    end
  | _ => tstep c s o
  end.

Fixpoint pinned_trun (c : tcfg) (s : tstate) (ops : list top) : list tobs :=
  match ops with
  | [] => []
  | o :: ops' => let '(s', r) := pinned_tstep c s o in r :: pinned_trun c s' ops'
  end.

Definition f5_cfg := mkCfg 5 2 (BStr "{tk}.tokens") (BStr "{tk}.ts").      (* rate 5, burst 2 *)
Definition f5_now := 1700000000000.

(* the pinned script errors on a reachable, empty store: it is not the ideal bucket *)
Theorem token_script_refines_bucket_refuted :
  exists c st n, 1 <= rate c /\ 0 <= burst c /\ 0 <= n /\
    fst (eval pinned_script [ktokens c; kts c]
           [BInt (rate c); BInt (burst c); BInt (rnow st / 1000); BInt n] st) = RErr EExpire /\
    snd (bucket_take (rate c) (burst c) (mkB (burst c) 0) (rnow st / 1000) n) = true.
Proof. exists f5_cfg, (mkR f5_now [] true), 1. vm_compute. repeat split; discriminate. Qed.

(* two instances, one key, the same second, the store reachable all the time: each instance's
   first call errors, switches it to its private bucket, and 4 tokens are granted where the
   shared bucket allows burst + rate*0 = 2 (the rescue answers are the ones x/time/rate gave
   on the real code: true, true per instance) *)
Definition f5_history : list top :=
  [TAllow 0 f5_now 1 true true; TAllow 0 f5_now 1 true true; TAllow 1 f5_now 1 true true; TAllow 1 f5_now 1 true true].

Fixpoint granted_any (ops : list top) (rs : list tobs) : Z :=
  match ops, rs with
  | TAllow _ _ n _ _ :: ops', TR true _ _ :: rs' => n + granted_any ops' rs'
  | _ :: ops', _ :: rs' => granted_any ops' rs'
  | _, _ => 0
  end.

Theorem token_joint_bound_refuted :
  exists c ops, twf f5_now ops = true /\ telapsed ops = 0 /\
    (* nobody took the store down and the circuit breaker was closed *)
    forallb (fun o => match o with TDown | TAllow _ _ _ _ false => false | _ => true end) ops = true /\
    (* yet no answer came from the shared bucket, and more than burst tokens were granted *)
    pinned_trun c (tinit true f5_now 2) ops =
      [TR true false false; TR true false false; TR true false false; TR true false false] /\
    burst c + rate c * 0 < granted_any ops (pinned_trun c (tinit true f5_now 2) ops).
Proof. exists f5_cfg, f5_history. vm_compute. repeat split; reflexivity. Qed.

(* with the repaired script (what the tree contains now) the same history is bounded *)
Example f5_history_fixed :
  trun f5_cfg (tinit true f5_now 2) f5_history =
    [TR true true true; TR true true true; TR false true true; TR false true true].
Proof. vm_compute. reflexivity. Qed.

(* ------------------------------------------------------------------ F25 (fixed in /repo: 9e9cefb)
   The rescue limiter was xrate.NewLimiter(xrate.Every(time.Second/time.Duration(rate)), burst):
   one token per floor(10^9/rate) ns, i.e. faster than `rate` whenever rate does not divide 10^9.
   Model.local_run is that bucket.  Rate 300000 / burst 3000300: the bucket is drained, and 10 s
   later it is full again (10^10 / 3333 >= 3000300) although only 3000000 tokens are due:
   6000600 tokens granted in 10 s, the property's bound is 3000300 + 300000*10 = 6000300.
   (Replayed on the real code at the pinned commit: both calls granted.) *)
Theorem rescue_truncated_interval_refuted :
  exists rt bs calls, 1 <= rt <= 1000000000 /\ 0 <= bs /\
    let gs := local_run rt bs (mkB (bs * interval_ns rt) 0) calls in
    gs = [true; true] /\
    local_granted calls gs * 1000000000 > bs * 1000000000 + rt * 10000000000.
Proof.
  exists 300000, 3000300, [(0, 3000300); (10000000000, 3000300)].
  vm_compute. repeat split; discriminate.
Qed.

(* ------------------------------------------------------------------ unsynchronised clocks
   The hypothesis "the caller-supplied now is the store's clock" (twf) of token_joint_bound cannot
   be dropped: the script stores the caller's `now` as the bucket's timestamp even when it is
   OLDER than the stored one, so two instances whose clocks differ by 10 s refill the bucket at
   every alternation.  Rate 1 / burst 5, the store clock does not move at all: 20 tokens granted,
   all by the script; the bound is 5 + 1*0 on the store clock and 5 + 1*10 even if the spread of
   the callers' clocks is counted as elapsed time.  (The real code agrees with the model on this
   history: corpus case "skew" of tools/props/c03.py.) *)
Definition skew_cfg := mkCfg 1 5 (BStr "{tk}.tokens") (BStr "{tk}.ts").
Definition skew_T := 1700000000000.
Definition skew_history : list top :=
  [TAllow 0 skew_T 5 false true; TAllow 1 (skew_T + 10000) 5 false true;
   TAllow 0 skew_T 0 false true; TAllow 1 (skew_T + 10000) 5 false true;
   TAllow 0 skew_T 0 false true; TAllow 1 (skew_T + 10000) 5 false true].
Theorem token_unsynchronised_clocks_refuted :
  telapsed skew_history = 0 /\ twf skew_T skew_history = false /\
  trun skew_cfg (tinit true skew_T 2) skew_history =
    [TR true true true; TR true true true; TR true true true; TR true true true; TR true true true; TR true true true] /\
  granted_by_script skew_history (trun skew_cfg (tinit true skew_T 2) skew_history) = 20 /\
  burst skew_cfg + rate skew_cfg * 10 < 20.
Proof. vm_compute. repeat split; reflexivity. Qed.

(* ------------------------------------------------------------------ seeded C03-6: lost wake-up
   The variant of startMonitor with a lock-free fast path (CAS(redisAlive,1,0) before the lock, no
   store of 0 under the lock) - Monitor.mstep with fast = true.  One request thread, a flapping
   store: the monitor has stored redisAlive = 1 and is in the window before it clears
   monitorStarted; the store goes down again; the request fails, its CAS flips the flag back to 0,
   it finds monitorStarted = true and returns; the monitor then clears monitorStarted.  Result:
   redisAlive = 0, no monitor, nothing pending - with the store reachable the instance stays on its
   private bucket for ever (no step of the monitor or of the request changes that).
   HEAD is proved free of this for all schedules: Props.monitor_never_stuck. *)
Definition lost_wakeup : list action :=
  [ADown; AReq 0%nat; AReq 0%nat; AReq 0%nat; AReq 0%nat; AReq 0%nat; AReq 0%nat;      (* call fails: CAS, lock, start the monitor *)
   AUp; AMon; AMon;                                            (* ping ok; redisAlive = 1; WINDOW *)
   ADown; AReq 0%nat; AReq 0%nat; AReq 0%nat; AReq 0%nat; AReq 0%nat;              (* call fails: CAS 1->0, lock, monitorStarted: return *)
   AMon; AMon; AUp].                                           (* the monitor clears monitorStarted and is gone *)
Theorem fast_path_lost_wakeup_refuted :
  let s := mrun true (minit 1%nat) lost_wakeup in
  m_up s = true /\ quiescent s = true /\ m_alive s = false /\ recovery_pending s = 0%nat /\
  m_alive (mrun true s [AMon; AMon; AMon; AMon; AReq 0%nat; AReq 0%nat; AReq 0%nat; AMon; AMon; AMon; AMon]) = false /\
  (* the same schedule on HEAD ends with the instance back on the store *)
  m_alive (mrun false (minit 1%nat) (lost_wakeup ++ [AMon; AMon; AMon; AMon])) = true.
Proof. vm_compute. repeat split; reflexivity. Qed.

(* ------------------------------------------------------------------ seeded C03-7: one monitor per store
   The shared monitor (MonitorN.shstep) leaves in two separately locked steps: it TAKES the waiter
   list, wakes the taken limiters, and only then removes itself from the registry.  Three limiters
   on one store: 0 and 1 wait; the store comes back, the monitor takes [0; 1] and wakes 0; the
   store fails again for a request of limiter 2, which registers with the monitor that is still in
   the registry - in a list nobody reads again; the monitor wakes 1 and unregisters.  Limiter 2:
   redisAlive = 0, monitorStarted = true, no monitor - for ever (no step changes it), with the store
   reachable.  HEAD (one monitor per limiter) is proved free of this for every limiter
   independently of the others: Props.each_limiter_never_stuck. *)
Definition orphaned_waiter : list shaction :=
  [ShDown; ShFail 0%nat; ShFail 1%nat; ShUp; ShMon (* takeWaiters *); ShMon (* wakes 0 *);
   ShDown; ShFail 2%nat; ShMon (* wakes 1 *); ShMon (* unregisters *); ShUp].
Theorem shared_monitor_orphans_a_waiter_refuted :
  let s := shrun (shinit 3) orphaned_waiter in
  sh_up s = true /\ sh_mon s = ShNone /\
  sh_lims s = [mkShL true false; mkShL true false; mkShL false true] /\
  (* nothing brings limiter 2 back: the monitor is gone, and its own requests do not even reach
     startMonitor (redisAlive = 0), whether the store is up or down *)
  shrun s [ShMon; ShFail 2%nat; ShDown; ShFail 2%nat; ShMon; ShUp; ShMon; ShMon] = s.
Proof. vm_compute. repeat split; reflexivity. Qed.

(* ------------------------------------------------------------------ seeded C03-8: a deadline that runs out
   during the store call taken for a store failure.  [dl_step]: TAllowD (deadline kind) behaves like a
   failed command: startMonitor + rescue limiter.  Rate 1 / burst 3, two instances, the store
   reachable all the time: instance 1 drains the shared bucket; a request of instance 0 whose deadline
   passes while it waits for a connection (the script never runs) is GRANTED by the private bucket and
   switches instance 0 to rescue mode, where it grants two more: 6 tokens at one instant, bound 3.
   HEAD refuses the request and stays on the store (Props.caller_context_never_starts_rescue). *)
Definition dl_step (c : tcfg) (s : tstate) (o : top) : tstate * tobs :=
  match o with
  | TAllowD i now n rescue _ =>
    match nth_error (tinsts s) i with
    | Some t => let '(st', t', r) := reserve c t now n rescue (tstore s) true in
                (mkTS st' (tdown s) (set_nth i t' (tinsts s)), r)
    | None => (s, TU)
    end
  | _ => tstep c s o
  end.
Fixpoint dl_run (c : tcfg) (s : tstate) (ops : list top) : list tobs :=
  match ops with
  | [] => []
  | o :: ops' => let '(s', r) := dl_step c s o in r :: dl_run c s' ops'
  end.
Definition dl_cfg := mkCfg 1 3 (BStr "{tk}.tokens") (BStr "{tk}.ts").
Definition dl_history : list top :=
  [TAllow 1 skew_T 3 false true; TAllowD 0 skew_T 1 true false; TAllow 0 skew_T 1 true true; TAllow 0 skew_T 1 true true;
   TAllow 1 skew_T 1 false true].
Theorem deadline_is_store_failure_refuted :
  twf skew_T dl_history = true /\
  dl_run dl_cfg (tinit true skew_T 2) dl_history =
    [TR true true true; TR true false false; TR true false false; TR true false false; TR false true true] /\
  trun dl_cfg (tinit true skew_T 2) dl_history =
    [TR true true true; TR false true false; TR false true true; TR false true true; TR false true true] /\
  burst dl_cfg < granted_any dl_history (dl_run dl_cfg (tinit true skew_T 2) dl_history).
Proof. vm_compute. repeat split; reflexivity. Qed.
