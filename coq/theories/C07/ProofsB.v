(* C07 — second invariant: every execution that is not finished has a live leader, hence
   waiters are never left hanging (no lost wake-up, also when the leader's function panics:
   the clean-up is deferred), the system never deadlocks, and at a gate-level quiescent point
   a blocked thread waits behind a function that is really running. *)
From Coq Require Import List ZArith Bool Arith Lia.
From GZ Require Import Lib.Sched Lib.SchedProofs C07.Model C07.Proofs.
Import ListNotations.

(* thread program counters from which the object c will still be completed *)
Definition live_pc (p : pc) (c : nat) : Prop := owner_pc p = Some c \/ exists r, p = PDeleted c r.

Definition live_ok (s : state) : Prop :=
  forall c, c < nextc s -> cdone (heap s c) = false ->
    exists th o, nth_error (threads s) (fst (clead (heap s c))) = Some th /\
                 topi th = snd (clead (heap s c)) /\ cur_op th = Some o /\ live_pc (tpc th) c.

Lemma live_keep s s' t th th' :
  live_ok s -> nth_error (threads s) t = Some th -> threads s' = upd_nth (threads s) t th' ->
  (forall c, c < nextc s' -> cdone (heap s' c) = false ->
     (c < nextc s /\ cdone (heap s c) = false /\ clead (heap s' c) = clead (heap s c) /\
      (live_pc (tpc th) c -> topi th' = topi th /\ cur_op th' = cur_op th /\ live_pc (tpc th') c))
     \/ (clead (heap s' c) = (t, topi th') /\ (exists o, cur_op th' = Some o) /\ live_pc (tpc th') c)) ->
  live_ok s'.
Proof.
  intros HL Ht Hth Hh c Hc Hd. rewrite Hth.
  destruct (Hh c Hc Hd) as [(A & B & C & D)|(A & (o & B) & C)].
  - destruct (HL c A B) as (th0 & o & N & I & O & P). rewrite C.
    destruct (Nat.eq_dec (fst (clead (heap s c))) t) as [Et|Et].
    + rewrite Et in *. rewrite Ht in N. inversion N; subst th0.
      destruct (D P) as (D1 & D2 & D3).
      exists th', o. rewrite (nth_error_upd_nth_eq _ _ _ _ Ht). repeat split; auto; congruence.
    + exists th0, o. rewrite nth_error_upd_nth_neq by auto. auto.
  - rewrite A. cbn. exists th', o. rewrite (nth_error_upd_nth_eq _ _ _ _ Ht). auto.
Qed.

Lemma live_pc_inv p c : live_pc p c ->
  match p with
  | PLead c' | PInFn c' | PRmCreate c' | PRmStore c' _ | PFnDone c' _ | PDeleted c' _ => c' = c
  | _ => False
  end.
Proof.
  intros [H|(r & H)].
  - destruct p; cbn in H; inversion H; reflexivity.
  - subst p. reflexivity.
Qed.

Ltac live_old :=
  left; split; [assumption|]; split; [assumption|]; split; [reflexivity|];
  let L := fresh "L" in intros L; apply live_pc_inv in L;
  match goal with E : tpc _ = _ |- _ => rewrite E in L end; cbn in L;
  first [ contradiction
        | subst; split; [reflexivity|]; split; [reflexivity|];
          first [ left; reflexivity | right; eexists; reflexivity ] ].

Lemma live_step s t s' : Inv s -> live_ok s -> step s t = Some s' -> live_ok s'.
Proof.
  intros HI HL H. unfold step in H.
  destruct (nth_error (threads s) t) as [th|] eqn:Ht; [|discriminate].
  destruct (cur_op th) as [o|] eqn:Ho; [|discriminate].
  pose proof (pc_known s t th o HI Ht Ho) as P. unfold pc_ok, lead_ok in P.
  destruct (tpc th) eqn:Epc;
    repeat match type of H with
           | context [match ?x with _ => _ end] => destruct x eqn:?
           | context [if ?x then _ else _] => destruct x eqn:?
           end;
    inversion H; subst s'; clear H;
    (eapply (live_keep s _ t th); [exact HL | exact Ht | reflexivity | ]);
    cbn [tpc finish set_pc topi nextc heap tscript cur_op];
    intros c0 Hc0 Hd0.
  all: try (live_old; fail).
  all: match goal with
       | Hd : cdone (fupd _ ?cc _ ?c) = false |- _ =>
         destruct (Nat.eq_dec c cc) as [->|Hne];
         [ rewrite fupd_eq in *; cbn in Hd |- * | rewrite fupd_neq in * by exact Hne ]
       end.
  all: try (live_old; fail).
  all: try discriminate.
  - (* register: the new object *)
    right. split; [reflexivity|]. split; [exists o; exact Ho|]. left. reflexivity.
  - (* register: an older object *)
    assert (Hlt : c0 < nextc s) by lia. clear Hc0. live_old.
  - (* wg.Done: another object of which this thread would be the live leader - there is none *)
    left. split; [assumption|]. split; [assumption|]. split; [reflexivity|].
    intros L. apply live_pc_inv in L. rewrite Epc in L. cbn in L. congruence.
Qed.

Lemma exec_live scripts sched : live_ok (exec scripts sched).
Proof.
  assert (H : Inv (exec scripts sched) /\ live_ok (exec scripts sched)); [|apply H].
  unfold exec. apply (run_inv step (fun s => Inv s /\ live_ok s)).
  - intros s t s' [A B] Hs. split; [eapply step_inv; eauto | eapply live_step; eauto].
  - split; [apply init_inv|]. intros c Hc. cbn in Hc. lia.
Qed.

(* ------------------------------------------------------------------ *)
(* A thread that cannot move waits for an execution whose leader CAN move: nobody is ever
   left waiting for a call that will not be completed (the clean-up of makeCall is deferred,
   so this also holds when the leader's function panics). *)
Lemma blocked_has_movable_leader s t th o :
  Inv s -> live_ok s ->
  nth_error (threads s) t = Some th -> cur_op th = Some o -> enabled s t = false ->
  exists c tL thL oL,
    tpc th = PWait c /\ cgrp (heap s c) = ogrp o /\ ckey (heap s c) = okey o /\
    tL = fst (clead (heap s c)) /\ tL <> t /\
    nth_error (threads s) tL = Some thL /\ cur_op thL = Some oL /\
    ogrp oL = ogrp o /\ okey oL = okey o /\ live_pc (tpc thL) c /\ enabled s tL = true.
Proof.
  intros HI HL Ht Ho He.
  destruct (blocked_behind_own_key s t th o HI Ht Ho He) as (c & A1 & A2 & A3 & A4 & A5 & A6).
  destruct (HL c A2 A5) as (thL & oL & B1 & B2 & B3 & B4).
  exists c, (fst (clead (heap s c))), thL, oL.
  pose proof (pc_known s _ thL oL HI B1 B3) as P. unfold pc_ok, lead_ok in P.
  assert (K : ogrp oL = ogrp o /\ okey oL = okey o).
  { apply live_pc_inv in B4 as B4'.
    destruct (tpc thL); try contradiction; subst; intuition congruence. }
  repeat split; auto; try tauto.
  rewrite (enabled_char s _ thL oL B1 B3).
  apply live_pc_inv in B4. destruct (tpc thL); try contradiction; reflexivity.
Qed.

(* deadlock freedom: as long as some thread has not finished its script, some thread can move *)
Lemma no_deadlock s : Inv s -> live_ok s -> unfinished s = true -> can_move s = true.
Proof.
  intros HI HL H. unfold unfinished in H. apply existsb_exists in H. destruct H as (th & Hin & Hf).
  apply In_nth_error in Hin. destruct Hin as (t & Ht).
  unfold finished in Hf. destruct (cur_op th) as [o|] eqn:Ho; [|discriminate].
  unfold can_move. apply existsb_exists.
  destruct (enabled s t) eqn:He.
  - exists t. split; [|exact He]. apply in_seq. split; [lia|]. cbn. apply nth_error_Some. congruence.
  - destruct (blocked_has_movable_leader s t th o HI HL Ht Ho He)
      as (c & tL & thL & oL & _ & _ & _ & _ & _ & N & _ & _ & _ & _ & E).
    exists tL. split; [|exact E]. apply in_seq. split; [lia|]. cbn. apply nth_error_Some. congruence.
Qed.

(* ------------------------------------------------------------------ *)
(* Gate-level quiescence (what the controller of the correspondence check observes): every
   thread is parked at a gate in user code (before a call, inside its function / inside create)
   or blocked or done.  Then a blocked thread waits behind a function that is running for ITS key:
   this is the "blk" judgement of Check.scan. *)
Definition parked (th : thread) : bool :=
  match cur_op th with
  | None => true
  | Some o =>
    match tpc th, ogrp o with
    | PIdle, _ => true
    | PCalled, GRM => true      (* parked in front of singleFlight.Do (the gate added by the harness) *)
    | PWait _, _ => true
    | PInFn _, GRM => false
    | PInFn _, _ => true
    | PRmCreate _, _ => true
    | _, _ => false
    end
  end.

Definition quiescent (s : state) : bool := forallb parked (threads s).

Lemma quiescent_blocked_behind_running_fn s t th o :
  Inv s -> live_ok s -> quiescent s = true ->
  nth_error (threads s) t = Some th -> cur_op th = Some o -> enabled s t = false ->
  exists tL thL, tL <> t /\ nth_error (threads s) tL = Some thL /\
                 in_fn (ogrp o) (okey o) thL = true.
Proof.
  intros HI HL HQ Ht Ho He.
  destruct (blocked_has_movable_leader s t th o HI HL Ht Ho He)
    as (c & tL & thL & oL & _ & _ & _ & _ & Hne & N & O & G & K & L & _).
  exists tL, thL. split; [exact Hne|]. split; [exact N|].
  unfold quiescent in HQ. rewrite forallb_forall in HQ.
  pose proof (HQ thL (nth_error_In _ _ N)) as Q. unfold parked in Q. rewrite O in Q.
  unfold in_fn. rewrite O, G, K, grp_eqb_refl, Z.eqb_refl. cbn.
  apply live_pc_inv in L.
  destruct (tpc thL); try contradiction; try discriminate; try reflexivity;
    destruct (ogrp oL); try discriminate; reflexivity.
Qed.

(* ------------------------------------------------------------------ *)
(* statements over runs *)

Lemma blocked_has_movable_leader_l : forall scripts sched t th o,
  let s := exec scripts sched in
  nth_error (threads s) t = Some th -> cur_op th = Some o -> enabled s t = false ->
  exists c tL thL oL,
    tpc th = PWait c /\ cgrp (heap s c) = ogrp o /\ ckey (heap s c) = okey o /\
    tL = fst (clead (heap s c)) /\ tL <> t /\
    nth_error (threads s) tL = Some thL /\ cur_op thL = Some oL /\
    ogrp oL = ogrp o /\ okey oL = okey o /\ live_pc (tpc thL) c /\ enabled s tL = true.
Proof. intros. apply blocked_has_movable_leader; auto; [apply exec_inv|apply exec_live]. Qed.

Lemma no_deadlock_l : forall scripts sched,
  unfinished (exec scripts sched) = true -> can_move (exec scripts sched) = true.
Proof. intros. apply no_deadlock; auto; [apply exec_inv|apply exec_live]. Qed.

Lemma quiescent_blocked_l : forall scripts sched t th o,
  let s := exec scripts sched in
  quiescent s = true ->
  nth_error (threads s) t = Some th -> cur_op th = Some o -> enabled s t = false ->
  exists tL thL, tL <> t /\ nth_error (threads s) tL = Some thL /\
                 in_fn (ogrp o) (okey o) thL = true.
Proof. intros. eapply quiescent_blocked_behind_running_fn; eauto; [apply exec_inv|apply exec_live]. Qed.

Lemma leader_returns_own_result_l : forall scripts sched t th r o,
  let s := exec scripts sched in
  nth_error (threads s) t = Some th -> In r (tres th) ->
  nth_error (tscript th) (rop r) = Some o ->
  (rfresh r = true -> ogrp o <> GRM -> (rval r, rerr r) = fn_ret o) /\
  (ogrp o = GSF -> rerr r = epanic -> rfresh r = true).
Proof.
  intros scripts sched t th r o s Ht Hr Ho.
  destruct (recs_ok s t th r (exec_inv _ _) Ht Hr)
    as (o' & A0 & _ & _ & _ & _ & _ & _ & _ & _ & _ & _ & _ & _ & _ & A14 & A15).
  rewrite Ho in A0. inversion A0; subst o'. split; assumption.
Qed.
