(* C07 — round 3, second wave: what the generation / epilogue-order / several-instances
   families of the check rely on, as theorems over every run. *)
From Coq Require Import List ZArith Bool Arith Lia.
From GZ Require Import Lib.Sched Lib.SchedProofs C07.Model C07.Proofs C07.ProofsB.
Import ListNotations.

(* ------------------------------------------------------------------ *)
(* Generation of a call entry.  [delete(g.calls, key)] in the epilogue deletes BY KEY; it is the
   deletion of the call's OWN entry because, whenever a thread is about to run it (pc PFnDone c),
   the entry under its key still is its own object c, led by this very call - no call of a later
   generation can have been registered under the key in the meantime.  And from the moment the
   entry is deleted (pc PDeleted c) the map never points to c again. *)
Lemma delete_is_of_own_entry_l : forall scripts sched t th o c r,
  let s := exec scripts sched in
  nth_error (threads s) t = Some th -> cur_op th = Some o -> tpc th = PFnDone c r ->
  calls s (ogrp o) (okey o) = Some c /\ clead (heap s c) = (t, topi th) /\ cdone (heap s c) = false.
Proof.
  intros scripts sched t th o c r s Ht Ho Epc.
  pose proof (pc_known s t th o (exec_inv _ _) Ht Ho) as P. unfold pc_ok, lead_ok in P. rewrite Epc in P.
  destruct P as ((_ & _ & _ & L & _ & D & _) & C & _). auto.
Qed.

(* an entry of the map always belongs to an object that is not finished, whose leader is the
   thread that registered it and is still inside that very call: an entry never outlives its call,
   a finished call never owns an entry (no ABA on the key) *)
Lemma entry_is_current_generation_l : forall scripts sched g k c,
  let s := exec scripts sched in
  calls s g k = Some c ->
  c < nextc s /\ cgrp (heap s c) = g /\ ckey (heap s c) = k /\ cdone (heap s c) = false /\
  exists th o, nth_error (threads s) (fst (clead (heap s c))) = Some th /\
               topi th = snd (clead (heap s c)) /\ owner_pc (tpc th) = Some c /\
               cur_op th = Some o /\ ogrp o = g /\ okey o = k.
Proof.
  intros scripts sched g k c s H. pose proof (exec_inv scripts sched) as HI. fold s in HI.
  destruct (entry_fresh s g k c HI H) as (A1 & A2 & A3 & A4 & _).
  destruct (inv_map s HI g k c H) as (_ & th & o & B). repeat split; auto. exists th, o. exact B.
Qed.

(* ------------------------------------------------------------------ *)
(* Order of the leader's epilogue: publish the result -> delete the key -> wg.Done.  So whenever
   an object is released (cdone), its result is there and the map does not point to it; and
   whenever the map points to an object nobody has been released from it. *)
Lemma epilogue_order_l : forall scripts sched c,
  let s := exec scripts sched in
  c < nextc s -> cdone (heap s c) = true ->
  (exists r, cval (heap s c) = Some r) /\ (forall g k, calls s g k <> Some c).
Proof.
  intros scripts sched c s Hc Hd. pose proof (exec_inv scripts sched) as HI. fold s in HI.
  split.
  - destruct (inv_heap s HI c Hc) as (_ & H2 & _). destruct (H2 Hd) as (r & _ & Hr & _). eauto.
  - intros g k H. destruct (entry_fresh s g k c HI H) as (_ & _ & _ & D & _). congruence.
Qed.

(* ------------------------------------------------------------------ *)
(* Several instances / several keys in one process: a step of a thread that works on another
   (group, key) leaves everything that belongs to (g, k) alone - the map entry, every call object of
   (g, k), the number of running functions, and for the ResourceManager the stored instance and the
   creation count.  (Instances of a primitive are disjoint key spaces of the model.) *)
Lemma step_frame_other_key s t s' th o g k :
  Inv s -> step s t = Some s' -> nth_error (threads s) t = Some th -> cur_op th = Some o ->
  (ogrp o, okey o) <> (g, k) ->
  calls s' g k = calls s g k /\
  (forall c, c < nextc s -> (cgrp (heap s c), ckey (heap s c)) = (g, k) -> heap s' c = heap s c) /\
  (g = GRM -> resources s' k = resources s k /\ ncreated s' k = ncreated s k).
Proof.
  intros HI H Ht Ho Hne.
  split; [|split].
  - unfold step in H. rewrite Ht, Ho in H.
    destruct (tpc th);
      repeat match type of H with
             | context [match ?x with _ => _ end] => destruct x eqn:?
             | context [if ?x then _ else _] => destruct x eqn:?
             end;
      inversion H; subst s'; cbn; try reflexivity; apply set_calls_neq; congruence.
  - intros c Hc Hk. eapply step_heap_local; eauto. rewrite Hk. congruence.
  - intros Eg. subst g. unfold step in H. rewrite Ht, Ho in H.
    pose proof (pc_known s t th o HI Ht Ho) as P. unfold pc_ok in P.
    destruct (tpc th) eqn:Epc;
      repeat match type of H with
             | context [match ?x with _ => _ end] => destruct x eqn:?
             | context [if ?x then _ else _] => destruct x eqn:?
             end;
      inversion H; subst s'; cbn; try (split; reflexivity).
    + (* create succeeded: the count of ITS key *)
      destruct P as (_ & _ & _ & G & _). split; [reflexivity|]. apply zupd_neq. congruence.
    + destruct P as (_ & _ & _ & G & _). split; [|reflexivity]. apply zupd_neq. congruence.
Qed.

Lemma frame_other_key_l : forall scripts sched t s' th o g k,
  let s := exec scripts sched in
  step s t = Some s' -> nth_error (threads s) t = Some th -> cur_op th = Some o ->
  (ogrp o, okey o) <> (g, k) ->
  calls s' g k = calls s g k /\
  (forall c, c < nextc s -> (cgrp (heap s c), ckey (heap s c)) = (g, k) -> heap s' c = heap s c) /\
  (g = GRM -> resources s' k = resources s k /\ ncreated s' k = ncreated s k).
Proof. intros. eapply step_frame_other_key; eauto. apply exec_inv. Qed.

(* ------------------------------------------------------------------ *)
(* No lost wake-up.  Once the call a thread waits for is done, the waiter can move, and this stays so
   whatever the OTHER threads do - any number of steps, on any keys, its own key included - until the
   waiter itself is scheduled.  (A wake-up channel shared between keys breaks exactly this:
   Pinned.shared_cond_signal_strands_waiter_refuted.) *)
Lemma step_done_mono s t' s' c :
  step s t' = Some s' -> c < nextc s -> cdone (heap s c) = true ->
  cdone (heap s' c) = true.
Proof.
  intros H Hc Hd. unfold step in H.
  destruct (nth_error (threads s) t') as [th|]; [|discriminate].
  destruct (cur_op th) as [o|]; [|discriminate].
  destruct (tpc th);
    repeat match type of H with
           | context [match ?x with _ => _ end] => destruct x eqn:?
           | context [if ?x then _ else _] => destruct x eqn:?
           end;
    inversion H; subst s'; cbn; try exact Hd;
    match goal with
    | |- cdone (fupd _ ?k _ c) = true =>
      destruct (Nat.eq_dec c k) as [->|Hne];
      [rewrite fupd_eq; cbn; first [exact Hd | reflexivity | lia] | rewrite fupd_neq by exact Hne; exact Hd]
    end.
Qed.

Lemma released_stays s more t th o c :
  Inv s -> nth_error (threads s) t = Some th -> cur_op th = Some o ->
  tpc th = PWait c -> cdone (heap s c) = true -> ~ In t more ->
  let s2 := run step s more in
  nth_error (threads s2) t = Some th /\ enabled s2 t = true.
Proof.
  revert s. induction more as [|t' r IH]; intros s HI Ht Ho Hp Hd Hn; cbn.
  - split; [exact Ht|].
    destruct (enabled s t) eqn:E; [reflexivity|]. exfalso.
    destruct (blocked_behind_own_key s t th o HI Ht Ho E) as (c' & P1 & _ & _ & _ & P5 & _).
    rewrite Hp in P1. inversion P1; subst c'. congruence.
  - assert (Hne : t <> t') by (intros ->; apply Hn; left; reflexivity).
    assert (Hn' : ~ In t r) by (intros X; apply Hn; right; exact X).
    destruct (step s t') as [s'|] eqn:Es; [|apply IH; auto].
    apply IH; auto.
    + eapply step_inv; eauto.
    + rewrite (step_threads_other _ _ _ _ Es Hne). exact Ht.
    + pose proof (pc_known s t th o HI Ht Ho) as P. unfold pc_ok in P. rewrite Hp in P.
      destruct P as (A1 & _). eapply step_done_mono; eauto.
Qed.

Lemma released_waiter_stays_enabled_l : forall scripts sched more t th o c,
  let s := exec scripts sched in
  nth_error (threads s) t = Some th -> cur_op th = Some o ->
  tpc th = PWait c -> cdone (heap s c) = true -> ~ In t more ->
  let s2 := exec scripts (sched ++ more) in
  nth_error (threads s2) t = Some th /\ enabled s2 t = true.
Proof.
  intros scripts sched more t th o c s Ht Ho Hp Hd Hn. cbn zeta. unfold exec. rewrite run_app.
  eapply released_stays; eauto. apply exec_inv.
Qed.

(* ------------------------------------------------------------------ *)
(* An arrival on a key nobody is executing on never waits: whatever goes on under OTHER keys (any number of
   them busy, with any number of waiters), a caller that reaches the lookup while no thread is inside an
   execution for its (group, key) registers as the leader at once.  (Striped locks, a table indexed by a
   truncated hash: Pinned.striped_locks_block_another_key_refuted.) *)
Lemma idle_key_no_entry s g k :
  Inv s ->
  (forall t' th' o', nth_error (threads s) t' = Some th' -> cur_op th' = Some o' ->
                     ogrp o' = g -> okey o' = k -> owner_pc (tpc th') = None) ->
  calls s g k = None.
Proof.
  intros HI Hno. destruct (calls s g k) as [c|] eqn:Ec; [|reflexivity]. exfalso.
  destruct (inv_map s HI g k c Ec) as (_ & th & o & Hn & _ & Hop & Ho & Hg & Hk).
  rewrite (Hno _ th o Hn Ho Hg Hk) in Hop. discriminate.
Qed.

(* the thread is inside an execution it leads (registered ... about to delete its entry) *)
Definition in_execution (p : pc) : bool :=
  match p with
  | PLead _ | PInFn _ | PRmCreate _ | PRmStore _ _ | PFnDone _ _ => true
  | _ => false
  end.

Lemma arrival_on_idle_key_leads_l : forall scripts sched t th o,
  let s := exec scripts sched in
  nth_error (threads s) t = Some th -> cur_op th = Some o -> tpc th = PCalled ->
  (forall t' th' o', nth_error (threads s) t' = Some th' -> cur_op th' = Some o' ->
                     ogrp o' = ogrp o -> okey o' = okey o -> in_execution (tpc th') = false) ->
  exists s' th2 c, step s t = Some s' /\ nth_error (threads s') t = Some th2 /\ tpc th2 = PLead c.
Proof.
  intros scripts sched t th o s Ht Ho Hp Hno.
  assert (Hc : calls s (ogrp o) (okey o) = None).
  { apply idle_key_no_entry; [apply exec_inv|]. intros t' th' o' A B C D.
    specialize (Hno t' th' o' A B C D). destruct (tpc th'); cbn in *; try reflexivity; discriminate. }
  unfold step. rewrite Ht, Ho, Hp, Hc. eexists. eexists. eexists.
  split; [reflexivity|]. cbn. split; [eapply nth_error_upd_nth_eq; exact Ht|reflexivity].
Qed.
