(* C07 — Part C of the checker proofs (round 4): the counting conjuncts of [Check.prop_ok_conc] accept the
   event log of EVERY run of the LTS:
     [own_once]     - every call's own function starts at most once on the log,
     [created_once] - per ResourceManager key at most one successful create ends on the log.
   (With CheckModel.model_log_passes_scan: three of the five conjuncts are proved complete w.r.t. the model.
   Not proved complete: [ret_ok] - needs the correspondence between the ghost time stamps of the LTS and the
   positions of the events on the log - and [fresh_once], which identifies executions by their VALUE and is
   complete only for scripts whose values are distinct per key, as the generator makes them.) *)
From Coq Require Import List ZArith Bool Arith Lia.
From GZ Require Import Lib.Sched Lib.SchedProofs Lib.CheckLib C07.Model C07.Proofs C07.ProofsB C07.Check C07.CheckProofs C07.CheckModel.
Import ListNotations.
Local Open Scope nat_scope.

Lemma count_ev_app l1 l2 k a i : count_ev (l1 ++ l2) k a i = count_ev l1 k a i + count_ev l2 k a i.
Proof. unfold count_ev. rewrite filter_app, app_length. reflexivity. Qed.

Lemma count_ev_nil k a i : count_ev [] k a i = 0.
Proof. reflexivity. Qed.

Lemma count_ev_one e k a i : count_ev [e] k a i = if ev_is k a i e then 1 else 0.
Proof. unfold count_ev. cbn. destruct (ev_is k a i e); reflexivity. Qed.

Lemma ret_ev_kind s t i s' e : In e (ret_ev s t i s') -> ek e = 3%Z /\ ea e = t /\ eop e = i.
Proof.
  unfold ret_ev. destruct (nth_error (threads s') t); [|intros []].
  destruct (last _ None); [|intros []]. intros [<-|[]]. cbn. auto.
Qed.

Lemma count_ev_zero l k a i : (forall e, In e l -> ek e <> k \/ ea e <> a) -> count_ev l k a i = 0.
Proof.
  intros H. unfold count_ev. induction l as [|e l IH]; [reflexivity|]. cbn.
  assert (E : ev_is k a i e = false).
  { unfold ev_is. destruct (H e (or_introl eq_refl)) as [N|N].
    - destruct (Z.eqb_spec (ek e) k); [contradiction|reflexivity].
    - destruct (ek e =? k)%Z; [|reflexivity]. destruct (Nat.eqb_spec (ea e) a); [contradiction|reflexivity]. }
  rewrite E. apply IH. intros e' Hin. apply H. right. exact Hin.
Qed.

Lemma count_ret_ev s t i s' k a j : k <> 3%Z -> count_ev (ret_ev s t i s') k a j = 0.
Proof. intros Hk. apply count_ev_zero. intros e Hin. left. destruct (ret_ev_kind _ _ _ _ _ Hin) as [E _]. congruence. Qed.

(* every event emitted by a choice of thread t0 is an event of t0 *)
Lemma emit_actor s t0 e : In e (emit s t0) -> ea e = t0.
Proof.
  unfold emit.
  repeat match goal with
         | |- In _ (match ?x with _ => _ end) -> _ => destruct x
         | |- In _ (if ?x then _ else _) -> _ => destruct x
         end;
    first [ intros [<-|[]]; reflexivity
          | intros Hin; destruct (ret_ev_kind _ _ _ _ _ Hin) as (_ & E & _); exact E
          | intros [] ].
Qed.

(* a disabled choice emits at most a "blk" *)
Lemma emit_stutter_kind s t0 e : step s t0 = None -> In e (emit s t0) -> ek e = 4%Z.
Proof.
  intros H. unfold emit. rewrite H. destruct (nth_error (threads s) t0) as [th|]; [|intros []].
  destruct (cur_op th); [|intros []]. destruct (quiescent s); [intros [<-|[]]; reflexivity|intros []].
Qed.

(* ------------------------------------------------------------------ *)
(* own_once *)

(* the thread has started the function of its current call *)
Definition started (th : thread) : bool :=
  match cur_op th with
  | None => false
  | Some o =>
    match tpc th with
    | PInFn _ => negb (grp_eqb (ogrp o) GRM)
    | PRmCreate _ | PRmStore _ _ | PFnDone _ _ | PDeleted _ _ => true
    | _ => false
    end
  end.

(* how many "fs" events of call i of thread t the log may hold so far *)
Definition bnd (s : state) (t i : nat) : nat :=
  match nth_error (threads s) t with
  | None => 0
  | Some th => if i <? topi th then 1 else if i =? topi th then (if started th then 1 else 0) else 0
  end.

Lemma bnd_le1 s t i : bnd s t i <= 1.
Proof.
  unfold bnd. destruct (nth_error (threads s) t); [|lia].
  destruct (i <? topi t0); [lia|]. destruct (i =? topi t0); [|lia]. destruct (started t0); lia.
Qed.

Lemma fs_count_step s t0 s' t i :
  step s t0 = Some s' -> count_ev (emit s t0) 1%Z t i + bnd s t i <= bnd s' t i.
Proof.
  intros H. destruct (Nat.eq_dec t t0) as [->|Hne].
  2: { rewrite count_ev_zero.
       - unfold bnd. rewrite (step_threads_other _ _ _ _ H Hne). lia.
       - intros e Hin. right. rewrite (emit_actor _ _ _ Hin). auto. }
  assert (Hemit : forall th o, nth_error (threads s) t0 = Some th -> cur_op th = Some o ->
            emit s t0 = match tpc th with
                       | PIdle => [mkev s t0 (topi th) 0 0 0 0]
                       | PLead _ => match ogrp o with GRM => [] | _ => [mkev s t0 (topi th) 1 0 0 0] end
                       | PInFn _ => match ogrp o with
                                    | GRM => match resources s (okey o) with Some _ => [] | None => [mkev s t0 (topi th) 1 0 0 0] end
                                    | _ => [mkev s t0 (topi th) 2 0 0 0]
                                    end
                       | PRmCreate _ => [mkev s t0 (topi th) 2 0 0 0]
                       | PWait _ => match ogrp o with GLC => [] | _ => ret_ev s t0 (topi th) s' end
                       | PDeleted _ _ => ret_ev s t0 (topi th) s'
                       | _ => []
                       end).
  { intros th o Ht Ho. unfold emit. rewrite Ht, Ho, H. reflexivity. }
  unfold step in H.
  destruct (nth_error (threads s) t0) as [th|] eqn:Ht; [|discriminate].
  destruct (cur_op th) as [o|] eqn:Ho; [|discriminate].
  specialize (Hemit th o eq_refl Ho).
  assert (B0 : bnd s t0 i = if i <? topi th then 1 else if i =? topi th then (if started th then 1 else 0) else 0).
  { unfold bnd. rewrite Ht. reflexivity. }
  assert (B1 : forall th' s0, threads s0 = upd_nth (threads s) t0 th' ->
             bnd s0 t0 i = if i <? topi th' then 1 else if i =? topi th' then (if started th' then 1 else 0) else 0).
  { intros th' s0 E. unfold bnd. rewrite E, (nth_error_upd_nth_eq _ _ _ _ Ht). reflexivity. }
  assert (FS : count_ev [mkev s t0 (topi th) 1 0 0 0] 1%Z t0 i = if i =? topi th then 1 else 0).
  { rewrite count_ev_one. unfold ev_is, mkev. cbn. rewrite Nat.eqb_refl, Nat.eqb_sym. reflexivity. }
  assert (O0 : forall k v1 v2 v3, k <> 1%Z -> count_ev [mkev s t0 (topi th) k v1 v2 v3] 1%Z t0 i = 0).
  { intros k v1 v2 v3 Hk. apply count_ev_zero. intros e [<-|[]]. left. cbn. exact Hk. }
  assert (St : started th = match tpc th with
                            | PInFn _ => negb (grp_eqb (ogrp o) GRM)
                            | PRmCreate _ | PRmStore _ _ | PFnDone _ _ | PDeleted _ _ => true
                            | _ => false end).
  { unfold started. rewrite Ho. reflexivity. }
  rewrite B0, St.
  destruct (tpc th) eqn:Epc;
    repeat match type of H with
           | context [match ?x with _ => _ end] => destruct x eqn:?
           | context [if ?x then _ else _] => destruct x eqn:?
           end;
    inversion H; subst s'; clear H; rewrite Hemit; clear Hemit;
    erewrite B1 by reflexivity;
    unfold started, finish, set_pc, cur_op; cbn [tpc topi tscript];
    fold (cur_op th); rewrite ?Ho; rewrite ?FS, ?count_ev_nil, ?count_ret_ev by discriminate;
    try (rewrite O0 by discriminate);
    try match goal with |- context [nth_error (tscript th) (S (topi th))] => destruct (nth_error (tscript th) (S (topi th))) end;
    repeat match goal with E : ogrp o = _ |- _ => rewrite E; clear E end;
    cbn -[Nat.ltb Nat.eqb];
    destruct (Nat.ltb_spec i (topi th)); destruct (Nat.eqb_spec i (topi th));
    try destruct (Nat.ltb_spec i (S (topi th))); try destruct (Nat.eqb_spec i (S (topi th)));
    cbn -[Nat.ltb Nat.eqb]; try lia;
    destruct (ogrp o); cbn -[Nat.ltb Nat.eqb count_ev]; rewrite ?FS, ?count_ev_nil; lia.
Qed.

Lemma fs_count_run : forall sched s pre t i,
  count_ev pre 1%Z t i <= bnd s t i -> count_ev (pre ++ run_log s sched) 1%Z t i <= 1.
Proof.
  induction sched as [|t0 r IH]; intros s pre t i Hb.
  - cbn [run_log]. rewrite app_nil_r. pose proof (bnd_le1 s t i). lia.
  - cbn [run_log]. rewrite app_assoc. destruct (step s t0) as [s'|] eqn:Hs.
    + apply IH. rewrite count_ev_app. pose proof (fs_count_step s t0 s' t i Hs). lia.
    + apply IH. rewrite count_ev_app, (count_ev_zero (emit s t0)); [lia|].
      intros e Hin. left. rewrite (emit_stutter_kind s t0 e Hs Hin). discriminate.
Qed.

(* every call's own function starts at most once on the log of every run of the model *)
Lemma model_log_own_once_l : forall scripts sched x, own_once (mcase scripts sched) x = true.
Proof.
  intros scripts sched x. unfold own_once. apply Nat.leb_le. cbn [clog mcase]. unfold mlog.
  apply (fs_count_run sched (init scripts) [] (ea x) (eop x)). rewrite count_ev_nil. lia.
Qed.

(* ------------------------------------------------------------------ *)
(* created_once *)

(* y is the end of a successful create for ResourceManager key k *)
Definition created_pred (c : ccase) (k : Z) (y : ev) : bool :=
  match op_at c (ea y) (eop y) with
  | Some o' => grp_eqb (ogrp o') GRM && (okey o' =? k)%Z && (oerr o' =? 0)%Z
  | None => false
  end.

Definition ncre (c : ccase) (l : list ev) (k : Z) : nat :=
  length (filter (created_pred c k) (filter (fun e => (ek e =? 2)%Z) l)).

Lemma ncre_app c l1 l2 k : ncre c (l1 ++ l2) k = ncre c l1 k + ncre c l2 k.
Proof. unfold ncre. rewrite !filter_app, app_length. reflexivity. Qed.

Lemma ncre_zero c l k : (forall e, In e l -> ek e <> 2%Z) -> ncre c l k = 0.
Proof.
  intros H. unfold ncre. replace (filter (fun e => (ek e =? 2)%Z) l) with (@nil ev); [reflexivity|].
  symmetry. induction l as [|e l IH]; [reflexivity|]. cbn.
  destruct (Z.eqb_spec (ek e) 2) as [E|_]; [exfalso; exact (H e (or_introl eq_refl) E)|].
  apply IH. intros e' Hin. apply H. right. exact Hin.
Qed.

Lemma ncre_fe c s t i k o :
  op_at c t i = Some o ->
  ncre c [mkev s t i 2 0 0 0] k = if grp_eqb (ogrp o) GRM && (okey o =? k)%Z && (oerr o =? 0)%Z then 1 else 0.
Proof.
  intros Ho. unfold ncre, created_pred. cbn. rewrite Ho.
  destruct (grp_eqb (ogrp o) GRM && (okey o =? k)%Z && (oerr o =? 0)%Z); reflexivity.
Qed.

Lemma created_count_step c s t0 s' k :
  Inv s -> cscripts c = scripts_of s -> step s t0 = Some s' ->
  ncre c (emit s t0) k + ncreated s k = ncreated s' k.
Proof.
  intros HI Hsc H.
  assert (Hemit : forall th o, nth_error (threads s) t0 = Some th -> cur_op th = Some o ->
            emit s t0 = match tpc th with
                       | PIdle => [mkev s t0 (topi th) 0 0 0 0]
                       | PLead _ => match ogrp o with GRM => [] | _ => [mkev s t0 (topi th) 1 0 0 0] end
                       | PInFn _ => match ogrp o with
                                    | GRM => match resources s (okey o) with Some _ => [] | None => [mkev s t0 (topi th) 1 0 0 0] end
                                    | _ => [mkev s t0 (topi th) 2 0 0 0]
                                    end
                       | PRmCreate _ => [mkev s t0 (topi th) 2 0 0 0]
                       | PWait _ => match ogrp o with GLC => [] | _ => ret_ev s t0 (topi th) s' end
                       | PDeleted _ _ => ret_ev s t0 (topi th) s'
                       | _ => []
                       end).
  { intros th o Ht Ho. unfold emit. rewrite Ht, Ho, H. reflexivity. }
  unfold step in H.
  destruct (nth_error (threads s) t0) as [th|] eqn:Ht; [|discriminate].
  destruct (cur_op th) as [o|] eqn:Ho; [|discriminate].
  specialize (Hemit th o eq_refl Ho).
  pose proof (op_at_thread c s t0 th (topi th) Hsc Ht) as Hop. unfold cur_op in Ho. rewrite Ho in Hop.
  fold (cur_op th) in Ho.
  pose proof (pc_known s t0 th o HI Ht Ho) as P. unfold pc_ok in P.
  assert (Z1 : forall kk v1 v2 v3, kk <> 2%Z -> ncre c [mkev s t0 (topi th) kk v1 v2 v3] k = 0).
  { intros kk v1 v2 v3 Hk. apply ncre_zero. intros e [<-|[]]. cbn. exact Hk. }
  assert (ZR : forall i s0, ncre c (ret_ev s t0 i s0) k = 0).
  { intros i s0. apply ncre_zero. intros e Hin. destruct (ret_ev_kind _ _ _ _ _ Hin) as [E _]. rewrite E. discriminate. }
  destruct (tpc th) eqn:Epc;
    repeat match type of H with
           | context [match ?x with _ => _ end] => destruct x eqn:?
           | context [if ?x then _ else _] => destruct x eqn:?
           end;
    inversion H; subst s'; clear H; rewrite Hemit; clear Hemit; cbn [ncreated];
    rewrite ?ZR; try (rewrite Z1 by discriminate); try reflexivity;
    try (rewrite (ncre_fe c s t0 (topi th) k o Hop));
    repeat match goal with E : ogrp o = _ |- _ => rewrite E in *; clear E end;
    cbn [grp_eqb andb]; try reflexivity.
  - (* the function starts: an fs event, or nothing for GetResource *)
    destruct (ogrp o); [rewrite Z1 by discriminate; reflexivity|rewrite Z1 by discriminate; reflexivity|reflexivity].
  - (* create succeeded *)
    destruct P as (_ & _ & _ & Eg & _). rewrite Eg. cbn [grp_eqb andb]. rewrite Heqb.
    unfold zupd. rewrite (Z.eqb_sym k (okey o)). destruct (Z.eqb_spec (okey o) k) as [->|]; cbn; lia.
  - (* create failed *)
    destruct P as (_ & _ & _ & Eg & _). rewrite Eg. cbn [grp_eqb andb]. rewrite Heqb.
    rewrite andb_false_r. reflexivity.
Qed.

Lemma created_count_run c k : forall sched s pre,
  Inv s -> cscripts c = scripts_of s -> ncre c pre k = ncreated s k ->
  ncre c (pre ++ run_log s sched) k = ncreated (run step s sched) k.
Proof.
  induction sched as [|t0 r IH]; intros s pre HI Hsc Hb.
  - cbn. rewrite app_nil_r. exact Hb.
  - cbn [run_log run]. rewrite app_assoc. destruct (step s t0) as [s'|] eqn:Hs.
    + apply IH.
      * eapply step_inv; eauto.
      * rewrite (step_scripts _ _ _ Hs). exact Hsc.
      * rewrite ncre_app, <- (created_count_step c s t0 s' k HI Hsc Hs). lia.
    + apply IH; auto. rewrite ncre_app, (ncre_zero c (emit s t0)); [lia|].
      intros e Hin. rewrite (emit_stutter_kind s t0 e Hs Hin). discriminate.
Qed.

(* every event of the model's log is an event of a call of the scripts *)
Lemma emit_op s t0 e : In e (emit s t0) ->
  exists th o, nth_error (threads s) t0 = Some th /\ cur_op th = Some o /\ ea e = t0 /\ eop e = topi th.
Proof.
  unfold emit. destruct (nth_error (threads s) t0) as [th|] eqn:Ht; [|intros []].
  destruct (cur_op th) as [o|] eqn:Ho; [|intros []].
  intros Hin. exists th, o. split; [reflexivity|]. split; [exact Ho|]. revert Hin.
  repeat match goal with
         | |- In _ (match ?x with _ => _ end) -> _ => destruct x
         | |- In _ (if ?x then _ else _) -> _ => destruct x
         end;
    first [ intros [<-|[]]; split; reflexivity
          | intros Hin; destruct (ret_ev_kind _ _ _ _ _ Hin) as (_ & E1 & E2); split; assumption
          | intros [] ].
Qed.

Lemma run_log_ops c : forall sched s e,
  cscripts c = scripts_of s -> In e (run_log s sched) -> exists o, op_at c (ea e) (eop e) = Some o.
Proof.
  induction sched as [|t0 r IH]; intros s e Hsc Hin; [destruct Hin|].
  cbn [run_log] in Hin. apply in_app_or in Hin. destruct Hin as [Hin|Hin].
  - destruct (emit_op s t0 e Hin) as (th & o & Ht & Ho & Ea & Ei). exists o.
    rewrite Ea, Ei, (op_at_thread c s t0 th (topi th) Hsc Ht). exact Ho.
  - destruct (step s t0) as [s'|] eqn:Hs.
    + apply (IH s' e); [|exact Hin]. rewrite (step_scripts _ _ _ Hs). exact Hsc.
    + apply (IH s e); assumption.
Qed.

Lemma model_log_ops : forall scripts sched e, In e (mlog scripts sched) ->
  exists o, op_at (mcase scripts sched) (ea e) (eop e) = Some o.
Proof.
  intros scripts sched e Hin. eapply run_log_ops; [|exact Hin]. cbn. symmetry. apply scripts_of_init.
Qed.

(* per ResourceManager key at most one successful create ends on the log of every run of the model *)
Lemma model_log_created_once_l : forall scripts sched x, In x (mlog scripts sched) ->
  created_once (mcase scripts sched) x = true.
Proof.
  intros scripts sched x Hin. unfold created_once.
  destruct (model_log_ops scripts sched x Hin) as (o & Eo). rewrite Eo.
  destruct (ogrp o) eqn:Eg; try reflexivity. apply Nat.leb_le.
  set (c := mcase scripts sched).
  assert (E : forall y, (match op_at c (ea y) (eop y) with
                         | Some o' => same_key o o' && (oerr o' =? 0)%Z
                         | None => false end) = created_pred c (okey o) y).
  { intros y. unfold created_pred. destruct (op_at c (ea y) (eop y)) as [o'|]; [|reflexivity].
    unfold same_key. rewrite Eg. rewrite (Z.eqb_sym (okey o) (okey o')).
    destruct (ogrp o'); reflexivity. }
  rewrite (filter_ext _ _ E). change (ncre c (clog c) (okey o) <= 1). cbn [clog c mcase]. unfold mlog.
  pose proof (created_count_run c (okey o) sched (init scripts) []) as R. cbn [app] in R.
  rewrite R.
  - change (ncreated (exec scripts sched) (okey o) <= 1).
    destruct (inv_rm _ (exec_inv scripts sched) (okey o)) as [L _]. exact L.
  - apply init_inv.
  - cbn. symmetry. apply scripts_of_init.
  - reflexivity.
Qed.

(* the three counting / exclusion conjuncts together, for every event of every model log *)
Lemma model_log_passes_counts_l : forall scripts sched,
  scan (mcase scripts sched) (mlog scripts sched) [] = true /\
  forallb (fun x => created_once (mcase scripts sched) x && own_once (mcase scripts sched) x)
          (execs (mcase scripts sched)) = true.
Proof.
  intros scripts sched. split; [apply model_log_passes_scan_l|].
  apply forallb_forall. intros x Hin. unfold execs in Hin. apply filter_In in Hin. destruct Hin as [Hin _].
  rewrite (model_log_created_once_l scripts sched x Hin), (model_log_own_once_l scripts sched x). reflexivity.
Qed.
