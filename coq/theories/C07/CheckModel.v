(* C07 — Part B of the checker proofs: the event log of EVERY run of the LTS passes
   [Check.scan] (mutual exclusion per key on the log, and "seen blocked at a quiescent point =>
   behind a running same-key function of another thread").  So what the checker demands of the
   implementation's logs is exactly what Props.one_execution_per_key and
   Props.quiescent_blocked_behind_running_function say of the model: a log that fails [scan]
   is not a log of the model.

   The model's log: one event per atomic action that the harness can observe, stamped with the
   logical clock; a schedule choice that is disabled (a stutter) in a gate-level quiescent state
   logs "blk" for that thread, as the controller does. *)
From Coq Require Import List ZArith Bool Arith Lia.
From GZ Require Import Lib.Sched Lib.SchedProofs Lib.CheckLib C07.Model C07.Proofs C07.ProofsB C07.Check C07.CheckProofs.
Import ListNotations.
Local Open Scope nat_scope.

Definition mkev (s : state) (t i : nat) (k v1 v2 v3 : Z) : ev := mkEv (Z.of_nat (now s)) t k i v1 v2 v3.

(* the result event of a step that completed a call: read off the record it appended *)
Definition ret_ev (s : state) (t i : nat) (s' : state) : list ev :=
  match nth_error (threads s') t with
  | Some th' => match last (map Some (tres th')) None with
                | Some r => [mkev s t i 3 (rval r) (rerr r) (if rfresh r then 1 else 0)%Z]
                | None => []
                end
  | None => []
  end.

Definition emit (s : state) (t : nat) : list ev :=
  match nth_error (threads s) t with
  | None => []
  | Some th =>
    match cur_op th with
    | None => []
    | Some o =>
      let i := topi th in
      match step s t with
      | None => if quiescent s then [mkev s t i 4 0 0 0] else []
      | Some s' =>
        match tpc th with
        | PIdle => [mkev s t i 0 0 0 0]
        | PLead _ => match ogrp o with GRM => [] | _ => [mkev s t i 1 0 0 0] end
        | PInFn _ => match ogrp o with
                     | GRM => match resources s (okey o) with Some _ => [] | None => [mkev s t i 1 0 0 0] end
                     | _ => [mkev s t i 2 0 0 0]
                     end
        | PRmCreate _ => [mkev s t i 2 0 0 0]
        | PWait _ => match ogrp o with GLC => [] | _ => ret_ev s t i s' end
        | PDeleted _ _ => ret_ev s t i s'
        | _ => []
        end
      end
    end
  end.

Fixpoint run_log (s : state) (sched : list nat) : list ev :=
  match sched with
  | [] => []
  | t :: r => emit s t ++ match step s t with Some s' => run_log s' r | None => run_log s r end
  end.

Definition mlog (scripts : list (list op)) (sched : list nat) : list ev := run_log (init scripts) sched.

(* the case the checker would be handed: the scripts and the model's own log *)
Definition mcase (scripts : list (list op)) (sched : list nat) : ccase :=
  mkCase scripts false false [] (mlog scripts sched).

(* ------------------------------------------------------------------ *)
(* the set of executions that are open on the log = threads between fs and fe *)

Definition is_open (th : thread) : bool :=
  match cur_op th with
  | None => false
  | Some o =>
    match tpc th, ogrp o with
    | PInFn _, GRM => false
    | PInFn _, _ => true
    | PRmCreate _, _ => true
    | _, _ => false
    end
  end.

Definition open_in (s : state) (x : nat * nat) : Prop :=
  exists th, nth_error (threads s) (fst x) = Some th /\ is_open th = true /\ snd x = topi th.

Definition open_ok (s : state) (open : list (nat * nat)) : Prop := forall x, In x open <-> open_in s x.

Lemma open_in_upd s s' t th th' x :
  nth_error (threads s) t = Some th -> threads s' = upd_nth (threads s) t th' ->
  (open_in s' x <-> (fst x = t /\ is_open th' = true /\ snd x = topi th') \/ (fst x <> t /\ open_in s x)).
Proof.
  intros Ht Hth. unfold open_in. rewrite Hth. split.
  - intros (th0 & N & O & I). destruct (Nat.eq_dec (fst x) t) as [E|E].
    + left. rewrite E in N. rewrite (nth_error_upd_nth_eq _ _ _ _ Ht) in N. inversion N; subst th0. auto.
    + right. split; [exact E|]. rewrite nth_error_upd_nth_neq in N by auto. eauto.
  - intros [(E & O & I)|(E & th0 & N & O & I)].
    + exists th'. rewrite E, (nth_error_upd_nth_eq _ _ _ _ Ht). auto.
    + exists th0. rewrite nth_error_upd_nth_neq by auto. auto.
Qed.

Lemma open_in_self s t th x :
  nth_error (threads s) t = Some th -> fst x = t -> (open_in s x <-> is_open th = true /\ snd x = topi th).
Proof.
  intros Ht E. unfold open_in. rewrite E, Ht. split.
  - intros (th0 & N & O & I). inversion N; subst th0. auto.
  - intros [O I]. eauto.
Qed.

(* scripts never change, so the checker's [op_at] is the thread's own script *)
Definition scripts_of (s : state) : list (list op) := map tscript (threads s).

Lemma nth_error_ext_eq {A} (l l' : list A) : (forall n, nth_error l n = nth_error l' n) -> l = l'.
Proof.
  revert l'. induction l as [|a l IH]; intros [|b l'] H; try reflexivity.
  - specialize (H 0). discriminate.
  - specialize (H 0). discriminate.
  - pose proof (H 0) as H0. cbn in H0. inversion H0; subst b. f_equal. apply IH. intros n. apply (H (S n)).
Qed.

Lemma step_scripts s t s' : step s t = Some s' -> scripts_of s' = scripts_of s.
Proof.
  intros H. unfold scripts_of. apply nth_error_ext_eq. intros n.
  rewrite !nth_error_map.
  destruct (nth_error (threads s') n) as [th'|] eqn:E'.
  - destruct (step_script s t s' n th' H E') as (th & E & Es). rewrite E. cbn. congruence.
  - destruct (nth_error (threads s) n) as [th|] eqn:E; [|reflexivity]. exfalso.
    (* lengths are equal *)
    assert (L : length (threads s') = length (threads s)).
    { unfold step in H. destruct (nth_error (threads s) t) as [th0|]; [|discriminate].
      destruct (cur_op th0); [|discriminate].
      destruct (tpc th0);
        repeat match type of H with
               | context [match ?x with _ => _ end] => destruct x
               | context [if ?x then _ else _] => destruct x
               end; inversion H; subst s'; cbn; try discriminate; apply length_upd_nth. }
    apply nth_error_None in E'. assert (n < length (threads s)) by (apply nth_error_Some; congruence). lia.
Qed.

Section Scan.
  Variable c : ccase.

  Lemma op_at_thread s t th i :
    cscripts c = scripts_of s -> nth_error (threads s) t = Some th -> op_at c t i = nth_error (tscript th) i.
  Proof.
    intros Hs Ht. unfold op_at. rewrite Hs. unfold scripts_of. rewrite nth_error_map, Ht. reflexivity.
  Qed.

  Lemma scan_other e l open o :
    op_at c (ea e) (eop e) = Some o -> ek e <> 1%Z -> ek e <> 2%Z -> ek e <> 4%Z ->
    scan c (e :: l) open = scan c l open.
  Proof.
    intros Ho N1 N2 N4. cbn [scan]. rewrite Ho.
    destruct (Z.eqb_spec (ek e) 1); [contradiction|].
    destruct (Z.eqb_spec (ek e) 2); [contradiction|].
    destruct (Z.eqb_spec (ek e) 4); [contradiction|]. reflexivity.
  Qed.

  Lemma scan_fs e l open o :
    op_at c (ea e) (eop e) = Some o -> ek e = 1%Z ->
    (forall x ox, In x open -> op_at c (fst x) (snd x) = Some ox -> same_key o ox = false) ->
    scan c (e :: l) open = scan c l ((ea e, eop e) :: open).
  Proof.
    intros Ho E1 Hno. cbn [scan]. rewrite Ho, E1. cbn.
    replace (existsb _ open) with false; [reflexivity|]. symmetry.
    apply not_true_is_false. intros X. apply existsb_exists in X. destruct X as (x & Hin & Hx).
    destruct (op_at c (fst x) (snd x)) as [ox|] eqn:Eox; [|discriminate].
    rewrite (Hno x ox Hin Eox) in Hx. discriminate.
  Qed.

  Lemma scan_fe e l open o :
    op_at c (ea e) (eop e) = Some o -> ek e = 2%Z -> In (ea e, eop e) open ->
    scan c (e :: l) open = scan c l (filter (fun x => negb (pair_nat_eqb (ea e, eop e) x)) open).
  Proof.
    intros Ho E2 Hin. cbn [scan]. rewrite Ho, E2. cbn.
    replace (existsb _ open) with true; [reflexivity|]. symmetry.
    apply existsb_exists. exists (ea e, eop e). split; [exact Hin|apply pair_nat_eqb_refl].
  Qed.

  Lemma scan_blk e l open o x ox :
    op_at c (ea e) (eop e) = Some o -> ek e = 4%Z ->
    In x open -> op_at c (fst x) (snd x) = Some ox -> same_key o ox = true -> fst x <> ea e ->
    scan c (e :: l) open = scan c l open.
  Proof.
    intros Ho E4 Hin Hox Hk Hne. cbn [scan]. rewrite Ho, E4. cbn.
    replace (existsb _ open) with true; [reflexivity|]. symmetry.
    apply existsb_exists. exists x. split; [exact Hin|]. rewrite Hox, Hk. cbn.
    apply negb_true_iff. apply Nat.eqb_neq. exact Hne.
  Qed.
End Scan.

Lemma same_key_iff o1 o2 : same_key o1 o2 = true <-> (ogrp o1 = ogrp o2 /\ okey o1 = okey o2).
Proof.
  unfold same_key. rewrite andb_true_iff, Z.eqb_eq. destruct (grp_eqb_spec (ogrp o1) (ogrp o2)); intuition congruence.
Qed.

(* an open thread owns the map entry of its key *)
Lemma is_open_owner th : is_open th = true ->
  exists o cc, cur_op th = Some o /\ owner_pc (tpc th) = Some cc.
Proof.
  unfold is_open. destruct (cur_op th) as [o|]; [|discriminate].
  destruct (tpc th) eqn:E; try discriminate; intros _; eexists o, _; split; reflexivity.
Qed.

Lemma is_open_not th : (forall c, tpc th <> PInFn c) -> (forall c, tpc th <> PRmCreate c) -> is_open th = false.
Proof.
  intros H1 H2. unfold is_open. destruct (cur_op th); [|reflexivity].
  destruct (tpc th) eqn:E; try reflexivity; exfalso; [eapply H1|eapply H2]; reflexivity.
Qed.

Lemma is_open_infn th o c : cur_op th = Some o -> tpc th = PInFn c -> is_open th = negb (grp_eqb (ogrp o) GRM).
Proof. intros Ho Hp. unfold is_open. rewrite Ho, Hp. destruct (ogrp o); reflexivity. Qed.

Lemma is_open_create th o c : cur_op th = Some o -> tpc th = PRmCreate c -> is_open th = true.
Proof. intros Ho Hp. unfold is_open. rewrite Ho, Hp. reflexivity. Qed.

(* one step of the model: its events keep [scan] going and the open set in step *)
Lemma scan_step c s t s' open rest :
  Inv s -> cscripts c = scripts_of s -> open_ok s open -> step s t = Some s' ->
  exists open', open_ok s' open' /\ scan c (emit s t ++ rest) open = scan c rest open'.
Proof.
  intros HI Hsc Hop H.
  assert (Hemit : forall th o, nth_error (threads s) t = Some th -> cur_op th = Some o ->
            emit s t = match tpc th with
                       | PIdle => [mkev s t (topi th) 0 0 0 0]
                       | PLead _ => match ogrp o with GRM => [] | _ => [mkev s t (topi th) 1 0 0 0] end
                       | PInFn _ => match ogrp o with
                                    | GRM => match resources s (okey o) with Some _ => [] | None => [mkev s t (topi th) 1 0 0 0] end
                                    | _ => [mkev s t (topi th) 2 0 0 0]
                                    end
                       | PRmCreate _ => [mkev s t (topi th) 2 0 0 0]
                       | PWait _ => match ogrp o with GLC => [] | _ => ret_ev s t (topi th) s' end
                       | PDeleted _ _ => ret_ev s t (topi th) s'
                       | _ => []
                       end).
  { intros th o Ht Ho. unfold emit. rewrite Ht, Ho, H. reflexivity. }
  unfold step in H.
  destruct (nth_error (threads s) t) as [th|] eqn:Ht; [|discriminate].
  destruct (cur_op th) as [o|] eqn:Ho; [|discriminate].
  specialize (Hemit th o eq_refl Ho).
  pose proof (op_at_thread c s t th (topi th) Hsc Ht) as Hop_at. unfold cur_op in Ho. rewrite Ho in Hop_at.
  (* generic ways to conclude *)
  assert (Keep : forall th', threads s' = upd_nth (threads s) t th' ->
            is_open th = false -> is_open th' = false -> open_ok s' open).
  { intros th' Hth O1 O2 x. rewrite (Hop x), (open_in_upd s s' t th th' x Ht Hth).
    split.
    - intros Hx. right. split; [|exact Hx]. intros E.
      apply (open_in_self s t th x Ht E) in Hx. destruct Hx. congruence.
    - intros [(E & O & _)|(_ & Hx)]; [congruence|exact Hx]. }
  assert (RetOther : forall i s0, forall e, In e (ret_ev s t i s0) -> ea e = t /\ eop e = i /\ ek e = 3%Z).
  { intros i s0 e. unfold ret_ev. destruct (nth_error (threads s0) t); [|intros []].
    destruct (last _ None); [|intros []]. intros [<-|[]]. cbn. auto. }
  assert (ScanRet : forall i s0 open0, i = topi th ->
            scan c (ret_ev s t i s0 ++ rest) open0 = scan c rest open0).
  { intros i s0 open0 ->. pose proof (RetOther (topi th) s0) as R. unfold ret_ev in *.
    destruct (nth_error (threads s0) t); [|reflexivity]. destruct (last _ None); [|reflexivity].
    cbn [app]. eapply scan_other; cbn; try discriminate. exact Hop_at. }
  assert (ScanInv : forall open0, scan c ([mkev s t (topi th) 0 0 0 0] ++ rest) open0 = scan c rest open0).
  { intros open0. cbn [app]. eapply scan_other; cbn; try discriminate. exact Hop_at. }
  (* an execution starts: nothing for the same key is open (owner_unique) *)
  assert (FS : forall s0 th' cc, threads s0 = upd_nth (threads s) t th' ->
            is_open th = false -> is_open th' = true -> topi th' = topi th -> owner_pc (tpc th) = Some cc ->
            exists open', open_ok s0 open' /\
              scan c ([mkev s t (topi th) 1 0 0 0] ++ rest) open = scan c rest open').
  { intros s0 th' cc Hth O1 O2 Ei Hown. exists ((t, topi th) :: open). split.
    - intros x. rewrite (open_in_upd s s0 t th th' x Ht Hth). cbn [In]. rewrite (Hop x). split.
      + intros [<-|Hx]; [left; cbn; rewrite Ei; auto|].
        right. split; [|exact Hx]. intros E. apply (open_in_self s t th x Ht E) in Hx. destruct Hx. congruence.
      + intros [(E & _ & I)|(_ & Hx)]; [left; destruct x; cbn in *; congruence|right; exact Hx].
    - cbn [app]. erewrite scan_fs; [reflexivity|exact Hop_at|reflexivity|].
      intros x ox Hin Hox. destruct (same_key o ox) eqn:Ek; [|reflexivity]. exfalso.
      apply (Hop x) in Hin. destruct Hin as (th2 & N2 & O2' & I2).
      rewrite (op_at_thread c s (fst x) th2 (snd x) Hsc N2), I2 in Hox.
      apply same_key_iff in Ek. destruct Ek as [Eg Ekk].
      destruct (is_open_owner th2 O2') as (o2 & c2 & Ho2 & Hown2).
      unfold cur_op in Ho2. rewrite Ho2 in Hox. inversion Hox; subst ox.
      assert (fst x = t).
      { eapply (owner_unique s (ogrp o) (okey o) (fst x) t th2 th o2 o c2 cc HI N2 Ht); eauto. }
      assert (th2 = th) by congruence. congruence. }
  (* an execution ends *)
  assert (FE : forall s0 th', threads s0 = upd_nth (threads s) t th' ->
            is_open th = true -> is_open th' = false ->
            exists open', open_ok s0 open' /\
              scan c ([mkev s t (topi th) 2 0 0 0] ++ rest) open = scan c rest open').
  { intros s0 th' Hth O1 O2.
    exists (filter (fun x => negb (pair_nat_eqb (t, topi th) x)) open). split.
    - intros x. rewrite (open_in_upd s s0 t th th' x Ht Hth), filter_In, (Hop x). split.
      + intros [Hx Hne]. right. split; [|exact Hx]. intros E.
        apply (open_in_self s t th x Ht E) in Hx as Hx'. destruct Hx' as [_ I].
        apply negb_true_iff in Hne. destruct x as [a b]. cbn in E, I. subst a b.
        rewrite pair_nat_eqb_refl in Hne. discriminate.
      + intros [(E & O & _)|(E & Hx)]; [congruence|]. split; [exact Hx|].
        apply negb_true_iff. destruct (pair_nat_eqb (t, topi th) x) eqn:Ep; [|reflexivity].
        apply pair_nat_eqb_spec in Ep. subst x. cbn in E. congruence.
    - cbn [app]. erewrite scan_fe; [reflexivity|exact Hop_at|reflexivity|].
      cbn. apply (Hop (t, topi th)). exists th. auto. }
  assert (KeepQ : forall s0 th', threads s0 = upd_nth (threads s) t th' ->
            is_open th = false -> is_open th' = false -> open_ok s0 open).
  { intros s0 th' Hth O1 O2 x. rewrite (Hop x), (open_in_upd s s0 t th th' x Ht Hth).
    split.
    - intros Hx. right. split; [|exact Hx]. intros E.
      apply (open_in_self s t th x Ht E) in Hx. destruct Hx. congruence.
    - intros [(E & O & _)|(_ & Hx)]; [congruence|exact Hx]. }
  assert (Hcur : cur_op th = Some o) by exact Ho.
  destruct (tpc th) eqn:Epc;
    repeat match type of H with
           | context [match ?x with _ => _ end] => destruct x eqn:?
           | context [if ?x then _ else _] => destruct x eqn:?
           end;
    inversion H; subst s'; clear H; rewrite Hemit; clear Hemit;
    try (exists open; split;
         [ eapply Keep; [reflexivity | unfold is_open, cur_op; rewrite ?Ho, ?Epc; cbn; try reflexivity; try (destruct (ogrp o); reflexivity)
                                      | unfold is_open, cur_op; cbn; rewrite ?Ho; cbn; try reflexivity;
                                        try (destruct (nth_error (tscript th) (S (topi th))); reflexivity);
                                        try (destruct (ogrp o); reflexivity) ]
         | first [ apply ScanInv | apply ScanRet; reflexivity | reflexivity
                 | destruct (ogrp o); try discriminate; first [reflexivity | apply ScanRet; reflexivity] ] ]; fail).
  - (* wake: SingleFlight *)
    exists open. split; [|apply ScanRet; reflexivity].
    eapply KeepQ; [reflexivity| |]; apply is_open_not; cbn; intros; try discriminate; rewrite Epc; discriminate.
  - (* wake: GetResource *)
    exists open. split; [|apply ScanRet; reflexivity].
    eapply KeepQ; [reflexivity| |]; apply is_open_not; cbn; intros; try discriminate; rewrite Epc; discriminate.
  - (* fn starts (SingleFlight, LockedCalls); the ResourceManager closure starts: nothing logged *)
    assert (O1 : is_open th = false) by (apply is_open_not; intros; rewrite Epc; discriminate).
    destruct (ogrp o) eqn:Eg.
    + eapply (FS _ _ c0); [reflexivity|exact O1| |reflexivity|first [reflexivity|rewrite Epc; reflexivity]].
      erewrite is_open_infn; [|exact Hcur|reflexivity]. rewrite Eg. reflexivity.
    + eapply (FS _ _ c0); [reflexivity|exact O1| |reflexivity|first [reflexivity|rewrite Epc; reflexivity]].
      erewrite is_open_infn; [|exact Hcur|reflexivity]. rewrite Eg. reflexivity.
    + exists open. split; [|reflexivity]. eapply KeepQ; [reflexivity|exact O1|].
      erewrite is_open_infn; [|exact Hcur|reflexivity]. rewrite Eg. reflexivity.
  - (* fn ends: SingleFlight *)
    eapply FE; [reflexivity| |apply is_open_not; cbn; intros; discriminate].
    erewrite is_open_infn; [|exact Hcur|exact Epc]. rewrite Heqg. reflexivity.
  - (* fn ends: LockedCalls *)
    eapply FE; [reflexivity| |apply is_open_not; cbn; intros; discriminate].
    erewrite is_open_infn; [|exact Hcur|exact Epc]. rewrite Heqg. reflexivity.
  - (* GetResource: hit inside the flight, create is not called *)
    exists open. split; [|reflexivity]. eapply KeepQ; [reflexivity| |apply is_open_not; cbn; intros; discriminate].
    erewrite is_open_infn; [|exact Hcur|exact Epc]. rewrite Heqg. reflexivity.
  - (* GetResource: miss, create starts *)
    eapply (FS _ _ c0); [reflexivity| |eapply is_open_create; [exact Hcur|reflexivity]|reflexivity|first [reflexivity|rewrite Epc; reflexivity]].
    erewrite is_open_infn; [|exact Hcur|exact Epc]. rewrite Heqg. reflexivity.
  - (* create returns a resource *)
    eapply FE; [reflexivity|eapply is_open_create; [exact Hcur|exact Epc]|apply is_open_not; cbn; intros; discriminate].
  - (* create fails / panics *)
    eapply FE; [reflexivity|eapply is_open_create; [exact Hcur|exact Epc]|apply is_open_not; cbn; intros; discriminate].
  - (* wg.Done; return *)
    exists open. split; [|apply ScanRet; reflexivity].
    eapply KeepQ; [reflexivity| |]; apply is_open_not; cbn; intros; try discriminate; rewrite Epc; discriminate.
Qed.

Lemma in_fn_parked_open g k th : in_fn g k th = true -> parked th = true ->
  is_open th = true /\ exists o, cur_op th = Some o /\ ogrp o = g /\ okey o = k.
Proof.
  unfold in_fn, parked, is_open. destruct (cur_op th) as [o|]; [|discriminate].
  intros H P. apply andb_prop in H. destruct H as [H H3]. apply andb_prop in H. destruct H as [H1 H2].
  destruct (grp_eqb_spec (ogrp o) g) as [Eg|]; [|discriminate]. apply Z.eqb_eq in H2.
  split; [|exists o; auto].
  destruct (tpc th); try discriminate; destruct (ogrp o); try discriminate; reflexivity.
Qed.

(* a disabled schedule choice: nothing happens; in a quiescent state the thread is logged as
   blocked, and [scan] finds the running same-key function it is behind *)
Lemma scan_stutter c s t open rest :
  Inv s -> live_ok s -> cscripts c = scripts_of s -> open_ok s open -> step s t = None ->
  scan c (emit s t ++ rest) open = scan c rest open.
Proof.
  intros HI HL Hsc Hop H. unfold emit. rewrite H.
  destruct (nth_error (threads s) t) as [th|] eqn:Ht; [|reflexivity].
  destruct (cur_op th) as [o|] eqn:Ho; [|reflexivity].
  destruct (quiescent s) eqn:HQ; [|reflexivity].
  assert (He : enabled s t = false) by (unfold enabled; rewrite H; reflexivity).
  destruct (quiescent_blocked_behind_running_fn s t th o HI HL HQ Ht Ho He) as (tL & thL & Hne & NL & FL).
  assert (PL : parked thL = true).
  { unfold quiescent in HQ. rewrite forallb_forall in HQ. apply HQ. eapply nth_error_In; eauto. }
  destruct (in_fn_parked_open _ _ _ FL PL) as (OL & oL & HoL & Eg & Ek).
  cbn [app]. eapply (scan_blk c _ rest open o (tL, topi thL) oL).
  - cbn. rewrite (op_at_thread c s t th (topi th) Hsc Ht). exact Ho.
  - reflexivity.
  - apply (Hop (tL, topi thL)). exists thL. auto.
  - cbn. rewrite (op_at_thread c s tL thL (topi thL) Hsc NL). exact HoL.
  - apply same_key_iff. auto.
  - cbn. exact Hne.
Qed.

Lemma scan_run c : forall sched s open,
  Inv s -> live_ok s -> cscripts c = scripts_of s -> open_ok s open ->
  scan c (run_log s sched) open = true.
Proof.
  induction sched as [|t r IH]; intros s open HI HL Hsc Hop; [reflexivity|].
  cbn [run_log]. destruct (step s t) as [s'|] eqn:Hs.
  - destruct (scan_step c s t s' open (run_log s' r) HI Hsc Hop Hs) as (open' & Hop' & E).
    rewrite E. apply IH; auto.
    + eapply step_inv; eauto.
    + eapply live_step; eauto.
    + rewrite (step_scripts _ _ _ Hs). exact Hsc.
  - rewrite (scan_stutter c s t open (run_log s r) HI HL Hsc Hop Hs). apply IH; auto.
Qed.

Lemma scripts_of_init scripts : scripts_of (init scripts) = scripts.
Proof. unfold scripts_of, init. cbn. rewrite map_map. cbn. apply map_id. Qed.

Lemma live_ok_init scripts : live_ok (init scripts).
Proof. intros c Hc. cbn in Hc. lia. Qed.

Lemma open_ok_init scripts : open_ok (init scripts) [].
Proof.
  intros x. split; [intros []|]. intros (th & N & O & _). exfalso.
  cbn in N. rewrite nth_error_map in N. destruct (nth_error scripts (fst x)); inversion N; subst th.
  unfold is_open in O. destruct (cur_op _); cbn in O; discriminate.
Qed.

(* The event log of every run of the model - any scripts, any schedule - passes [scan]. *)
Lemma model_log_passes_scan_l : forall scripts sched,
  scan (mcase scripts sched) (mlog scripts sched) [] = true.
Proof.
  intros scripts sched. unfold mlog. apply scan_run.
  - apply init_inv.
  - apply live_ok_init.
  - cbn. symmetry. apply scripts_of_init.
  - apply open_ok_init.
Qed.
