(* C07 — the decidable checkers of Check.prop_ok are not oracles.

   Part A (this file, pure list reasoning): what [scan] accepts satisfies the declarative
   statements "no two executions for one key overlap" and "a thread seen blocked is behind an
   execution for its own key that is in progress in another thread"; the remaining conjuncts of
   prop_ok ([ret_ok], [fresh_once], [created_once], [own_once]) are boolean transcriptions whose
   reading is given by the reflection lemmas at the end.

   Part B (CheckModel.v): the event log of EVERY run of the LTS passes [scan] - the theorems of
   Props.v, restated on logs, are what the checker demands of the implementation. *)
From Coq Require Import List ZArith Bool Arith Lia.
From GZ Require Import Lib.Sched Lib.CheckLib C07.Model C07.Check.
Import ListNotations.

Definition eid (e : ev) : nat * nat := (ea e, eop e).

Lemma pair_nat_eqb_spec x y : pair_nat_eqb x y = true <-> x = y.
Proof.
  unfold pair_nat_eqb. destruct x as [a b], y as [a' b']. cbn.
  rewrite andb_true_iff, !Nat.eqb_eq. split; [intros [-> ->]; reflexivity | intros H; inversion H; auto].
Qed.

Lemma pair_nat_eqb_refl x : pair_nat_eqb x x = true.
Proof. apply pair_nat_eqb_spec. reflexivity. Qed.

(* the two events belong to calls on the same (group, key) *)
Definition same_call_key (c : ccase) (x y : nat * nat) : Prop :=
  exists ox oy, op_at c (fst x) (snd x) = Some ox /\ op_at c (fst y) (snd y) = Some oy /\
                same_key oy ox = true.

(* [x] started before the end of [l1] and has not ended in [l1] (or was open initially) *)
Definition open_after (l1 : list ev) (open : list (nat * nat)) (x : nat * nat) : Prop :=
  (In x open /\ forall f, In f l1 -> ek f = 2%Z -> eid f <> x) \/
  (exists la s lb, l1 = la ++ s :: lb /\ ek s = 1%Z /\ eid s = x /\
                   forall f, In f lb -> ek f = 2%Z -> eid f <> x).

Lemma single_split {A} (e s : A) la lb : [e] = la ++ s :: lb -> la = [] /\ s = e /\ lb = [].
Proof.
  destruct la as [|a la]; cbn; intros H; inversion H; auto.
  destruct la; discriminate.
Qed.

Section Scan.
  Variable c : ccase.

  Lemma scan_cons e l open :
    scan c (e :: l) open = true ->
    exists o, op_at c (ea e) (eop e) = Some o /\
      ((ek e = 1%Z /\ (forall x ox, In x open -> op_at c (fst x) (snd x) = Some ox -> same_key o ox = false) /\
        scan c l (eid e :: open) = true) \/
       (ek e = 2%Z /\ In (eid e) open /\
        scan c l (filter (fun x => negb (pair_nat_eqb (eid e) x)) open) = true) \/
       (ek e = 4%Z /\ (exists x ox, In x open /\ op_at c (fst x) (snd x) = Some ox /\ same_key o ox = true /\
                                   fst x <> ea e) /\ scan c l open = true) \/
       (ek e <> 1%Z /\ ek e <> 2%Z /\ ek e <> 4%Z /\ scan c l open = true)).
  Proof.
    cbn [scan]. destruct (op_at c (ea e) (eop e)) as [o|] eqn:Eo; [|discriminate].
    intros H. exists o. split; [reflexivity|].
    destruct (Z.eqb_spec (ek e) 1) as [E1|E1].
    - left. apply andb_prop in H. destruct H as [H1 H2]. split; [exact E1|]. split; [|exact H2].
      intros x ox Hin Hox. apply negb_true_iff in H1.
      destruct (same_key o ox) eqn:Es; [|reflexivity]. exfalso.
      assert (X : existsb (fun x => match op_at c (fst x) (snd x) with Some o' => same_key o o' | None => false end) open = true).
      { apply existsb_exists. exists x. split; [exact Hin|]. rewrite Hox. exact Es. }
      congruence.
    - destruct (Z.eqb_spec (ek e) 2) as [E2|E2].
      + right. left. apply andb_prop in H. destruct H as [H1 H2]. split; [exact E2|]. split; [|exact H2].
        apply existsb_exists in H1. destruct H1 as (x & Hin & Hx). apply pair_nat_eqb_spec in Hx.
        unfold eid. rewrite Hx. exact Hin.
      + destruct (Z.eqb_spec (ek e) 4) as [E4|E4].
        * right. right. left. apply andb_prop in H. destruct H as [H1 H2]. split; [exact E4|]. split; [|exact H2].
          apply existsb_exists in H1. destruct H1 as (x & Hin & Hx). apply andb_prop in Hx. destruct Hx as [Hs Hn].
          destruct (op_at c (fst x) (snd x)) as [ox|] eqn:Eox; [|discriminate].
          exists x, ox. repeat split; auto. apply negb_true_iff in Hn. apply Nat.eqb_neq in Hn. exact Hn.
        * right. right. right. auto.
  Qed.

  Lemma in_filter_neq (x me : nat * nat) open :
    In x open -> x <> me -> In x (filter (fun y => negb (pair_nat_eqb me y)) open).
  Proof.
    intros Hin Hne. apply filter_In. split; [exact Hin|]. apply negb_true_iff.
    destruct (pair_nat_eqb me x) eqn:E; [|reflexivity]. apply pair_nat_eqb_spec in E. congruence.
  Qed.

  (* whatever is open when an execution starts is not for the same key, and a blocked thread has a
     same-key execution of another thread open *)
  Lemma scan_sound_gen : forall l open, scan c l open = true ->
    (forall l1 e2 l3, l = l1 ++ e2 :: l3 -> ek e2 = 1%Z ->
       forall x, open_after l1 open x -> ~ same_call_key c x (eid e2)) /\
    (forall l1 e l3, l = l1 ++ e :: l3 -> ek e = 4%Z ->
       exists x, open_after l1 open x /\ same_call_key c x (eid e) /\ fst x <> ea e).
  Proof.
    induction l as [|e l IH]; intros open H.
    - split; intros l1 e2 l3 E; destruct l1; discriminate.
    - destruct (scan_cons e l open H) as (o & Eo & Hcases).
      assert (Step : forall open', scan c l open' = true ->
                (forall x, open_after [e] open x -> open_after [] open' x) ->
                (forall x, open_after [] open' x -> open_after [e] open x) ->
                (forall l1 e2 l3, l = l1 ++ e2 :: l3 -> ek e2 = 1%Z ->
                   forall x, open_after (e :: l1) open x -> ~ same_call_key c x (eid e2)) /\
                (forall l1 e' l3, l = l1 ++ e' :: l3 -> ek e' = 4%Z ->
                   exists x, open_after (e :: l1) open x /\ same_call_key c x (eid e') /\ fst x <> ea e')).
      { intros open' Hs Hfw Hbw. destruct (IH open' Hs) as [IA IB].
        assert (Fw : forall l1 x, open_after (e :: l1) open x -> open_after l1 open' x).
        { intros l1 x [[Hin Hno]|(la & s & lb & El & Es & Ex & Hno)].
          - assert (O : open_after [] open' x).
            { apply Hfw. left. split; [exact Hin|]. intros f [<-|[]] Hf. apply Hno; [left; reflexivity|exact Hf]. }
            destruct O as [[Hin' _]|(la & s & lb & El & _)]; [|destruct la; discriminate].
            left. split; [exact Hin'|]. intros f Hf. apply Hno. right. exact Hf.
          - destruct la as [|a la].
            + cbn in El. inversion El; subst s lb.
              assert (O : open_after [] open' x).
              { apply Hfw. right. exists [], e, []. repeat split; auto; intros f []. }
              destruct O as [[Hin' _]|(la & s & lb & El' & _)]; [|destruct la; discriminate].
              left. split; [exact Hin'|exact Hno].
            + cbn in El. inversion El; subst a l1. right. exists la, s, lb. auto. }
        assert (Bw : forall l1 x, open_after l1 open' x -> open_after (e :: l1) open x).
        { intros l1 x [[Hin Hno]|(la & s & lb & El & Es & Ex & Hno)].
          - assert (O : open_after [e] open x).
            { apply Hbw. left. split; [exact Hin|]. intros f []. }
            destruct O as [[Hin' Hno']|(la & s & lb & El & Es & Ex & Hno')].
            + left. split; [exact Hin'|]. intros f [<-|Hf]; [apply Hno'; left; reflexivity|apply Hno; exact Hf].
            + right. apply single_split in El. destruct El as (-> & -> & ->).
              exists [], e, l1. repeat split; auto.
          - right. exists (e :: la), s, lb. subst l1. repeat split; auto. }
        split.
        - intros l1 e2 l3 E E2 x Hx. apply (IA l1 e2 l3 E E2 x). apply Fw. exact Hx.
        - intros l1 e' l3 E E4. destruct (IB l1 e' l3 E E4) as (x & Hx & Hk & Hn).
          exists x. split; [apply Bw; exact Hx|auto]. }
      destruct Hcases as [(E1 & Hnone & Hs)|[(E2 & Hin & Hs)|[(E4 & (x0 & ox0 & Hin0 & Hox0 & Hk0 & Hn0) & Hs)|(N1 & N2 & N4 & Hs)]]].
      + (* fs *)
        destruct (Step (eid e :: open) Hs) as [SA SB].
        { intros x [[Hin Hno]|(la & s & lb & El & Es & Ex & Hno)].
          - left. split; [right; exact Hin|intros f []].
          - apply single_split in El. destruct El as (-> & -> & ->).
            left. split; [left; exact Ex|intros f []]. }
        { intros x [[[<-|Hin] _]|(la & s & lb & El & _)]; [| |destruct la; discriminate].
          - right. exists [], e, []. repeat split; auto; intros f [].
          - left. split; [exact Hin|]. intros f [<-|[]] Hf. congruence. }
        split.
        * intros l1 e2 l3 E Ek x Hx. destruct l1 as [|a l1]; cbn in E; inversion E; subst.
          -- (* the execution that starts now *)
             intros (ox & oy & Hox & Hoy & Hk).
             destruct Hx as [[Hin _]|(la & s & lb & El & _)]; [|destruct la; discriminate].
             cbn in Hoy. rewrite Eo in Hoy. inversion Hoy; subst oy.
             rewrite (Hnone x ox Hin Hox) in Hk. discriminate.
          -- eapply SA; eauto.
        * intros l1 e' l3 E Ek. destruct l1 as [|a l1]; cbn in E; inversion E; subst; [congruence|].
          eapply SB; eauto.
      + (* fe *)
        destruct (Step (filter (fun x => negb (pair_nat_eqb (eid e) x)) open) Hs) as [SA SB].
        { intros x [[Hi Hno]|(la & s & lb & El & Es & Ex & Hno)].
          - left. split; [|intros f []]. apply in_filter_neq; [exact Hi|].
            intros ->. apply (Hno e); [left; reflexivity|exact E2|reflexivity].
          - apply single_split in El. destruct El as (-> & -> & ->). congruence. }
        { intros x [[Hi _]|(la & s & lb & El & _)]; [|destruct la; discriminate].
          apply filter_In in Hi. destruct Hi as [Hi Hne]. left. split; [exact Hi|].
          intros f [<-|[]] _ Ef. apply negb_true_iff in Hne. rewrite Ef, pair_nat_eqb_refl in Hne. discriminate. }
        split.
        * intros l1 e2 l3 E Ek x Hx. destruct l1 as [|a l1]; cbn in E; inversion E; subst; [congruence|].
          eapply SA; eauto.
        * intros l1 e' l3 E Ek. destruct l1 as [|a l1]; cbn in E; inversion E; subst; [congruence|].
          eapply SB; eauto.
      + (* blk *)
        destruct (Step open Hs) as [SA SB].
        { intros x [[Hi Hno]|(la & s & lb & El & Es & Ex & Hno)].
          - left. split; [exact Hi|intros f []].
          - apply single_split in El. destruct El as (-> & -> & ->). congruence. }
        { intros x [[Hi _]|(la & s & lb & El & _)]; [|destruct la; discriminate].
          left. split; [exact Hi|]. intros f [<-|[]] Hf. congruence. }
        split.
        * intros l1 e2 l3 E Ek x Hx. destruct l1 as [|a l1]; cbn in E; inversion E; subst; [congruence|].
          eapply SA; eauto.
        * intros l1 e' l3 E Ek. destruct l1 as [|a l1]; cbn in E; inversion E; subst.
          -- exists x0. split; [left; split; [exact Hin0|intros f []]|]. split; [|exact Hn0].
             exists ox0, o. repeat split; auto.
          -- eapply SB; eauto.
      + (* any other event *)
        destruct (Step open Hs) as [SA SB].
        { intros x [[Hi Hno]|(la & s & lb & El & Es & Ex & Hno)].
          - left. split; [exact Hi|intros f []].
          - apply single_split in El. destruct El as (-> & -> & ->). congruence. }
        { intros x [[Hi _]|(la & s & lb & El & _)]; [|destruct la; discriminate].
          left. split; [exact Hi|]. intros f [<-|[]] Hf. congruence. }
        split.
        * intros l1 e2 l3 E Ek x Hx. destruct l1 as [|a l1]; cbn in E; inversion E; subst; [congruence|].
          eapply SA; eauto.
        * intros l1 e' l3 E Ek. destruct l1 as [|a l1]; cbn in E; inversion E; subst; [congruence|].
          eapply SB; eauto.
  Qed.

  (* No two executions for one key overlap: between the starts of two executions of calls on the
     same (group, key) the first one has ended. *)
  Theorem scan_no_overlap : forall l, scan c l [] = true ->
    forall l1 e1 l2 e2 l3, l = l1 ++ e1 :: l2 ++ e2 :: l3 -> ek e1 = 1%Z -> ek e2 = 1%Z ->
    same_call_key c (eid e1) (eid e2) ->
    exists f, In f l2 /\ ek f = 2%Z /\ eid f = eid e1.
  Proof.
    intros l H l1 e1 l2 e2 l3 E E1 E2 Hk.
    destruct (scan_sound_gen l [] H) as [SA _].
    assert (E' : l = (l1 ++ e1 :: l2) ++ e2 :: l3) by (rewrite E, <- app_assoc; reflexivity).
    (* classically: if no such f, e1 is open at e2 *)
    assert (D : (exists f, In f l2 /\ ek f = 2%Z /\ eid f = eid e1) \/
                (forall f, In f l2 -> ek f = 2%Z -> eid f <> eid e1)).
    { clear. induction l2 as [|a l2 IH]; [right; intros f []|].
      destruct IH as [(f & A & B & C)|IH]; [left; exists f; repeat split; auto; right; exact A|].
      destruct (Z.eq_dec (ek a) 2) as [Ea|Ea].
      - destruct (pair_nat_eqb (eid a) (eid e1)) eqn:Ep.
        + left. exists a. apply pair_nat_eqb_spec in Ep. repeat split; auto. left. reflexivity.
        + right. intros f [<-|Hf] Hk; [|apply IH; auto]. intros X. rewrite X, pair_nat_eqb_refl in Ep. discriminate.
      - right. intros f [<-|Hf] Hk; [congruence|apply IH; auto]. }
    destruct D as [D|D]; [exact D|]. exfalso.
    apply (SA _ _ _ E' E2 (eid e1)); [|exact Hk].
    right. exists l1, e1, l2. repeat split; auto.
  Qed.

  (* A thread seen blocked waits behind an execution of ANOTHER thread for ITS OWN (group, key)
     that has started and not ended. *)
  Theorem scan_blocked_behind_own_key : forall l, scan c l [] = true ->
    forall l1 e l3, l = l1 ++ e :: l3 -> ek e = 4%Z ->
    exists la s lb, l1 = la ++ s :: lb /\ ek s = 1%Z /\ ea s <> ea e /\
                    same_call_key c (eid s) (eid e) /\
                    forall f, In f lb -> ek f = 2%Z -> eid f <> eid s.
  Proof.
    intros l H l1 e l3 E E4. destruct (scan_sound_gen l [] H) as [_ SB].
    destruct (SB l1 e l3 E E4) as (x & [[[] _]|(la & s & lb & El & Es & Ex & Hno)] & Hk & Hn).
    exists la, s, lb. subst x. repeat split; auto.
  Qed.
End Scan.

(* ------------------------------------------------------------------ *)
(* reading of the other conjuncts of prop_ok *)

Lemma find_ev_some l k a i e : find_ev l k a i = Some e ->
  In e l /\ ek e = k /\ ea e = a /\ eop e = i.
Proof.
  unfold find_ev. intros H. apply find_some in H. destruct H as [Hin H]. unfold ev_is in H.
  destruct (ek e =? k)%Z eqn:H1; [|discriminate]. destruct (Nat.eqb (ea e) a) eqn:H2; [|discriminate].
  apply Z.eqb_eq in H1. apply Nat.eqb_eq in H2. apply Nat.eqb_eq in H. auto.
Qed.

(* [may_share c e x]: the execution x (an fs event) had ended before the call of e returned; it is
   e's own execution (then not reported "not fresh"), or - not reported fresh - the call that led
   x was invoked before e returned and had not returned before e was invoked: the two calls
   overlap in time. *)
Lemma may_share_spec c e x : may_share c e x = true ->
  exists fe linv inv,
    In fe (clog c) /\ ek fe = 2%Z /\ eid fe = eid x /\
    In linv (clog c) /\ ek linv = 0%Z /\ eid linv = eid x /\
    In inv (clog c) /\ ek inv = 0%Z /\ eid inv = eid e /\
    (et fe < et e)%Z /\
    ((eid x = eid e /\ ev3 e <> 0%Z) \/
     (eid x <> eid e /\ ev3 e <> 1%Z /\ (et linv < et e)%Z /\
      forall lret, find_ev (clog c) 3%Z (ea x) (eop x) = Some lret -> (et inv < et lret)%Z)).
Proof.
  unfold may_share.
  destruct (find_ev (clog c) 2 (ea x) (eop x)) as [fe|] eqn:F1; [|discriminate].
  destruct (find_ev (clog c) 0 (ea x) (eop x)) as [linv|] eqn:F2; [|discriminate].
  destruct (find_ev (clog c) 0 (ea e) (eop e)) as [inv|] eqn:F3; [|discriminate].
  intros H. apply andb_prop in H. destruct H as [H1 H2]. apply Z.ltb_lt in H1.
  destruct (find_ev_some _ _ _ _ _ F1) as (A1 & A2 & A3 & A4).
  destruct (find_ev_some _ _ _ _ _ F2) as (B1 & B2 & B3 & B4).
  destruct (find_ev_some _ _ _ _ _ F3) as (C1 & C2 & C3 & C4).
  exists fe, linv, inv. unfold eid. rewrite A3, A4, B3, B4, C3, C4.
  repeat split; auto.
  destruct (pair_nat_eqb (ea x, eop x) (ea e, eop e)) eqn:Ep.
  - left. apply pair_nat_eqb_spec in Ep. split; [exact Ep|]. apply negb_true_iff in H2. apply Z.eqb_neq. exact H2.
  - right. split; [intros X; rewrite X, pair_nat_eqb_refl in Ep; discriminate|].
    apply andb_prop in H2. destruct H2 as [H2 H5]. apply andb_prop in H2. destruct H2 as [H3 H4].
    apply negb_true_iff in H3. apply Z.eqb_neq in H3. apply Z.ltb_lt in H4.
    split; [exact H3|]. split; [exact H4|]. intros lret Hl. rewrite Hl in H5. apply Z.ltb_lt. exact H5.
Qed.

(* a SingleFlight result accepted by ret_ok (no cache in front): it is what the function of some
   execution x of the same key handed over, x = the caller's own or an overlapping one - or it is
   the (nil, nil) that a panicking overlapping leader left behind *)
Lemma ret_ok_singleflight_spec c e o :
  ccache c = false -> (ev3 e =? -2)%Z = false ->
  op_at c (ea e) (eop e) = Some o -> ogrp o = GSF -> ret_ok c e = true ->
  exists x o', In x (clog c) /\ ek x = 1%Z /\ op_at c (ea x) (eop x) = Some o' /\ same_key o o' = true /\
    may_share c e x = true /\
    ((ev1 e, ev2 e) = fn_ret o' \/
     (panics o' = true /\ (ev1 e, ev2 e) = (vnil, 0%Z) /\ eid x <> eid e)).
Proof.
  intros Hc H3 Ho Hg H. unfold ret_ok in H. rewrite H3, Ho, Hg, Hc in H. cbn [andb] in H.
  apply existsb_exists in H. destruct H as (x & Hin & Hx).
  unfold execs in Hin. apply filter_In in Hin. destruct Hin as [Hin Hk]. apply Z.eqb_eq in Hk.
  destruct (op_at c (ea x) (eop x)) as [o'|] eqn:Eo'; [|discriminate].
  destruct (same_key o o') eqn:Hs; [|discriminate]. exists x, o'. repeat split; auto.
  - apply orb_prop in Hx. destruct Hx as [Hx|Hx].
    + apply andb_prop in Hx. tauto.
    + unfold panic_share in Hx. apply andb_prop in Hx. tauto.
  - apply orb_prop in Hx. destruct Hx as [Hx|Hx].
    + left. apply andb_prop in Hx. destruct Hx as [Hx _]. apply andb_prop in Hx. destruct Hx as [H1 H2].
      apply Z.eqb_eq in H1. apply Z.eqb_eq in H2. destruct (fn_ret o'); cbn in *; congruence.
    + right. unfold panic_share in Hx.
      repeat (apply andb_prop in Hx; let H' := fresh in destruct Hx as [Hx H']).
      match goal with H : negb (pair_nat_eqb _ _) = true |- _ => apply negb_true_iff in H; rename H into Hne end.
      repeat match goal with H : (_ =? _)%Z = true |- _ => apply Z.eqb_eq in H end.
      split; [assumption|]. split; [congruence|].
      intros X. unfold eid in X. rewrite X, pair_nat_eqb_refl in Hne. discriminate.
Qed.

(* LockedCalls: the caller's own function started and ended exactly once, before the return,
   and the call returned what that function handed over *)
Lemma ret_ok_locked_spec c e o :
  (ev3 e =? -2)%Z = false ->
  op_at c (ea e) (eop e) = Some o -> ogrp o = GLC -> ret_ok c e = true ->
  count_ev (clog c) 1%Z (ea e) (eop e) = 1%nat /\ count_ev (clog c) 2%Z (ea e) (eop e) = 1%nat /\
  (ev1 e, ev2 e) = fn_ret o /\
  exists fe, find_ev (clog c) 2%Z (ea e) (eop e) = Some fe /\ (et fe < et e)%Z.
Proof.
  intros H3 Ho Hg H. unfold ret_ok in H. rewrite H3, Ho, Hg in H.
  repeat (apply andb_prop in H; let H' := fresh in destruct H as [H H']).
  repeat match goal with H : Nat.eqb _ _ = true |- _ => apply Nat.eqb_eq in H end.
  repeat match goal with H : (_ =? _)%Z = true |- _ => apply Z.eqb_eq in H end.
  destruct (find_ev (clog c) 2 (ea e) (eop e)) as [fe|]; [|discriminate].
  repeat split; auto.
  - destruct (fn_ret o); cbn in *; congruence.
  - exists fe. split; [reflexivity|]. apply Z.ltb_lt. assumption.
Qed.

(* ResourceManager: at most one successful creation per key among the executions of the log *)
Lemma created_once_spec c x o :
  op_at c (ea x) (eop x) = Some o -> ogrp o = GRM -> created_once c x = true ->
  (length (filter (fun y => match op_at c (ea y) (eop y) with
                            | Some o' => same_key o o' && (oerr o' =? 0)%Z
                            | None => false end)
                  (filter (fun e => (ek e =? 2)%Z) (clog c))) <= 1)%nat.
Proof.
  intros Ho Hg H. unfold created_once in H. rewrite Ho, Hg in H. apply Nat.leb_le. exact H.
Qed.

(* ------------------------------------------------------------------ *)
(* Round 4: the remaining conjuncts read declaratively, and all of [prop_ok_conc] in one statement. *)

(* GetResource: a successful result is the instance a successful create for this key produced before the
   return; a failed one is the error of an overlapping (or the caller's own) creation *)
Lemma ret_ok_resource_spec c e o :
  (ev3 e =? -2)%Z = false ->
  op_at c (ea e) (eop e) = Some o -> ogrp o = GRM -> ret_ok c e = true ->
  (ev2 e = 0%Z ->
   exists x o' fe, In x (clog c) /\ ek x = 1%Z /\ op_at c (ea x) (eop x) = Some o' /\ same_key o o' = true /\
                   oval o' = ev1 e /\ oerr o' = 0%Z /\
                   find_ev (clog c) 2%Z (ea x) (eop x) = Some fe /\ (et fe < et e)%Z) /\
  (ev2 e <> 0%Z ->
   exists x o', In x (clog c) /\ ek x = 1%Z /\ op_at c (ea x) (eop x) = Some o' /\ same_key o o' = true /\
                oerr o' = ev2 e /\ may_share c e x = true).
Proof.
  intros H3 Ho Hg H. unfold ret_ok in H. rewrite H3, Ho, Hg in H.
  split; intros He.
  - rewrite He in H. cbn in H. apply existsb_exists in H. destruct H as (x & Hin & Hx).
    unfold execs in Hin. apply filter_In in Hin. destruct Hin as [Hin Hk]. apply Z.eqb_eq in Hk.
    destruct (op_at c (ea x) (eop x)) as [o'|] eqn:Eo'; [|discriminate].
    destruct (same_key o o' && (oval o' =? ev1 e)%Z && (oerr o' =? 0)%Z) eqn:Ec; [|discriminate].
    destruct (find_ev (clog c) 2 (ea x) (eop x)) as [fe|] eqn:Ef; [|discriminate].
    apply andb_prop in Ec. destruct Ec as [Ec E3]. apply andb_prop in Ec. destruct Ec as [E1 E2].
    apply Z.eqb_eq in E2. apply Z.eqb_eq in E3. apply Z.ltb_lt in Hx.
    exists x, o', fe. repeat split; auto.
  - destruct (ev2 e =? 0)%Z eqn:E0; [apply Z.eqb_eq in E0; contradiction|].
    apply existsb_exists in H. destruct H as (x & Hin & Hx).
    unfold execs in Hin. apply filter_In in Hin. destruct Hin as [Hin Hk]. apply Z.eqb_eq in Hk.
    destruct (op_at c (ea x) (eop x)) as [o'|] eqn:Eo'; [|discriminate].
    destruct (same_key o o' && (oerr o' =? ev2 e)%Z) eqn:Ec; [|discriminate].
    apply andb_prop in Ec. destruct Ec as [E1 E2]. apply Z.eqb_eq in E2.
    exists x, o'. repeat split; auto.
Qed.

(* a filter that keeps at most one element keeps no two *)
Lemma filter_le1_no_two {A} (p : A -> bool) l :
  (length (filter p l) <= 1)%nat ->
  forall l1 e1 l2 e2 l3, l = l1 ++ e1 :: l2 ++ e2 :: l3 -> p e1 = true -> p e2 = true -> False.
Proof.
  intros H l1 e1 l2 e2 l3 -> P1 P2.
  rewrite filter_app in H. cbn [filter] in H. rewrite P1 in H. cbn [length app] in H.
  rewrite app_length in H. cbn [length] in H. rewrite filter_app in H. cbn [filter] in H. rewrite P2 in H.
  rewrite app_length in H. cbn [length] in H. lia.
Qed.

(* the returns that are reported fresh for the execution with op [o] (identified by its value) *)
Definition fresh_ret_of (c : ccase) (o : op) (e : ev) : bool :=
  if (ek e =? 3)%Z && (ev3 e =? 1)%Z && (ev1 e =? oval o)%Z then
    match op_at c (ea e) (eop e) with Some o' => same_key o o' | None => false end
  else false.

(* exactly-one-fresh, upper half: no two returns of the log are reported fresh for one execution *)
Lemma fresh_once_spec c x o :
  op_at c (ea x) (eop x) = Some o -> ogrp o = GSF -> fresh_once c x = true ->
  forall l1 e1 l2 e2 l3, clog c = l1 ++ e1 :: l2 ++ e2 :: l3 ->
    fresh_ret_of c o e1 = true -> fresh_ret_of c o e2 = true -> False.
Proof.
  intros Ho Hg H. unfold fresh_once in H. rewrite Ho, Hg in H. apply Nat.leb_le in H.
  exact (filter_le1_no_two (fresh_ret_of c o) (clog c) H).
Qed.

Lemma own_once_spec c x : own_once c x = true -> (count_ev (clog c) 1%Z (ea x) (eop x) <= 1)%nat.
Proof. unfold own_once. apply Nat.leb_le. Qed.

(* [prop_ok_conc] (no cache in front) in one declarative statement about the log *)
Definition log_ok (c : ccase) : Prop :=
  scan c (clog c) [] = true /\
  (forall e o, In e (clog c) -> ek e = 3%Z -> (ev3 e =? -2)%Z = false -> op_at c (ea e) (eop e) = Some o ->
     (ogrp o = GSF ->
        exists x o', In x (clog c) /\ ek x = 1%Z /\ op_at c (ea x) (eop x) = Some o' /\ same_key o o' = true /\
          may_share c e x = true /\
          ((ev1 e, ev2 e) = fn_ret o' \/ (panics o' = true /\ (ev1 e, ev2 e) = (vnil, 0%Z) /\ eid x <> eid e))) /\
     (ogrp o = GLC ->
        count_ev (clog c) 1%Z (ea e) (eop e) = 1%nat /\ count_ev (clog c) 2%Z (ea e) (eop e) = 1%nat /\
        (ev1 e, ev2 e) = fn_ret o /\
        exists fe, find_ev (clog c) 2%Z (ea e) (eop e) = Some fe /\ (et fe < et e)%Z) /\
     (ogrp o = GRM ->
        (ev2 e = 0%Z ->
         exists x o' fe, In x (clog c) /\ ek x = 1%Z /\ op_at c (ea x) (eop x) = Some o' /\ same_key o o' = true /\
                         oval o' = ev1 e /\ oerr o' = 0%Z /\
                         find_ev (clog c) 2%Z (ea x) (eop x) = Some fe /\ (et fe < et e)%Z) /\
        (ev2 e <> 0%Z ->
         exists x o', In x (clog c) /\ ek x = 1%Z /\ op_at c (ea x) (eop x) = Some o' /\ same_key o o' = true /\
                      oerr o' = ev2 e /\ may_share c e x = true))) /\
  (forall x o, In x (clog c) -> ek x = 1%Z -> op_at c (ea x) (eop x) = Some o ->
     (count_ev (clog c) 1%Z (ea x) (eop x) <= 1)%nat /\
     (ogrp o = GSF -> forall l1 e1 l2 e2 l3, clog c = l1 ++ e1 :: l2 ++ e2 :: l3 ->
                        fresh_ret_of c o e1 = true -> fresh_ret_of c o e2 = true -> False) /\
     (ogrp o = GRM ->
        (length (filter (fun y => match op_at c (ea y) (eop y) with
                                  | Some o' => same_key o o' && (oerr o' =? 0)%Z
                                  | None => false end)
                        (filter (fun e => (ek e =? 2)%Z) (clog c))) <= 1)%nat)).

Lemma prop_ok_conc_sound c : ccache c = false -> prop_ok_conc c = true -> log_ok c.
Proof.
  intros Hc H. unfold prop_ok_conc in H.
  apply andb_prop in H. destruct H as [H H3]. apply andb_prop in H. destruct H as [H1 H2].
  rewrite forallb_forall in H2, H3.
  split; [exact H1|]. split.
  - intros e o Hin Hk Hn Ho.
    assert (R : ret_ok c e = true).
    { apply H2. apply filter_In. split; [exact Hin|]. apply Z.eqb_eq. exact Hk. }
    split; [|split]; intros Hg.
    + exact (ret_ok_singleflight_spec c e o Hc Hn Ho Hg R).
    + exact (ret_ok_locked_spec c e o Hn Ho Hg R).
    + exact (ret_ok_resource_spec c e o Hn Ho Hg R).
  - intros x o Hin Hk Ho.
    assert (X : fresh_once c x && created_once c x && own_once c x = true).
    { apply H3. unfold execs. apply filter_In. split; [exact Hin|]. apply Z.eqb_eq. exact Hk. }
    apply andb_prop in X. destruct X as [X X3]. apply andb_prop in X. destruct X as [X1 X2].
    split; [exact (own_once_spec c x X3)|]. split; intros Hg.
    + exact (fresh_once_spec c x o Ho Hg X1).
    + exact (created_once_spec c x o Ho Hg X2).
Qed.
