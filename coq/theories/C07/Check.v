(* C07 — correspondence / property evaluation on histories observed on the
   implementation (forced schedules and free-running logs).  Executable only. *)
From Coq Require Import List ZArith Bool Arith.
From GZ Require Export Lib.CheckLib C07.Model.
Import ListNotations.

(* ------------------------------------------------------------------ *)
(* agrees: the LTS, driven by the gate-level schedule the controller forced on the
   implementation, shows the same status of every thread after every macro step and the
   same results.

   Mapping gate-level control -> model schedule (see notes/C07.md): the controller
   releases thread a from a gate (call gate = PIdle, fn gate = PInFn for SF/LC or
   PRmCreate for RM, and for RM also PCalled = parked between the invocation of GetResource
   and singleFlight.Do, status code 4); the thread runs its atomic actions until it parks at the next gate,
   blocks or finishes; then the threads woken by it run, in the order in which they were
   seen to make progress on the implementation ([sorder], an oracle that the model
   validates: a listed thread that cannot move or an unlisted one that can shows up as a
   status mismatch), until nothing inside the library is enabled. *)

Definition at_gate (s : state) (t : nat) : bool :=
  match nth_error (threads s) t with
  | None => true
  | Some th =>
    match cur_op th with
    | None => true
    | Some o =>
      match tpc th, ogrp o with
      | PIdle, _ => true
      | PCalled, GRM => true     (* GetResource invoked, parked in front of singleFlight.Do *)
      | PInFn _, GRM => false
      | PInFn _, _ => true
      | PRmCreate _, _ => true
      | _, _ => false
      end
    end
  end.

(* status codes as reported by the controller: 0 parked at the call gate, 3 parked at the
   fn gate, 4 parked in front of singleFlight.Do (ResourceManager), 1 blocked inside the library, 2 done; second component: call index *)
Definition status (s : state) (t : nat) : Z * Z :=
  match nth_error (threads s) t with
  | None => (2, 0)%Z
  | Some th =>
    match cur_op th with
    | None => (2, 0)%Z
    | Some o =>
      if at_gate s t then
        match tpc th with
        | PIdle => (0%Z, Z.of_nat (topi th))
        | PCalled => (4%Z, Z.of_nat (topi th))
        | _ => (3%Z, Z.of_nat (topi th))
        end
      else (1%Z, Z.of_nat (topi th))
    end
  end.

Definition fuel := 64%nat.

(* release thread t: one action, then on until the next gate / block *)
Definition release (s : state) (t : nat) : option state :=
  if at_gate s t then
    match step s t with
    | Some s' => Some (run_thread step (fun s'' => at_gate s'' t) fuel s' t)
    | None => None
    end
  else None.

(* let the threads inside the library run, in the given order, until no progress *)
Definition settle_pass (s : state) (order : list nat) : state :=
  fold_left (fun s t => run_thread step (fun s'' => at_gate s'' t) fuel s t) order s.

Fixpoint settle (n : nat) (s : state) (order : list nat) : state :=
  match n with
  | O => s
  | S n' =>
    let s' := settle_pass s order in
    if Nat.eqb (now s') (now s) then s' else settle n' s' order
  end.

Record ostep := mkOStep
  { sa : nat;                 (* thread released *)
    sskip : bool;             (* it was not parked (blocked / done): nothing happened *)
    sorder : list nat;        (* all threads, those seen progressing first, in that order *)
    sstat : list (Z * Z) }.   (* status of every thread after quiescence *)

Definition stat_eqb (a b : Z * Z) : bool :=
  (fst a =? fst b)%Z && ((fst a =? 2)%Z || (snd a =? snd b)%Z).

Definition statuses (s : state) : list (Z * Z) :=
  map (status s) (seq 0 (length (threads s))).

Definition macro (s : state) (o : ostep) : state * bool :=
  match release s (sa o) with
  | Some s1 =>
    let s2 := settle 8 s1 (sorder o) in
    (s2, negb (sskip o) && list_eqb stat_eqb (statuses s2) (sstat o))
  | None => (s, sskip o && list_eqb stat_eqb (statuses s) (sstat o))
  end.

Fixpoint drive (s : state) (l : list ostep) : state * bool :=
  match l with
  | [] => (s, true)
  | o :: l' =>
    let '(s1, ok) := macro s o in
    let '(s2, ok') := drive s1 l' in
    (s2, ok && ok')
  end.

(* observed events: kind 0 inv, 1 fs, 2 fe, 3 ret (v1 val, v2 err (epanic = the call panicked),
   v3 fresh: 1/0/-1 unknown/-2 not a call of the barrier), 4 blk (thread seen blocked at a quiescent
   point, or still blocked when the run is over), 5 del (key in v1), 6 fault (cache store down: v1 = 1 / up again: 0),
   7 ctxdone (the call is made with a context that is already done) *)
Record ev := mkEv { et : Z; ea : nat; ek : Z; eop : nat; ev1 : Z; ev2 : Z; ev3 : Z }.

(* what the runner writes: thread and call index as binary numbers (a unary literal of an index costs its value in
   parsing and type checking; logs have thousands of events) *)
Definition mkEvZ (t a k i v1 v2 v3 : Z) : ev := mkEv t (Z.to_nat a) k (Z.to_nat i) v1 v2 v3.

Record ccase := mkCase
  { cscripts : list (list op);
    ccache : bool;    (* the calls go through a cache in front of the barrier (collection.Cache.Take,
                         stores/cache node Take / TakeWithExpire): a result may also be the cached value of
                         the latest completed load of the key; only prop_ok is evaluated *)
    cforced : bool;
    csteps : list ostep;
    clog : list ev }.

(* the cache node's not-found error: the only error a cache may legitimately keep (placeholder) *)
Definition enotfound : Z := 9%Z.

Definition model_final (c : ccase) : state * bool := drive (init (cscripts c)) (csteps c).

(* results per thread: (call index, val, err, fresh) *)
Definition model_results (s : state) : list (list (Z * Z * Z * Z)) :=
  map (fun th => map (fun r => (Z.of_nat (rop r), rval r, rerr r, if rfresh r then 1%Z else 0%Z)) (tres th))
      (threads s).

Definition obs_results (c : ccase) : list (list (Z * Z * Z * Z)) :=
  map (fun t => map (fun e => (Z.of_nat (eop e), ev1 e, ev2 e, ev3 e))
                    (filter (fun e => (ek e =? 3)%Z && Nat.eqb (ea e) t) (clog c)))
      (seq 0 (length (cscripts c))).

Definition res_eqb (m o : Z * Z * Z * Z) : bool :=
  let '(mi, mv, me, mf) := m in
  let '(oi, ov, oe, of_) := o in
  (mi =? oi)%Z && (mv =? ov)%Z && (me =? oe)%Z && ((of_ =? -1)%Z || (mf =? of_)%Z).

Definition agrees_conc (c : ccase) : bool :=
  if cforced c then
    let '(s, ok) := model_final c in
    ok && list_eqb (list_eqb res_eqb) (model_results s) (obs_results c)
  else true.

(* ------------------------------------------------------------------ *)
(* prop_ok: the property of properties.jsonl, evaluated directly on the event log of the
   implementation (intervals on the logical clock), independent of the LTS. *)

Definition op_at (c : ccase) (a i : nat) : option op :=
  match nth_error (cscripts c) a with
  | Some sc => nth_error sc i
  | None => None
  end.

Definition same_key (o1 o2 : op) : bool :=
  grp_eqb (ogrp o1) (ogrp o2) && (okey o1 =? okey o2)%Z.

(* vm_compute is call-by-value: [a && b] evaluates b whatever a is.  Where b is expensive (a search through the
   whole log, a comparison of unary numbers) the conjunction is written with [if]: same function, evaluated
   only when needed (logs of hundreds of calls are judged in seconds instead of minutes). *)
Definition ev_is (k : Z) (a i : nat) (e : ev) : bool :=
  if (ek e =? k)%Z then (if Nat.eqb (ea e) a then Nat.eqb (eop e) i else false) else false.

Definition find_ev (l : list ev) (k : Z) (a i : nat) : option ev := find (ev_is k a i) l.

Definition count_ev (l : list ev) (k : Z) (a i : nat) : nat := length (filter (ev_is k a i) l).

Definition pair_nat_eqb (x y : nat * nat) : bool := Nat.eqb (fst x) (fst y) && Nat.eqb (snd x) (snd y).

(* (A) + (C): scan the log keeping the executions in progress *)
Fixpoint scan (c : ccase) (l : list ev) (open : list (nat * nat)) : bool :=
  match l with
  | [] => true
  | e :: l' =>
    let me := (ea e, eop e) in
    match op_at c (ea e) (eop e) with
    | None => false
    | Some o =>
      let same x := match op_at c (fst x) (snd x) with Some o' => same_key o o' | None => false end in
      if (ek e =? 1)%Z then
        (* fn starts: no execution for this key may be in progress *)
        negb (existsb same open) && scan c l' (me :: open)
      else if (ek e =? 2)%Z then
        existsb (pair_nat_eqb me) open && scan c l' (filter (fun x => negb (pair_nat_eqb me x)) open)
      else if (ek e =? 4)%Z then
        (* blocked: only behind an execution for the same key by another thread *)
        existsb (fun x => same x && negb (Nat.eqb (fst x) (ea e))) open && scan c l' open
      else scan c l' open
    end
  end.

(* the executions: fs events *)
Definition execs (c : ccase) : list ev := filter (fun e => (ek e =? 1)%Z) (clog c).

(* the call of [e] (a ret event) may legitimately carry the result of execution [x]
   (an fs event): that execution's value was computed before, and it is the caller's own
   execution (then reported fresh) or one whose leading call overlaps the caller's call *)
Definition may_share (c : ccase) (e x : ev) : bool :=
  let l := clog c in
  match find_ev l 2 (ea x) (eop x), find_ev l 0 (ea x) (eop x), find_ev l 0 (ea e) (eop e) with
  | Some fe, Some linv, Some inv =>
    (et fe <? et e)%Z &&
    if pair_nat_eqb (ea x, eop x) (ea e, eop e) then negb (ev3 e =? 0)%Z
    else
      negb (ev3 e =? 1)%Z && (et linv <? et e)%Z &&
      match find_ev l 3 (ea x) (eop x) with
      | Some lret => (et inv <? et lret)%Z
      | None => true
      end
  | _, _, _ => false
  end.

(* the cache store was made to fail at some point of the history *)
Definition has_fault (c : ccase) : bool := existsb (fun e => (ek e =? 6)%Z) (clog c).
Definition fault_before (c : ccase) (e : ev) : bool :=
  existsb (fun f => (ek f =? 6)%Z && (ev1 f =? 1)%Z && (et f <? et e)%Z) (clog c).

(* cache in front of the barrier: the value of a load x of the same key that completed before
   the call was invoked.  The loader's result is written to the cache some time between the end of
   the loader (fe) and the return of the loading call (lret); so the value is CERTAINLY gone only
   if, after lret, a later load of the key was started-and-returned before the call was invoked
   (not required in histories with store faults: a load that completes while the store is down is
   not written), or the key was deleted by an operation invoked after lret and completed (event
   kind 5, key in v1, stamped when the entry is gone) before the call was invoked.  Anything in
   between is a race of the cache, not of the barrier: either outcome is accepted.  (Under forced
   schedules fe and lret belong to one atomic step, and this is "no later load / delete between
   the load and the call".) *)
Definition cache_hit (c : ccase) (e x : ev) : bool :=
  let l := clog c in
  match find_ev l 2 (ea x) (eop x), find_ev l 0 (ea e) (eop e), op_at c (ea x) (eop x) with
  | Some fe, Some inv, Some ox =>
    (et fe <? et inv)%Z &&
    match find_ev l 3 (ea x) (eop x) with
    | None => true
    | Some lret =>
      (has_fault c ||
       negb (existsb (fun y => match op_at c (ea y) (eop y), find_ev l 3 (ea y) (eop y) with
                               | Some oy, Some yret => same_key ox oy && (ek y =? 2)%Z && (et lret <? et y)%Z && (et yret <? et inv)%Z
                               | _, _ => false end) l)) &&
      negb (existsb (fun d => (ek d =? 5)%Z && (ev1 d =? okey ox)%Z && (et d <? et inv)%Z &&
                              match find_ev l 0 (ea d) (eop d) with
                              | Some dinv => (et lret <? et dinv)%Z
                              | None => false end) l)
    end
  | _, _, _ => false
  end.

(* ... and a flight that was answered from the cache (no loader ran) is shared like any other: the
   caller may have the cached outcome that an OVERLAPPING call on the same key legitimately got
   (itself included).  Only free-running histories can hold such a flight open long enough. *)
Definition calls_overlap (c : ccase) (e e' : ev) : bool :=
  match find_ev (clog c) 0 (ea e) (eop e), find_ev (clog c) 0 (ea e') (eop e') with
  | Some i, Some i' => (et i' <? et e)%Z && (et i <? et e')%Z
  | _, _ => false
  end.

Definition cache_hit_shared (c : ccase) (e x : ev) : bool :=
  existsb (fun e' => (ek e' =? 3)%Z && (ev1 e' =? ev1 e)%Z && (ev2 e' =? ev2 e)%Z &&
                     match op_at c (ea e) (eop e), op_at c (ea e') (eop e') with
                     | Some o, Some o' => same_key o o'
                     | _, _ => false
                     end && calls_overlap c e e' && cache_hit c e' x) (clog c).

(* the caller's context (cache node TakeCtx): event kind 7 marks a call made with a context that
   is already done; such a call fails with the context's error (30 canceled / 31 deadline) before
   any loader runs, and callers that share its flight get that error too *)
Definition ectx_canceled : Z := 30%Z.
Definition ectx_deadline : Z := 31%Z.
Definition ctx_done_shared (c : ccase) (e : ev) (o : op) : bool :=
  ((ev2 e =? ectx_canceled) || (ev2 e =? ectx_deadline))%Z &&
  existsb (fun f => (ek f =? 7)%Z &&
                    match op_at c (ea f) (eop f) with
                    | Some o' => same_key o o' &&
                                 (pair_nat_eqb (ea f, eop f) (ea e, eop e) ||
                                  ((et f <? et e)%Z &&
                                   match find_ev (clog c) 0 (ea e) (eop e), find_ev (clog c) 3 (ea f) (eop f) with
                                   | Some inv, Some fret => (et inv <? et fret)%Z
                                   | Some _, None => true
                                   | None, _ => false
                                   end))
                    | None => false
                    end) (clog c).

(* A user function that panics assigns nothing: SingleFlight waiters of that execution return
   (nil, nil).  The property text does not quantify over panicking functions; this clause states
   what the code does and is the only place where a result that no execution produced is accepted
   (see Pinned.panic_hands_nil_to_waiters_refuted and notes/C07.md). *)
Definition panic_share (c : ccase) (e x : ev) (o' : op) : bool :=
  panics o' && (ev1 e =? vnil)%Z && (ev2 e =? 0)%Z &&
  negb (pair_nat_eqb (ea x, eop x) (ea e, eop e)) && may_share c e x.

Definition ret_ok (c : ccase) (e : ev) : bool :=
  if (ev3 e =? -2)%Z then true else
  match op_at c (ea e) (eop e) with
  | None => false
  | Some o =>
    match ogrp o with
    | GSF =>
      if ccache c && negb (ev2 e =? 0)%Z then
        (* a failed load is not cached and its value is dropped: only the error is shared - except the
           not-found outcome, which the cache node keeps as a placeholder; while the store is down every
           call fails fast with the store's error *)
        existsb (fun x => match op_at c (ea x) (eop x) with
                          | Some o' => if same_key o o' && (snd (fn_ret o') =? ev2 e)%Z then
                                       (may_share c e x || ((ev2 e =? enotfound)%Z && cache_hit_shared c e x))
                                       else false
                          | None => false end) (execs c)
        || ((ev2 e =? -1)%Z && fault_before c e)
        || ctx_done_shared c e o
      else if ccache c then
        existsb (fun x => match op_at c (ea x) (eop x) with
                          | Some o' => if same_key o o' then
                                       (((oval o' =? ev1 e)%Z && (oerr o' =? 0)%Z &&
                                         (may_share c e x || cache_hit_shared c e x))
                                        || panic_share c e x o')
                                       else false
                          | None => false end) (execs c)
      else
      existsb (fun x => match op_at c (ea x) (eop x) with
                        | Some o' => if same_key o o' then
                                     (((fst (fn_ret o') =? ev1 e)%Z && (snd (fn_ret o') =? ev2 e)%Z && may_share c e x)
                                      || panic_share c e x o')
                                     else false
                        | None => false end) (execs c)
    | GLC =>
      (* own function, exactly once, own result *)
      Nat.eqb (count_ev (clog c) 1 (ea e) (eop e)) 1 && Nat.eqb (count_ev (clog c) 2 (ea e) (eop e)) 1 &&
      (fst (fn_ret o) =? ev1 e)%Z && (snd (fn_ret o) =? ev2 e)%Z &&
      match find_ev (clog c) 2 (ea e) (eop e) with Some fe => (et fe <? et e)%Z | None => false end
    | GRM =>
      if (ev2 e =? 0)%Z then
        (* a successful create of exactly this instance for this key happened before, or is
           the caller's own *)
        existsb (fun x => match op_at c (ea x) (eop x) with
                          | Some o' => if same_key o o' && (oval o' =? ev1 e)%Z && (oerr o' =? 0)%Z then
                                         match find_ev (clog c) 2 (ea x) (eop x) with
                                         | Some fe => (et fe <? et e)%Z
                                         | None => false
                                         end
                                       else false
                          | None => false end) (execs c)
      else
        (* a failed (or panicked) creation is shared with the overlapping callers only *)
        existsb (fun x => match op_at c (ea x) (eop x) with
                          | Some o' => if same_key o o' && (oerr o' =? ev2 e)%Z then may_share c e x else false
                          | None => false end) (execs c)
    end
  end.

(* at most one reported-fresh return per execution, identified by its (unique) value *)
Definition fresh_once (c : ccase) (x : ev) : bool :=
  match op_at c (ea x) (eop x) with
  | Some o =>
    match ogrp o with
    | GSF => Nat.leb (length (filter (fun e => if (ek e =? 3)%Z && (ev3 e =? 1)%Z && (ev1 e =? oval o)%Z then
                                      match op_at c (ea e) (eop e) with Some o' => same_key o o' | None => false end
                                      else false)
                             (clog c))) 1
    | _ => true
    end
  | None => false
  end.

(* ResourceManager: at most one successful create per key *)
Definition created_once (c : ccase) (x : ev) : bool :=
  match op_at c (ea x) (eop x) with
  | Some o =>
    match ogrp o with
    | GRM =>
      Nat.leb (length (filter (fun y => match op_at c (ea y) (eop y) with
                                        | Some o' => same_key o o' && (oerr o' =? 0)%Z
                                        | None => false end)
                              (filter (fun e => (ek e =? 2)%Z) (clog c)))) 1
    | _ => true
    end
  | None => false
  end.

(* every caller ran its own function at most once *)
Definition own_once (c : ccase) (x : ev) : bool := Nat.leb (count_ev (clog c) 1 (ea x) (eop x)) 1.

Definition prop_ok_conc (c : ccase) : bool :=
  scan c (clog c) [] &&
  forallb (ret_ok c) (filter (fun e => (ek e =? 3)%Z) (clog c)) &&
  forallb (fun x => fresh_once c x && created_once c x && own_once c x) (execs c).

(* ------------------------------------------------------------------ *)
(* ResourceManager as a sequential object, with Inject and Close (not part of the LTS: Inject is
   a test hook that overwrites the map, and the manager must not be used after Close).
   op: 0 GetResource (create returns (rv, re)), 1 Inject, 2 Close.  Observation:
   get -> (instance, err, create called), inject -> (0,0,0),
   close -> (#resources closed, #Close errors joined, sum of the closed ids); a resource whose id
   is divisible by 5 fails to close. *)
Record rmop := mkRmOp { rk : Z; rkey : Z; rv : Z; re : Z }.

Fixpoint rm_lookup (m : list (Z * Z)) (k : Z) : option Z :=
  match m with
  | [] => None
  | (k', x) :: m' => if (k' =? k)%Z then Some x else rm_lookup m' k
  end.

Definition rm_set (m : list (Z * Z)) (k x : Z) : list (Z * Z) :=
  (k, x) :: filter (fun p => negb (fst p =? k)%Z) m.

Definition zsum (l : list Z) : Z := fold_right Z.add 0%Z l.

Definition rm_seq_step (m : list (Z * Z)) (o : rmop) : list (Z * Z) * (Z * Z * Z) :=
  if (rk o =? 0)%Z then
    match rm_lookup m (rkey o) with
    | Some x => (m, (x, 0, 0)%Z)                         (* handed out, create not called *)
    | None => if (re o =? 0)%Z then (rm_set m (rkey o) (rv o), (rv o, 0, 1)%Z)
              else (m, (-1, re o, 1)%Z)                   (* a failed creation leaves nothing behind *)
    end
  else if (rk o =? 1)%Z then (rm_set m (rkey o) (rv o), (0, 0, 0)%Z)
  else ([], (Z.of_nat (length m),
             Z.of_nat (length (filter (fun p => (snd p mod 5 =? 0)%Z) m)),
             zsum (map snd m))).

Fixpoint rm_seq (m : list (Z * Z)) (ops : list rmop) : list (Z * Z * Z) :=
  match ops with
  | [] => []
  | o :: ops' => let '(m', r) := rm_seq_step m o in r :: rm_seq m' ops'
  end.

Definition obs3_eqb (a b : Z * Z * Z) : bool :=
  let '(a1, a2, a3) := a in let '(b1, b2, b3) := b in (a1 =? b1)%Z && (a2 =? b2)%Z && (a3 =? b3)%Z.

(* the property on the observations alone: per key, between two Close, create is called only
   while the key has no instance, succeeds at most once, and every successful GetResource hands out
   the one current instance (the created or the injected one) *)
Fixpoint rm_prop (cur : list (Z * Z)) (ops : list rmop) (obs : list (Z * Z * Z)) : bool :=
  match ops, obs with
  | [], [] => true
  | o :: ops', (v, e, cr) :: obs' =>
    if (rk o =? 0)%Z then
      match rm_lookup cur (rkey o) with
      | Some x => (v =? x)%Z && (e =? 0)%Z && (cr =? 0)%Z && rm_prop cur ops' obs'
      | None =>
        (cr =? 1)%Z &&
        if (e =? 0)%Z then (re o =? 0)%Z && (v =? rv o)%Z && rm_prop (rm_set cur (rkey o) v) ops' obs'
        else (e =? re o)%Z && (v =? -1)%Z && rm_prop cur ops' obs'
      end
    else if (rk o =? 1)%Z then rm_prop (rm_set cur (rkey o) (rv o)) ops' obs'
    else (v =? Z.of_nat (length cur))%Z && (cr =? zsum (map snd cur))%Z &&
         (e =? Z.of_nat (length (filter (fun p => (snd p mod 5 =? 0)%Z) cur)))%Z &&
         rm_prop [] ops' obs'
  | _, _ => false
  end.

(* ------------------------------------------------------------------ *)
Inductive case :=
| Conc (c : ccase)
| RmSeq (ops : list rmop) (obs : list (Z * Z * Z)).

Definition agrees (c : case) : bool :=
  match c with
  | Conc c => agrees_conc c
  | RmSeq ops obs => list_eqb obs3_eqb (rm_seq [] ops) obs
  end.

Definition prop_ok (c : case) : bool :=
  match c with
  | Conc c => prop_ok_conc c
  | RmSeq ops obs => rm_prop [] ops obs
  end.

Definition model_obs (c : case) :=
  match c with
  | Conc c => (statuses (fst (model_final c)), model_results (fst (model_final c)), [])
  | RmSeq ops _ => ([], [], rm_seq [] ops)
  end.
