(* C07 — buggy variants of the LTS, each refuted by a concrete schedule evaluated with
   vm_compute.  They mark the boundary of what the theorems of Props.v exclude (and are the
   model-level counterparts of mutations used in the self-test, notes/C07.md). *)
From Coq Require Import List ZArith Bool Arith.
From GZ Require Import Lib.Sched C07.Model.
Import ListNotations.

(* (a) singleflight that keeps the map entry after the call returned ("result cached"):
   the deferred function does not delete(g.calls, key). *)
Definition nodelete_step (s : state) (t : nat) : option state :=
  match nth_error (threads s) t with
  | Some th =>
    match cur_op th, tpc th with
    | Some _, PFnDone c r =>
      Some (mkState (S (now s)) (calls s) (heap s) (nextc s) (resources s) (ncreated s)
                    (upd_nth (threads s) t (set_pc th (PDeleted c r))))
    | _, _ => step s t
    end
  | None => None
  end.

Definition stale_scripts : list (list op) := [[mkOp GSF 1 101 0]; [mkOp GSF 1 201 0]].
(* thread 0 runs its whole call (6 actions), only then thread 1 calls *)
Definition stale_sched : list nat := [0;0;0;0;0;0; 1;1;1].

(* thread 1 gets 101 — a result retained from a call that had returned (at time 5) before
   thread 1 even invoked (time 6) and joined (time 7): [no_stale_result]'s "rjoin < cret"
   fails. *)
Theorem retained_result_refuted :
  exists scripts sched t th r rt,
    let s := run nodelete_step (init scripts) sched in
    nth_error (threads s) t = Some th /\ In r (tres th) /\
    rfresh r = false /\ rval r = 101%Z /\
    cret (heap s (rcid r)) = Some rt /\ rt < rinv r /\ rt < rjoin r.
Proof.
  exists stale_scripts, stale_sched, 1.
  eexists. eexists. eexists. vm_compute.
  split; [reflexivity|]. split; [left; reflexivity|]. repeat split; auto.
Qed.

(* the real model on the same schedule: thread 1 runs its own function *)
Example real_model_not_stale :
  map (fun th => map (fun r => (rval r, rfresh r)) (tres th))
      (threads (exec stale_scripts (stale_sched ++ [1;1;1])))
  = [[(101%Z, true)]; [(201%Z, true)]].
Proof. vm_compute. reflexivity. Qed.

(* (b) LockedCalls without the retry loop: after wg.Wait() the caller takes the lock and
   goes straight to makeCall (registers its own WaitGroup, overwriting the entry). *)
Definition noretry_step (s : state) (t : nat) : option state :=
  match nth_error (threads s) t with
  | Some th =>
    match cur_op th, tpc th with
    | Some o, PWait c =>
      match ogrp o with
      | GLC =>
        if cdone (heap s c) then
          let c' := nextc s in
          Some (mkState (S (now s)) (set_calls (calls s) GLC (okey o) (Some c'))
                  (fupd (heap s) c' (mkCall GLC (okey o) (t, topi th) (tinv th) None false None))
                  (S c') (resources s) (ncreated s)
                  (upd_nth (threads s) t (set_pc th (PLead c'))))
        else None
      | _ => step s t
      end
    | _, _ => step s t
    end
  | None => None
  end.

(* three callers of one key: 0 leads, 1 and 2 wait; when 0 finishes both waiters wake and
   both start their function: two executions for the key overlap *)
Theorem locked_no_retry_overlap_refuted :
  exists scripts sched, 2 <= running GLC 1 (run noretry_step (init scripts) sched).
Proof.
  exists [[mkOp GLC 1 101 0]; [mkOp GLC 1 201 0]; [mkOp GLC 1 301 0]],
         [0;0;0; 1;1; 2;2; 0;0;0; 1;1; 2;2].
  vm_compute. apply le_n.
Qed.

Example real_model_no_overlap :
  running GLC 1 (exec [[mkOp GLC 1 101 0]; [mkOp GLC 1 201 0]; [mkOp GLC 1 301 0]]
                      [0;0;0; 1;1; 2;2; 0;0;0; 1;1;1; 2;2;2;2]) = 1.
Proof. vm_compute. reflexivity. Qed.
