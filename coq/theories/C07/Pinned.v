(* C07 — buggy variants of the LTS, each refuted by a concrete schedule evaluated with
   vm_compute.  They mark the boundary of what the theorems of Props.v exclude (and are the
   model-level counterparts of mutations used in the self-test, notes/C07.md). *)
From Coq Require Import List ZArith Bool Arith.
From GZ Require Import Lib.Sched C07.Model.
Import ListNotations.

(* (a) singleflight that keeps the map entry after the call returned ("result cached"):
   the deferred function does not delete(g.calls, key). *)
Definition nodelete_step (s : state) (t : nat) : option state :=
  match nth_error (threads s) t with
  | Some th =>
    match cur_op th, tpc th with
    | Some _, PFnDone c r =>
      Some (mkState (S (now s)) (calls s) (heap s) (nextc s) (resources s) (ncreated s)
                    (upd_nth (threads s) t (set_pc th (PDeleted c r))))
    | _, _ => step s t
    end
  | None => None
  end.

Definition stale_scripts : list (list op) := [[mkOp GSF 1 101 0]; [mkOp GSF 1 201 0]].
(* thread 0 runs its whole call (6 actions), only then thread 1 calls *)
Definition stale_sched : list nat := [0;0;0;0;0;0; 1;1;1].

(* thread 1 gets 101 — a result retained from a call that had returned (at time 5) before
   thread 1 even invoked (time 6) and joined (time 7): [no_stale_result]'s "rjoin < cret"
   fails. *)
Theorem retained_result_refuted :
  exists scripts sched t th r rt,
    let s := run nodelete_step (init scripts) sched in
    nth_error (threads s) t = Some th /\ In r (tres th) /\
    rfresh r = false /\ rval r = 101%Z /\
    cret (heap s (rcid r)) = Some rt /\ rt < rinv r /\ rt < rjoin r.
Proof.
  exists stale_scripts, stale_sched, 1.
  eexists. eexists. eexists. vm_compute.
  split; [reflexivity|]. split; [left; reflexivity|]. repeat split; auto.
Qed.

(* the real model on the same schedule: thread 1 runs its own function *)
Example real_model_not_stale :
  map (fun th => map (fun r => (rval r, rfresh r)) (tres th))
      (threads (exec stale_scripts (stale_sched ++ [1;1;1])))
  = [[(101%Z, true)]; [(201%Z, true)]].
Proof. vm_compute. reflexivity. Qed.

(* (b) LockedCalls without the retry loop: after wg.Wait() the caller takes the lock and
   goes straight to makeCall (registers its own WaitGroup, overwriting the entry). *)
Definition noretry_step (s : state) (t : nat) : option state :=
  match nth_error (threads s) t with
  | Some th =>
    match cur_op th, tpc th with
    | Some o, PWait c =>
      match ogrp o with
      | GLC =>
        if cdone (heap s c) then
          let c' := nextc s in
          Some (mkState (S (now s)) (set_calls (calls s) GLC (okey o) (Some c'))
                  (fupd (heap s) c' (mkCall GLC (okey o) (t, topi th) (tinv th) None false None))
                  (S c') (resources s) (ncreated s)
                  (upd_nth (threads s) t (set_pc th (PLead c'))))
        else None
      | _ => step s t
      end
    | _, _ => step s t
    end
  | None => None
  end.

(* three callers of one key: 0 leads, 1 and 2 wait; when 0 finishes both waiters wake and
   both start their function: two executions for the key overlap *)
Theorem locked_no_retry_overlap_refuted :
  exists scripts sched, 2 <= running GLC 1 (run noretry_step (init scripts) sched).
Proof.
  exists [[mkOp GLC 1 101 0]; [mkOp GLC 1 201 0]; [mkOp GLC 1 301 0]],
         [0;0;0; 1;1; 2;2; 0;0;0; 1;1; 2;2].
  vm_compute. apply le_n.
Qed.

Example real_model_no_overlap :
  running GLC 1 (exec [[mkOp GLC 1 101 0]; [mkOp GLC 1 201 0]; [mkOp GLC 1 301 0]]
                      [0;0;0; 1;1; 2;2; 0;0;0; 1;1;1; 2;2;2;2]) = 1.
Proof. vm_compute. reflexivity. Qed.

(* (c) LockedCalls rewritten as a map of per-key mutexes WITHOUT a reference count (seeded
   change C07-3): a caller fetches or creates the mutex of its key under the group lock, queues on
   it with Lock(), runs fn, and on the way out deletes the key from the map and then unlocks.
   Heap object = the mutex, [cdone = true] = unlocked.
     PCalled  --fetch or create-->  PWait c          (holds the pointer, about to Lock)
     PWait c  --Lock (if free)-->   PLead c
     PLead c -> PInFn c -> PFnDone c r               (fn)
     PFnDone  --delete(m, key)-->   PDeleted c r     (whatever entry is there)
     PDeleted --Unlock; return-->   PIdle *)
Definition mutexmap_step (s : state) (t : nat) : option state :=
  match nth_error (threads s) t with
  | Some th =>
    match cur_op th with
    | Some o =>
      let k := okey o in
      let T := S (now s) in
      let put th' := upd_nth (threads s) t th' in
      match ogrp o, tpc th with
      | GLC, PCalled =>
        match calls s GLC k with
        | Some c => Some (mkState T (calls s) (heap s) (nextc s) (resources s) (ncreated s) (put (set_pc th (PWait c))))
        | None =>
          let c := nextc s in
          Some (mkState T (set_calls (calls s) GLC k (Some c))
                  (fupd (heap s) c (mkCall GLC k (t, topi th) (tinv th) None true None))
                  (S c) (resources s) (ncreated s) (put (set_pc th (PWait c))))
        end
      | GLC, PWait c =>
        if cdone (heap s c) then
          let h := heap s c in
          Some (mkState T (calls s)
                  (fupd (heap s) c (mkCall (cgrp h) (ckey h) (clead h) (cinvt h) (cval h) false (cret h)))
                  (nextc s) (resources s) (ncreated s) (put (set_pc th (PLead c))))
        else None
      | GLC, PDeleted c r =>
        let h := heap s c in
        Some (mkState T (calls s)
                (fupd (heap s) c (mkCall (cgrp h) (ckey h) (clead h) (cinvt h) (cval h) true (cret h)))
                (nextc s) (resources s) (ncreated s) (put (finish th (fst r) (snd r) true c (now s))))
      | _, _ => step s t
      end
    | None => None
    end
  | None => None
  end.

(* A runs; B queues behind A; A finishes (deletes the key, hands its mutex to B); B runs;
   C arrives, finds no entry, makes a second mutex and runs while B is still running *)
Definition mm_scripts : list (list op) := [[mkOp GLC 1 101 0]; [mkOp GLC 1 201 0]; [mkOp GLC 1 301 0]].
Definition mm_sched : list nat := [0;0;0;0; 1;1; 0;0;0; 1;1; 2;2;2;2].

Theorem mutex_map_without_refcount_overlap_refuted :
  exists scripts sched, 2 <= running GLC 1 (run mutexmap_step (init scripts) sched).
Proof. exists mm_scripts, mm_sched. vm_compute. apply le_n. Qed.

(* two callers only (one running, one queued, nobody arriving later) stay serial in the variant:
   the overlap needs the newcomer *)
Example mutex_map_two_callers_serial :
  running GLC 1 (run mutexmap_step (init [[mkOp GLC 1 101 0]; [mkOp GLC 1 201 0]]) [0;0;0;0; 1;1; 0;0;0; 1;1]) = 1.
Proof. vm_compute. reflexivity. Qed.

(* the real model on the same arrivals: C waits behind B *)
Example real_model_newcomer_waits :
  let s := exec mm_scripts [0;0;0;0; 1;1; 0;0;0; 1;1;1; 2;2;2] in
  running GLC 1 s = 1 /\ enabled s 2 = false.
Proof. vm_compute. split; reflexivity. Qed.

(* (d) ResourceManager with the "is it already there" check hoisted out of the singleflight
   closure into a fast path in front of singleFlight.Do, the check inside dropped (seeded
   changes C07-1, C07-2). *)
Definition fastpath_step (s : state) (t : nat) : option state :=
  match nth_error (threads s) t with
  | Some th =>
    match cur_op th with
    | Some o =>
      let T := S (now s) in
      let put th' := upd_nth (threads s) t th' in
      match ogrp o, tpc th with
      | GRM, PIdle =>
        (* invoke + fast path *)
        match resources s (okey o) with
        | Some x =>
          Some (mkState T (calls s) (heap s) (nextc s) (resources s) (ncreated s)
                  (put (finish (mkThread PIdle (tscript th) (topi th) (now s) (now s) 0 (tres th)) x 0 false 0 (now s))))
        | None =>
          Some (mkState T (calls s) (heap s) (nextc s) (resources s) (ncreated s)
                  (put (mkThread PCalled (tscript th) (topi th) (now s) (tjoin th) 0 (tres th))))
        end
      | GRM, PInFn c =>
        (* no check inside the flight: straight to create *)
        Some (mkState T (calls s) (heap s) (nextc s) (resources s) (ncreated s) (put (set_pc th (PRmCreate c))))
      | _, _ => step s t
      end
    | None => None
    end
  | None => None
  end.

(* X looks (miss) and stops in front of singleFlight.Do; Y completes a whole GetResource
   (creates 201); X goes on, leads a new flight and creates 101: two successful creations, two
   different instances handed out *)
Theorem fast_path_without_recheck_creates_twice_refuted :
  exists scripts sched,
    let s := run fastpath_step (init scripts) sched in
    ncreated s 1%Z = 2 /\
    map (fun th => map (fun r => (rval r, rerr r)) (tres th)) (threads s) = [[(101%Z, 0%Z)]; [(201%Z, 0%Z)]].
Proof.
  exists [[mkOp GRM 1 101 0]; [mkOp GRM 1 201 0]], [0; 1;1;1;1;1;1;1;1; 0;0;0;0;0;0;0].
  vm_compute. split; reflexivity.
Qed.

Example real_model_same_schedule_creates_once :
  let s := exec [[mkOp GRM 1 101 0]; [mkOp GRM 1 201 0]] [0; 1;1;1;1;1;1;1;1; 0;0;0;0;0;0;0] in
  ncreated s 1%Z = 1 /\
  map (fun th => map (fun r => (rval r, rerr r)) (tres th)) (threads s) = [[(201%Z, 0%Z)]; [(201%Z, 0%Z)]].
Proof. vm_compute. split; reflexivity. Qed.

(* (e) The REAL model (and the real code: replayed by the corpus of the check): when the
   leader's function panics, a SingleFlight waiter returns (nil, nil) although no function of
   the history returned that pair - the strict reading of "every caller receives the value and
   error of its own execution or of an overlapping execution" fails for panicking functions
   (which the property's quantifier does not list). *)
Theorem panic_hands_nil_to_waiters_refuted :
  exists scripts sched t th r,
    nth_error (threads (exec scripts sched)) t = Some th /\ In r (tres th) /\
    rfresh r = false /\ (rval r, rerr r) = (vnil, 0%Z) /\
    forall sc o, In sc scripts -> In o sc -> fn_ret o <> (vnil, 0%Z).
Proof.
  exists [[mkOp GSF 1 101 epanic]; [mkOp GSF 1 201 0]], [0;0;0; 1;1; 0;0;0; 1], 1.
  eexists. eexists. split; [vm_compute; reflexivity|]. split; [left; reflexivity|].
  split; [reflexivity|]. split; [reflexivity|].
  intros sc o [<-|[<-|[]]] [<-|[]]; vm_compute; discriminate.
Qed.

(* (f) the clean-up of makeCall NOT deferred (straight-line code after fn()): a panic of the
   function skips delete and wg.Done; the waiter is blocked for ever and the key stays taken -
   the deadlock that [Props.no_deadlock] excludes for the real model. *)
Definition undeferred_step (s : state) (t : nat) : option state :=
  match nth_error (threads s) t with
  | Some th =>
    match cur_op th, tpc th with
    | Some o, PInFn c =>
      if panics o && negb (grp_eqb (ogrp o) GRM) then
        Some (mkState (S (now s)) (calls s) (heap s) (nextc s) (resources s) (ncreated s)
                (upd_nth (threads s) t (finish th vnil epanic true c (now s))))
      else step s t
    | _, _ => step s t
    end
  | None => None
  end.

Theorem undeferred_cleanup_deadlocks_refuted :
  exists scripts sched,
    let s := run undeferred_step (init scripts) sched in
    unfinished s = true /\
    existsb (fun t => match undeferred_step s t with Some _ => true | None => false end)
            (seq 0 (length (threads s))) = false.
Proof.
  exists [[mkOp GSF 1 101 epanic]; [mkOp GSF 1 201 0]], [0;0;0; 1;1; 0].
  vm_compute. split; reflexivity.
Qed.

Example real_model_panic_releases_waiter :
  let s := exec [[mkOp GSF 1 101 epanic]; [mkOp GSF 1 201 0]] [0;0;0; 1;1; 0;0;0; 1] in
  unfinished s = false /\
  map (fun th => map (fun r => (rval r, rerr r, rfresh r)) (tres th)) (threads s)
  = [[(vnil, epanic, true)]; [(vnil, 0%Z, false)]].
Proof. vm_compute. split; reflexivity. Qed.

(* (g) A follower that does not accept a shared context error (seeded change C07-4, cache node
   doTake: "the flight ran with the leader's context; its cancellation says nothing about mine"):
   when the shared call failed with context.Canceled / DeadlineExceeded (error codes 30 / 31) the
   waiter runs its own function - OUTSIDE the flight, nothing registered under the key.  Every
   follower of the failed flight does so at once. *)
Definition ectx (e : Z) : bool := Z.eqb e 30 || Z.eqb e 31.

Definition follower_retries_step (s : state) (t : nat) : option state :=
  match nth_error (threads s) t with
  | Some th =>
    match cur_op th, tpc th with
    | Some o, PWait c =>
      match ogrp o, cval (heap s c) with
      | GSF, Some (v, e) =>
        if cdone (heap s c) && ectx e then
          (* load() again with my own context: my function starts, no call object of its own *)
          Some (mkState (S (now s)) (calls s) (heap s) (nextc s) (resources s) (ncreated s)
                  (upd_nth (threads s) t
                     (mkThread (PInFn c) (tscript th) (topi th) (tinv th) (tjoin th) (S (truns th)) (tres th))))
        else step s t
      | _, _ => step s t
      end
    | _, _ => step s t
    end
  | None => None
  end.

(* A leads and its function fails with the context error while B and C wait in its flight: both
   followers then run their functions for key 1 at the same time *)
Theorem follower_retry_on_context_error_overlap_refuted :
  exists scripts sched, 2 <= running GSF 1 (run follower_retries_step (init scripts) sched).
Proof.
  exists [[mkOp GSF 1 101 30]; [mkOp GSF 1 201 0]; [mkOp GSF 1 301 0]],
         [0;0;0; 1;1; 2;2; 0;0;0; 1; 2].
  vm_compute. apply le_n.
Qed.

(* the real model on the same schedule: both followers return the leader's error, nothing runs *)
Example real_model_followers_share_context_error :
  let s := exec [[mkOp GSF 1 101 30]; [mkOp GSF 1 201 0]; [mkOp GSF 1 301 0]] [0;0;0; 1;1; 2;2; 0;0;0; 1; 2] in
  running GSF 1 s = 0 /\
  map (fun th => map (fun r => (rval r, rerr r, rfresh r, rruns r)) (tres th)) (threads s)
  = [[(101%Z, 30%Z, true, 1)]; [(101%Z, 30%Z, false, 0)]; [(101%Z, 30%Z, false, 0)]].
Proof. vm_compute. split; reflexivity. Qed.

(* (h) The shared result handed out BY REFERENCE to the leader's own variable (seeded change
   C07-7, cache node doTake: the closure returns the leading caller's destination pointer and
   joiners copy from it afterwards).  A thread reuses one destination variable for all its calls,
   so at any moment it holds the result of the thread's latest completed call; a joiner that is
   woken but copies late reads whatever is there then. *)
Definition aliased_step (s : state) (t : nat) : option state :=
  match nth_error (threads s) t with
  | Some th =>
    match cur_op th, tpc th with
    | Some o, PWait c =>
      match ogrp o with
      | GSF =>
        if cdone (heap s c) then
          match nth_error (threads s) (fst (clead (heap s c))) with
          | Some thL =>
            match last (map Some (tres thL)) None with
            | Some r => (* the leader's variable as it is NOW *)
              Some (mkState (S (now s)) (calls s) (heap s) (nextc s) (resources s) (ncreated s)
                      (upd_nth (threads s) t (finish th (rval r) (rerr r) false c (now s))))
            | None => step s t
            end
          | None => step s t
          end
        else None
      | _ => step s t
      end
    | _, _ => step s t
    end
  | None => None
  end.

(* thread 0 loads key 1 (101) with thread 1 joined; thread 0 returns and reuses its variable for
   key 2 (102); only then does thread 1 copy: it receives 102 for key 1 - the row of another key,
   a value that no execution for key 1 produced *)
Theorem result_by_reference_to_leaders_cell_refuted :
  exists scripts sched t th r o,
    let s := run aliased_step (init scripts) sched in
    nth_error (threads s) t = Some th /\ In r (tres th) /\
    nth_error (tscript th) (rop r) = Some o /\ ogrp o = GSF /\ okey o = 1%Z /\
    rval r = 102%Z /\
    forall sc o', In sc scripts -> In o' sc -> okey o' = 1%Z -> oval o' <> 102%Z.
Proof.
  exists [[mkOp GSF 1 101 0; mkOp GSF 2 102 0]; [mkOp GSF 1 201 0]],
         [0;0;0; 1;1; 0;0;0; 0;0;0;0;0;0; 1], 1.
  eexists. eexists. eexists. cbn zeta.
  split; [vm_compute; reflexivity|]. split; [left; reflexivity|]. split; [reflexivity|].
  split; [reflexivity|]. split; [reflexivity|]. split; [reflexivity|].
  intros sc o' [<-|[<-|[]]] Ho' Hk Hv.
  - destruct Ho' as [<-|[<-|[]]]; cbn in *; discriminate.
  - destruct Ho' as [<-|[]]; cbn in *; discriminate.
Qed.

(* the real model on the same schedule: thread 1 gets the value the overlapping execution produced *)
Example real_model_joiner_gets_produced_value :
  map (fun th => map (fun r => (rval r, rfresh r)) (tres th))
      (threads (exec [[mkOp GSF 1 101 0; mkOp GSF 2 102 0]; [mkOp GSF 1 201 0]] [0;0;0; 1;1; 0;0;0; 0;0;0;0;0;0; 1]))
  = [[(101%Z, true); (102%Z, true)]; [(101%Z, false)]].
Proof. vm_compute. reflexivity. Qed.

(* (i) Generation of the entry: a variant in which a JOINER, once released, "cleans up" by
   deleting the key (delete is by key, not of an object).  If a call of the next generation has
   registered under the key in the meantime, the joiner of generation g removes the entry of
   generation g+1; a further newcomer then starts a second execution next to g+1's. *)
Definition joiner_deletes_step (s : state) (t : nat) : option state :=
  match nth_error (threads s) t with
  | Some th =>
    match cur_op th, tpc th with
    | Some o, PWait c =>
      match ogrp o, step s t with
      | GSF, Some s' =>
        (* wake and return as usual, and delete(g.calls, key) on the way out *)
        Some (mkState (now s') (set_calls (calls s') GSF (okey o) None) (heap s') (nextc s')
                      (resources s') (ncreated s') (threads s'))
      | _, r => r
      end
    | _, _ => step s t
    end
  | None => None
  end.

(* A leads, B joins; A finishes; C registers generation 2 and runs its function; only now B wakes
   and deletes the key - C's entry; D finds no entry and starts another execution next to C's *)
Theorem delete_by_key_hits_next_generation_refuted :
  exists scripts sched, 2 <= running GSF 1 (run joiner_deletes_step (init scripts) sched).
Proof.
  exists [[mkOp GSF 1 101 0]; [mkOp GSF 1 201 0]; [mkOp GSF 1 301 0]; [mkOp GSF 1 401 0]],
         [0;0;0; 1;1; 0;0;0; 2;2;2; 1; 3;3;3].
  vm_compute. apply le_n.
Qed.

Example real_model_generations_do_not_mix :
  let s := exec [[mkOp GSF 1 101 0]; [mkOp GSF 1 201 0]; [mkOp GSF 1 301 0]; [mkOp GSF 1 401 0]]
                [0;0;0; 1;1; 0;0;0; 2;2;2; 1; 3;3;3] in
  running GSF 1 s = 1 /\ enabled s 3 = false.
Proof. vm_compute. split; reflexivity. Qed.

(* (k) LockedCalls on STRIPED locks (seeded change C07-9): no map entry per key; the key is hashed onto one of
   [n] locks, the caller holds that lock while its function runs.  In the LTS: the LockedCalls map is indexed
   by [stripe n k] instead of [k] (lookup, registration, deletion); everything else is the real code.  The
   hash is a section variable: the refutation needs nothing but two different keys with the same image
   (pigeonhole: any n+1 keys contain such a pair - the check holds 300 keys at once). *)
Section Striped.
  Variable stripe : Z -> Z.

  Definition striped_step (s : state) (t : nat) : option state :=
    match nth_error (threads s) t with
    | Some th =>
      match cur_op th with
      | Some o =>
        let k := stripe (okey o) in
        let T := S (now s) in
        let put th' := upd_nth (threads s) t th' in
        match ogrp o, tpc th with
        | GLC, PCalled =>
          match calls s GLC k with
          | Some c =>
            Some (mkState T (calls s) (heap s) (nextc s) (resources s) (ncreated s)
                   (put (mkThread (PWait c) (tscript th) (topi th) (tinv th) (now s) (truns th) (tres th))))
          | None =>
            let c := nextc s in
            Some (mkState T (set_calls (calls s) GLC k (Some c))
                   (fupd (heap s) c (mkCall GLC (okey o) (t, topi th) (tinv th) None false None))
                   (S c) (resources s) (ncreated s)
                   (put (mkThread (PLead c) (tscript th) (topi th) (tinv th) (now s) (truns th) (tres th))))
          end
        | GLC, PFnDone c r =>
          Some (mkState T (set_calls (calls s) GLC k None) (heap s) (nextc s) (resources s) (ncreated s)
                 (put (set_pc th (PDeleted c r))))
        | _, _ => step s t
        end
      | None => None
      end
    | None => None
    end.

  Definition striped_enabled (s : state) (t : nat) : bool :=
    match striped_step s t with Some _ => true | None => false end.
End Striped.

Definition mod256 (k : Z) : Z := (k mod 256)%Z.
Definition st_scripts : list (list op) := [[mkOp GLC 1 101 0]; [mkOp GLC 257 201 0]].
(* thread 0 is inside its function under key 1; thread 1 calls with key 257 *)
Definition st_sched : list nat := [0;0;0; 1;1].

(* [keys_independent_blocked_only_behind_own_key] fails: thread 1 cannot move although nothing runs under its
   key; the object it waits for belongs to ANOTHER key *)
Theorem striped_locks_block_another_key_refuted :
  exists scripts sched t th o c,
    let s := run (striped_step mod256) (init scripts) sched in
    nth_error (threads s) t = Some th /\ cur_op th = Some o /\
    striped_enabled mod256 s t = false /\ running (ogrp o) (okey o) s = 0 /\
    tpc th = PWait c /\ ckey (heap s c) <> okey o.
Proof.
  exists st_scripts, st_sched, 1. eexists. eexists. eexists. vm_compute.
  split; [reflexivity|]. split; [reflexivity|]. split; [reflexivity|]. split; [reflexivity|].
  split; [reflexivity|]. discriminate.
Qed.

(* with an injective "hash" the variant is the real LockedCalls on these keys; and the real model on the same
   schedule: thread 1 is inside its own function *)
Example striped_identity_is_harmless :
  let s := run (striped_step (fun k => k)) (init st_scripts) (st_sched ++ [1]) in
  running GLC 1 s = 1 /\ running GLC 257 s = 1.
Proof. vm_compute. split; reflexivity. Qed.

Example real_model_other_key_runs :
  let s := exec st_scripts (st_sched ++ [1]) in running GLC 1 s = 1 /\ running GLC 257 s = 1.
Proof. vm_compute. split; reflexivity. Qed.

(* (l) LockedCalls with ONE condition variable for all keys and Signal() at the end of a call (seeded change
   C07-6): callers of a busy key park on the shared sync.Cond (a FIFO); a finishing call wakes the OLDEST parked
   caller, which re-checks ITS key and parks again (at the tail) if that key is still busy - the wake-up is
   consumed.  Extra state next to the LTS state: the FIFO of parked threads and the set of woken ones. *)
Record cstate := mkC { cs : state; cparked : list nat; cwoken : list nat }.

Definition cond_step (x : cstate) (t : nat) : option cstate :=
  let s := cs x in
  match nth_error (threads s) t with
  | Some th =>
    match cur_op th with
    | Some o =>
      let T := S (now s) in
      let put th' := upd_nth (threads s) t th' in
      match ogrp o, tpc th with
      | GLC, PCalled =>
        match calls s GLC (okey o) with
        | Some c =>      (* for lg.running(key) { lg.cond.Wait() } *)
          Some (mkC (mkState T (calls s) (heap s) (nextc s) (resources s) (ncreated s)
                       (put (mkThread (PWait c) (tscript th) (topi th) (tinv th) (now s) (truns th) (tres th))))
                    (cparked x ++ [t]) (cwoken x))
        | None => match step s t with Some s' => Some (mkC s' (cparked x) (cwoken x)) | None => None end
        end
      | GLC, PWait _ =>  (* parked: moves only when signalled, then re-checks *)
        if existsb (Nat.eqb t) (cwoken x) then
          Some (mkC (mkState T (calls s) (heap s) (nextc s) (resources s) (ncreated s) (put (set_pc th PCalled)))
                    (cparked x) (filter (fun u => negb (Nat.eqb t u)) (cwoken x)))
        else None
      | GLC, PDeleted _ _ =>  (* finish(): the key is gone from the set; cond.Signal() *)
        match step s t with
        | Some s' =>
          match cparked x with
          | w :: rest => Some (mkC s' rest (w :: cwoken x))
          | [] => Some (mkC s' [] (cwoken x))
          end
        | None => None
        end
      | _, _ => match step s t with Some s' => Some (mkC s' (cparked x) (cwoken x)) | None => None end
      end
    | None => None
    end
  | None => None
  end.

Definition cond_enabled (x : cstate) (t : nat) : bool :=
  match cond_step x t with Some _ => true | None => false end.

(* a1 runs under key 1, b1 under key 2; b2 parks, then a2 parks; a1 returns: its one wake-up goes to b2, which
   finds key 2 busy and parks again *)
Definition cd_scripts : list (list op) :=
  [[mkOp GLC 1 101 0]; [mkOp GLC 2 201 0]; [mkOp GLC 2 301 0]; [mkOp GLC 1 401 0]].
Definition cd_sched : list nat := [0;0;0; 1;1;1; 2;2; 3;3; 0;0;0; 2;2].

(* thread 3 (a2) cannot move although no call for its key is registered or running and no wake-up is pending:
   it now waits for the call on key 2 *)
Theorem shared_cond_signal_strands_waiter_refuted :
  exists scripts sched t th o,
    let x := run cond_step (mkC (init scripts) [] []) sched in
    nth_error (threads (cs x)) t = Some th /\ cur_op th = Some o /\
    cond_enabled x t = false /\ cwoken x = [] /\
    calls (cs x) (ogrp o) (okey o) = None /\ running (ogrp o) (okey o) (cs x) = 0 /\
    running GLC 2 (cs x) = 1.
Proof.
  exists cd_scripts, cd_sched, 3. eexists. eexists. vm_compute.
  repeat (split; [reflexivity|]). reflexivity.
Qed.

(* the other parking order is harmless in the variant (a2 is the oldest waiter) ... *)
Example shared_cond_signal_lucky_order :
  let x := run cond_step (mkC (init cd_scripts) [] []) [0;0;0; 1;1;1; 3;3; 2;2; 0;0;0; 3;3;3] in
  running GLC 1 (cs x) = 1.
Proof. vm_compute. reflexivity. Qed.

(* ... and the real model on the stranding schedule: a2 is woken by a1's WaitGroup and runs *)
Example real_model_waiter_of_free_key_runs :
  let s := exec cd_scripts [0;0;0; 1;1;1; 2;2; 3;3; 0;0;0; 3;3;3] in
  running GLC 1 s = 1 /\ running GLC 2 s = 1 /\ enabled s 2 = false.
Proof. vm_compute. repeat split; reflexivity. Qed.

(* (m) SingleFlight that RECYCLES the call object of an uncontended call without clearing it (seeded change
   C07-8): a new call object starts with the (val, err) of the object created before it, and a panicking
   function assigns nothing - so the waiters of a panicking leader read what an earlier, long finished call
   (here: of another key) left in the object. *)
Definition recycle_step (s : state) (t : nat) : option state :=
  match nth_error (threads s) t with
  | Some th =>
    match cur_op th with
    | Some o =>
      let T := S (now s) in
      let put th' := upd_nth (threads s) t th' in
      match ogrp o, tpc th with
      | GSF, PCalled =>
        match calls s GSF (okey o) with
        | Some _ => step s t
        | None =>
          let c := nextc s in
          let old := match c with O => None | S c0 => cval (heap s c0) end in
          Some (mkState T (set_calls (calls s) GSF (okey o) (Some c))
                 (fupd (heap s) c (mkCall GSF (okey o) (t, topi th) (tinv th) old false None))
                 (S c) (resources s) (ncreated s)
                 (put (mkThread (PLead c) (tscript th) (topi th) (tinv th) (now s) (truns th) (tres th))))
        end
      | GSF, PInFn c =>
        if panics o then
          Some (mkState T (calls s) (heap s) (nextc s) (resources s) (ncreated s) (put (set_pc th (PFnDone c (fn_ret o)))))
        else step s t
      | _, _ => step s t
      end
    | None => None
    end
  | None => None
  end.

Definition rc_scripts : list (list op) := [[mkOp GSF 2 101 0; mkOp GSF 1 102 epanic]; [mkOp GSF 1 201 0]].
(* thread 0 completes its call on key 2 alone, then leads key 1; thread 1 joins; the leader's function panics *)
Definition rc_sched : list nat := [0;0;0;0;0;0; 0;0;0; 1;1; 0;0;0; 1].

(* thread 1 (key 1) is handed 101: the value of the execution for key 2 that had returned (time rt) before
   thread 1 even called *)
Theorem recycled_call_object_hands_earlier_result_refuted :
  exists scripts sched th r r0 th0,
    let s := run recycle_step (init scripts) sched in
    nth_error (threads s) 1 = Some th /\ In r (tres th) /\ rfresh r = false /\
    (rval r, rerr r) = (101%Z, 0%Z) /\
    forallb (fun sc => forallb (fun o => negb (Z.eqb (okey o) 1 && Z.eqb (oval o) 101)) sc) scripts = true /\
    nth_error (threads s) 0 = Some th0 /\ In r0 (tres th0) /\ rval r0 = 101%Z /\ rret r0 < rinv r.
Proof.
  exists rc_scripts, rc_sched. eexists. eexists. eexists. eexists. vm_compute.
  split; [reflexivity|]. split; [left; reflexivity|]. split; [reflexivity|]. split; [reflexivity|].
  split; [reflexivity|]. split; [reflexivity|]. split; [left; reflexivity|]. split; [reflexivity|].
  repeat constructor.
Qed.

(* the real model (and code) on the same schedule: the waiter gets the empty (nil, nil) of the overlapping
   panicked execution (Pinned.panic_hands_nil_to_waiters_refuted), nothing of key 2 *)
Example real_model_waiter_of_panicked_leader_gets_nil :
  map (fun th => map (fun r => (rval r, rerr r, rfresh r)) (tres th)) (threads (exec rc_scripts rc_sched))
  = [[(101%Z, 0%Z, true); (vnil, epanic, true)]; [(vnil, 0%Z, false)]].
Proof. vm_compute. reflexivity. Qed.

(* (n) SingleFlight with Forget(key) and a successor chain (seeded change C07-5).  Forget marks the call in
   flight as forgotten; the next caller does not join it but registers a SUCCESSOR call in its place, which
   waits for the forgotten call to finish before running its function (so by design executions never
   overlap).  The untouched clean-up still deletes BY KEY: when the forgotten call finishes it removes the
   successor's entry, and a later caller starts an execution next to the successor's.
   Forget is an action of the LTS: schedule element [forget_actor] = "Forget(key 1) on the SingleFlight".
   Extra state: the set of forgotten objects and the predecessor of a successor. *)
Record fstate := mkF { fst_s : state; fforgot : list nat; fprev : list (nat * nat) }.

Definition forget_actor : nat := 99.
Definition forget_key : Z := 1%Z.

Definition prev_of (x : fstate) (c : nat) : option nat :=
  match find (fun p => Nat.eqb (fst p) c) (fprev x) with Some p => Some (snd p) | None => None end.

Definition forget_step (x : fstate) (t : nat) : option fstate :=
  let s := fst_s x in
  if Nat.eqb t forget_actor then
    match calls s GSF forget_key with
    | Some c => Some (mkF (mkState (S (now s)) (calls s) (heap s) (nextc s) (resources s) (ncreated s) (threads s))
                          (c :: fforgot x) (fprev x))
    | None => Some (mkF (mkState (S (now s)) (calls s) (heap s) (nextc s) (resources s) (ncreated s) (threads s))
                        (fforgot x) (fprev x))
    end
  else
  let keep s' := Some (mkF s' (fforgot x) (fprev x)) in
  match nth_error (threads s) t with
  | Some th =>
    match cur_op th with
    | Some o =>
      let T := S (now s) in
      let put th' := upd_nth (threads s) t th' in
      match ogrp o, tpc th with
      | GSF, PCalled =>
        match calls s GSF (okey o) with
        | Some c =>
          if existsb (Nat.eqb c) (fforgot x) then
            (* take the forgotten call's place in the map; makeCall will wait for it *)
            let c' := nextc s in
            Some (mkF (mkState T (set_calls (calls s) GSF (okey o) (Some c'))
                         (fupd (heap s) c' (mkCall GSF (okey o) (t, topi th) (tinv th) None false None))
                         (S c') (resources s) (ncreated s)
                         (put (mkThread (PLead c') (tscript th) (topi th) (tinv th) (now s) (truns th) (tres th))))
                      (fforgot x) ((c', c) :: fprev x))
          else match step s t with Some s' => keep s' | None => None end
        | None => match step s t with Some s' => keep s' | None => None end
        end
      | GSF, PLead c =>
        (* if c.prev != nil { c.prev.wg.Wait() } *)
        match prev_of x c with
        | Some p => if cdone (heap s p) then match step s t with Some s' => keep s' | None => None end else None
        | None => match step s t with Some s' => keep s' | None => None end
        end
      | _, _ => match step s t with Some s' => keep s' | None => None end
      end
    | None => None
    end
  | None => None
  end.

Definition fg_scripts : list (list op) := [[mkOp GSF 1 101 0]; [mkOp GSF 1 201 0]; [mkOp GSF 1 301 0]].
(* Take #1 runs; Forget; caller 1 arrives (successor, waits for #1); #1 returns (its clean-up deletes the
   successor's entry); the successor runs; caller 2 arrives, finds no entry and runs too *)
Definition fg_sched : list nat := [0;0;0; 99; 1;1; 0;0;0; 1; 2;2;2].

Theorem forget_successor_unregistered_overlap_refuted :
  exists scripts sched, 2 <= running GSF 1 (fst_s (run forget_step (mkF (init scripts) [] []) sched)).
Proof. exists fg_scripts, fg_sched. vm_compute. apply le_n. Qed.

(* steps 1-3 alone are as designed: the successor waits for the forgotten call, no overlap yet *)
Example forget_successor_waits :
  let x := run forget_step (mkF (init fg_scripts) [] []) [0;0;0; 99; 1;1; 1] in
  running GSF 1 (fst_s x) = 1 /\ (match forget_step x 1 with None => true | Some _ => false end) = true.
Proof. vm_compute. split; reflexivity. Qed.

(* without Forget the variant is the real SingleFlight (and the real model on these arrivals): caller 1 joins
   and shares 101, caller 2 leads the only execution in progress *)
Example forget_never_called_is_real :
  let sch := [0;0;0; 1;1; 0;0;0; 1; 2;2;2] in
  running GSF 1 (fst_s (run forget_step (mkF (init fg_scripts) [] []) sch)) = 1 /\
  threads (fst_s (run forget_step (mkF (init fg_scripts) [] []) sch)) = threads (exec fg_scripts sch).
Proof. vm_compute. split; reflexivity. Qed.
