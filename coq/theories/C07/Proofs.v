(* C07 — the invariant of the SingleFlight / LockedCalls / ResourceManager LTS and the
   lemmas behind the theorems of Props.v. *)
From Coq Require Import List ZArith Bool Arith Lia.
From GZ Require Import Lib.Sched Lib.SchedProofs C07.Model.
Import ListNotations.

Lemma grp_eqb_spec a b : reflect (a = b) (grp_eqb a b).
Proof. destruct a, b; cbn; constructor; congruence. Qed.

Lemma grp_eqb_refl a : grp_eqb a a = true.
Proof. destruct a; reflexivity. Qed.

Lemma set_calls_eq m g k v : set_calls m g k v g k = v.
Proof. unfold set_calls. rewrite grp_eqb_refl, Z.eqb_refl. reflexivity. Qed.

Lemma set_calls_neq m g k v g' k' : (g', k') <> (g, k) -> set_calls m g k v g' k' = m g' k'.
Proof.
  intros H. unfold set_calls. destruct (grp_eqb_spec g' g); cbn; [|reflexivity].
  destruct (Z.eqb_spec k' k); [|reflexivity]. subst. congruence.
Qed.

Lemma set_calls_cases m g k v g' k' :
  ((g', k') = (g, k) /\ set_calls m g k v g' k' = v) \/
  ((g', k') <> (g, k) /\ set_calls m g k v g' k' = m g' k').
Proof.
  destruct (grp_eqb_spec g' g) as [->|Hg].
  - destruct (Z.eqb_spec k' k) as [->|Hk].
    + left. split; [reflexivity | apply set_calls_eq].
    + right. split; [congruence | apply set_calls_neq; congruence].
  - right. split; [congruence | apply set_calls_neq; congruence].
Qed.

Lemma zupd_eq {B} (f : Z -> B) k v : zupd f k v k = v.
Proof. unfold zupd. rewrite Z.eqb_refl. reflexivity. Qed.

Lemma zupd_neq {B} (f : Z -> B) k v i : i <> k -> zupd f k v i = f i.
Proof. intros H. unfold zupd. destruct (Z.eqb_spec i k); congruence. Qed.

(* panics: what is shared never carries the panic mark, and sharing is the identity on
   everything but a panic *)
Lemma shared_not_panic r : snd (shared r) <> epanic.
Proof.
  unfold shared. destruct (Z.eqb_spec (snd r) epanic) as [E|E]; cbn; [discriminate|exact E].
Qed.

Lemma shared_id r : snd r <> epanic -> shared r = r.
Proof. intros H. unfold shared. destruct (Z.eqb_spec (snd r) epanic); [contradiction|reflexivity]. Qed.

Lemma shared_idem r : shared (shared r) = shared r.
Proof. apply shared_id. apply shared_not_panic. Qed.

(* ------------------------------------------------------------------ *)
(* the invariant                                                        *)

Definition owner_pc (p : pc) : option nat :=
  match p with
  | PLead c | PInFn c | PRmCreate c | PRmStore c _ | PFnDone c _ => Some c
  | _ => None
  end.

Definition lead_ok (s : state) (t : nat) (th : thread) (o : op) (c : nat) : Prop :=
  c < nextc s /\ cgrp (heap s c) = ogrp o /\ ckey (heap s c) = okey o /\
  clead (heap s c) = (t, topi th) /\ cinvt (heap s c) = tinv th /\
  cdone (heap s c) = false /\ cret (heap s c) = None /\
  tinv th <= tjoin th /\ tjoin th < now s.

Definition val_ok (s : state) (o : op) (c : nat) (r : Z * Z) : Prop :=
  cval (heap s c) = Some (shared r) /\ (ogrp o <> GRM -> r = fn_ret o) /\
  (ogrp o = GRM -> snd r = 0%Z -> resources s (okey o) = Some (fst r)).

Definition pc_ok (s : state) (t : nat) (th : thread) (o : op) : Prop :=
  match tpc th with
  | PIdle => True
  | PCalled => tinv th < now s /\ truns th = 0
  | PWait c =>
    c < nextc s /\ cgrp (heap s c) = ogrp o /\ ckey (heap s c) = okey o /\
    fst (clead (heap s c)) <> t /\ cinvt (heap s c) <= tjoin th /\
    (forall rt, cret (heap s c) = Some rt -> tjoin th < rt) /\
    tinv th <= tjoin th /\ tjoin th < now s /\ truns th = 0
  | PLead c => lead_ok s t th o c /\ calls s (ogrp o) (okey o) = Some c /\ truns th = 0
  | PInFn c => lead_ok s t th o c /\ calls s (ogrp o) (okey o) = Some c /\ truns th = 1
  | PRmCreate c =>
    lead_ok s t th o c /\ calls s (ogrp o) (okey o) = Some c /\ truns th = 1 /\
    ogrp o = GRM /\ resources s (okey o) = None
  | PRmStore c x =>
    lead_ok s t th o c /\ calls s (ogrp o) (okey o) = Some c /\ truns th = 1 /\
    ogrp o = GRM /\ resources s (okey o) = None
  | PFnDone c r =>
    lead_ok s t th o c /\ calls s (ogrp o) (okey o) = Some c /\ truns th = 1 /\ val_ok s o c r
  | PDeleted c r => lead_ok s t th o c /\ truns th = 1 /\ val_ok s o c r
  end.

(* what is known about a returned result: this is the statement of no_stale_result,
   exactly_one_fresh, locked_calls_own and resource sharing, as an invariant *)
Definition rec_ok (s : state) (t : nat) (th : thread) (r : rec) : Prop :=
  exists o, nth_error (tscript th) (rop r) = Some o /\ rop r < topi th /\
  let c := heap s (rcid r) in
  rcid r < nextc s /\ cgrp c = ogrp o /\ ckey c = okey o /\ cdone c = true /\
  rinv r <= rjoin r /\ rjoin r < rret r /\ rret r < now s /\
  (ogrp o <> GLC -> cval c = Some (shared (rval r, rerr r))) /\
  (rfresh r = true -> clead c = (t, rop r) /\ rruns r = 1 /\ cinvt c = rinv r /\ cret c = Some (rret r)) /\
  (rfresh r = false -> fst (clead c) <> t /\ rruns r = 0 /\ cinvt c <= rjoin r /\
                       exists rt, cret c = Some rt /\ rjoin r < rt) /\
  (ogrp o = GLC -> rfresh r = true /\ (rval r, rerr r) = fn_ret o) /\
  (ogrp o = GRM -> rerr r = 0%Z -> resources s (okey o) = Some (rval r)) /\
  (* (appended) the leader hands out what its own function handed to it; only a leader whose own
     function panicked leaves a SingleFlight call by a panic *)
  (rfresh r = true -> ogrp o <> GRM -> (rval r, rerr r) = fn_ret o) /\
  (ogrp o = GSF -> rerr r = epanic -> rfresh r = true).

Definition thread_ok (s : state) (t : nat) (th : thread) : Prop :=
  (cur_op th = None -> tpc th = PIdle) /\
  (forall o, cur_op th = Some o -> pc_ok s t th o) /\
  Forall (rec_ok s t th) (tres th).

Definition heap_ok (s : state) (c : nat) : Prop :=
  let h := heap s c in
  (exists thL oL, nth_error (threads s) (fst (clead h)) = Some thL /\
                  nth_error (tscript thL) (snd (clead h)) = Some oL /\
                  ogrp oL = cgrp h /\ okey oL = ckey h /\
                  (cgrp h <> GRM -> forall r, cval h = Some r -> r = shared (fn_ret oL))) /\
  (cdone h = true -> exists r rt, cval h = Some r /\ cret h = Some rt) /\
  (forall rt, cret h = Some rt -> rt < now s /\ cdone h = true) /\
  (cgrp h = GRM -> forall r, cval h = Some r -> snd r = 0%Z -> fst r <> vnil ->
                   resources s (ckey h) = Some (fst r)) /\
  (forall r, cval h = Some r -> snd r <> epanic).

Definition map_ok (s : state) : Prop :=
  forall g k c, calls s g k = Some c ->
    c < nextc s /\
    exists th o, nth_error (threads s) (fst (clead (heap s c))) = Some th /\
                 topi th = snd (clead (heap s c)) /\ owner_pc (tpc th) = Some c /\
                 cur_op th = Some o /\ ogrp o = g /\ okey o = k.

Definition storing (k : Z) (th : thread) : Prop :=
  exists o c x, cur_op th = Some o /\ ogrp o = GRM /\ okey o = k /\ tpc th = PRmStore c x.

Definition rm_ok (s : state) : Prop :=
  forall k, ncreated s k <= 1 /\
            (ncreated s k = 1 -> resources s k <> None \/
                                 exists t th, nth_error (threads s) t = Some th /\ storing k th).

Record Inv (s : state) : Prop := mkInv
  { inv_threads : forall t th, nth_error (threads s) t = Some th -> thread_ok s t th;
    inv_heap : forall c, c < nextc s -> heap_ok s c;
    inv_map : map_ok s;
    inv_rm : rm_ok s }.

(* ------------------------------------------------------------------ *)
(* initial state                                                        *)

Lemma init_inv scripts : Inv (init scripts).
Proof.
  constructor.
  - intros t th H. cbn in H. rewrite nth_error_map in H.
    destruct (nth_error scripts t); inversion H; subst. repeat split; cbn; auto.
  - cbn. intros c Hc. lia.
  - intros g k c H. discriminate.
  - intros k. cbn. split; [lia | intros; discriminate].
Qed.

(* ------------------------------------------------------------------ *)
(* consequences of the invariant                                        *)

Lemma owner_unique s g k t1 t2 th1 th2 o1 o2 c1 c2 :
  Inv s ->
  nth_error (threads s) t1 = Some th1 -> nth_error (threads s) t2 = Some th2 ->
  cur_op th1 = Some o1 -> cur_op th2 = Some o2 ->
  ogrp o1 = g -> okey o1 = k -> ogrp o2 = g -> okey o2 = k ->
  owner_pc (tpc th1) = Some c1 -> owner_pc (tpc th2) = Some c2 -> t1 = t2.
Proof.
  intros HI H1 H2 Ho1 Ho2 Hg1 Hk1 Hg2 Hk2 Hc1 Hc2.
  pose proof (inv_threads s HI t1 th1 H1) as (_ & P1 & _).
  pose proof (inv_threads s HI t2 th2 H2) as (_ & P2 & _).
  specialize (P1 o1 Ho1). specialize (P2 o2 Ho2).
  unfold pc_ok, lead_ok in P1, P2.
  assert (E1 : calls s g k = Some c1 /\ clead (heap s c1) = (t1, topi th1)).
  { subst g k. destruct (tpc th1); cbn in Hc1; inversion Hc1; subst; intuition. }
  assert (E2 : calls s g k = Some c2 /\ clead (heap s c2) = (t2, topi th2)).
  { subst g k. rewrite <- Hg2, <- Hk2 in *. destruct (tpc th2); cbn in Hc2; inversion Hc2; subst; intuition. }
  destruct E1 as [A1 B1], E2 as [A2 B2]. rewrite A1 in A2. inversion A2; subst c2.
  rewrite B1 in B2. inversion B2. reflexivity.
Qed.

(* the map entry of a key belongs to the thread that leads it *)
Lemma entry_leader s g k c t th :
  Inv s -> calls s g k = Some c -> nth_error (threads s) t = Some th ->
  fst (clead (heap s c)) = t ->
  owner_pc (tpc th) = Some c /\ exists o, cur_op th = Some o /\ ogrp o = g /\ okey o = k.
Proof.
  intros HI Hc Ht Hl. destruct (inv_map s HI g k c Hc) as (_ & th' & o & Hn & _ & Ho & Hop & Hg & Hk).
  rewrite Hl, Ht in Hn. inversion Hn; subst th'. split; [exact Ho|]. exists o. auto.
Qed.

Lemma entry_fresh s g k c :
  Inv s -> calls s g k = Some c ->
  c < nextc s /\ cgrp (heap s c) = g /\ ckey (heap s c) = k /\
  cdone (heap s c) = false /\ cret (heap s c) = None /\ cinvt (heap s c) < now s.
Proof.
  intros HI Hc. destruct (inv_map s HI g k c Hc) as (Hlt & th & o & Hn & _ & Ho & Hop & Hg & Hk).
  pose proof (inv_threads s HI _ th Hn) as (_ & P & _). specialize (P o Hop).
  unfold pc_ok, lead_ok in P. subst g k.
  destruct (tpc th); cbn in Ho; inversion Ho; subst; intuition; lia.
Qed.

(* ------------------------------------------------------------------ *)
(* what one step of thread t may change, as seen by the other threads   *)

Record frame (s s' : state) (t : nat) : Prop := mkFrame
  { f_now : now s <= now s';
    f_next : nextc s <= nextc s';
    f_other : forall c, c < nextc s -> fst (clead (heap s c)) <> t -> heap s' c = heap s c;
    f_mine : forall c, c < nextc s ->
        cgrp (heap s' c) = cgrp (heap s c) /\ ckey (heap s' c) = ckey (heap s c) /\
        clead (heap s' c) = clead (heap s c) /\ cinvt (heap s' c) = cinvt (heap s c) /\
        (cdone (heap s c) = true -> heap s' c = heap s c) /\
        (forall rt, cret (heap s' c) = Some rt -> cret (heap s c) = Some rt \/ now s <= rt);
    f_calls : forall g k c, calls s g k = Some c -> fst (clead (heap s c)) <> t -> calls s' g k = Some c;
    f_res_some : forall k x, resources s k = Some x -> resources s' k = Some x;
    f_res_none : forall k, resources s k = None -> resources s' k <> None ->
        exists c, calls s GRM k = Some c /\ fst (clead (heap s c)) = t }.

Lemma frame_rec_ok s s' t t' th r : frame s s' t -> rec_ok s t' th r -> rec_ok s' t' th r.
Proof.
  intros F (o & Ho & Hlt & Hc & Hg & Hk & Hd & H1 & H2 & H3 & Hv & Hf & Hnf & Hlc & Hrm & Hown & Hpan).
  destruct (f_mine _ _ _ F _ Hc) as (_ & _ & _ & _ & Hsame & _). specialize (Hsame Hd).
  exists o. split; [exact Ho|]. split; [exact Hlt|]. cbn zeta. rewrite Hsame.
  pose proof (f_now _ _ _ F). pose proof (f_next _ _ _ F).
  repeat split; try assumption; try lia; try (apply Hf; assumption); try (apply Hnf; assumption);
    try (apply Hlc; assumption).
  intros Eg Ee. apply (f_res_some _ _ _ F). auto.
Qed.

Lemma frame_thread_ok s s' t t' th :
  Inv s -> frame s s' t -> t' <> t -> nth_error (threads s) t' = Some th ->
  thread_ok s' t' th.
Proof.
  intros HI F Hne Hn. destruct (inv_threads s HI t' th Hn) as (Hidle & Hpc & Hrecs).
  pose proof (f_now _ _ _ F) as Fnow. pose proof (f_next _ _ _ F) as Fnext.
  split; [exact Hidle|]. split.
  2:{ eapply Forall_impl; [|exact Hrecs]. intros r Hr. eapply frame_rec_ok; eauto. }
  intros o Ho. specialize (Hpc o Ho). unfold pc_ok in *.
  assert (Lead : forall c, lead_ok s t' th o c -> lead_ok s' t' th o c /\ heap s' c = heap s c).
  { intros c (A1 & A2 & A3 & A4 & A5 & A6 & A7 & A8 & A9).
    assert (E : heap s' c = heap s c). { apply (f_other _ _ _ F); [exact A1|]. rewrite A4. cbn. exact Hne. }
    split; [|exact E]. unfold lead_ok. rewrite E. repeat split; try assumption; lia. }
  assert (Calls : forall c, lead_ok s t' th o c -> calls s (ogrp o) (okey o) = Some c ->
                            calls s' (ogrp o) (okey o) = Some c).
  { intros c (A1 & A2 & A3 & A4 & _) Hc. apply (f_calls _ _ _ F); [exact Hc|]. rewrite A4. exact Hne. }
  assert (ResNone : forall c, lead_ok s t' th o c -> calls s (ogrp o) (okey o) = Some c -> ogrp o = GRM ->
                              resources s (okey o) = None -> resources s' (okey o) = None).
  { intros c (A1 & A2 & A3 & A4 & _) Hc Hg Hr.
    destruct (resources s' (okey o)) eqn:E; [|reflexivity]. exfalso.
    destruct (f_res_none _ _ _ F (okey o) Hr) as (c2 & Hc2 & Hl2); [congruence|].
    rewrite Hg in Hc. rewrite Hc in Hc2. inversion Hc2; subst c2. rewrite A4 in Hl2. cbn in Hl2. congruence. }
  assert (Val : forall c r, heap s' c = heap s c -> val_ok s o c r -> val_ok s' o c r).
  { intros c r E (V1 & V2 & V3). unfold val_ok. rewrite E. repeat split; auto.
    intros Hg Hs. apply (f_res_some _ _ _ F). auto. }
  destruct (tpc th) as [| |c|c|c|c|c x|c r|c r].
  - exact I.
  - destruct Hpc. split; lia.
  - destruct Hpc as (A1 & A2 & A3 & A4 & A5 & A6 & A7 & A8 & A9).
    destruct (f_mine _ _ _ F _ A1) as (B1 & B2 & B3 & B4 & _ & B6).
    rewrite B1, B2, B3, B4. repeat split; try assumption; try lia.
    intros rt Hrt. destruct (B6 rt Hrt) as [Hold|Hnew]; [apply A6; exact Hold | lia].
  - destruct Hpc as (L & C & R). destruct (Lead c L) as [L' E]. split; [exact L'|]. split; [apply Calls; assumption|exact R].
  - destruct Hpc as (L & C & R). destruct (Lead c L) as [L' E]. split; [exact L'|]. split; [apply Calls; assumption|exact R].
  - destruct Hpc as (L & C & R & G & N). destruct (Lead c L) as [L' E].
    split; [exact L'|]. split; [apply Calls; assumption|]. split; [exact R|]. split; [exact G|]. eapply ResNone; eauto.
  - destruct Hpc as (L & C & R & G & N). destruct (Lead c L) as [L' E].
    split; [exact L'|]. split; [apply Calls; assumption|]. split; [exact R|]. split; [exact G|]. eapply ResNone; eauto.
  - destruct Hpc as (L & C & R & V). destruct (Lead c L) as [L' E].
    split; [exact L'|]. split; [apply Calls; assumption|]. split; [exact R|]. apply Val; assumption.
  - destruct Hpc as (L & R & V). destruct (Lead c L) as [L' E].
    split; [exact L'|]. split; [exact R|]. apply Val; assumption.
Qed.

(* scripts never change *)
Lemma step_script s t s' t' th' :
  step s t = Some s' -> nth_error (threads s') t' = Some th' ->
  exists th, nth_error (threads s) t' = Some th /\ tscript th' = tscript th.
Proof.
  unfold step. intros H Hn.
  destruct (nth_error (threads s) t) as [th|] eqn:Et; [|discriminate].
  destruct (cur_op th) as [o|]; [|discriminate].
  assert (K : forall th'', tscript th'' = tscript th ->
              nth_error (upd_nth (threads s) t th'') t' = Some th' ->
              exists th0, nth_error (threads s) t' = Some th0 /\ tscript th' = tscript th0).
  { intros th'' Hs Hu. apply nth_error_upd_nth in Hu. destruct Hu as [(-> & -> & _)|(_ & Hu)]; eauto. }
  destruct (tpc th);
    repeat match type of H with
           | context [match ?x with _ => _ end] => destruct x
           | context [if ?x then _ else _] => destruct x
           end;
    inversion H; subst s'; cbn in Hn; try discriminate; eapply K; try exact Hn; reflexivity.
Qed.

(* ------------------------------------------------------------------ *)
(* helpers to re-establish the parts of the invariant after a step      *)

Lemma heap_ok_same s s' t th th' c :
  nth_error (threads s) t = Some th -> threads s' = upd_nth (threads s) t th' ->
  tscript th' = tscript th -> now s <= now s' ->
  (forall k x, resources s k = Some x -> resources s' k = Some x) ->
  heap s' c = heap s c -> heap_ok s c -> heap_ok s' c.
Proof.
  intros Ht Hth Hsc Hnow Hres E (H1 & H2 & H3 & H4 & H5). unfold heap_ok. rewrite E. cbn zeta.
  split; [|split; [exact H2|split; [|split; [|exact H5]]]].
  - destruct H1 as (thL & oL & A & B & C1 & C2 & C3). rewrite Hth.
    destruct (Nat.eq_dec (fst (clead (heap s c))) t) as [Et|Et].
    + rewrite Et in *. rewrite Ht in A. inversion A; subst thL.
      exists th', oL. rewrite (nth_error_upd_nth_eq _ _ _ _ Ht), Hsc. repeat split; auto.
    + exists thL, oL. rewrite nth_error_upd_nth_neq by auto. repeat split; auto.
  - intros rt Hrt. destruct (H3 rt Hrt). split; [lia|assumption].
  - intros Hg r Hr Hs Hn. apply Hres. apply H4; assumption.
Qed.

Lemma rm_ok_same s s' t th th' :
  rm_ok s -> nth_error (threads s) t = Some th -> threads s' = upd_nth (threads s) t th' ->
  ncreated s' = ncreated s ->
  (forall k, resources s k <> None -> resources s' k <> None) ->
  (forall k, storing k th -> storing k th') ->
  rm_ok s'.
Proof.
  intros H Ht Hth Hn Hres Hst k. destruct (H k) as [A B]. rewrite Hn. split; [exact A|].
  intros E. destruct (B E) as [R|(t2 & th2 & Hn2 & S2)]; [left; auto|].
  right. rewrite Hth. destruct (Nat.eq_dec t2 t) as [->|Hne].
  - rewrite Ht in Hn2. inversion Hn2; subst th2. exists t, th'.
    rewrite (nth_error_upd_nth_eq _ _ _ _ Ht). auto.
  - exists t2, th2. rewrite nth_error_upd_nth_neq by auto. auto.
Qed.

Lemma map_ok_same s s' t th th' :
  map_ok s -> nth_error (threads s) t = Some th -> threads s' = upd_nth (threads s) t th' ->
  calls s' = calls s -> nextc s <= nextc s' ->
  (forall c, c < nextc s -> clead (heap s' c) = clead (heap s c)) ->
  (forall c, owner_pc (tpc th) = Some c ->
             owner_pc (tpc th') = Some c /\ topi th' = topi th /\ cur_op th' = cur_op th) ->
  map_ok s'.
Proof.
  intros H Ht Hth Hc Hn Hl Hown g k c Hgk. rewrite Hc in Hgk.
  destruct (H g k c Hgk) as (Hlt & th0 & o & A & B & C & D & E & F).
  split; [lia|]. rewrite (Hl c Hlt), Hth.
  destruct (Nat.eq_dec (fst (clead (heap s c))) t) as [Et|Et].
  - rewrite Et in *. rewrite Ht in A. inversion A; subst th0.
    destruct (Hown c C) as (C' & B' & D').
    exists th', o. rewrite (nth_error_upd_nth_eq _ _ _ _ Ht), C', B', D'. repeat split; auto.
  - exists th0, o. rewrite nth_error_upd_nth_neq by auto. repeat split; auto.
Qed.

Lemma build_inv s s' t th th' :
  Inv s -> nth_error (threads s) t = Some th -> threads s' = upd_nth (threads s) t th' ->
  frame s s' t -> thread_ok s' t th' ->
  (forall c, c < nextc s' -> heap_ok s' c) -> map_ok s' -> rm_ok s' -> Inv s'.
Proof.
  intros HI Ht Hth F Hok Hh Hm Hr. constructor; auto.
  intros t' th0 Hn. rewrite Hth in Hn. apply nth_error_upd_nth in Hn.
  destruct Hn as [(-> & -> & _)|(Hne & Hn)]; [exact Hok|].
  eapply frame_thread_ok; eauto.
Qed.

(* results already recorded stay valid for the stepping thread itself *)
Lemma recs_keep s s' t th th' :
  frame s s' t -> tscript th' = tscript th -> topi th <= topi th' ->
  Forall (rec_ok s t th) (tres th) -> Forall (rec_ok s' t th') (tres th).
Proof.
  intros F Hs Hi H. eapply Forall_impl; [|exact H]. intros r Hr.
  apply (frame_rec_ok _ _ _ _ _ _ F) in Hr.
  destruct Hr as (o & A & B & C). exists o. rewrite Hs. split; [exact A|]. split; [lia|exact C].
Qed.

Lemma frame_gen s s' t :
  now s <= now s' -> nextc s <= nextc s' ->
  (forall c, c < nextc s ->
     heap s' c = heap s c \/
     (fst (clead (heap s c)) = t /\ cdone (heap s c) = false /\
      cgrp (heap s' c) = cgrp (heap s c) /\ ckey (heap s' c) = ckey (heap s c) /\
      clead (heap s' c) = clead (heap s c) /\ cinvt (heap s' c) = cinvt (heap s c) /\
      (cret (heap s' c) = cret (heap s c) \/ cret (heap s' c) = Some (now s)))) ->
  (forall g k c, calls s g k = Some c -> calls s' g k = Some c \/ fst (clead (heap s c)) = t) ->
  (forall k, resources s' k = resources s k \/
             (resources s k = None /\ exists c, calls s GRM k = Some c /\ fst (clead (heap s c)) = t)) ->
  frame s s' t.
Proof.
  intros Hn Hx Hh Hc Hr. constructor; auto.
  - intros c Hlt Hne. destruct (Hh c Hlt) as [E|(E & _)]; [exact E|contradiction].
  - intros c Hlt. destruct (Hh c Hlt) as [E|(E1 & E2 & E3 & E4 & E5 & E6 & E7)].
    + rewrite E. repeat split; auto.
    + repeat split; auto; [congruence|].
      intros rt Hrt. destruct E7 as [E7|E7]; rewrite E7 in Hrt; [left; exact Hrt|right].
      inversion Hrt. lia.
  - intros g k c Hgk Hne. destruct (Hc g k c Hgk) as [E|E]; [exact E|contradiction].
  - intros k x Hk. destruct (Hr k) as [E|(E & _)]; congruence.
  - intros k Hk Hk'. destruct (Hr k) as [E|(_ & E)]; [congruence|exact E].
Qed.

(* ------------------------------------------------------------------ *)
(* preservation of the invariant, one lemma per atomic action           *)

Ltac plain_frame :=
  apply frame_gen; cbn;
  [lia | lia | intros; left; reflexivity | intros; left; assumption | intros; left; reflexivity].

Ltac not_storing Epc :=
  let k := fresh in let o' := fresh in let c' := fresh in let x' := fresh in let E := fresh in
  intros k (o' & c' & x' & _ & _ & _ & E); rewrite Epc in E; discriminate.

Section Cases.
  Variables (s : state) (t : nat) (th : thread) (o : op).
  Hypothesis HI : Inv s.
  Hypothesis Ht : nth_error (threads s) t = Some th.
  Hypothesis Ho : cur_op th = Some o.

  Let Hrecs : Forall (rec_ok s t th) (tres th).
  Proof. destruct (inv_threads s HI t th Ht) as (_ & _ & H). exact H. Qed.

  Lemma pc_known : pc_ok s t th o.
  Proof. destruct (inv_threads s HI t th Ht) as (_ & H & _). auto. Qed.

  (* a step that changes nothing but the thread's own record (same call, same script) *)
  Lemma plain_step th' :
    tscript th' = tscript th -> topi th' = topi th -> tres th' = tres th ->
    (forall c, owner_pc (tpc th) = Some c -> owner_pc (tpc th') = Some c) ->
    (forall c x, tpc th = PRmStore c x -> tpc th' = PRmStore c x) ->
    (forall s', now s' = S (now s) -> nextc s' = nextc s -> heap s' = heap s -> calls s' = calls s ->
                resources s' = resources s -> pc_ok s' t th' o) ->
    Inv (mkState (S (now s)) (calls s) (heap s) (nextc s) (resources s) (ncreated s)
                 (upd_nth (threads s) t th')).
  Proof.
    intros Hs Hi Hr Hown Hst Hpc.
    assert (Hcur : cur_op th' = cur_op th) by (unfold cur_op; rewrite Hs, Hi; reflexivity).
    assert (F : frame s (mkState (S (now s)) (calls s) (heap s) (nextc s) (resources s) (ncreated s)
                 (upd_nth (threads s) t th')) t) by plain_frame.
    eapply build_inv; try eassumption; try reflexivity.
    - split; [rewrite Hcur, Ho; discriminate|]. split.
      + intros o' Ho'. rewrite Hcur, Ho in Ho'. inversion Ho'; subst o'. apply Hpc; reflexivity.
      + rewrite Hr. eapply recs_keep; try exact Hrecs; auto. lia.
    - cbn. intros c Hc. eapply heap_ok_same; try eassumption; try reflexivity; cbn; auto.
      apply (inv_heap s HI); auto.
    - eapply map_ok_same; try eassumption; try reflexivity; cbn; auto. apply (inv_map s HI).
    - eapply rm_ok_same; try eassumption; try reflexivity; cbn; auto. apply (inv_rm s HI).
      intros k (o' & c' & x' & A & B & C & E). exists o', c', x'. rewrite Hcur. auto.
  Qed.

  Lemma case_invoke : tpc th = PIdle ->
    Inv (mkState (S (now s)) (calls s) (heap s) (nextc s) (resources s) (ncreated s)
           (upd_nth (threads s) t (mkThread PCalled (tscript th) (topi th) (now s) (tjoin th) 0 (tres th)))).
  Proof.
    intros Epc. apply plain_step; cbn; auto.
    - rewrite Epc. discriminate.
    - rewrite Epc. discriminate.
    - intros s' En _ _ _ _. unfold pc_ok. cbn. rewrite En. split; [lia|reflexivity].
  Qed.

  Lemma case_join c : tpc th = PCalled -> calls s (ogrp o) (okey o) = Some c ->
    Inv (mkState (S (now s)) (calls s) (heap s) (nextc s) (resources s) (ncreated s)
           (upd_nth (threads s) t (mkThread (PWait c) (tscript th) (topi th) (tinv th) (now s) (truns th) (tres th)))).
  Proof.
    intros Epc Hc. pose proof pc_known as P. unfold pc_ok in P. rewrite Epc in P. destruct P as [P1 P2].
    destruct (entry_fresh s _ _ _ HI Hc) as (A1 & A2 & A3 & A4 & A5 & A6).
    apply plain_step; cbn; auto.
    - rewrite Epc. discriminate.
    - rewrite Epc. discriminate.
    - intros s' En Ex Eh Ec Er. unfold pc_ok. cbn. rewrite En, Ex, Eh.
      repeat split; auto; try lia.
      + intros El. destruct (entry_leader s _ _ _ _ _ HI Hc Ht El) as (B & _). rewrite Epc in B. discriminate.
      + intros rt Hrt. congruence.
  Qed.

  Lemma case_retry c : tpc th = PWait c ->
    Inv (mkState (S (now s)) (calls s) (heap s) (nextc s) (resources s) (ncreated s)
           (upd_nth (threads s) t (set_pc th PCalled))).
  Proof.
    intros Epc. pose proof pc_known as P. unfold pc_ok in P. rewrite Epc in P.
    destruct P as (A1 & A2 & A3 & A4 & A5 & A6 & A7 & A8 & A9).
    apply plain_step; cbn; auto.
    - rewrite Epc. discriminate.
    - rewrite Epc. discriminate.
    - intros s' En _ _ _ _. unfold pc_ok. cbn. rewrite En. split; [lia|assumption].
  Qed.

  Lemma lead_ok_plain s' th' c :
    now s' = S (now s) -> nextc s' = nextc s -> heap s' = heap s ->
    topi th' = topi th -> tinv th' = tinv th -> tjoin th' = tjoin th ->
    lead_ok s t th o c -> lead_ok s' t th' o c.
  Proof.
    intros En Ex Eh E1 E2 E3 (A1 & A2 & A3 & A4 & A5 & A6 & A7 & A8 & A9).
    unfold lead_ok. rewrite En, Ex, Eh, E1, E2, E3. repeat split; auto.
  Qed.

  Lemma case_fnstart c : tpc th = PLead c ->
    Inv (mkState (S (now s)) (calls s) (heap s) (nextc s) (resources s) (ncreated s)
           (upd_nth (threads s) t (mkThread (PInFn c) (tscript th) (topi th) (tinv th) (tjoin th) (S (truns th)) (tres th)))).
  Proof.
    intros Epc. pose proof pc_known as P. unfold pc_ok in P. rewrite Epc in P. destruct P as (L & C & R).
    apply plain_step; cbn; auto.
    - rewrite Epc. cbn. auto.
    - rewrite Epc. discriminate.
    - intros s' En Ex Eh Ec Er. unfold pc_ok. cbn. rewrite Ec.
      split; [eapply lead_ok_plain; eauto|]. split; [exact C|]. rewrite R. reflexivity.
  Qed.

  Lemma case_rm_miss c : tpc th = PInFn c -> ogrp o = GRM -> resources s (okey o) = None ->
    Inv (mkState (S (now s)) (calls s) (heap s) (nextc s) (resources s) (ncreated s)
           (upd_nth (threads s) t (set_pc th (PRmCreate c)))).
  Proof.
    intros Epc Hg Hn. pose proof pc_known as P. unfold pc_ok in P. rewrite Epc in P. destruct P as (L & C & R).
    apply plain_step; cbn; auto.
    - rewrite Epc. cbn. auto.
    - rewrite Epc. discriminate.
    - intros s' En Ex Eh Ec Er. unfold pc_ok. cbn. rewrite Ec, Er.
      split; [eapply lead_ok_plain; eauto|]. auto.
  Qed.

  Lemma case_setval c r res' :
    owner_pc (tpc th) = Some c -> lead_ok s t th o c -> calls s (ogrp o) (okey o) = Some c -> truns th = 1 ->
    (forall k', res' k' = resources s k' \/ (k' = okey o /\ ogrp o = GRM /\ resources s k' = None)) ->
    (ogrp o <> GRM -> r = fn_ret o) ->
    (ogrp o = GRM -> snd r = 0%Z -> res' (okey o) = Some (fst r)) ->
    (forall c x, tpc th = PRmStore c x -> res' (okey o) <> None) ->
    Inv (mkState (S (now s)) (calls s) (fupd (heap s) c (with_val (heap s c) (shared r))) (nextc s) res' (ncreated s)
           (upd_nth (threads s) t (set_pc th (PFnDone c r)))).
  Proof.
    intros Hown L C R Hres Hv1 Hv2 Hst.
    pose proof L as (A1 & A2 & A3 & A4 & A5 & A6 & A7 & A8 & A9).
    set (s' := mkState _ _ _ _ _ _ _).
    assert (ResSome : forall k x, resources s k = Some x -> res' k = Some x).
    { intros k x Hk. destruct (Hres k) as [E|(_ & _ & E)]; congruence. }
    assert (F : frame s s' t).
    { apply frame_gen; cbn; try lia.
      - intros c0 Hc0. destruct (Nat.eq_dec c0 c) as [->|Hne].
        + right. rewrite fupd_eq. cbn. rewrite A4. auto 10.
        + left. apply fupd_neq. exact Hne.
      - intros; left; assumption.
      - intros k. destruct (Hres k) as [E|(E1 & E2 & E3)]; [left; exact E|right].
        split; [exact E3|]. exists c. subst k. rewrite <- E2. split; [exact C|]. rewrite A4. reflexivity. }
    eapply build_inv; try eassumption; try reflexivity.
    - split; [cbn; unfold cur_op in *; cbn; rewrite Ho; discriminate|]. split.
      + intros o' Ho'. unfold cur_op in Ho'. cbn in Ho'. unfold cur_op in Ho. rewrite Ho in Ho'. inversion Ho'; subst o'.
        unfold pc_ok. cbn. split.
        * unfold lead_ok. cbn. rewrite fupd_eq. cbn. repeat split; auto.
        * split; [exact C|]. split; [exact R|]. unfold val_ok. cbn. rewrite fupd_eq. cbn. auto.
      + cbn. eapply recs_keep; try exact Hrecs; cbn; auto.
    - cbn. intros c0 Hc0. destruct (Nat.eq_dec c0 c) as [->|Hne].
      + destruct (inv_heap s HI c A1) as (H1 & H2 & H3 & H4 & H5).
        unfold heap_ok. cbn. rewrite fupd_eq. cbn. rewrite A4. cbn.
        split; [|split; [|split; [|split]]].
        * exists (set_pc th (PFnDone c r)), o. rewrite (nth_error_upd_nth_eq _ _ _ _ Ht). cbn.
          repeat split; auto. intros Hg r' Hr'. inversion Hr'; subst r'. rewrite (Hv1 ltac:(congruence)). reflexivity.
        * intros Hd. congruence.
        * intros rt Hrt. congruence.
        * intros Hg r' Hr' Hs Hn. inversion Hr'; subst r'. rewrite A3.
          assert (Hid : shared r = r).
          { unfold shared in *. destruct (Z.eqb_spec (snd r) epanic); [|reflexivity].
            cbn in Hn. exfalso. apply Hn. reflexivity. }
          rewrite Hid in *. apply Hv2; congruence.
        * intros r' Hr'. inversion Hr'; subst r'. apply shared_not_panic.
      + eapply heap_ok_same; try eassumption; try reflexivity; cbn; auto.
        * apply fupd_neq; exact Hne.
        * apply (inv_heap s HI); auto.
    - eapply map_ok_same; try eassumption; try reflexivity; cbn; auto.
      + apply (inv_map s HI).
      + intros c0 Hc0. destruct (Nat.eq_dec c0 c) as [->|Hne]; [rewrite fupd_eq; reflexivity|rewrite fupd_neq; auto].
      + intros c0 Hc0. rewrite Hown in Hc0. inversion Hc0; subst c0. auto.
    - intros k. destruct (inv_rm s HI k) as [B1 B2]. cbn. split; [exact B1|].
      intros E. destruct (B2 E) as [B|(t2 & th2 & Hn2 & S2)].
      + left. destruct (resources s k) eqn:Ek; [|congruence]. rewrite (ResSome _ _ Ek). discriminate.
      + destruct (Nat.eq_dec t2 t) as [->|Hne].
        * left. rewrite Ht in Hn2. inversion Hn2; subst th2.
          destruct S2 as (o' & c' & x' & S1 & S2 & S3 & S4). rewrite Ho in S1. inversion S1; subst o'.
          subst k. eapply Hst; eauto.
        * right. exists t2, th2. rewrite nth_error_upd_nth_neq by auto. auto.
  Qed.

  Lemma case_created c : tpc th = PRmCreate c ->
    Inv (mkState (S (now s)) (calls s) (heap s) (nextc s) (resources s)
           (zupd (ncreated s) (okey o) (S (ncreated s (okey o))))
           (upd_nth (threads s) t (set_pc th (PRmStore c (oval o))))).
  Proof.
    intros Epc. pose proof pc_known as P. unfold pc_ok in P. rewrite Epc in P.
    destruct P as (L & C & R & G & N).
    set (th' := set_pc th (PRmStore c (oval o))). set (s' := mkState _ _ _ _ _ _ _).
    assert (Hcur : cur_op th' = Some o) by exact Ho.
    assert (F : frame s s' t) by plain_frame.
    eapply build_inv; try eassumption; try reflexivity.
    - split; [rewrite Hcur; discriminate|]. split.
      + intros o' Ho'. rewrite Hcur in Ho'. inversion Ho'; subst o'. unfold pc_ok. cbn.
        split; [eapply lead_ok_plain; eauto|]. auto.
      + cbn. eapply recs_keep; try exact Hrecs; cbn; auto.
    - cbn. intros c0 Hc0. eapply heap_ok_same; try eassumption; try reflexivity; cbn; auto.
      apply (inv_heap s HI); auto.
    - eapply map_ok_same; try eassumption; try reflexivity; cbn; auto. apply (inv_map s HI).
      intros c0. rewrite Epc. cbn. auto.
    - intros k. destruct (inv_rm s HI k) as [B1 B2]. cbn.
      destruct (Z.eq_dec k (okey o)) as [->|Hne].
      + rewrite zupd_eq.
        assert (Z0 : ncreated s (okey o) = 0).
        { destruct (ncreated s (okey o)) as [|[|n]] eqn:En; [reflexivity| |lia]. exfalso.
          destruct (B2 eq_refl) as [B|(t2 & th2 & Hn2 & (o2 & c2 & x2 & S1 & S2 & S3 & S4))]; [congruence|].
          assert (t2 = t).
          { eapply (owner_unique s GRM (okey o) t2 t th2 th o2 o c2 c HI); eauto.
            - rewrite S4. reflexivity. - rewrite Epc. reflexivity. }
          subst t2. rewrite Ht in Hn2. inversion Hn2; subst th2. congruence. }
        rewrite Z0. split; [lia|]. intros _. right. exists t, th'.
        rewrite (nth_error_upd_nth_eq _ _ _ _ Ht). split; [reflexivity|].
        exists o, c, (oval o). auto.
      + rewrite zupd_neq by auto. split; [exact B1|]. intros E.
        destruct (B2 E) as [B|(t2 & th2 & Hn2 & S2)]; [left; exact B|right].
        destruct (Nat.eq_dec t2 t) as [->|Hne2].
        * rewrite Ht in Hn2. inversion Hn2; subst th2.
          destruct S2 as (o2 & c2 & x2 & _ & _ & _ & S4). congruence.
        * exists t2, th2. rewrite nth_error_upd_nth_neq by auto. auto.
  Qed.

  Lemma case_delete c r : tpc th = PFnDone c r ->
    Inv (mkState (S (now s)) (set_calls (calls s) (ogrp o) (okey o) None) (heap s) (nextc s)
           (resources s) (ncreated s) (upd_nth (threads s) t (set_pc th (PDeleted c r)))).
  Proof.
    intros Epc. pose proof pc_known as P. unfold pc_ok in P. rewrite Epc in P.
    destruct P as (L & C & R & V).
    pose proof L as (A1 & A2 & A3 & A4 & A5 & A6 & A7 & A8 & A9).
    set (th' := set_pc th (PDeleted c r)). set (s' := mkState _ _ _ _ _ _ _).
    assert (Hcur : cur_op th' = Some o) by exact Ho.
    assert (F : frame s s' t).
    { apply frame_gen; cbn; try lia.
      - intros; left; reflexivity.
      - intros g k c0 Hc0. destruct (set_calls_cases (calls s) (ogrp o) (okey o) None g k) as [(E & E')|(E & E')].
        + right. inversion E; subst g k. rewrite C in Hc0. inversion Hc0; subst c0. rewrite A4. reflexivity.
        + left. rewrite E'. exact Hc0.
      - intros; left; reflexivity. }
    eapply build_inv; try eassumption; try reflexivity.
    - split; [rewrite Hcur; discriminate|]. split.
      + intros o' Ho'. rewrite Hcur in Ho'. inversion Ho'; subst o'. unfold pc_ok. cbn.
        split; [eapply lead_ok_plain; eauto|]. split; [exact R|]. exact V.
      + cbn. eapply recs_keep; try exact Hrecs; cbn; auto.
    - cbn. intros c0 Hc0. eapply heap_ok_same; try eassumption; try reflexivity; cbn; auto.
      apply (inv_heap s HI); auto.
    - intros g k c0 Hc0. cbn in Hc0.
      destruct (set_calls_cases (calls s) (ogrp o) (okey o) None g k) as [(E & E')|(E & E')];
        rewrite E' in Hc0; [discriminate|].
      destruct (inv_map s HI g k c0 Hc0) as (Hlt & th0 & o0 & B1 & B2 & B3 & B4 & B5 & B6).
      split; [exact Hlt|]. cbn.
      destruct (Nat.eq_dec (fst (clead (heap s c0))) t) as [El|El].
      + exfalso. destruct (entry_leader s g k c0 t th HI Hc0 Ht El) as (_ & o1 & D1 & D2 & D3).
        rewrite Ho in D1. inversion D1; subst o1. apply E. congruence.
      + exists th0, o0. rewrite nth_error_upd_nth_neq by auto. auto 10.
    - eapply rm_ok_same; try eassumption; try reflexivity; cbn; auto. apply (inv_rm s HI).
      intros k (o' & c' & x' & _ & _ & _ & E). congruence.
  Qed.

  Lemma case_register : tpc th = PCalled -> calls s (ogrp o) (okey o) = None ->
    Inv (mkState (S (now s)) (set_calls (calls s) (ogrp o) (okey o) (Some (nextc s)))
           (fupd (heap s) (nextc s) (mkCall (ogrp o) (okey o) (t, topi th) (tinv th) None false None))
           (S (nextc s)) (resources s) (ncreated s)
           (upd_nth (threads s) t (mkThread (PLead (nextc s)) (tscript th) (topi th) (tinv th) (now s) (truns th) (tres th)))).
  Proof.
    intros Epc Hnone. pose proof pc_known as P. unfold pc_ok in P. rewrite Epc in P. destruct P as [P1 P2].
    set (th' := mkThread _ _ _ _ _ _ _). set (s' := mkState _ _ _ _ _ _ _).
    assert (Hcur : cur_op th' = Some o) by exact Ho.
    assert (NotLead : forall g k c0, calls s g k = Some c0 -> fst (clead (heap s c0)) <> t).
    { intros g k c0 Hc0 El. destruct (entry_leader s g k c0 t th HI Hc0 Ht El) as (B & _).
      rewrite Epc in B. discriminate. }
    assert (F : frame s s' t).
    { apply frame_gen; cbn; try lia.
      - intros c0 Hc0. left. apply fupd_neq. lia.
      - intros g k c0 Hc0. left.
        destruct (set_calls_cases (calls s) (ogrp o) (okey o) (Some (nextc s)) g k) as [(E & E')|(E & E')].
        + inversion E; subst g k. congruence.
        + rewrite E'. exact Hc0.
      - intros; left; reflexivity. }
    eapply build_inv; try eassumption; try reflexivity.
    - split; [rewrite Hcur; discriminate|]. split.
      + intros o' Ho'. rewrite Hcur in Ho'. inversion Ho'; subst o'. unfold pc_ok. cbn.
        split; [|split; [apply set_calls_eq|exact P2]].
        unfold lead_ok. cbn. rewrite fupd_eq. cbn. repeat split; auto; lia.
      + cbn. eapply recs_keep; try exact Hrecs; cbn; auto.
    - cbn. intros c0 Hc0. destruct (Nat.eq_dec c0 (nextc s)) as [->|Hne].
      + unfold heap_ok. cbn. rewrite fupd_eq. cbn. split; [|split; [|split; [|split]]].
        * exists th', o. rewrite (nth_error_upd_nth_eq _ _ _ _ Ht). cbn. repeat split; auto.
          intros _ r Hr. discriminate.
        * discriminate.
        * discriminate.
        * intros _ r Hr. discriminate.
        * intros r Hr. discriminate.
      + eapply heap_ok_same; try eassumption; try reflexivity; cbn; auto.
        * apply fupd_neq; exact Hne.
        * apply (inv_heap s HI). lia.
    - intros g k c0 Hc0. cbn in Hc0. cbn.
      destruct (set_calls_cases (calls s) (ogrp o) (okey o) (Some (nextc s)) g k) as [(E & E')|(E & E')];
        rewrite E' in Hc0.
      + inversion Hc0; subst c0. inversion E; subst g k. split; [lia|]. rewrite fupd_eq. cbn.
        exists th', o. rewrite (nth_error_upd_nth_eq _ _ _ _ Ht). auto 10.
      + destruct (inv_map s HI g k c0 Hc0) as (Hlt & th0 & o0 & B1 & B2 & B3 & B4 & B5 & B6).
        split; [lia|]. rewrite fupd_neq by lia.
        exists th0, o0. rewrite nth_error_upd_nth_neq by (intros X; eapply NotLead; [exact Hc0|symmetry; exact X]). auto 10.
    - eapply rm_ok_same; try eassumption; try reflexivity; cbn; auto. apply (inv_rm s HI).
      intros k (o' & c' & x' & _ & _ & _ & E). congruence.
  Qed.

  (* the waiter returns (v', e'): the shared pair itself, or - GetResource on the (nil, nil)
     of a panicked leader - its own panic *)
  Lemma case_wake_return c v e v' e' : tpc th = PWait c -> ogrp o <> GLC ->
    cdone (heap s c) = true -> cval (heap s c) = Some (v, e) ->
    ((v', e') = (v, e) /\ (ogrp o = GRM -> ~ (v = vnil /\ e = 0%Z))) \/
    ((v', e') = (vnil, epanic) /\ v = vnil /\ e = 0%Z) ->
    (ogrp o = GSF -> (v', e') = (vnil, epanic) -> False) ->
    Inv (mkState (S (now s)) (calls s) (heap s) (nextc s) (resources s) (ncreated s)
           (upd_nth (threads s) t (finish th v' e' false c (now s)))).
  Proof.
    intros Epc Hg Hd Hv Hret HretSF. pose proof pc_known as P. unfold pc_ok in P. rewrite Epc in P.
    destruct P as (A1 & A2 & A3 & A4 & A5 & A6 & A7 & A8 & A9).
    set (th' := finish th v' e' false c (now s)). set (s' := mkState _ _ _ _ _ _ _).
    assert (F : frame s s' t) by plain_frame.
    destruct (inv_heap s HI c A1) as (H1 & H2 & H3 & H4 & H5).
    assert (Hsh : Some (v, e) = Some (shared (v', e'))).
    { destruct Hret as [(E & _)|(E & -> & ->)]; inversion E; subst v' e'; [|reflexivity].
      rewrite shared_id; [reflexivity|]. apply (H5 _ Hv). }
    eapply build_inv; try eassumption; try reflexivity.
    - split; [|split].
      + intros _. reflexivity.
      + intros o' _. exact I.
      + cbn. apply Forall_app. split.
        * eapply recs_keep; try exact Hrecs; cbn; auto.
        * constructor; [|constructor]. exists o. cbn. split; [exact Ho|]. split; [lia|].
          destruct (H2 Hd) as (r0 & rt & Hr0 & Hrt).
          repeat split; auto; try lia; try discriminate; try (exfalso; apply Hg; assumption).
          -- intros _. rewrite Hv. exact Hsh.
          -- exists rt. split; [exact Hrt|]. apply A6. exact Hrt.
          -- intros Eg Ee. rewrite <- A3.
             destruct Hret as [(E & Hnn)|(E & _ & _)].
             ++ assert (E1 : v' = v) by congruence. assert (E2 : e' = e) by congruence.
                rewrite E1. apply (H4 (eq_trans A2 Eg) _ Hv); cbn; [congruence|].
                intros Hvn. apply (Hnn Eg). split; congruence.
             ++ assert (E2 : e' = epanic) by congruence. rewrite E2 in Ee. discriminate Ee.
          -- intros Eg Ee. exfalso.
             destruct Hret as [(E & _)|(E & Evn & Een)].
             ++ assert (E2 : e' = e) by congruence. apply (H5 _ Hv). cbn. congruence.
             ++ (* only GetResource turns the (nil, nil) of a panicked leader into a panic *)
                destruct (ogrp o) eqn:Eo; try discriminate Eg.
                assert (Hnp : snd (v, e) <> epanic) by (apply (H5 _ Hv)).
                (* for SingleFlight the step returns the shared pair itself *)
                exact (HretSF eq_refl E).
    - cbn. intros c0 Hc0. eapply heap_ok_same; try eassumption; try reflexivity; cbn; auto.
      apply (inv_heap s HI); auto.
    - eapply map_ok_same; try eassumption; try reflexivity; cbn; auto. apply (inv_map s HI).
      rewrite Epc. cbn. discriminate.
    - eapply rm_ok_same; try eassumption; try reflexivity; cbn; auto. apply (inv_rm s HI).
      intros k (o' & c' & x' & _ & _ & _ & E). congruence.
  Qed.

  Lemma case_done c r : tpc th = PDeleted c r ->
    let h := heap s c in
    Inv (mkState (S (now s)) (calls s)
           (fupd (heap s) c (mkCall (cgrp h) (ckey h) (clead h) (cinvt h) (cval h) true (Some (now s))))
           (nextc s) (resources s) (ncreated s)
           (upd_nth (threads s) t (finish th (fst r) (snd r) true c (now s)))).
  Proof.
    intros Epc h. subst h. pose proof pc_known as P. unfold pc_ok in P. rewrite Epc in P.
    destruct P as (L & R & (V1 & V2 & V3)).
    pose proof L as (A1 & A2 & A3 & A4 & A5 & A6 & A7 & A8 & A9).
    set (th' := finish _ _ _ _ _ _). set (s' := mkState _ _ _ _ _ _ _).
    assert (F : frame s s' t).
    { apply frame_gen; cbn; try lia.
      - intros c0 Hc0. destruct (Nat.eq_dec c0 c) as [->|Hne].
        + right. rewrite fupd_eq. cbn. rewrite A4. auto 10.
        + left. apply fupd_neq. exact Hne.
      - intros; left; assumption.
      - intros; left; reflexivity. }
    destruct (inv_heap s HI c A1) as (H1 & H2 & H3 & H4 & H5).
    eapply build_inv; try eassumption; try reflexivity.
    - split; [|split].
      + intros _. reflexivity.
      + intros o' _. exact I.
      + cbn. apply Forall_app. split.
        * eapply recs_keep; try exact Hrecs; cbn; auto.
        * constructor; [|constructor]. exists o. cbn. split; [exact Ho|]. split; [lia|].
          rewrite fupd_eq. cbn. destruct r as [v e]. cbn.
          repeat split; auto; try lia; try discriminate.
          all: match goal with H : ogrp o = GLC |- _ => specialize (V2 ltac:(congruence)); congruence end.
    - cbn. intros c0 Hc0. destruct (Nat.eq_dec c0 c) as [->|Hne].
      + unfold heap_ok. cbn. rewrite fupd_eq. cbn. split; [|split; [|split; [|split]]].
        * destruct H1 as (thL & oL & B1 & B2 & B3 & B4 & B5).
          rewrite A4 in B1, B2. cbn in B1, B2. rewrite Ht in B1. inversion B1; subst thL.
          exists th', oL. rewrite A4. cbn. rewrite (nth_error_upd_nth_eq _ _ _ _ Ht).
          repeat split; auto.
        * intros _. exists (shared r), (now s). auto.
        * intros rt Hrt. inversion Hrt. split; [lia|reflexivity].
        * exact H4.
        * exact H5.
      + eapply heap_ok_same; try eassumption; try reflexivity; cbn; auto.
        * apply fupd_neq; exact Hne.
        * apply (inv_heap s HI); auto.
    - eapply map_ok_same; try eassumption; try reflexivity; cbn; auto.
      + apply (inv_map s HI).
      + intros c0 Hc0. destruct (Nat.eq_dec c0 c) as [->|Hne]; [rewrite fupd_eq; reflexivity|rewrite fupd_neq; auto].
      + rewrite Epc. cbn. discriminate.
    - eapply rm_ok_same; try eassumption; try reflexivity; cbn; auto. apply (inv_rm s HI).
      intros k (o' & c' & x' & _ & _ & _ & E). congruence.
  Qed.
End Cases.

Lemma step_inv s t s' : Inv s -> step s t = Some s' -> Inv s'.
Proof.
  intros HI H. unfold step in H.
  destruct (nth_error (threads s) t) as [th|] eqn:Ht; [|discriminate].
  destruct (cur_op th) as [o|] eqn:Ho; [|discriminate].
  pose proof (pc_known s t th o HI Ht Ho) as P. unfold pc_ok in P.
  destruct (tpc th) as [| |c|c|c|c|c x|c r|c r] eqn:Epc.
  - inversion H; subst s'. eapply case_invoke; eauto.
  - destruct (calls s (ogrp o) (okey o)) as [c|] eqn:Ec; inversion H; subst s'.
    + eapply case_join; eauto.
    + eapply case_register; eauto.
  - destruct (cdone (heap s c)) eqn:Ed; [|discriminate].
    destruct (ogrp o) eqn:Eg.
    + destruct (cval (heap s c)) as [[v e]|] eqn:Ev; [|discriminate]. inversion H; subst s'.
      apply (case_wake_return s t th o HI Ht Ho c v e v e Epc ltac:(congruence) Ed Ev).
      * left. split; [reflexivity|]. intros Eg'. congruence.
      * intros _ E. destruct P as (P1 & _). destruct (inv_heap s HI c P1) as (_ & _ & _ & _ & H5).
        apply (H5 _ Ev). cbn. congruence.
    + inversion H; subst s'. eapply case_retry; eauto.
    + destruct (cval (heap s c)) as [[v e]|] eqn:Ev; [|discriminate].
      destruct (Z.eqb_spec v vnil) as [Evn|Evn]; destruct (Z.eqb_spec e 0) as [Een|Een];
        cbn [andb] in H; inversion H; subst s'.
      * apply (case_wake_return s t th o HI Ht Ho c v e vnil epanic Epc ltac:(congruence) Ed Ev);
          [right; auto | intros X; congruence].
      * apply (case_wake_return s t th o HI Ht Ho c v e v e Epc ltac:(congruence) Ed Ev);
          [|intros X; congruence].
        left. split; [reflexivity|]. intros _ [_ X]. contradiction.
      * apply (case_wake_return s t th o HI Ht Ho c v e v e Epc ltac:(congruence) Ed Ev);
          [|intros X; congruence].
        left. split; [reflexivity|]. intros _ [X _]. contradiction.
      * apply (case_wake_return s t th o HI Ht Ho c v e v e Epc ltac:(congruence) Ed Ev);
          [|intros X; congruence].
        left. split; [reflexivity|]. intros _ [X _]. contradiction.
  - inversion H; subst s'. eapply case_fnstart; eauto.
  - destruct P as (L & C & R).
    assert (Plain : forall r, ogrp o <> GRM -> r = fn_ret o ->
              Inv (mkState (S (now s)) (calls s) (fupd (heap s) c (with_val (heap s c) (shared r))) (nextc s)
                     (resources s) (ncreated s) (upd_nth (threads s) t (set_pc th (PFnDone c r))))).
    { intros r Hg Hr. apply (case_setval s t th o HI Ht Ho c r (resources s)); auto.
      - rewrite Epc. reflexivity.
      - contradiction.
      - intros c0 x0 E0. congruence. }
    destruct (ogrp o) eqn:Eg.
    + inversion H; subst s'. apply Plain; congruence.
    + inversion H; subst s'. apply Plain; congruence.
    + destruct (resources s (okey o)) as [x|] eqn:Er; inversion H; subst s'.
      * change (with_val (heap s c) (x, 0%Z)) with (with_val (heap s c) (shared (x, 0%Z))).
        apply (case_setval s t th o HI Ht Ho c (x, 0%Z) (resources s)); auto.
        -- rewrite Epc. reflexivity.
        -- rewrite Eg. exact C.
        -- congruence.
        -- intros c0 x0 E0. congruence.
      * eapply case_rm_miss; eauto.
  - destruct P as (L & C & R & G & N).
    destruct (Z.eqb_spec (oerr o) 0) as [Ee|Ee]; inversion H; subst s'.
    + eapply case_created; eauto.
    + apply (case_setval s t th o HI Ht Ho c (vnil, oerr o) (resources s)); auto.
      * rewrite Epc. reflexivity.
      * congruence.
      * cbn. intros _ E0. contradiction.
      * intros c0 x0 E0. congruence.
  - destruct P as (L & C & R & G & N). inversion H; subst s'.
    change (with_val (heap s c) (x, 0%Z)) with (with_val (heap s c) (shared (x, 0%Z))).
    apply (case_setval s t th o HI Ht Ho c (x, 0%Z) (zupd (resources s) (okey o) (Some x))); auto.
    + rewrite Epc. reflexivity.
    + intros k'. destruct (Z.eq_dec k' (okey o)) as [->|Hne].
      * right. auto.
      * left. apply zupd_neq. exact Hne.
    + congruence.
    + intros _ _. cbn. apply zupd_eq.
    + intros c0 x0 _. rewrite zupd_eq. discriminate.
  - inversion H; subst s'. eapply case_delete; eauto.
  - destruct P as (L & R & (V1 & V2 & V3)).
    assert (E : (if Z.eqb (snd r) epanic then r else
                 match ogrp o with
                 | GLC => r
                 | _ => match cval (heap s c) with Some r' => r' | None => r end
                 end) = r).
    { destruct (Z.eqb_spec (snd r) epanic) as [Ep|Ep]; [reflexivity|].
      rewrite V1, (shared_id r Ep). destruct (ogrp o); reflexivity. }
    rewrite E in H. destruct r as [v e]. inversion H; subst s'.
    apply (case_done s t th o HI Ht Ho c (v, e) Epc).
Qed.

Lemma exec_inv scripts sched : Inv (exec scripts sched).
Proof. unfold exec. apply run_inv; [intros; eapply step_inv; eauto | apply init_inv]. Qed.

(* ------------------------------------------------------------------ *)
(* the property lemmas                                                  *)

Lemma in_fn_owner g k th : in_fn g k th = true ->
  exists o c, cur_op th = Some o /\ ogrp o = g /\ okey o = k /\ owner_pc (tpc th) = Some c.
Proof.
  unfold in_fn. destruct (cur_op th) as [o|]; [|discriminate]. intros H.
  apply andb_prop in H. destruct H as [H H3]. apply andb_prop in H. destruct H as [H1 H2].
  destruct (grp_eqb_spec (ogrp o) g); [|discriminate]. apply Z.eqb_eq in H2.
  destruct (tpc th) eqn:E; try discriminate; eexists o, _; cbn; eauto.
Qed.

Lemma running_le1 s g k : Inv s -> running g k s <= 1.
Proof.
  intros HI. unfold running. apply sumf_b2n_le1. intros i j x y Hi Hj Hx Hy.
  destruct (in_fn_owner _ _ _ Hx) as (o1 & c1 & A1 & A2 & A3 & A4).
  destruct (in_fn_owner _ _ _ Hy) as (o2 & c2 & B1 & B2 & B3 & B4).
  eapply (owner_unique s g k i j x y o1 o2 c1 c2); eauto.
Qed.

Lemma recs_ok s t th r : Inv s -> nth_error (threads s) t = Some th -> In r (tres th) -> rec_ok s t th r.
Proof.
  intros HI Ht Hr. destruct (inv_threads s HI t th Ht) as (_ & _ & H).
  rewrite Forall_forall in H. auto.
Qed.

(* a step changes heap objects of the stepping thread's own key only *)
Lemma step_heap_local s t s' th o c :
  Inv s -> step s t = Some s' -> nth_error (threads s) t = Some th -> cur_op th = Some o ->
  c < nextc s -> (cgrp (heap s c), ckey (heap s c)) <> (ogrp o, okey o) -> heap s' c = heap s c.
Proof.
  intros HI H Ht Ho Hc Hk. pose proof (pc_known s t th o HI Ht Ho) as P. unfold pc_ok, lead_ok in P.
  unfold step in H. rewrite Ht, Ho in H.
  assert (K : forall c0 h, (cgrp (heap s c0) = ogrp o /\ ckey (heap s c0) = okey o) \/ c0 = nextc s ->
                           fupd (heap s) c0 h c = heap s c).
  { intros c0 h [[E1 E2]|E]; apply fupd_neq; [|lia]. intros ->. apply Hk. congruence. }
  destruct (tpc th);
    repeat match type of H with
           | context [match ?x with _ => _ end] => destruct x eqn:?
           | context [if ?x then _ else _] => destruct x eqn:?
           end;
    inversion H; subst s'; cbn; try reflexivity; apply K; intuition.
Qed.

Lemma step_threads_other s t s' t0 :
  step s t = Some s' -> t0 <> t -> nth_error (threads s') t0 = nth_error (threads s) t0.
Proof.
  unfold step. intros H Hne.
  destruct (nth_error (threads s) t) as [th|] eqn:Et; [|discriminate].
  destruct (cur_op th) as [o|]; [|discriminate].
  destruct (tpc th);
    repeat match type of H with
           | context [match ?x with _ => _ end] => destruct x
           | context [if ?x then _ else _] => destruct x
           end;
    inversion H; subst s'; cbn; try discriminate; apply nth_error_upd_nth_neq; auto.
Qed.

Definition wait_ready (s : state) (o : op) (c : nat) : bool :=
  cdone (heap s c) &&
  match ogrp o with
  | GLC => true
  | _ => match cval (heap s c) with Some _ => true | None => false end
  end.

Lemma enabled_char s t th o :
  nth_error (threads s) t = Some th -> cur_op th = Some o ->
  enabled s t = match tpc th with PWait c => wait_ready s o c | _ => true end.
Proof.
  intros Ht Ho. unfold enabled, step, wait_ready. rewrite Ht, Ho.
  destruct (tpc th); try reflexivity.
  - destruct (calls s (ogrp o) (okey o)); reflexivity.
  - destruct (cdone (heap s c)); [|reflexivity]. cbn.
    destruct (ogrp o); try reflexivity; destruct (cval (heap s c)) as [[v e]|]; try reflexivity.
    destruct ((v =? vnil)%Z && (e =? 0)%Z); reflexivity.
  - destruct (ogrp o); try reflexivity. destruct (resources s (okey o)); reflexivity.
  - destruct (Z.eqb (oerr o) 0); reflexivity.
  - destruct (if Z.eqb (snd r) epanic then r else
              match ogrp o with GLC => r | _ => match cval (heap s c) with Some r' => r' | None => r end end).
    reflexivity.
Qed.

Lemma blocked_behind_own_key s t th o :
  Inv s -> nth_error (threads s) t = Some th -> cur_op th = Some o -> enabled s t = false ->
  exists c, tpc th = PWait c /\ c < nextc s /\ cgrp (heap s c) = ogrp o /\ ckey (heap s c) = okey o /\
            cdone (heap s c) = false /\ fst (clead (heap s c)) <> t.
Proof.
  intros HI Ht Ho He. rewrite (enabled_char s t th o Ht Ho) in He.
  pose proof (pc_known s t th o HI Ht Ho) as P. unfold pc_ok in P.
  destruct (tpc th) as [| |c| | | | | |]; try discriminate.
  destruct P as (A1 & A2 & A3 & A4 & _). exists c. repeat split; auto.
  unfold wait_ready in He. destruct (cdone (heap s c)) eqn:Ed; [|reflexivity]. exfalso.
  destruct (inv_heap s HI c A1) as (_ & H2 & _). destruct (H2 Ed) as (r & rt & Hr & _).
  rewrite Hr in He. cbn in He. destruct (ogrp o); discriminate.
Qed.

Lemma other_key_step_enabled s t' s' t th th' o o' :
  Inv s -> step s t' = Some s' -> t <> t' ->
  nth_error (threads s) t = Some th -> cur_op th = Some o ->
  nth_error (threads s) t' = Some th' -> cur_op th' = Some o' ->
  (ogrp o, okey o) <> (ogrp o', okey o') ->
  enabled s' t = enabled s t.
Proof.
  intros HI H Hne Ht Ho Ht' Ho' Hk.
  assert (Ht2 : nth_error (threads s') t = Some th).
  { rewrite (step_threads_other _ _ _ _ H Hne). exact Ht. }
  rewrite (enabled_char s' t th o Ht2 Ho), (enabled_char s t th o Ht Ho).
  pose proof (pc_known s t th o HI Ht Ho) as P. unfold pc_ok in P.
  destruct (tpc th) as [| |c| | | | | |]; try reflexivity.
  destruct P as (A1 & A2 & A3 & _). unfold wait_ready.
  rewrite (step_heap_local s t' s' th' o' c HI H Ht' Ho' A1); [reflexivity|]. congruence.
Qed.

(* executions keep the scripted result of their leader (SingleFlight, LockedCalls) *)
Lemma exec_value s c : Inv s -> c < nextc s -> cgrp (heap s c) <> GRM ->
  exists thL oL, nth_error (threads s) (fst (clead (heap s c))) = Some thL /\
                 nth_error (tscript thL) (snd (clead (heap s c))) = Some oL /\
                 ogrp oL = cgrp (heap s c) /\ okey oL = ckey (heap s c) /\
                 forall r, cval (heap s c) = Some r -> r = shared (fn_ret oL).
Proof.
  intros HI Hc Hg. destruct (inv_heap s HI c Hc) as ((thL & oL & A & B & C & D & E) & _).
  exists thL, oL. repeat split; auto.
Qed.

(* panics: a function that does not panic hands over exactly its scripted pair *)
Lemma fn_ret_nopanic o : panics o = false -> fn_ret o = (oval o, oerr o) /\ shared (fn_ret o) = (oval o, oerr o).
Proof.
  intros H. unfold fn_ret. rewrite H. split; [reflexivity|]. apply shared_id. cbn.
  unfold panics in H. apply Z.eqb_neq. exact H.
Qed.

Lemma fn_ret_panic_iff o : snd (fn_ret o) = epanic <-> panics o = true.
Proof.
  unfold fn_ret. destruct (panics o) eqn:E; cbn; split; auto; try discriminate.
  intros H. unfold panics in E. apply Z.eqb_neq in E. contradiction.
Qed.

(* every SingleFlight result is the shared outcome of the execution led by some caller of the
   same key; if that leader's function does not panic it is exactly its scripted (val, err).
   (Used by C06: load suppression of doTake.) *)
Lemma sf_result_of_leader s t th r o :
  Inv s -> nth_error (threads s) t = Some th -> In r (tres th) ->
  nth_error (tscript th) (rop r) = Some o -> ogrp o = GSF ->
  let c := heap s (rcid r) in
  exists thL oL,
    nth_error (threads s) (fst (clead c)) = Some thL /\
    nth_error (tscript thL) (snd (clead c)) = Some oL /\
    ogrp oL = GSF /\ okey oL = okey o /\
    shared (rval r, rerr r) = shared (fn_ret oL) /\
    (panics oL = false -> (rval r, rerr r) = (oval oL, oerr oL)).
Proof.
  intros HI Ht Hr Ho Hg c.
  destruct (recs_ok s t th r HI Ht Hr)
    as (o' & A0 & A1 & A2 & A3 & A4 & A5 & A6 & A7 & A8 & A9 & A10 & A11 & A12 & A13 & A14 & A15).
  rewrite Ho in A0. inversion A0; subst o'. clear A0.
  assert (Hn : cgrp (heap s (rcid r)) <> GRM) by (rewrite A3, Hg; discriminate).
  destruct (exec_value s (rcid r) HI A2 Hn) as (thL & oL & B1 & B2 & B3 & B4 & B5).
  assert (V : cval (heap s (rcid r)) = Some (shared (rval r, rerr r))) by (apply A9; rewrite Hg; discriminate).
  pose proof (B5 _ V) as E.
  exists thL, oL. subst c. split; [exact B1|]. split; [exact B2|].
  split; [rewrite B3, A3; exact Hg|]. split; [rewrite B4, A4; reflexivity|]. split; [exact E|].
  intros Hnp. destruct (fn_ret_nopanic oL Hnp) as [_ F2]. rewrite F2 in E.
  destruct (Z.eq_dec (rerr r) epanic) as [Ep|Ep].
  - exfalso. pose proof (A15 Hg Ep) as Fr. destruct (A10 Fr) as (L1 & _).
    rewrite L1 in B1, B2. cbn in B1, B2. rewrite Ht in B1. inversion B1; subst thL.
    rewrite Ho in B2. inversion B2; subst oL.
    assert (Hr' : (rval r, rerr r) = fn_ret o) by (apply A14; [exact Fr|rewrite Hg; discriminate]).
    assert (Hp : snd (fn_ret o) = epanic) by (rewrite <- Hr'; exact Ep).
    apply fn_ret_panic_iff in Hp. congruence.
  - rewrite shared_id in E by exact Ep. exact E.
Qed.

(* ------------------------------------------------------------------ *)
(* final statements (quoted by Props.v)                                 *)

Lemma one_execution_per_key_l : forall scripts sched g k, running g k (exec scripts sched) <= 1.
Proof. intros. apply running_le1. apply exec_inv. Qed.

Lemma no_stale_result_l : forall scripts sched t th r o,
  let s := exec scripts sched in
  nth_error (threads s) t = Some th -> In r (tres th) ->
  nth_error (tscript th) (rop r) = Some o -> ogrp o <> GLC ->
  let c := heap s (rcid r) in
  cgrp c = ogrp o /\ ckey c = okey o /\ cdone c = true /\
  cval c = Some (shared (rval r, rerr r)) /\
  rinv r <= rjoin r /\ rjoin r < rret r /\
  ((rfresh r = true /\ clead c = (t, rop r) /\ cinvt c = rinv r /\ cret c = Some (rret r)) \/
   (rfresh r = false /\ fst (clead c) <> t /\ cinvt c <= rjoin r /\
    exists rt, cret c = Some rt /\ rjoin r < rt)).
Proof.
  intros scripts sched t th r o s Ht Hr Ho Hg c.
  destruct (recs_ok s t th r (exec_inv _ _) Ht Hr)
    as (o' & A0 & A1 & A2 & A3 & A4 & A5 & A6 & A7 & A8 & A9 & A10 & A11 & A12 & A13).
  rewrite Ho in A0. inversion A0; subst o'. subst c.
  repeat split; auto.
  destruct (rfresh r) eqn:Ef.
  - left. destruct (A10 eq_refl) as (B1 & B2 & B3 & B4). auto.
  - right. destruct (A11 eq_refl) as (B1 & B2 & B3 & B4). auto.
Qed.

Lemma execution_value_l : forall scripts sched c,
  let s := exec scripts sched in
  c < nextc s -> cgrp (heap s c) <> GRM ->
  exists thL oL, nth_error (threads s) (fst (clead (heap s c))) = Some thL /\
                 nth_error (tscript thL) (snd (clead (heap s c))) = Some oL /\
                 ogrp oL = cgrp (heap s c) /\ okey oL = ckey (heap s c) /\
                 forall r, cval (heap s c) = Some r -> r = shared (fn_ret oL).
Proof. intros. apply exec_value; auto. apply exec_inv. Qed.

Lemma fresh_unique_l : forall scripts sched t1 t2 th1 th2 r1 r2,
  let s := exec scripts sched in
  nth_error (threads s) t1 = Some th1 -> nth_error (threads s) t2 = Some th2 ->
  In r1 (tres th1) -> In r2 (tres th2) -> rcid r1 = rcid r2 ->
  rfresh r1 = true -> rfresh r2 = true -> t1 = t2 /\ rop r1 = rop r2.
Proof.
  intros scripts sched t1 t2 th1 th2 r1 r2 s H1 H2 I1 I2 Ec F1 F2.
  destruct (recs_ok s t1 th1 r1 (exec_inv _ _) H1 I1) as (o1 & _ & _ & _ & _ & _ & _ & _ & _ & _ & _ & A & _).
  destruct (recs_ok s t2 th2 r2 (exec_inv _ _) H2 I2) as (o2 & _ & _ & _ & _ & _ & _ & _ & _ & _ & _ & B & _).
  destruct (A F1) as (A1 & _). destruct (B F2) as (B1 & _). rewrite Ec in A1. rewrite A1 in B1.
  inversion B1. auto.
Qed.

Lemma fresh_iff_leader_l : forall scripts sched t th r,
  let s := exec scripts sched in
  nth_error (threads s) t = Some th -> In r (tres th) ->
  (rfresh r = true <-> clead (heap s (rcid r)) = (t, rop r)) /\
  (rfresh r = true -> rruns r = 1) /\ (rfresh r = false -> rruns r = 0).
Proof.
  intros scripts sched t th r s Ht Hr.
  destruct (recs_ok s t th r (exec_inv _ _) Ht Hr) as (o1 & _ & _ & _ & _ & _ & _ & _ & _ & _ & _ & A & B & _).
  split; [split|split].
  - intros F. apply A. exact F.
  - intros E. destruct (rfresh r); [reflexivity|]. destruct (B eq_refl) as (B1 & _). rewrite E in B1. cbn in B1. congruence.
  - intros F. apply A. exact F.
  - intros F. apply B. exact F.
Qed.

Lemma locked_calls_own_l : forall scripts sched t th r o,
  let s := exec scripts sched in
  nth_error (threads s) t = Some th -> In r (tres th) ->
  nth_error (tscript th) (rop r) = Some o -> ogrp o = GLC ->
  (rval r, rerr r) = fn_ret o /\ rruns r = 1.
Proof.
  intros scripts sched t th r o s Ht Hr Ho Hg.
  destruct (recs_ok s t th r (exec_inv _ _) Ht Hr)
    as (o' & A0 & _ & _ & _ & _ & _ & _ & _ & _ & _ & A10 & _ & A12 & _).
  rewrite Ho in A0. inversion A0; subst o'. destruct (A12 Hg) as (F & V).
  destruct (A10 F) as (_ & R & _). auto.
Qed.

Lemma blocked_only_behind_own_key_l : forall scripts sched t th o,
  let s := exec scripts sched in
  nth_error (threads s) t = Some th -> cur_op th = Some o -> enabled s t = false ->
  exists c, tpc th = PWait c /\ c < nextc s /\ cgrp (heap s c) = ogrp o /\ ckey (heap s c) = okey o /\
            cdone (heap s c) = false /\ fst (clead (heap s c)) <> t.
Proof. intros. apply blocked_behind_own_key; auto. apply exec_inv. Qed.

Lemma other_keys_do_not_matter_l : forall scripts sched t t' s' th th' o o',
  let s := exec scripts sched in
  step s t' = Some s' -> t <> t' ->
  nth_error (threads s) t = Some th -> cur_op th = Some o ->
  nth_error (threads s) t' = Some th' -> cur_op th' = Some o' ->
  (ogrp o, okey o) <> (ogrp o', okey o') ->
  enabled s' t = enabled s t.
Proof. intros. eapply other_key_step_enabled; eauto. apply exec_inv. Qed.

Lemma resource_created_once_l : forall scripts sched k,
  let s := exec scripts sched in
  ncreated s k <= 1 /\
  forall t th r o, nth_error (threads s) t = Some th -> In r (tres th) ->
    nth_error (tscript th) (rop r) = Some o -> ogrp o = GRM -> okey o = k -> rerr r = 0%Z ->
    resources s k = Some (rval r).
Proof.
  intros scripts sched k s. split; [apply (inv_rm s (exec_inv _ _) k)|].
  intros t th r o Ht Hr Ho Hg Hk He.
  destruct (recs_ok s t th r (exec_inv _ _) Ht Hr)
    as (o' & A0 & _ & _ & _ & _ & _ & _ & _ & _ & _ & _ & _ & _ & A13).
  rewrite Ho in A0. inversion A0; subst o'. rewrite <- Hk. apply A13; auto.
Qed.

(* ------------------------------------------------------------------ *)
(* the leader's fresh record exists once the execution is done           *)

Lemma NoDup_snoc {A} (l : list A) x : NoDup l -> ~ In x l -> NoDup (l ++ [x]).
Proof.
  induction l as [|y l IH]; intros Hn Hx; cbn.
  - constructor; [intros []|constructor].
  - inversion Hn; subst. constructor.
    + intros Hin. apply in_app_or in Hin. destruct Hin as [Hin|[->|[]]]; [contradiction|]. apply Hx. left. reflexivity.
    + apply IH; auto. intros Hin. apply Hx. right. exact Hin.
Qed.

Lemma NoDup_map_inj {A B} (f : A -> B) (l : list A) a b :
  NoDup (map f l) -> In a l -> In b l -> f a = f b -> a = b.
Proof.
  induction l as [|y l IH]; intros Hn Ha Hb E; [destruct Ha|].
  cbn in Hn. inversion Hn; subst. destruct Ha as [->|Ha], Hb as [->|Hb]; auto.
  - exfalso. apply H1. rewrite E. apply in_map. exact Hb.
  - exfalso. apply H1. rewrite <- E. apply in_map. exact Ha.
Qed.

Definition fresh_rec_ok (s : state) : Prop :=
  (forall c, c < nextc s -> cdone (heap s c) = true ->
     exists th r, nth_error (threads s) (fst (clead (heap s c))) = Some th /\
                  In r (tres th) /\ rcid r = c /\ rfresh r = true) /\
  (forall t th, nth_error (threads s) t = Some th ->
     NoDup (map rop (tres th)) /\ forall r, In r (tres th) -> rop r < topi th).

Lemma frk_keep s s' t th th' :
  fresh_rec_ok s -> nth_error (threads s) t = Some th -> threads s' = upd_nth (threads s) t th' ->
  (forall r, In r (tres th) -> In r (tres th')) ->
  NoDup (map rop (tres th')) -> (forall r, In r (tres th') -> rop r < topi th') ->
  (forall c, c < nextc s' -> cdone (heap s' c) = true ->
     (c < nextc s /\ cdone (heap s c) = true /\ clead (heap s' c) = clead (heap s c)) \/
     (fst (clead (heap s' c)) = t /\ exists r, In r (tres th') /\ rcid r = c /\ rfresh r = true)) ->
  fresh_rec_ok s'.
Proof.
  intros [F1 F2] Ht Hth Hincl Hnd Hb Hh. split.
  - intros c Hc Hd. rewrite Hth. destruct (Hh c Hc Hd) as [(A & B & C)|(A & r & R1 & R2 & R3)].
    + destruct (F1 c A B) as (th0 & r & N & I & E1 & E2). rewrite C.
      destruct (Nat.eq_dec (fst (clead (heap s c))) t) as [Et|Et].
      * rewrite Et in *. rewrite Ht in N. inversion N; subst th0.
        exists th', r. rewrite (nth_error_upd_nth_eq _ _ _ _ Ht). auto.
      * exists th0, r. rewrite nth_error_upd_nth_neq by auto. auto.
    + rewrite A. exists th', r. rewrite (nth_error_upd_nth_eq _ _ _ _ Ht). auto.
  - intros t0 th0 N. rewrite Hth in N. apply nth_error_upd_nth in N.
    destruct N as [(-> & -> & _)|(_ & N)]; [split; assumption|apply (F2 _ _ N)].
Qed.

Lemma frk_step s t s' : Inv s -> fresh_rec_ok s -> step s t = Some s' -> fresh_rec_ok s'.
Proof.
  intros HI HF H. unfold step in H.
  destruct (nth_error (threads s) t) as [th|] eqn:Ht; [|discriminate].
  destruct (cur_op th) as [o|] eqn:Ho; [|discriminate].
  pose proof (pc_known s t th o HI Ht Ho) as P. unfold pc_ok, lead_ok in P.
  destruct (proj2 HF t th Ht) as [ND BD].
  assert (Snoc : forall r, rop r = topi th -> NoDup (map rop (tres th ++ [r])) /\
                           forall r', In r' (tres th ++ [r]) -> rop r' < S (topi th)).
  { intros r Er. split.
    - rewrite map_app. cbn. apply NoDup_snoc; [exact ND|]. intros Hin. apply in_map_iff in Hin.
      destruct Hin as (r0 & E0 & I0). specialize (BD r0 I0). lia.
    - intros r' Hin. apply in_app_or in Hin. destruct Hin as [Hin|[<-|[]]]; [specialize (BD r' Hin); lia|lia]. }
  destruct (tpc th) eqn:Epc;
    repeat match type of H with
           | context [match ?x with _ => _ end] => destruct x eqn:?
           | context [if ?x then _ else _] => destruct x eqn:?
           end;
    inversion H; subst s'; clear H;
    (eapply (frk_keep s _ t th); [exact HF | exact Ht | reflexivity | ..]); cbn [tres finish set_pc topi nextc heap];
    try (intros; assumption); try exact ND; try exact BD;
    try (intros r0 Hin; apply in_or_app; left; exact Hin);
    try (apply Snoc; reflexivity).
  all: try (intros c0 Hc0 Hd0; left; repeat split; auto; fail).
  all: intros c0 Hc0 Hd0;
    match goal with |- context [fupd _ ?cc _ _] =>
      destruct (Nat.eq_dec c0 cc) as [->|Hne];
      [ rewrite fupd_eq in *; cbn in Hd0 |- *;
        first [ discriminate
              | left; repeat split; auto; intuition; fail
              | right; split;
                [ destruct P as ((_ & _ & _ & E & _) & _); rewrite E; reflexivity
                | eexists; split; [apply in_or_app; right; left; reflexivity | split; reflexivity] ] ]
      | rewrite fupd_neq in * by exact Hne; left; repeat split; auto; lia ]
    end.
Qed.

Lemma exec_fresh_rec_ok scripts sched : fresh_rec_ok (exec scripts sched).
Proof.
  assert (H : Inv (exec scripts sched) /\ fresh_rec_ok (exec scripts sched)); [|apply H].
  unfold exec. apply (run_inv step (fun s => Inv s /\ fresh_rec_ok s)).
  - intros s t s' [A B] Hs. split; [eapply step_inv; eauto | eapply frk_step; eauto].
  - split; [apply init_inv|]. split.
    + cbn. intros c Hc. lia.
    + intros t th Hn. cbn in Hn. rewrite nth_error_map in Hn.
      destruct (nth_error scripts t); inversion Hn; subst. cbn. split; [constructor|intros r []].
Qed.

Lemma exactly_one_fresh_l : forall scripts sched c,
  let s := exec scripts sched in
  c < nextc s -> cdone (heap s c) = true ->
  exists t th r,
    nth_error (threads s) t = Some th /\ In r (tres th) /\ rcid r = c /\ rfresh r = true /\
    forall t' th' r', nth_error (threads s) t' = Some th' -> In r' (tres th') ->
                      rcid r' = c -> rfresh r' = true -> t' = t /\ r' = r.
Proof.
  intros scripts sched c s Hc Hd. destruct (exec_fresh_rec_ok scripts sched) as [F1 F2]. fold s in F1, F2.
  destruct (F1 c Hc Hd) as (th & r & N & I & E1 & E2).
  exists (fst (clead (heap s c))), th, r. repeat split; auto.
  - destruct (fresh_unique_l scripts sched t' _ th' th r' r H N H0 I ltac:(congruence) H2 E2) as [A _]. exact A.
  - destruct (fresh_unique_l scripts sched t' _ th' th r' r H N H0 I ltac:(congruence) H2 E2) as [A B].
    subst t'. fold s in H. rewrite N in H. inversion H; subst th'.
    eapply (NoDup_map_inj rop (tres th)); eauto. apply (F2 _ _ N).
Qed.
