(* C07 — property theorems only.  Every theorem is closed by [exact] of a lemma of
   Proofs.v and followed by [Print Assumptions].

   All theorems are about [exec scripts sched] = the state reached by the interleaving
   model of Model.v from the initial state, for ARBITRARY scripts (any number of threads,
   any calls SingleFlight.Do/DoEx [GSF], LockedCalls.Do [GLC], ResourceManager.GetResource
   [GRM] on any keys, any function results/errors) and an ARBITRARY schedule
   [sched : list nat] of atomic actions.  Since [sched] is arbitrary, "in exec scripts
   sched" means "at every step of every interleaving".

   User functions that PANIC (scripted as [oerr = epanic]) are inside the model although the
   property's quantifier does not list them: the leader's call ends with [(vnil, epanic)], what is
   shared with the waiters is [shared r] - the pair itself, or [(vnil, 0)] = (nil, nil) after a
   panic, which assigned nothing.  For scripts without panics [fn_ret o = (oval o, oerr o)] and
   [shared] is the identity ([Proofs.fn_ret_nopanic], [Proofs.shared_id]). *)
From Coq Require Import List ZArith Bool Arith.
From GZ Require Import Lib.Sched C07.Model C07.Proofs C07.ProofsB C07.ProofsC C07.Check C07.CheckProofs C07.CheckProofsB C07.CheckModel C07.CheckModelB.
Import ListNotations.
Local Open Scope nat_scope.

(* At most one execution of the supplied function is in progress per key (and group), at
   every step of every schedule.  [running g k s] counts the threads that are between the
   start and the end of their user function for key k. *)
Theorem one_execution_per_key : forall scripts sched g k, running g k (exec scripts sched) <= 1.
Proof. exact one_execution_per_key_l. Qed.
Print Assumptions one_execution_per_key.

(* No stale result.  Every result [r] ever returned by SingleFlight.Do/DoEx or
   GetResource was read from a call object c = heap (rcid r) registered under the caller's
   own key, is exactly the (val, err) that execution produced (up to [shared]: see above), and either
   - it is the caller's own execution (then, and only then, it is reported fresh; the
     execution's leading call IS the caller's call: same invocation and return time), or
   - the caller joined it at logical time [rjoin r], inside its own call interval
     [rinv r, rret r], and the execution's leading call was invoked before that join point
     and returned strictly after it: the leader's call interval contains the join point,
     so no result is ever retained from a call that had already returned. *)
Theorem no_stale_result : forall scripts sched t th r o,
  let s := exec scripts sched in
  nth_error (threads s) t = Some th -> In r (tres th) ->
  nth_error (tscript th) (rop r) = Some o -> ogrp o <> GLC ->
  let c := heap s (rcid r) in
  cgrp c = ogrp o /\ ckey c = okey o /\ cdone c = true /\
  cval c = Some (shared (rval r, rerr r)) /\
  rinv r <= rjoin r /\ rjoin r < rret r /\
  ((rfresh r = true /\ clead c = (t, rop r) /\ cinvt c = rinv r /\ cret c = Some (rret r)) \/
   (rfresh r = false /\ fst (clead c) <> t /\ cinvt c <= rjoin r /\
    exists rt, cret c = Some rt /\ rjoin r < rt)).
Proof. exact no_stale_result_l. Qed.
Print Assumptions no_stale_result.

(* ... and the value of an execution (SingleFlight, LockedCalls) is what the user function
   of its leading call returns according to the script: results are never invented. *)
Theorem execution_value_is_the_leaders : forall scripts sched c,
  let s := exec scripts sched in
  c < nextc s -> cgrp (heap s c) <> GRM ->
  exists thL oL, nth_error (threads s) (fst (clead (heap s c))) = Some thL /\
                 nth_error (tscript thL) (snd (clead (heap s c))) = Some oL /\
                 ogrp oL = cgrp (heap s c) /\ okey oL = ckey (heap s c) /\
                 forall r, cval (heap s c) = Some r -> r = shared (fn_ret oL).
Proof. exact execution_value_l. Qed.
Print Assumptions execution_value_is_the_leaders.

(* Fresh: per execution (call object) at most one returned call is reported fresh, and a
   returned call is fresh iff the caller is the leader of the execution it got its result
   from, in which case its own function ran exactly once (otherwise not at all).
   Together with [exactly_one_fresh_per_execution] below: exactly one. *)
Theorem at_most_one_fresh_per_execution : forall scripts sched t1 t2 th1 th2 r1 r2,
  let s := exec scripts sched in
  nth_error (threads s) t1 = Some th1 -> nth_error (threads s) t2 = Some th2 ->
  In r1 (tres th1) -> In r2 (tres th2) -> rcid r1 = rcid r2 ->
  rfresh r1 = true -> rfresh r2 = true -> t1 = t2 /\ rop r1 = rop r2.
Proof. exact fresh_unique_l. Qed.
Print Assumptions at_most_one_fresh_per_execution.

Theorem fresh_iff_leader : forall scripts sched t th r,
  let s := exec scripts sched in
  nth_error (threads s) t = Some th -> In r (tres th) ->
  (rfresh r = true <-> clead (heap s (rcid r)) = (t, rop r)) /\
  (rfresh r = true -> rruns r = 1) /\ (rfresh r = false -> rruns r = 0).
Proof. exact fresh_iff_leader_l. Qed.
Print Assumptions fresh_iff_leader.

(* Exactly one caller per execution is reported fresh: for every completed execution
   (call object c whose WaitGroup is done) there is a returned call record with
   fresh = true for it, and any fresh record for c is that very record of that thread. *)
Theorem exactly_one_fresh_per_execution : forall scripts sched c,
  let s := exec scripts sched in
  c < nextc s -> cdone (heap s c) = true ->
  exists t th r,
    nth_error (threads s) t = Some th /\ In r (tres th) /\ rcid r = c /\ rfresh r = true /\
    forall t' th' r', nth_error (threads s) t' = Some th' -> In r' (tres th') ->
                      rcid r' = c -> rfresh r' = true -> t' = t /\ r' = r.
Proof. exact exactly_one_fresh_l. Qed.
Print Assumptions exactly_one_fresh_per_execution.

(* LockedCalls: every returned call ran the caller's OWN function exactly once and
   returned its own (val, err); no two executions for one key overlap is
   [one_execution_per_key] at g = GLC. *)
Theorem locked_calls_exclusive_and_own : forall scripts sched,
  (forall k, running GLC k (exec scripts sched) <= 1) /\
  forall t th r o,
  let s := exec scripts sched in
  nth_error (threads s) t = Some th -> In r (tres th) ->
  nth_error (tscript th) (rop r) = Some o -> ogrp o = GLC ->
  (rval r, rerr r) = fn_ret o /\ rruns r = 1.
Proof.
  exact (fun scripts sched =>
           conj (fun k => one_execution_per_key_l scripts sched GLC k)
                (locked_calls_own_l scripts sched)).
Qed.
Print Assumptions locked_calls_exclusive_and_own.

(* Keys are independent.  (1) A thread that cannot move waits on a WaitGroup registered
   under ITS OWN key (group and key of its current call) whose execution is led by another
   thread and is not finished: it is never blocked behind a different key.  (2) A step of a
   thread working on a different key never changes whether the thread can move. *)
Theorem keys_independent_blocked_only_behind_own_key : forall scripts sched t th o,
  let s := exec scripts sched in
  nth_error (threads s) t = Some th -> cur_op th = Some o -> enabled s t = false ->
  exists c, tpc th = PWait c /\ c < nextc s /\ cgrp (heap s c) = ogrp o /\ ckey (heap s c) = okey o /\
            cdone (heap s c) = false /\ fst (clead (heap s c)) <> t.
Proof. exact blocked_only_behind_own_key_l. Qed.
Print Assumptions keys_independent_blocked_only_behind_own_key.

Theorem keys_independent : forall scripts sched t t' s' th th' o o',
  let s := exec scripts sched in
  step s t' = Some s' -> t <> t' ->
  nth_error (threads s) t = Some th -> cur_op th = Some o ->
  nth_error (threads s) t' = Some th' -> cur_op th' = Some o' ->
  (ogrp o, okey o) <> (ogrp o', okey o') ->
  enabled s' t = enabled s t.
Proof. exact other_keys_do_not_matter_l. Qed.
Print Assumptions keys_independent.

(* ResourceManager: per key at most one create() ever succeeds, and every successful
   GetResource on that key returned the one instance stored in the map (hence everyone
   gets the same instance); failed creations are not counted and may be retried. *)
Theorem resource_created_once : forall scripts sched k,
  let s := exec scripts sched in
  ncreated s k <= 1 /\
  forall t th r o, nth_error (threads s) t = Some th -> In r (tres th) ->
    nth_error (tscript th) (rop r) = Some o -> ogrp o = GRM -> okey o = k -> rerr r = 0%Z ->
    resources s k = Some (rval r).
Proof. exact resource_created_once_l. Qed.
Print Assumptions resource_created_once.

(* The leader of an execution returns what its own function handed to it (SingleFlight and
   LockedCalls); a SingleFlight call ends by a panic only for the leader whose own function
   panicked; and every SingleFlight result is the shared outcome of the execution led by a caller
   of the same key - exactly that leader's scripted (val, err) when its function does not panic. *)
Theorem leader_returns_own_result : forall scripts sched t th r o,
  let s := exec scripts sched in
  nth_error (threads s) t = Some th -> In r (tres th) ->
  nth_error (tscript th) (rop r) = Some o ->
  (rfresh r = true -> ogrp o <> GRM -> (rval r, rerr r) = fn_ret o) /\
  (ogrp o = GSF -> rerr r = epanic -> rfresh r = true).
Proof. exact leader_returns_own_result_l. Qed.
Print Assumptions leader_returns_own_result.

Theorem singleflight_result_is_a_leaders : forall scripts sched t th r o,
  let s := exec scripts sched in
  nth_error (threads s) t = Some th -> In r (tres th) ->
  nth_error (tscript th) (rop r) = Some o -> ogrp o = GSF ->
  let c := heap s (rcid r) in
  exists thL oL,
    nth_error (threads s) (fst (clead c)) = Some thL /\
    nth_error (tscript thL) (snd (clead c)) = Some oL /\
    ogrp oL = GSF /\ okey oL = okey o /\
    shared (rval r, rerr r) = shared (fn_ret oL) /\
    (panics oL = false -> (rval r, rerr r) = (oval oL, oerr oL)).
Proof. exact (fun scripts sched t th r o => sf_result_of_leader _ t th r o (exec_inv scripts sched)). Qed.
Print Assumptions singleflight_result_is_a_leaders.

(* Nobody is left hanging.  A thread that cannot move waits (on the WaitGroup of an object of its
   own group and key) for an execution whose leader - another thread, working on the same key -
   is alive and CAN move: no lost wake-up, and no waiter is ever left behind a call that will not
   be completed, also when the leader's function panics (the clean-up is deferred).  Hence the
   system never deadlocks: as long as some script is unfinished, some thread can move. *)
Theorem blocked_waits_for_movable_leader : forall scripts sched t th o,
  let s := exec scripts sched in
  nth_error (threads s) t = Some th -> cur_op th = Some o -> enabled s t = false ->
  exists c tL thL oL,
    tpc th = PWait c /\ cgrp (heap s c) = ogrp o /\ ckey (heap s c) = okey o /\
    tL = fst (clead (heap s c)) /\ tL <> t /\
    nth_error (threads s) tL = Some thL /\ cur_op thL = Some oL /\
    ogrp oL = ogrp o /\ okey oL = okey o /\ live_pc (tpc thL) c /\ enabled s tL = true.
Proof. exact blocked_has_movable_leader_l. Qed.
Print Assumptions blocked_waits_for_movable_leader.

Theorem no_deadlock : forall scripts sched,
  unfinished (exec scripts sched) = true -> can_move (exec scripts sched) = true.
Proof. exact no_deadlock_l. Qed.
Print Assumptions no_deadlock.

(* What the controller of the correspondence check judges as "blk": at a gate-level quiescent
   point (every thread parked in user code - in front of a call, inside its function / create -
   or blocked or done) a blocked thread waits behind a function that is running for its own group
   and key in another thread.  (Check.scan demands exactly this of the implementation.) *)
Theorem quiescent_blocked_behind_running_function : forall scripts sched t th o,
  let s := exec scripts sched in
  quiescent s = true ->
  nth_error (threads s) t = Some th -> cur_op th = Some o -> enabled s t = false ->
  exists tL thL, tL <> t /\ nth_error (threads s) tL = Some thL /\
                 in_fn (ogrp o) (okey o) thL = true.
Proof. exact quiescent_blocked_l. Qed.
Print Assumptions quiescent_blocked_behind_running_function.

(* No lost wake-up (history level).  Once the call a thread waits for is done, the waiter can move, and
   that stays so whatever the OTHER threads do - any number of steps on any keys, the waiter's own key
   included - until the waiter itself is scheduled: the release of a waiter cannot be consumed by anybody
   else.  (Pinned.shared_cond_signal_strands_waiter_refuted: one condition variable for all keys + Signal;
   the check's wake-order family demands this of the implementation for every parking order.) *)
Theorem released_waiter_stays_enabled : forall scripts sched more t th o c,
  let s := exec scripts sched in
  nth_error (threads s) t = Some th -> cur_op th = Some o ->
  tpc th = PWait c -> cdone (heap s c) = true -> ~ In t more ->
  let s2 := exec scripts (sched ++ more) in
  nth_error (threads s2) t = Some th /\ enabled s2 t = true.
Proof. exact released_waiter_stays_enabled_l. Qed.
Print Assumptions released_waiter_stays_enabled.

(* hypotheses met: a1 and b1 run, b2 and a2 wait, a1 returns: a2 (thread 3) waits for a done call; then b1
   finishes, b2 runs and returns - a2 still can move *)
Definition ex_rw_scripts : list (list op) :=
  [[mkOp GLC 1 101 0]; [mkOp GLC 2 201 0]; [mkOp GLC 2 301 0]; [mkOp GLC 1 401 0]].
Definition ex_rw_sched : list nat := [0;0;0; 1;1;1; 2;2; 3;3; 0;0;0].
Example ex_released_waiter :
  option_map (fun th => match tpc th with
                        | PWait c => cdone (heap (exec ex_rw_scripts ex_rw_sched) c)
                        | _ => false
                        end) (nth_error (threads (exec ex_rw_scripts ex_rw_sched)) 3) = Some true.
Proof. vm_compute. reflexivity. Qed.
Example ex_released_waiter_later :
  enabled (exec ex_rw_scripts (ex_rw_sched ++ [1;1;1; 2;2;2;2;2;2; 0; 1])) 3 = true.
Proof. vm_compute. reflexivity. Qed.

(* Different keys never wait for each other, arrival side: whatever goes on under other keys (any number of
   them busy, any number of waiters), a caller that reaches the lookup while no thread is inside an execution
   for ITS (group, key) registers as the leader at once - it does not wait.  (With
   keys_independent_blocked_only_behind_own_key: a caller waits iff an execution of its own key is in
   progress.  Pinned.striped_locks_block_another_key_refuted; the check's many-keys family.) *)
Theorem arrival_on_idle_key_leads : forall scripts sched t th o,
  let s := exec scripts sched in
  nth_error (threads s) t = Some th -> cur_op th = Some o -> tpc th = PCalled ->
  (forall t' th' o', nth_error (threads s) t' = Some th' -> cur_op th' = Some o' ->
                     ogrp o' = ogrp o -> okey o' = okey o -> in_execution (tpc th') = false) ->
  exists s' th2 c, step s t = Some s' /\ nth_error (threads s') t = Some th2 /\ tpc th2 = PLead c.
Proof. exact arrival_on_idle_key_leads_l. Qed.
Print Assumptions arrival_on_idle_key_leads.

(* hypotheses met: keys 1 and 2 are busy (each with a waiter), thread 4 arrives on key 3 *)
Example ex_arrival_idle_key :
  let s := exec [[mkOp GLC 1 101 0]; [mkOp GLC 2 201 0]; [mkOp GLC 2 301 0]; [mkOp GLC 1 401 0]; [mkOp GLC 3 501 0]]
                [0;0;0; 1;1;1; 2;2; 3;3; 4] in
  option_map tpc (nth_error (threads s) 4) = Some PCalled /\ calls s GLC 3 = None /\
  running GLC 1 s = 1 /\ running GLC 2 s = 1.
Proof. vm_compute. repeat split; reflexivity. Qed.

(* Generation of a call entry.  The epilogue deletes BY KEY; that is the deletion of the call's OWN
   entry: whenever a thread is about to delete (pc PFnDone c) the entry under its key is its own
   object c, led by this very call and not released.  An entry of the map always belongs to the
   current generation: an unfinished object whose leader is still inside the call that registered
   it.  (Pinned.delete_by_key_hits_next_generation_refuted: a joiner that also deletes by key.) *)
Theorem delete_is_of_own_entry : forall scripts sched t th o c r,
  let s := exec scripts sched in
  nth_error (threads s) t = Some th -> cur_op th = Some o -> tpc th = PFnDone c r ->
  calls s (ogrp o) (okey o) = Some c /\ clead (heap s c) = (t, topi th) /\ cdone (heap s c) = false.
Proof. exact delete_is_of_own_entry_l. Qed.
Print Assumptions delete_is_of_own_entry.

Theorem entry_is_current_generation : forall scripts sched g k c,
  let s := exec scripts sched in
  calls s g k = Some c ->
  c < nextc s /\ cgrp (heap s c) = g /\ ckey (heap s c) = k /\ cdone (heap s c) = false /\
  exists th o, nth_error (threads s) (fst (clead (heap s c))) = Some th /\
               topi th = snd (clead (heap s c)) /\ owner_pc (tpc th) = Some c /\
               cur_op th = Some o /\ ogrp o = g /\ okey o = k.
Proof. exact entry_is_current_generation_l. Qed.
Print Assumptions entry_is_current_generation.

(* Order of the leader's epilogue - publish the result, delete the key, wg.Done - also when its
   function panics or its goroutine exits (runtime.Goexit): an object from which waiters have been
   released has its result and is not in the map any more. *)
Theorem epilogue_order : forall scripts sched c,
  let s := exec scripts sched in
  c < nextc s -> cdone (heap s c) = true ->
  (exists r, cval (heap s c) = Some r) /\ (forall g k, calls s g k <> Some c).
Proof. exact epilogue_order_l. Qed.
Print Assumptions epilogue_order.

(* Frame: several instances / keys in one process.  A step of a thread working on another
   (group, key) changes nothing that belongs to (g, k): not its map entry, not one of its call
   objects, not (ResourceManager) its stored instance or creation count.  Instances of a
   primitive are disjoint key spaces, so runs on different instances do not interact at all. *)
Theorem other_keys_frame : forall scripts sched t s' th o g k,
  let s := exec scripts sched in
  step s t = Some s' -> nth_error (threads s) t = Some th -> cur_op th = Some o ->
  (ogrp o, okey o) <> (g, k) ->
  calls s' g k = calls s g k /\
  (forall c, c < nextc s -> (cgrp (heap s c), ckey (heap s c)) = (g, k) -> heap s' c = heap s c) /\
  (g = GRM -> resources s' k = resources s k /\ ncreated s' k = ncreated s k).
Proof. exact frame_other_key_l. Qed.
Print Assumptions other_keys_frame.

(* The two executable specifications of the sequential ResourceManager histories (Get / Inject /
   Close) agree: the property checker [rm_prop] (prop_ok) accepts every history of the model
   [rm_seq] (agrees), from every starting content. *)
Theorem rm_checker_accepts_model : forall ops m, rm_prop m ops (rm_seq m ops) = true.
Proof. exact rm_prop_accepts_rm_seq. Qed.
Print Assumptions rm_checker_accepts_model.

(* ------------------------------------------------------------------ *)
(* The decidable checker [Check.scan] (first conjunct of prop_ok, run on the event log of the
   IMPLEMENTATION) is not an oracle.
   (1) Soundness: a log it accepts has no two overlapping executions for one (group, key) - between
       the starts of two executions of calls on the same key the first has ended - and every thread
       logged as blocked is, at that moment, behind an execution of ANOTHER thread for ITS OWN key
       that has started and not ended (keys do not wait for each other; nobody waits on nothing).
   (2) Completeness w.r.t. the model: the log of EVERY run of the LTS ([CheckModel.mlog]: one event
       per observable action; a disabled choice in a gate-level quiescent state logs "blk") is
       accepted.  Hence a log rejected by [scan] is not a log of the model. *)
Theorem checker_scan_sound_no_overlap : forall c l, scan c l [] = true ->
  forall l1 e1 l2 e2 l3, l = l1 ++ e1 :: l2 ++ e2 :: l3 -> ek e1 = 1%Z -> ek e2 = 1%Z ->
  same_call_key c (eid e1) (eid e2) ->
  exists f, In f l2 /\ ek f = 2%Z /\ eid f = eid e1.
Proof. exact scan_no_overlap. Qed.
Print Assumptions checker_scan_sound_no_overlap.

Theorem checker_scan_sound_blocked : forall c l, scan c l [] = true ->
  forall l1 e l3, l = l1 ++ e :: l3 -> ek e = 4%Z ->
  exists la s lb, l1 = la ++ s :: lb /\ ek s = 1%Z /\ ea s <> ea e /\
                  same_call_key c (eid s) (eid e) /\
                  forall f, In f lb -> ek f = 2%Z -> eid f <> eid s.
Proof. exact scan_blocked_behind_own_key. Qed.
Print Assumptions checker_scan_sound_blocked.

Theorem model_log_passes_scan : forall scripts sched,
  scan (mcase scripts sched) (mlog scripts sched) [] = true.
Proof. exact model_log_passes_scan_l. Qed.
Print Assumptions model_log_passes_scan.

(* ------------------------------------------------------------------ *)
(* non-vacuity: concrete interleavings in which the interesting things happen *)

(* two callers of one key: thread 1 joins while thread 0's function runs, both get 101;
   thread 0 is fresh, thread 1 is not; a third call after completion starts afresh (301) *)
Definition ex_scripts : list (list op) :=
  [[mkOp GSF 1 101 0]; [mkOp GSF 1 201 0]; [mkOp GSF 1 301 0]].
Definition ex_sched : list nat := [0;0;0; 1;1; 0;0;0; 1; 2;2;2;2;2;2].

Example ex_shared_and_fresh :
  map (fun th => map (fun r => (rval r, rfresh r, rcid r)) (tres th)) (threads (exec ex_scripts ex_sched))
  = [[(101%Z, true, 0)]; [(101%Z, false, 0)]; [(301%Z, true, 1)]].
Proof. vm_compute. reflexivity. Qed.

(* in the middle of it, exactly one function is running for key 1 and thread 1 is blocked *)
Example ex_running_blocked :
  running GSF 1 (exec ex_scripts [0;0;0;1;1]) = 1 /\ enabled (exec ex_scripts [0;0;0;1;1]) 1 = false.
Proof. vm_compute. split; reflexivity. Qed.

(* LockedCalls: both callers run their own function, one after the other *)
Example ex_locked :
  map (fun th => map (fun r => (rval r, rruns r)) (tres th))
      (threads (exec [[mkOp GLC 1 101 0]; [mkOp GLC 1 201 7]] [0;0;0;1;1;1;0;0;0;1;1;1;1;1;1]))
  = [[(101%Z, 1)]; [(201%Z, 1)]].
Proof. vm_compute. reflexivity. Qed.

(* ResourceManager: failed creation (err 5), retry by another thread succeeds (instance 201),
   a third caller gets the same instance without creating *)
Example ex_resource :
  let s := exec [[mkOp GRM 1 101 5]; [mkOp GRM 1 201 0]; [mkOp GRM 1 301 0]]
                [0;0;0;0;0;0;0;0; 1;1;1;1;1;1;1;1;1; 2;2;2;2;2;2;2;2] in
  (map (fun th => map (fun r => (rval r, rerr r)) (tres th)) (threads s), ncreated s 1, resources s 1)
  = ([[((-1)%Z, 5%Z)]; [(201%Z, 0%Z)]; [(201%Z, 0%Z)]], 1, Some 201%Z).
Proof. vm_compute. reflexivity. Qed.

(* a panicking leader: its call ends by the panic, the waiter is released with (nil, nil) and is
   not fresh; LockedCalls: the waiter then runs its own function; GetResource: the waiter's type
   assertion panics too, a later caller creates the resource *)
Example ex_panic_singleflight :
  map (fun th => map (fun r => (rval r, rerr r, rfresh r)) (tres th))
      (threads (exec [[mkOp GSF 1 101 epanic]; [mkOp GSF 1 201 0]] [0;0;0; 1;1; 0;0;0; 1]))
  = [[(vnil, epanic, true)]; [(vnil, 0%Z, false)]].
Proof. vm_compute. reflexivity. Qed.

Example ex_panic_locked :
  map (fun th => map (fun r => (rval r, rerr r, rruns r)) (tres th))
      (threads (exec [[mkOp GLC 1 101 epanic]; [mkOp GLC 1 201 0]] [0;0;0; 1;1; 0;0;0; 1;1;1;1;1;1;1]))
  = [[(vnil, epanic, 1)]; [(201%Z, 0%Z, 1)]].
Proof. vm_compute. reflexivity. Qed.

Example ex_panic_resource :
  let s := exec [[mkOp GRM 1 101 epanic]; [mkOp GRM 1 201 0]; [mkOp GRM 1 301 0]]
                [0;0;0;0; 1;1; 0;0;0; 1; 2;2;2;2;2;2;2;2;2] in
  (map (fun th => map (fun r => (rval r, rerr r)) (tres th)) (threads s), ncreated s 1)
  = ([[(vnil, epanic)]; [(vnil, epanic)]; [(301%Z, 0%Z)]], 1).
Proof. vm_compute. reflexivity. Qed.

(* a quiescent state with a blocked thread (hypotheses of quiescent_blocked_behind_running_function) *)
Example ex_quiescent_blocked :
  let s := exec ex_scripts [0;0;0;1;1] in
  quiescent s = true /\ enabled s 1 = false /\ unfinished s = true /\ can_move s = true.
Proof. vm_compute. repeat split; reflexivity. Qed.

(* the model's log of the first example: inv/fs of thread 0, inv of thread 1, fe + the two returns,
   then thread 2's own execution; and a log with two overlapping executions is rejected *)
Example ex_model_log :
  map (fun e => (Z.of_nat (ea e), ek e, ev1 e, ev3 e)) (mlog ex_scripts ex_sched)
  = [(0, 0, 0, 0); (0, 1, 0, 0); (1, 0, 0, 0); (0, 2, 0, 0); (0, 3, 101, 1); (1, 3, 101, 0);
     (2, 0, 0, 0); (2, 1, 0, 0); (2, 2, 0, 0); (2, 3, 301, 1)]%Z.
Proof. vm_compute. reflexivity. Qed.

Example ex_scan_rejects_overlap :
  scan (mkCase ex_scripts false false [] []) [mkEv 1 0 1 0 0 0 0; mkEv 2 1 1 0 0 0 0]%Z [] = false.
Proof. vm_compute. reflexivity. Qed.

(* a blocked thread in a quiescent state of the model is logged and accepted *)
Example ex_model_log_blk :
  map (fun e => (Z.of_nat (ea e), ek e)) (mlog ex_scripts [0;0;0;1;1;1]) = [(0, 0); (0, 1); (1, 0); (1, 4)]%Z.
Proof. vm_compute. reflexivity. Qed.

(* Round 4.  SOUNDNESS of the whole judgement: a log accepted by [prop_ok_conc] (primitives, no cache in front)
   satisfies [CheckProofs.log_ok], the property text on logs: scan; every SingleFlight result is what an execution
   of the same key handed over, the caller's own or an overlapping one ([may_share], read by
   CheckProofs.may_share_spec), or the (nil, nil) of an overlapping panicked leader; every LockedCalls caller ran
   its own function exactly once before it returned and got its result; every GetResource result is the instance
   of a successful create of its key that ended before, or the error of an overlapping creation; no function
   starts twice for one call, no two returns are reported fresh for one execution, at most one successful create
   per key.  COMPLETENESS w.r.t. the model: [scan], [created_once] and [own_once] accept the event log of every
   run of the LTS (any scripts, any schedule). *)
Theorem checker_prop_ok_sound : forall c, ccache c = false -> prop_ok_conc c = true -> log_ok c.
Proof. exact prop_ok_conc_sound. Qed.
Print Assumptions checker_prop_ok_sound.

Theorem model_log_passes_counts : forall scripts sched,
  scan (mcase scripts sched) (mlog scripts sched) [] = true /\
  forallb (fun x => created_once (mcase scripts sched) x && own_once (mcase scripts sched) x)
          (execs (mcase scripts sched)) = true.
Proof. exact model_log_passes_counts_l. Qed.
Print Assumptions model_log_passes_counts.

(* non-trivial instances: a model log with two creations (one failed) and a retry; log_ok of a real log *)
Example ex_counts_nontrivial :
  let c := mcase [[mkOp GRM 1 101 5]; [mkOp GRM 1 201 0]; [mkOp GRM 1 301 0]]
                 [0;0;0;0;0;0;0; 1;1;1;1;1;1;1;1; 2;2;2;2;2;2] in
  (length (execs c), prop_ok_conc c) = (2%nat, true).
Proof. vm_compute. reflexivity. Qed.

(* [ret_ok] and [fresh_once] are not proved to accept every model log ([scan], [created_once], [own_once] are:
   [model_log_passes_counts]; [ret_ok] needs the correspondence between ghost time stamps and log positions,
   [fresh_once] holds only for distinct values); here all conjuncts are evaluated on the model's
   own logs of a few runs with joins, errors, panics, retries, all three primitives, two keys.  They
   identify an execution by its value, so they assume what the generator guarantees: the values of
   the calls on one key are pairwise distinct (last example: the same value twice is rejected). *)
Definition rr (n k : nat) : list nat := flat_map (fun _ => seq 0 n) (seq 0 k).

Example ex_model_logs_pass_prop_ok :
  forallb (fun p => prop_ok_conc (mcase (fst p) (snd p)))
    [ (ex_scripts, ex_sched);
      (ex_scripts, rr 3 12);
      ([[mkOp GSF 1 101 epanic]; [mkOp GSF 1 201 0]; [mkOp GSF 2 301 5]], rr 3 12);
      ([[mkOp GLC 1 101 0; mkOp GLC 1 102 7]; [mkOp GLC 1 201 epanic]; [mkOp GLC 1 301 0]], rr 3 30);
      ([[mkOp GRM 1 101 5]; [mkOp GRM 1 201 0]; [mkOp GRM 1 301 0]; [mkOp GRM 2 401 epanic]], rr 4 20);
      ([[mkOp GRM 1 101 epanic]; [mkOp GRM 1 201 0]; [mkOp GRM 1 301 0]], [0;0;0;0;1;1;0;0;0;1;2;2;2;2;2;2;2;2;2]);
      ([[mkOp GSF 1 101 0; mkOp GLC 1 102 0; mkOp GRM 1 103 0]; [mkOp GRM 1 201 0; mkOp GSF 1 202 3; mkOp GLC 1 203 0]], rr 2 40)
    ] = true.
Proof. vm_compute. reflexivity. Qed.

Example ex_checker_assumes_distinct_values :
  prop_ok_conc (mcase [[mkOp GSF 1 101 0; mkOp GSF 1 101 0]] (rr 1 12)) = false.
Proof. vm_compute. reflexivity. Qed.
