(* C07 — property theorems only.  Every theorem is closed by [exact] of a lemma of
   Proofs.v and followed by [Print Assumptions].

   All theorems are about [exec scripts sched] = the state reached by the interleaving
   model of Model.v from the initial state, for ARBITRARY scripts (any number of threads,
   any calls SingleFlight.Do/DoEx [GSF], LockedCalls.Do [GLC], ResourceManager.GetResource
   [GRM] on any keys, any function results/errors) and an ARBITRARY schedule
   [sched : list nat] of atomic actions.  Since [sched] is arbitrary, "in exec scripts
   sched" means "at every step of every interleaving".  User functions that panic are
   outside the property's quantifier and outside the model. *)
From Coq Require Import List ZArith Bool Arith.
From GZ Require Import Lib.Sched C07.Model C07.Proofs.
Import ListNotations.

(* At most one execution of the supplied function is in progress per key (and group), at
   every step of every schedule.  [running g k s] counts the threads that are between the
   start and the end of their user function for key k. *)
Theorem one_execution_per_key : forall scripts sched g k, running g k (exec scripts sched) <= 1.
Proof. exact one_execution_per_key_l. Qed.
Print Assumptions one_execution_per_key.

(* No stale result.  Every result [r] ever returned by SingleFlight.Do/DoEx or
   GetResource was read from a call object c = heap (rcid r) registered under the caller's
   own key, is exactly the (val, err) that execution produced, and either
   - it is the caller's own execution (then, and only then, it is reported fresh; the
     execution's leading call IS the caller's call: same invocation and return time), or
   - the caller joined it at logical time [rjoin r], inside its own call interval
     [rinv r, rret r], and the execution's leading call was invoked before that join point
     and returned strictly after it: the leader's call interval contains the join point,
     so no result is ever retained from a call that had already returned. *)
Theorem no_stale_result : forall scripts sched t th r o,
  let s := exec scripts sched in
  nth_error (threads s) t = Some th -> In r (tres th) ->
  nth_error (tscript th) (rop r) = Some o -> ogrp o <> GLC ->
  let c := heap s (rcid r) in
  cgrp c = ogrp o /\ ckey c = okey o /\ cdone c = true /\
  cval c = Some (shared (rval r, rerr r)) /\
  rinv r <= rjoin r /\ rjoin r < rret r /\
  ((rfresh r = true /\ clead c = (t, rop r) /\ cinvt c = rinv r /\ cret c = Some (rret r)) \/
   (rfresh r = false /\ fst (clead c) <> t /\ cinvt c <= rjoin r /\
    exists rt, cret c = Some rt /\ rjoin r < rt)).
Proof. exact no_stale_result_l. Qed.
Print Assumptions no_stale_result.

(* ... and the value of an execution (SingleFlight, LockedCalls) is what the user function
   of its leading call returns according to the script: results are never invented. *)
Theorem execution_value_is_the_leaders : forall scripts sched c,
  let s := exec scripts sched in
  c < nextc s -> cgrp (heap s c) <> GRM ->
  exists thL oL, nth_error (threads s) (fst (clead (heap s c))) = Some thL /\
                 nth_error (tscript thL) (snd (clead (heap s c))) = Some oL /\
                 ogrp oL = cgrp (heap s c) /\ okey oL = ckey (heap s c) /\
                 forall r, cval (heap s c) = Some r -> r = shared (fn_ret oL).
Proof. exact execution_value_l. Qed.
Print Assumptions execution_value_is_the_leaders.

(* Fresh: per execution (call object) at most one returned call is reported fresh, and a
   returned call is fresh iff the caller is the leader of the execution it got its result
   from, in which case its own function ran exactly once (otherwise not at all).
   Together with [exactly_one_fresh_per_execution] below: exactly one. *)
Theorem at_most_one_fresh_per_execution : forall scripts sched t1 t2 th1 th2 r1 r2,
  let s := exec scripts sched in
  nth_error (threads s) t1 = Some th1 -> nth_error (threads s) t2 = Some th2 ->
  In r1 (tres th1) -> In r2 (tres th2) -> rcid r1 = rcid r2 ->
  rfresh r1 = true -> rfresh r2 = true -> t1 = t2 /\ rop r1 = rop r2.
Proof. exact fresh_unique_l. Qed.
Print Assumptions at_most_one_fresh_per_execution.

Theorem fresh_iff_leader : forall scripts sched t th r,
  let s := exec scripts sched in
  nth_error (threads s) t = Some th -> In r (tres th) ->
  (rfresh r = true <-> clead (heap s (rcid r)) = (t, rop r)) /\
  (rfresh r = true -> rruns r = 1) /\ (rfresh r = false -> rruns r = 0).
Proof. exact fresh_iff_leader_l. Qed.
Print Assumptions fresh_iff_leader.

(* Exactly one caller per execution is reported fresh: for every completed execution
   (call object c whose WaitGroup is done) there is a returned call record with
   fresh = true for it, and any fresh record for c is that very record of that thread. *)
Theorem exactly_one_fresh_per_execution : forall scripts sched c,
  let s := exec scripts sched in
  c < nextc s -> cdone (heap s c) = true ->
  exists t th r,
    nth_error (threads s) t = Some th /\ In r (tres th) /\ rcid r = c /\ rfresh r = true /\
    forall t' th' r', nth_error (threads s) t' = Some th' -> In r' (tres th') ->
                      rcid r' = c -> rfresh r' = true -> t' = t /\ r' = r.
Proof. exact exactly_one_fresh_l. Qed.
Print Assumptions exactly_one_fresh_per_execution.

(* LockedCalls: every returned call ran the caller's OWN function exactly once and
   returned its own (val, err); no two executions for one key overlap is
   [one_execution_per_key] at g = GLC. *)
Theorem locked_calls_exclusive_and_own : forall scripts sched,
  (forall k, running GLC k (exec scripts sched) <= 1) /\
  forall t th r o,
  let s := exec scripts sched in
  nth_error (threads s) t = Some th -> In r (tres th) ->
  nth_error (tscript th) (rop r) = Some o -> ogrp o = GLC ->
  (rval r, rerr r) = fn_ret o /\ rruns r = 1.
Proof.
  exact (fun scripts sched =>
           conj (fun k => one_execution_per_key_l scripts sched GLC k)
                (locked_calls_own_l scripts sched)).
Qed.
Print Assumptions locked_calls_exclusive_and_own.

(* Keys are independent.  (1) A thread that cannot move waits on a WaitGroup registered
   under ITS OWN key (group and key of its current call) whose execution is led by another
   thread and is not finished: it is never blocked behind a different key.  (2) A step of a
   thread working on a different key never changes whether the thread can move. *)
Theorem keys_independent_blocked_only_behind_own_key : forall scripts sched t th o,
  let s := exec scripts sched in
  nth_error (threads s) t = Some th -> cur_op th = Some o -> enabled s t = false ->
  exists c, tpc th = PWait c /\ c < nextc s /\ cgrp (heap s c) = ogrp o /\ ckey (heap s c) = okey o /\
            cdone (heap s c) = false /\ fst (clead (heap s c)) <> t.
Proof. exact blocked_only_behind_own_key_l. Qed.
Print Assumptions keys_independent_blocked_only_behind_own_key.

Theorem keys_independent : forall scripts sched t t' s' th th' o o',
  let s := exec scripts sched in
  step s t' = Some s' -> t <> t' ->
  nth_error (threads s) t = Some th -> cur_op th = Some o ->
  nth_error (threads s) t' = Some th' -> cur_op th' = Some o' ->
  (ogrp o, okey o) <> (ogrp o', okey o') ->
  enabled s' t = enabled s t.
Proof. exact other_keys_do_not_matter_l. Qed.
Print Assumptions keys_independent.

(* ResourceManager: per key at most one create() ever succeeds, and every successful
   GetResource on that key returned the one instance stored in the map (hence everyone
   gets the same instance); failed creations are not counted and may be retried. *)
Theorem resource_created_once : forall scripts sched k,
  let s := exec scripts sched in
  ncreated s k <= 1 /\
  forall t th r o, nth_error (threads s) t = Some th -> In r (tres th) ->
    nth_error (tscript th) (rop r) = Some o -> ogrp o = GRM -> okey o = k -> rerr r = 0%Z ->
    resources s k = Some (rval r).
Proof. exact resource_created_once_l. Qed.
Print Assumptions resource_created_once.

(* ------------------------------------------------------------------ *)
(* non-vacuity: concrete interleavings in which the interesting things happen *)

(* two callers of one key: thread 1 joins while thread 0's function runs, both get 101;
   thread 0 is fresh, thread 1 is not; a third call after completion starts afresh (301) *)
Definition ex_scripts : list (list op) :=
  [[mkOp GSF 1 101 0]; [mkOp GSF 1 201 0]; [mkOp GSF 1 301 0]].
Definition ex_sched : list nat := [0;0;0; 1;1; 0;0;0; 1; 2;2;2;2;2;2].

Example ex_shared_and_fresh :
  map (fun th => map (fun r => (rval r, rfresh r, rcid r)) (tres th)) (threads (exec ex_scripts ex_sched))
  = [[(101%Z, true, 0)]; [(101%Z, false, 0)]; [(301%Z, true, 1)]].
Proof. vm_compute. reflexivity. Qed.

(* in the middle of it, exactly one function is running for key 1 and thread 1 is blocked *)
Example ex_running_blocked :
  running GSF 1 (exec ex_scripts [0;0;0;1;1]) = 1 /\ enabled (exec ex_scripts [0;0;0;1;1]) 1 = false.
Proof. vm_compute. split; reflexivity. Qed.

(* LockedCalls: both callers run their own function, one after the other *)
Example ex_locked :
  map (fun th => map (fun r => (rval r, rruns r)) (tres th))
      (threads (exec [[mkOp GLC 1 101 0]; [mkOp GLC 1 201 7]] [0;0;0;1;1;1;0;0;0;1;1;1;1;1;1]))
  = [[(101%Z, 1)]; [(201%Z, 1)]].
Proof. vm_compute. reflexivity. Qed.

(* ResourceManager: failed creation (err 5), retry by another thread succeeds (instance 201),
   a third caller gets the same instance without creating *)
Example ex_resource :
  let s := exec [[mkOp GRM 1 101 5]; [mkOp GRM 1 201 0]; [mkOp GRM 1 301 0]]
                [0;0;0;0;0;0;0;0; 1;1;1;1;1;1;1;1;1; 2;2;2;2;2;2;2;2] in
  (map (fun th => map (fun r => (rval r, rerr r)) (tres th)) (threads s), ncreated s 1, resources s 1)
  = ([[((-1)%Z, 5%Z)]; [(201%Z, 0%Z)]; [(201%Z, 0%Z)]], 1, Some 201%Z).
Proof. vm_compute. reflexivity. Qed.
