(* C07 — the sequential ResourceManager oracle of Check.v ([rm_seq], used by [agrees] for the
   Get / Inject / Close histories) satisfies the property checker [rm_prop] used by [prop_ok] on
   the implementation's observations, for every history and every starting content: the two
   executable specifications cannot drift apart, and [rm_prop] accepts every history of the model. *)
From Coq Require Import List ZArith Bool Arith Lia.
From GZ Require Import Lib.CheckLib C07.Model C07.Check.
Import ListNotations.
Local Open Scope Z_scope.

Lemma rm_prop_accepts_rm_seq : forall ops m, rm_prop m ops (rm_seq m ops) = true.
Proof.
  induction ops as [|o ops IH]; intros m; [reflexivity|].
  cbn [rm_seq]. unfold rm_seq_step.
  destruct (rk o =? 0) eqn:E0.
  - destruct (rm_lookup m (rkey o)) as [x|] eqn:El.
    + cbn [rm_prop]. rewrite E0, El, !Z.eqb_refl. cbn. apply IH.
    + destruct (re o =? 0) eqn:Ee.
      * cbn [rm_prop]. rewrite E0, El. cbn. rewrite Ee, Z.eqb_refl. cbn. apply IH.
      * cbn [rm_prop]. rewrite E0, El. cbn. rewrite Ee, !Z.eqb_refl. cbn. apply IH.
  - destruct (rk o =? 1) eqn:E1.
    + cbn [rm_prop]. rewrite E0, E1. apply IH.
    + cbn [rm_prop]. rewrite E0, E1, !Z.eqb_refl. cbn. apply IH.
Qed.

(* ... and what rm_prop demands, read declaratively for the first GetResource of a key: create is
   called, and a successful creation is what every later GetResource of the key hands out until the
   next Inject / Close *)
Lemma rm_prop_hit_is_current cur o ops v e cr obs x :
  rk o = 0 -> rm_lookup cur (rkey o) = Some x ->
  rm_prop cur (o :: ops) ((v, e, cr) :: obs) = true -> v = x /\ e = 0 /\ cr = 0.
Proof.
  intros Hk Hl H. cbn [rm_prop] in H. rewrite Hk, Hl in H. cbn in H.
  repeat (apply andb_prop in H; let H' := fresh in destruct H as [H H']).
  repeat match goal with H : (_ =? _) = true |- _ => apply Z.eqb_eq in H end. auto.
Qed.
