(* C07 — SingleFlight / LockedCalls / ResourceManager: executable interleaving model of
   core/syncx/{singleflight.go, lockedcalls.go, resourcemanager.go}.  No proofs here.

   Threads are scripts of calls; every call is split into the atomic actions of the Go
   code (one per mutex-protected section / WaitGroup operation / user-function start and
   end).  [step s t] performs the next atomic action of thread [t], or is [None] when
   that action is disabled (the thread waits on a WaitGroup or has finished its script).
   A schedule is a [list nat]; theorems quantify over all of them (Lib/Sched.run).

   Groups: the three primitives are three independent key spaces [GSF] (flightGroup.calls),
   [GLC] (lockedGroup.m), [GRM] (the private flightGroup of a ResourceManager); a script may
   mix them.  A heap object ([callrec]) is a Go [*call] / [*sync.WaitGroup]: it outlives its
   map entry because waiters hold the pointer.

   Atomic actions of one call (Go code in brackets):
     PIdle      --invoke-->            PCalled          [the call is entered]
     PCalled    --lookup/register-->   PWait c | PLead c [createCall / lockedGroup.Do under lock]
     PWait c    --wake (c done)-->     return (SF,RM) | PCalled (LC: goto begin)   [wg.Wait]
     PLead c    --fn starts-->         PInFn c
     PInFn c    --fn ends-->           PFnDone c r      [SF/LC: user fn; c.val,c.err = r]
                --RLock check-->       PFnDone c (x,0) | PRmCreate c   [RM closure, hit / miss]
     PRmCreate c --create returns-->   PRmStore c x | PFnDone c (-1,e)
     PRmStore c x --Lock; store-->     PFnDone c (x,0)
     PFnDone c r --lock; delete(key)--> PDeleted c r    [deferred func, first half]
     PDeleted c r --wg.Done; return--> PIdle            [deferred func, second half + return]

   A user function that PANICS is scripted as [oerr = epanic].  The clean-up of makeCall
   (both primitives) is a deferred function, so it runs all the same: the entry is deleted, the
   WaitGroup released, and only then does the panic leave the leader's call (its record carries
   [(vnil, epanic)]).  Nothing was assigned to c.val / c.err, so SingleFlight waiters return
   [(vnil, 0)] = (nil, nil) ([shared]); in GetResource the waiter's [val.(io.Closer)] on that nil
   then panics as well.  LockedCalls waiters simply retry.

   Ghost state (does not influence control): the logical clock [now] (one tick per action),
   time stamps of invoke / join / leader return, the id of the heap object a result came
   from, per-call count of own fn runs, per-key count of successful creations. *)
From Coq Require Import List ZArith Bool Arith.
From GZ Require Export Lib.Sched.
Import ListNotations.

Inductive grp := GSF | GLC | GRM.

Definition grp_eqb (a b : grp) : bool :=
  match a, b with GSF, GSF | GLC, GLC | GRM, GRM => true | _, _ => false end.

(* one call: group, key, and what this caller's own user function returns (val, err);
   err = 0 is nil.  For GRM: (instance, err) returned by [create]. *)
Record op := mkOp { ogrp : grp; okey : Z; oval : Z; oerr : Z }.

(* a panicking user function; the nil value *)
Definition epanic : Z := (-2)%Z.
Definition vnil : Z := (-1)%Z.
Definition panics (o : op) : bool := Z.eqb (oerr o) epanic.

(* what the user function of the call hands to its caller (the leader) ... *)
Definition fn_ret (o : op) : Z * Z := if panics o then (vnil, epanic) else (oval o, oerr o).
(* ... and what is then found in c.val, c.err by the waiters: a panic assigned nothing *)
Definition shared (r : Z * Z) : Z * Z := if Z.eqb (snd r) epanic then (vnil, 0%Z) else r.

Inductive pc :=
| PIdle
| PCalled
| PWait (c : nat)
| PLead (c : nat)
| PInFn (c : nat)
| PRmCreate (c : nat)
| PRmStore (c : nat) (x : Z)
| PFnDone (c : nat) (r : Z * Z)
| PDeleted (c : nat) (r : Z * Z).

(* what a call returned, with ghost time stamps *)
Record rec := mkRec
  { rop : nat;          (* index of the call in the thread's script *)
    rval : Z; rerr : Z; rfresh : bool;
    rcid : nat;         (* heap object the result was read from (own object for GLC) *)
    rinv : nat;         (* logical time of the invocation *)
    rjoin : nat;        (* logical time of the lookup/register section (the join point) *)
    rret : nat;         (* logical time of the return *)
    rruns : nat }.      (* how many times the caller's own fn ran during the call *)

Record thread := mkThread
  { tpc : pc; tscript : list op; topi : nat;
    tinv : nat; tjoin : nat; truns : nat; tres : list rec }.

Record callrec := mkCall
  { cgrp : grp; ckey : Z;
    clead : nat * nat;          (* leader: thread, call index (ghost) *)
    cinvt : nat;                (* leader's invocation time (ghost) *)
    cval : option (Z * Z);      (* c.val, c.err once assigned *)
    cdone : bool;               (* wg counter reached 0 *)
    cret : option nat }.        (* leader's return time (ghost) *)

Record state := mkState
  { now : nat;
    calls : grp -> Z -> option nat;    (* the three maps key -> heap object *)
    heap : nat -> callrec;
    nextc : nat;
    resources : Z -> option Z;         (* ResourceManager.resources *)
    ncreated : Z -> nat;               (* ghost: successful create() calls per key *)
    threads : list thread }.

Definition call0 := mkCall GSF 0 (0, 0) 0 None false None.

Definition init (scripts : list (list op)) : state :=
  mkState 0 (fun _ _ => None) (fun _ => call0) 0 (fun _ => None) (fun _ => 0)
          (map (fun sc => mkThread PIdle sc 0 0 0 0 []) scripts).

Definition cur_op (th : thread) : option op := nth_error (tscript th) (topi th).

Definition set_calls (m : grp -> Z -> option nat) (g : grp) (k : Z) (v : option nat) :=
  fun g' k' => if grp_eqb g' g && Z.eqb k' k then v else m g' k'.

Definition zupd {B} (f : Z -> B) (k : Z) (v : B) : Z -> B :=
  fun i => if Z.eqb i k then v else f i.

Definition set_pc (th : thread) (p : pc) : thread :=
  mkThread p (tscript th) (topi th) (tinv th) (tjoin th) (truns th) (tres th).

Definition with_val (c : callrec) (r : Z * Z) : callrec :=
  mkCall (cgrp c) (ckey c) (clead c) (cinvt c) (Some r) (cdone c) (cret c).

(* the thread leaves the call with result (v, e) *)
Definition finish (th : thread) (v e : Z) (fresh : bool) (c t_now : nat) : thread :=
  mkThread PIdle (tscript th) (S (topi th)) (tinv th) (tjoin th) (truns th)
           (tres th ++ [mkRec (topi th) v e fresh c (tinv th) (tjoin th) t_now (truns th)]).

(* local step: shared part of the state and the thread's own record *)
Definition step (s : state) (t : nat) : option state :=
  match nth_error (threads s) t with
  | None => None
  | Some th =>
    match cur_op th with
    | None => None
    | Some o =>
      let g := ogrp o in
      let k := okey o in
      let T := S (now s) in
      let put th' := upd_nth (threads s) t th' in
      match tpc th with
      | PIdle =>
        Some (mkState T (calls s) (heap s) (nextc s) (resources s) (ncreated s)
               (put (mkThread PCalled (tscript th) (topi th) (now s) (tjoin th) 0 (tres th))))
      | PCalled =>
        match calls s g k with
        | Some c =>
          Some (mkState T (calls s) (heap s) (nextc s) (resources s) (ncreated s)
                 (put (mkThread (PWait c) (tscript th) (topi th) (tinv th) (now s) (truns th) (tres th))))
        | None =>
          let c := nextc s in
          Some (mkState T (set_calls (calls s) g k (Some c))
                 (fupd (heap s) c (mkCall g k (t, topi th) (tinv th) None false None))
                 (S c) (resources s) (ncreated s)
                 (put (mkThread (PLead c) (tscript th) (topi th) (tinv th) (now s) (truns th) (tres th))))
        end
      | PWait c =>
        if cdone (heap s c) then
          match g with
          | GLC =>
            Some (mkState T (calls s) (heap s) (nextc s) (resources s) (ncreated s)
                   (put (set_pc th PCalled)))
          | _ =>
            match cval (heap s c) with
            | Some (v, e) =>
              (* GetResource: [val.(io.Closer)] on the (nil, nil) left by a panicking leader panics *)
              let '(v', e') := match g with
                               | GRM => if Z.eqb v vnil && Z.eqb e 0 then (vnil, epanic) else (v, e)
                               | _ => (v, e)
                               end in
              Some (mkState T (calls s) (heap s) (nextc s) (resources s) (ncreated s)
                     (put (finish th v' e' false c (now s))))
            | None => None   (* unreachable: a done object has its value (Proofs.Inv) *)
            end
          end
        else None
      | PLead c =>
        Some (mkState T (calls s) (heap s) (nextc s) (resources s) (ncreated s)
               (put (mkThread (PInFn c) (tscript th) (topi th) (tinv th) (tjoin th) (S (truns th)) (tres th))))
      | PInFn c =>
        match g with
        | GRM =>
          match resources s k with
          | Some x =>
            Some (mkState T (calls s) (fupd (heap s) c (with_val (heap s c) (x, 0%Z))) (nextc s)
                   (resources s) (ncreated s) (put (set_pc th (PFnDone c (x, 0%Z)))))
          | None =>
            Some (mkState T (calls s) (heap s) (nextc s) (resources s) (ncreated s)
                   (put (set_pc th (PRmCreate c))))
          end
        | _ =>
          let r := fn_ret o in
          Some (mkState T (calls s) (fupd (heap s) c (with_val (heap s c) (shared r))) (nextc s)
                 (resources s) (ncreated s) (put (set_pc th (PFnDone c r))))
        end
      | PRmCreate c =>
        if Z.eqb (oerr o) 0 then
          Some (mkState T (calls s) (heap s) (nextc s) (resources s)
                 (zupd (ncreated s) k (S (ncreated s k))) (put (set_pc th (PRmStore c (oval o)))))
        else
          (* create failed (or panicked: oerr o = epanic) *)
          let r := (vnil, oerr o) in
          Some (mkState T (calls s) (fupd (heap s) c (with_val (heap s c) (shared r))) (nextc s)
                 (resources s) (ncreated s) (put (set_pc th (PFnDone c r))))
      | PRmStore c x =>
        Some (mkState T (calls s) (fupd (heap s) c (with_val (heap s c) (x, 0%Z))) (nextc s)
               (zupd (resources s) k (Some x)) (ncreated s) (put (set_pc th (PFnDone c (x, 0%Z)))))
      | PFnDone c r =>
        Some (mkState T (set_calls (calls s) g k None) (heap s) (nextc s) (resources s) (ncreated s)
               (put (set_pc th (PDeleted c r))))
      | PDeleted c r =>
        let h := heap s c in
        let h' := mkCall (cgrp h) (ckey h) (clead h) (cinvt h) (cval h) true (Some (now s)) in
        (* the leader returns c.val, c.err (its own function's result for LockedCalls), unless
           the panic of its function now leaves the call *)
        let '(v, e) := if Z.eqb (snd r) epanic then r else
                       match g with
                       | GLC => r
                       | _ => match cval h with Some r' => r' | None => r end
                       end in
        Some (mkState T (calls s) (fupd (heap s) c h') (nextc s) (resources s) (ncreated s)
               (put (finish th v e true c (now s))))
      end
    end
  end.

Definition exec (scripts : list (list op)) (sched : list nat) : state :=
  run step (init scripts) sched.

(* ---- observables used by the theorems ---- *)

(* the thread is inside the user function (or the ResourceManager closure) of a call
   on group g, key k *)
Definition in_fn (g : grp) (k : Z) (th : thread) : bool :=
  match cur_op th with
  | Some o =>
    grp_eqb (ogrp o) g && Z.eqb (okey o) k &&
    match tpc th with PInFn _ | PRmCreate _ | PRmStore _ _ => true | _ => false end
  | None => false
  end.

Definition running (g : grp) (k : Z) (s : state) : nat := sumf (fun th => b2n (in_fn g k th)) (threads s).

Definition enabled (s : state) (t : nat) : bool :=
  match step s t with Some _ => true | None => false end.

Definition finished (th : thread) : bool :=
  match cur_op th with None => true | Some _ => false end.

(* some thread has not finished its script / some thread can move *)
Definition unfinished (s : state) : bool := existsb (fun th => negb (finished th)) (threads s).
Definition can_move (s : state) : bool := existsb (enabled s) (seq 0 (length (threads s))).
