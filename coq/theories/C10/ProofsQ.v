(* C10 — fault-free runs: nothing is drained, every generated item is mapped, every mapper
   Write is accepted by the collector and received by the reducer function. *)
From Coq Require Import List ZArith Bool Arith Lia Permutation.
From GZ Require Import C10.Model C10.Proofs C10.ProofsT.
Import ListNotations.

(* ---------- fault-free runs: no script cancels or panics, the context does not end ---------- *)
Definition fault (a : uact) : bool := match a with UCancel _ | UPanic _ => true | _ => false end.
Definition nofault (l : list uact) : bool := forallb (fun a => negb (fault a)) l.
Definition quiet_cfg (c : config) : Prop :=
  nofault (gscript c) = true /\ nofault (rscript c) = true /\ forall x, nofault (mscript c x) = true.

Lemma run_inv_noctx : forall (c : config) (P : state -> Prop),
  (forall s l s', l <> LCtx -> P s -> step c s l = Some s' -> P s') ->
  forall sched s, ~ In LCtx sched -> P s -> P (run c s sched).
Proof.
  intros c P HP sched; induction sched as [|l tl IH]; intros s HN Hs; simpl; auto.
  assert (l <> LCtx) as NL by (intro; apply HN; left; auto).
  assert (~ In LCtx tl) as NT by (intro; apply HN; right; auto).
  destruct (step c s l) eqn:E; auto. apply IH; auto. eapply HP; eauto.
Qed.

Definition q_pc (p : pc) : Prop :=
  match p with
  | Gate r | SendPend _ r | RecvPend _ r => nofault r = true
  | Epi None | Epi2 | Epi3 | Fin => True
  | _ => False
  end.
Definition mquiet (m : mstate) : bool :=
  match m with MSelect | MDefer _ | MQuit _ | MFin _ => true | _ => false end.
Definition epast (e : epc) : bool :=
  match e with EWait | EClose | EDrain | EFin => true | _ => false end.

Definition inv_q (c : config) (s : state) : Prop :=
  (ctx_done s = false /\ failed s = false /\ cstate s = CNone /\ wrote s = false /\ pbuf s = None)
  /\ (q_pc (genpc s) /\ q_pc (redpc s) /\ Forall (fun m => q_pc (mpc m)) (maps s))
  /\ mquiet (mainpc s) = true
  /\ (finished s = true -> redpc s = Fin)
  /\ g_drained s = []
  /\ g_sent s ++ todo (genpc s) = all_sends (gscript c)
  /\ (epast (execpc s) = true -> src_closed s = true).

Lemma inv_q_init : forall c, quiet_cfg c -> inv_q c (init c).
Proof.
  intros c (G & R & M). unfold inv_q, init; simpl. repeat split; auto; try discriminate.
  destruct (foreach c); simpl; auto.
Qed.

Lemma nofault_tl : forall a r, nofault (a :: r) = true -> nofault r = true /\ fault a = false.
Proof. intros a r H. simpl in H. apply andb_true_iff in H. destruct H as (A & B). split; auto. destruct (fault a); auto. Qed.

Ltac killq Qm := try match goal with Hn : nth_error _ _ = Some ?m, Hm : mpc ?m = _ |- _ =>
   let X := fresh in pose proof (Forall_nth _ _ _ _ Qm Hn) as X; simpl in X; rewrite Hm in X; simpl in X; first [contradiction | discriminate X] end.

Ltac faq Qm :=
  first [ eapply Forall_upd; [eassumption | eassumption | simpl; auto; fail]
        | eapply Forall_upd; [eassumption | eassumption | simpl;
            match goal with Hn : nth_error _ _ = Some ?m, Hm : mpc ?m = _ |- _ =>
              let X := fresh in pose proof (Forall_nth _ _ _ _ Qm Hn) as X; simpl in X; rewrite Hm in X; simpl in X;
              try discriminate X; try (apply nofault_tl in X); tauto end]
        | apply Forall_app; split; [assumption | constructor; [simpl; auto | constructor]] ].

Ltac clq QF Qm :=
  first [ tauto | assumption | reflexivity | intros; discriminate | intros; congruence
        | let X := fresh in intro X; apply QF in X; discriminate X
        | faq Qm
        | idtac ].

Lemma inv_q_step : forall c s l s', quiet_cfg c -> l <> LCtx -> inv_st c s -> inv_fr c s ->
  inv_q c s -> step c s l = Some s' -> inv_q c s'.
Proof.
  intros c s l s' QC NL ST FR ((Q0a & Q0b & Q0c & Q0d & Q0e) & (Qg & Qr & Qm) & QM & QF & QD & QS & QE) H.
  unfold inv_q.
  destruct l; simpl in H; try congruence.
  - unf0; rewrite ?Q0a, ?Q0b, ?Q0c, ?Q0d in H; brk; rp; ifs; simpl in *; rwg; rwm; simpl in *;
      try discriminate; try contradiction; try congruence; killq Qm;
      (split; [|split; [split; [|split]|split; [|split; [|split; [|split]]]]]); clq QF Qm.
  - unf0; rewrite ?Q0a, ?Q0b, ?Q0c, ?Q0d in H; brk; rp; ifs; simpl in *; rwg; rwm; simpl in *;
      try discriminate; try contradiction; try congruence; killq Qm;
      (split; [|split; [split; [|split]|split; [|split; [|split; [|split]]]]]); clq QF Qm.
  - unf0; rewrite ?Q0a, ?Q0b, ?Q0c, ?Q0d in H; brk; rp; ifs; simpl in *; rwg; rwm; simpl in *;
      try discriminate; try contradiction; try congruence; killq Qm;
      (split; [|split; [split; [|split]|split; [|split; [|split; [|split]]]]]); clq QF Qm.
    + exfalso. pose proof (QF Heqb0) as RF. destruct FR as (A & _ & C). destruct ST as (_ & _ & _ & _ & _ & CC & _).
      destruct (foreach c) eqn:FE.
      * destruct (C eq_refl) as (_ & X & _). congruence.
      * rewrite RF in A. destruct (A eq_refl) as (_ & X). specialize (X eq_refl). rewrite Heqe in CC. simpl in CC. congruence.
    + destruct QC as (_ & _ & X). apply X.
    + rewrite <- app_assoc. exact QS.
    + exfalso. destruct ST as (_ & _ & _ & S & _). specialize (QE eq_refl). apply S in QE. congruence.
    + rewrite <- app_assoc. exact QS.
  - unf0; rewrite ?Q0a, ?Q0b, ?Q0c, ?Q0d in H; brk; rp; ifs; simpl in *; rwg; rwm; simpl in *;
      try discriminate; try contradiction; try congruence; killq Qm;
      (split; [|split; [split; [|split]|split; [|split; [|split; [|split]]]]]); clq QF Qm.
  - unf0; rewrite ?Q0a, ?Q0b, ?Q0c, ?Q0d in H; brk; rp; ifs; simpl in *; rwg; rwm; simpl in *;
      try discriminate; try contradiction; try congruence; killq Qm;
      (split; [|split; [split; [|split]|split; [|split; [|split; [|split]]]]]); clq QF Qm.
    all: specialize (QF eq_refl); discriminate QF.
Qed.

Lemma inv_q_all : forall c sched, quiet_cfg c -> ~ In LCtx sched -> inv_q c (run c (init c) sched).
Proof.
  intros c sched QC NC.
  assert (inv_st c (run c (init c) sched) /\ inv_fr c (run c (init c) sched) /\ inv_q c (run c (init c) sched)) as (_ & _ & H); [|exact H].
  apply (run_inv_noctx c (fun s => inv_st c s /\ inv_fr c s /\ inv_q c s)); auto.
  - intros s l s' NL (A & B & C) H. split; [|split].
    + eapply inv_st_step; eauto.
    + eapply inv_fr_step; eauto.
    + eapply inv_q_step; eauto.
  - split; [|split]; [apply inv_st_init | apply inv_fr_init | apply inv_q_init; auto].
Qed.


Lemma map_exactly_once_l : forall c sched, quiet_cfg c -> ~ In LCtx sched ->
  let s := run c (init c) sched in
  g_drained s = [] /\ Permutation (g_sent s) (map mitem (maps s))
  /\ (genpc s = Fin -> Permutation (all_sends (gscript c)) (map mitem (maps s))).
Proof.
  intros c sched QC NC s.
  destruct (inv_q_all c sched QC NC) as (_ & _ & _ & _ & QD & QS & _). fold s in QD, QS.
  destruct (inv_logs_all c sched) as (P & _). fold s in P. rewrite QD, app_nil_r in P.
  repeat split; auto. intro F. rewrite F in QS. simpl in QS. rewrite app_nil_r in QS. rewrite <- QS. exact P.
Qed.

(* ---------- every mapper Write is accepted, and received by the reducer function ---------- *)
Definition pend_w (p : pc) : list Z :=
  match p with Gate r => all_writes r | SendPend y r => y :: all_writes r | _ => [] end.
Definition pw (ms : list mapper) : list Z := flat_map (fun m => pend_w (mpc m)) ms.
Definition aw (c : config) (ms : list mapper) : list Z :=
  flat_map (fun m => all_writes (mscript c (mitem m))) ms.
Definition cur' (p : pc) : list uact :=
  match p with
  | Gate r => r
  | SendPend y r => UWrite y :: r
  | RecvPend all r => (if all then URecvAll else URecv) :: r
  | _ => []
  end.

Lemma split_nth : forall (ms : list mapper) i m, nth_error ms i = Some m ->
  exists l1 l2, ms = l1 ++ m :: l2 /\ forall q, upd_nth i q ms = l1 ++ mkMapper (mitem m) q :: l2.
Proof.
  induction ms as [|a tl IH]; intros i m H; destruct i; simpl in *; try discriminate.
  - inversion H; subst. exists [], tl. split; auto.
  - destruct (IH _ _ H) as (l1 & l2 & E1 & E2). exists (a :: l1), l2. split.
    + simpl. f_equal. exact E1.
    + intros q. simpl. f_equal. apply E2.
Qed.

Lemma pw_upd : forall ms i m, nth_error ms i = Some m ->
  exists A B, pw ms = A ++ pend_w (mpc m) ++ B /\ forall q, pw (upd_nth i q ms) = A ++ pend_w q ++ B.
Proof.
  intros ms i m H. destruct (split_nth ms i m H) as (l1 & l2 & E1 & E2).
  exists (pw l1), (pw l2). split.
  - rewrite E1. unfold pw. rewrite flat_map_app. simpl. reflexivity.
  - intros q. rewrite E2. unfold pw. rewrite flat_map_app. simpl. reflexivity.
Qed.

Lemma aw_upd : forall c ms i q, aw c (upd_nth i q ms) = aw c ms.
Proof.
  intros c ms; induction ms as [|a tl IH]; intros i q; destruct i; simpl; auto.
  f_equal. apply IH.
Qed.

Lemma perm_push : forall (w a r b : list Z) y R,
  Permutation (w ++ a ++ (y :: r) ++ b) R -> Permutation ((w ++ [y]) ++ a ++ r ++ b) R.
Proof.
  intros w a r b y R H. eapply Permutation_trans; [|exact H].
  rewrite <- app_assoc. apply Permutation_app_head. simpl.
  apply Permutation_cons_app. reflexivity.
Qed.

Definition inv_w (c : config) (s : state) : Prop :=
  Permutation (g_written s ++ pw (maps s)) (aw c (maps s))
  /\ (In URecvAll (rscript c) ->
      (In URecvAll (cur' (redpc s)) \/ (coll s = [] /\ coll_closed s = true)) /\ g_rdrained s = []).

Lemma inv_w_init : forall c, foreach c = false -> inv_w c (init c).
Proof. intros c FE. unfold inv_w, init; simpl. rewrite FE. simpl. split; auto. Qed.

(* a mapper that has not done wg.Done yet: the pipeline is not finished, the collector is open *)
Lemma quiet_open : forall c s i m, foreach c = false -> inv_st c s -> inv_fr c s ->
  nth_error (maps s) i = Some m -> bd (mpc m) = true -> coll_closed s = false.
Proof.
  intros c s i m FE (_ & _ & _ & _ & W & CC & L & _) _ Hn B.
  destruct (coll_closed s) eqn:E; auto. exfalso.
  assert (elate (execpc s) = true) as EL by (destruct (execpc s); simpl in *; congruence).
  specialize (L EL). pose proof (count_pos bd (maps s) i m Hn B). unfold cnt_bd in W. lia.
Qed.

Lemma quiet_unfinished : forall c s i m, foreach c = false -> inv_st c s -> inv_fr c s -> inv_q c s ->
  nth_error (maps s) i = Some m -> bd (mpc m) = true -> finished s = false.
Proof.
  intros c s i m FE ST FR (_ & _ & _ & QF & _) Hn B.
  destruct (finished s) eqn:E; auto. exfalso.
  pose proof (quiet_open c s i m FE ST FR Hn B) as O.
  destruct FR as (A & _). rewrite (QF eq_refl) in A. destruct (A eq_refl) as (_ & X). rewrite (X FE) in O. discriminate.
Qed.

Ltac pwt P :=
  match goal with
  | Hn : nth_error (maps ?s) ?i = Some ?m, Hm : mpc ?m = _ |- Permutation _ _ =>
    let A := fresh "A" in let B := fresh "B" in let E1 := fresh "E1" in let E2 := fresh "E2" in
    destruct (pw_upd _ _ _ Hn) as (A & B & E1 & E2); rewrite E2, aw_upd; rewrite E1, Hm in P; simpl in *;
    first [ exact P | apply perm_push; exact P ]
  end.

Lemma inv_w_step : forall c s l s', foreach c = false -> l <> LCtx ->
  inv_st c s -> inv_fr c s -> inv_q c s -> inv_w c s -> step c s l = Some s' -> inv_w c s'.
Proof.
  intros c s l s' FE NL ST FR IQ (P & R) H.
  pose proof IQ as ((Q0a & Q0b & Q0c & Q0d & Q0e) & (Qg & Qr & Qm) & QM & QF & _).
  unfold inv_w.
  destruct l; simpl in H; try congruence.
  - unf0; rewrite ?FE, ?Q0a, ?Q0b, ?Q0c, ?Q0d in H; brk; rp; ifs; simpl in *; rwg; rwm; simpl in *;
      try discriminate; try contradiction; try congruence; killq Qm;
      (split; [try assumption | try assumption; try (intro X; specialize (R X); intuition (try discriminate; eauto); fail)]).
  - unf0; rewrite ?FE, ?Q0a, ?Q0b, ?Q0c, ?Q0d in H; brk; rp; ifs; simpl in *; rwg; rwm; simpl in *;
      try discriminate; try contradiction; try congruence; killq Qm;
      (split; [try assumption | try assumption; try (intro X; specialize (R X); intuition (try discriminate; eauto); fail)]).
  - unf0; rewrite ?FE, ?Q0a, ?Q0b, ?Q0c, ?Q0d in H; brk; rp; ifs; simpl in *; rwg; rwm; simpl in *;
      try discriminate; try contradiction; try congruence; killq Qm;
      (split; [try assumption | try assumption; try (intro X; specialize (R X); intuition (try discriminate; eauto); fail)]).
    unfold pw, aw. rewrite !flat_map_app. simpl. rewrite !app_nil_r. rewrite app_assoc.
    apply Permutation_app_tail. exact P.
  - unf0; rewrite ?FE, ?Q0a, ?Q0b, ?Q0c, ?Q0d in H; brk; rp; ifs; simpl in *; rwg; rwm; simpl in *;
      try discriminate; try contradiction; try congruence; killq Qm;
      (split; [try assumption | try assumption; try (intro X; specialize (R X); intuition (try discriminate; eauto); fail)]).
    all: try (pwt P; fail).
    + exfalso. unfold guard_open in Heqb. rewrite Q0a in Heqb.
      rewrite (quiet_unfinished c s0 i m FE ST FR IQ Heqo) in Heqb; [discriminate | rewrite Heqp; reflexivity].
    + exfalso. apply andb_true_iff in Heqb. destruct Heqb as (_ & Fi).
      rewrite (quiet_unfinished c s0 i m FE ST FR IQ Heqo) in Fi; [discriminate | rewrite Heqp; reflexivity].
    + intro X. destruct (R X) as ([D | (D1 & D2)] & E); split; auto.
      exfalso. rewrite (quiet_open c s i m FE ST FR Heqo) in D2; [discriminate | rewrite Heqp; reflexivity].
  - unf0; rewrite ?FE, ?Q0a, ?Q0b, ?Q0c, ?Q0d in H; brk; rp; ifs; simpl in *; rwg; rwm; simpl in *;
      try discriminate; try contradiction; try congruence; killq Qm;
      (split; [try assumption | try assumption; try (intro X; specialize (R X); intuition (try discriminate; eauto); fail)]).

Qed.

Lemma inv_w_all : forall c sched, foreach c = false -> quiet_cfg c -> ~ In LCtx sched ->
  inv_w c (run c (init c) sched).
Proof.
  intros c sched FE QC NC.
  assert (inv_st c (run c (init c) sched) /\ inv_fr c (run c (init c) sched)
          /\ inv_q c (run c (init c) sched) /\ inv_w c (run c (init c) sched)) as (_ & _ & _ & H); [|exact H].
  apply (run_inv_noctx c (fun s => inv_st c s /\ inv_fr c s /\ inv_q c s /\ inv_w c s)); auto.
  - intros s l s' NL (A & B & C & D) H. split; [|split; [|split]].
    + eapply inv_st_step; eauto.
    + eapply inv_fr_step; eauto.
    + eapply inv_q_step; eauto.
    + eapply inv_w_step; eauto.
  - split; [|split; [|split]]; [apply inv_st_init | apply inv_fr_init | apply inv_q_init; auto | apply inv_w_init; auto].
Qed.

Lemma pw_fin : forall ms, forallb (fun m => is_fin (mpc m)) ms = true -> pw ms = [].
Proof.
  induction ms as [|a tl IH]; simpl; intros H; auto.
  apply andb_true_iff in H. destruct H as (A & B). unfold pw in *. simpl. rewrite (IH B).
  destruct (mpc a); try discriminate. reflexivity.
Qed.

Lemma aw_items : forall c ms, aw c ms = flat_map (fun x => all_writes (mscript c x)) (map mitem ms).
Proof. intros c ms; induction ms as [|a tl IH]; simpl; auto. unfold aw in *. simpl. rewrite IH. reflexivity. Qed.

Lemma every_write_l : forall c sched, foreach c = false -> quiet_cfg c -> ~ In LCtx sched ->
  let s := run c (init c) sched in
  Permutation (g_written s ++ pw (maps s)) (aw c (maps s))
  /\ (In URecvAll (rscript c) -> g_rdrained s = [])
  /\ (clean s = true -> In URecvAll (rscript c) -> Permutation (g_reduced s) (aw c (maps s))).
Proof.
  intros c sched FE QC NC s.
  destruct (inv_w_all c sched FE QC NC) as (P & R). fold s in P, R.
  split; [exact P|]. split; [intro X; apply (R X)|].
  intros CL X. destruct (R X) as (_ & RD).
  unfold clean in CL. repeat (apply andb_true_iff in CL; destruct CL as (CL & ?)).
  rewrite (pw_fin (maps s)) in P by assumption. rewrite app_nil_r in P.
  destruct (inv_logs_all c sched) as (_ & LW & _). fold s in LW.
  assert (inv_st c s /\ inv_fr c s) as (_ & (A & _)).
  { unfold s. apply (run_inv c (fun s => inv_st c s /\ inv_fr c s)).
    - intros s0 l s' (U & V) K. split; [eapply inv_st_step | eapply inv_fr_step]; eauto.
    - split; [apply inv_st_init | apply inv_fr_init]. }
  destruct (redpc s) eqn:Er; try discriminate. destruct (A eq_refl) as (C0 & _).
  rewrite RD, C0 in LW. simpl in LW. rewrite app_nil_r in LW. rewrite <- LW. exact P.
Qed.
