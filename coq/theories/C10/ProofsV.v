(* C10 — MapReduceVoid (and Finish on top of it): the adapter around the user's void reducer.
   Today's adapter hands the user's reducer no writer and writes nothing itself, so the reducer
   script of a Void call contains no Write ([void_cfg]); after the call it maps ErrReduceNoOutput to
   nil unless a user function called cancel ([void_post]).  The reducer's RETURN is an action of its
   own ([Gate [] -> Epi None]), separate from the close of its pipe and from finish(): it decides
   nothing.  Seeded change C10-11 (the adapter writes a placeholder once the void reducer has
   returned) is refuted in Pinned.v. *)
From Coq Require Import List ZArith Bool Arith Lia.
From GZ Require Import C10.Model C10.Proofs C10.ProofsT C10.ProofsC.
Import ListNotations.

Definition void_cfg (c : config) : Prop := foreach c = false /\ all_writes (rscript c) = [].

(* what MapReduceVoid returns for the outcome of the inner call; [cancelled] = its flag *)
Definition void_post (cancelled : bool) (o : outcome) : outcome :=
  match o with
  | ONoOutput => if cancelled then ONoOutput else OUnit      (* OUnit: nil *)
  | _ => o
  end.

Lemma all_writes_app : forall a b, all_writes (a ++ b) = all_writes a ++ all_writes b.
Proof. induction a as [|x tl IH]; intros b; simpl; [reflexivity|]. destruct x; simpl; rewrite ?IH; reflexivity. Qed.

(* the reducer of a Void call is never inside a Write *)
Lemma void_reducer_never_writes : forall c sched y r,
  void_cfg c -> redpc (run c (init c) sched) <> SendPend y r.
Proof.
  intros c sched y r (_ & W) E.
  destruct (inv_just_all c sched) as (_ & _ & _ & _ & _ & _ & CR & _).
  destruct (CR (UWrite y :: r)) as (pre & P); [rewrite E; reflexivity|].
  rewrite P, all_writes_app in W. simpl in W. destruct (all_writes pre); discriminate W.
Qed.

(* what the call can return: never a value (nothing the reducer does - in particular not its
   return - decides the result), an error only if it is the context error after the context ended
   or was passed to a cancel call *)
Lemma void_result_final_l : forall c sched o,
  void_cfg c ->
  let s := run c (init c) sched in
  result s = Some o ->
  (forall v, o <> OVal v) /\ o <> OUnit
  /\ (forall e, o = OErr e -> (e = ECtx /\ ctx_done s = true) \/ In e (g_cancels s)).
Proof.
  intros c sched o (Fe & W) s R.
  destruct (inv_just_all c sched) as (_ & _ & _ & _ & _ & _ & _ & JM). fold s in JM.
  unfold result in R. destruct (mainpc s); try discriminate. inversion R; subst o0. simpl in JM.
  split; [|split].
  - intros v E. subst o. simpl in JM. clear - JM W.
    induction (rscript c) as [|a tl IH]; [destruct JM|].
    destruct JM as [-> | I]; [simpl in W; discriminate W|].
    apply IH; [|exact I]. destruct a; simpl in W; try exact W. discriminate W.
  - intros E. subst o. simpl in JM. congruence.
  - intros e E. subst o. exact JM.
Qed.

(* the caller's select of a Void call: the output branch is taken only for the CLOSED output; the
   outcome is then ErrReduceNoOutput with nothing cancelled so far - the adapter maps it to nil - or
   the error stored by a cancel call.  So: the cancel error or nil. *)
Lemma void_commit_l : forall c sched b s' o,
  void_cfg c ->
  let s := run c (init c) sched in
  mainpc s = MSelect -> step c s (LMain b) = Some s' -> mainpc s' = MDefer o ->
  finished s = true
  /\ ((o = ONoOutput /\ g_cancels s = [] /\ reterr s = None /\ void_post false o = OUnit)
      \/ (exists e, o = OErr e /\ reterr s = Some e /\ In e (g_cancels s) /\ forall f, void_post f o = OErr e)).
Proof.
  intros c sched b s' o V s M H D. pose proof V as (Fe & W).
  destruct (inv_rc_all c sched) as (A & B). fold s in A, B.
  destruct (inv_just_all c sched) as (J1 & _). fold s in J1.
  simpl in H. unfold main_step in H. rewrite M, Fe in H. destruct b.
  - destruct (ctx_done s); [|discriminate H]. inversion H; subst s'. simpl in D. discriminate D.
  - destruct (recv_panic c s) as [[s1 p]|]; [|discriminate H]. inversion H; subst s'. simpl in D. discriminate D.
  - destruct (out_take s) as [[y s1]|] eqn:OT.
    + exfalso. unfold out_take in OT. destruct (finished s); [discriminate OT|].
      destruct (redpc s) eqn:R; try discriminate OT.
      eapply (void_reducer_never_writes c sched); [exact V | exact R].
    + destruct (finished s) eqn:F; [|discriminate H]. inversion H; subst s'. simpl in D. inversion D as [D1].
      split; [reflexivity|]. unfold out_result. destruct (reterr s) as [e|] eqn:R.
      * right. exists e. repeat split; auto.
      * left. repeat split; auto. destruct (B eq_refl) as [E | (_ & X)]; [exact E | congruence].
Qed.
