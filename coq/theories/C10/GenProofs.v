(* C10 — obligations on the values regenerated from core/mr/mapreduce.go at every run
   (coq/gen/C10Consts.v, written by tools/props/c10.py): the side conditions of the theorems
   hold for the configurations that Check.cfg_of builds from today's source. *)
From Coq Require Import List ZArith Bool Arith Lia.
From GZgen Require Import C10Consts.
From GZ Require Import C10.Model C10.Check C10.Proofs C10.ProofsT.
Import ListNotations.
Local Open Scope nat_scope.

(* the three shape flags describe one of the two protocols the model knows: either finish()
   closes output and Write sends unguarded (the code with finding F13), or output is never
   closed, Write selects on done, and the caller's selects take <-done.  A half-applied change
   (e.g. output not closed any more but a bare send in Write: the reducer would block for ever)
   breaks this obligation. *)
Lemma output_protocol_consistent :
  gen_writeSelectsDone = negb gen_finishClosesOutput /\ gen_callerSelectsDone = negb gen_finishClosesOutput.
Proof. split; reflexivity. Qed.

(* WithWorkers clamps to at least one worker: the hypothesis [1 <= workers c] of terminal_clean
   holds for every case *)
Lemma min_workers_positive : 1 <= gen_minWorkers.
Proof. vm_compute. lia. Qed.

Lemma cfg_of_workers : forall k, 1 <= workers (cfg_of k).
Proof.
  intros k. unfold cfg_of, eff_workers. cbn [workers]. pose proof min_workers_positive as M.
  pose proof (Nat.le_max_l gen_minWorkers (cworkers k)). lia.
Qed.

Lemma default_workers_positive : 1 <= gen_defaultWorkers.
Proof. vm_compute. lia. Qed.

(* deadlock- and leak-freedom for exactly the configurations the correspondence run uses
   (today's output protocol, clamped workers), for every schedule *)
Lemma terminal_clean_today : forall k sched,
  length (all_writes (cred k)) <= 2 ->
  let c := cfg_of k in
  let s := run c (init c) sched in
  stuck c s = true -> clean s = true.
Proof.
  intros k sched H2 c s K. apply (terminal_clean_l c sched); auto.
  apply cfg_of_workers.
Qed.

(* finding F29 (fixed in /repo 65e1133): MapReduceVoid / Finish map ErrReduceNoOutput to nil only when
   nobody cancelled; an error that is ErrReduceNoOutput and was passed to cancel (e.g. returned by a
   nested MapReduce inside a Finish function) is returned.  If MapReduceVoid goes back to
   errors.Is on every result, this obligation breaks (and the correspondence run shows the nil). *)
Lemma void_keeps_cancelled_error : gen_voidSwallowsCancelledNoOutput = false.
Proof. reflexivity. Qed.

Lemma void_result_is_cancel_error : forall k, post_result AVoid (OErr (ECancel k)) = OErr (ECancel k)
                                           /\ post_result AFinish (OErr (ECancel k)) = OErr (ECancel k).
Proof. intros k. unfold post_result. rewrite void_keeps_cancelled_error. split; reflexivity. Qed.
