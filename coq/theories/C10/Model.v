(* C10 — MapReduce (core/mr/mapreduce.go): executable model, no proofs.

   A process network as a labelled transition system.  Threads:
     Main   the caller inside mapReduceWithPanicChan / ForEach (select, deferred
            wait-for-output loop, deferred close of panicChan.quit)
     Gen    the goroutine of buildSource: generate(source); recover -> panicChan.write;
            close(source)
     Exec   executeMappers: loop {select ctx.Done / done / pool slot -> receive from
            source -> wg.Add, spawn}; exit path: wg.Wait; close(collector); drain(source)
     Map i  the i-th spawned mapper goroutine: mapper(item, writer [,cancel]);
            recover -> failed++, panicChan.write; wg.Done; <-pool
     Red    the reducer goroutine: reducer(collector, writer, cancel);
            drain(collector); recover -> panicChan.write; finish()
     Ctx    the environment: the context ends.
   User functions are scripts of actions ([uact]); a user function that stalls is a
   thread that the schedule does not pick.  A schedule is a [list label]; a label
   names the thread that performs its next atomic step and, for the two real
   [select] statements with several ready cases, which case is taken.

   Channels: a send on an unbuffered channel is "arrive" (sender -> [SendPend]) and
   the receiver's step completes both sides; this over-approximates Go (it also
   contains the executions in which the receiver had not yet reached its receive).
   source: unbuffered; collector: buffered, capacity = workers; output: unbuffered,
   closed together with done by finish(); panicChan: unbuffered rendezvous.

   [variant] selects the panicChan protocol:
     VFixed     the code after the F4 repair: write = select {channel<-v | <-quit};
                quit closed when Main returns and before Main calls cancel on the
                ctx branch; the deferred wait-for-output loop also receives panics.
     VPinned    the code as pinned: write = channel<-v, deferred loop = range output.
     VBuffered  VPinned with make(chan any, 1) (the rejected repair).

   [safe_out] selects the output protocol: false = finish() closes done and output and
   guardedWriter.Write sends unguarded after its check (a reducer blocked in the send is
   woken by the close with the runtime's "send on closed channel": finding F13); true =
   output is never closed, Write = check; select {channel <- v | <-done} (the blocked
   writer - reducer or a mapper on the full collector - is woken by close(done) and the
   value is dropped), the caller's selects take <-done where they took the closed output.

   Granularity assumptions (validated by the correspondence run and the -race
   free run): recover + failed++ + CompareAndSwap(wrote) is one step; the guard
   check of guardedWriter.Write happens in the step that starts the Write (for
   safe_out a writer that arrives after the check with done closing before its select
   is treated as woken by done: done has priority over a free collector slot);
   close(done);close(output) is one step. *)
From Coq Require Import List ZArith Bool Arith.
Import ListNotations.

Inductive variant := VFixed | VPinned | VBuffered.

Inductive pval :=
| PUser (k : Z)     (* panic(k) raised by a user function *)
| PClosed           (* runtime: send on closed channel (reducer's Write raced with finish) *)
| PMulti.           (* "more than one element written in reducer" *)

Inductive err := ECancel (k : Z) | ECancelNil | ECtx.

Inductive outcome :=
| OVal (v : Z)      (* (v, nil) *)
| ONoOutput         (* ErrReduceNoOutput *)
| OErr (e : err)
| OPanic (p : pval)
| OUnit.            (* ForEach returned *)

Inductive uact :=
| USend (x : Z)             (* generator: source <- x *)
| UWrite (y : Z)            (* mapper / reducer: writer.Write(y) *)
| UCancel (e : option Z)    (* mapper / reducer: cancel(err) ; None = cancel(nil) *)
| UPanic (k : Z)
| URecv                     (* reducer: one receive from the pipe *)
| URecvAll.                 (* reducer: for range pipe *)

(* control state of a thread that runs a user function and then its wrapper *)
Inductive pc :=
| Gate (rest : list uact)                    (* in user code, before the next action; [] = returns *)
| SendPend (y : Z) (rest : list uact)        (* blocked in a channel send *)
| CancelPend (e : option Z) (rest : list uact) (* at cancel's sync.Once *)
| Draining (rest : list uact)                (* inside cancel: drain(source); finish() *)
| RecvPend (all : bool) (rest : list uact)   (* reducer blocked in a receive from the pipe *)
| Epi (p : option pval)                      (* user function left; first wrapper step *)
| PanicPend (p : pval)                       (* blocked in panicChan.write *)
| Epi2
| Epi3
| Fin.

Inductive mstate :=
| MSelect
| MCancelPend            (* ctx branch: at cancel's once *)
| MDraining              (* ctx branch: inside cancel *)
| MDrainOut (p : pval)   (* received a panic: drain(output), then re-panic *)
| MDefer (o : outcome)   (* deferred wait for close(output) *)
| MQuit (o : outcome)    (* deferred panicChan.close() *)
| MFin (o : outcome).

Inductive epc := ELoop | ESelect | ERecv | EWait | EClose | EDrain | EFin.

Inductive cst := CNone | CBusy | CDone.

Inductive branch := BCtx | BPanic | BOut.

Inductive label :=
| LCtx
| LMain (b : branch)
| LGen
| LExec (quitb : bool)    (* at the select of executeMappers: true = ctx.Done/done case *)
| LMap (i : nat)
| LRed.

Record config := mkCfg
  { variant_of : variant;
    foreach : bool;            (* ForEach / FinishVoid: no reducer, no cancel, no writer *)
    workers : nat;
    gscript : list uact;
    mscript : Z -> list uact;
    rscript : list uact;
    safe_out : bool }.         (* the F13 repair: [output] is never closed and guardedWriter.Write is
                                  select { channel <- v | <-done } after its guard (false = the code
                                  with finish() = close(done); close(output) and a bare send) *)

Record mapper := mkMapper { mitem : Z; mpc : pc }.

Record state := mkState
  { ctx_done : bool;
    src_closed : bool;
    coll : list Z;
    coll_closed : bool;
    finished : bool;           (* done and output are closed *)
    cstate : cst;
    reterr : option err;
    wrote : bool;
    quit : bool;
    pbuf : option pval;        (* VBuffered only *)
    failed : bool;
    pool : nat;
    wg : nat;
    mainpc : mstate;
    genpc : pc;
    execpc : epc;
    maps : list mapper;
    redpc : pc;
    (* ghost history *)
    g_sent : list Z;           (* items whose send on source completed *)
    g_drained : list Z;        (* items received by a drain(source) *)
    g_written : list Z;        (* values accepted by the collector *)
    g_reduced : list Z;        (* values received by the reducer function *)
    g_rdrained : list Z;       (* values received by the wrapper's drain(collector) *)
    g_peak : nat;              (* max number of mapper functions running at once *)
    g_cancels : list err;      (* the error of every cancel call that entered the once body
                                  (ErrCancelWithNil for nil); ECtx when Main took the ctx branch *)
    g_panics : list pval }.    (* every panic raised in a user function *)

Definition init (c : config) : state :=
  mkState false false [] false false CNone None false false None false 0 0
          MSelect (Gate (gscript c)) ELoop []
          (if foreach c then Fin else Gate (rscript c))
          [] [] [] [] [] 0 [] [].

(* ---- setters (record update helpers) ---- *)
Definition set_main (s : state) (m : mstate) : state :=
  mkState (ctx_done s) (src_closed s) (coll s) (coll_closed s) (finished s) (cstate s) (reterr s)
          (wrote s) (quit s) (pbuf s) (failed s) (pool s) (wg s) m (genpc s) (execpc s) (maps s) (redpc s)
          (g_sent s) (g_drained s) (g_written s) (g_reduced s) (g_rdrained s) (g_peak s) (g_cancels s) (g_panics s).
Definition set_gen (s : state) (p : pc) : state :=
  mkState (ctx_done s) (src_closed s) (coll s) (coll_closed s) (finished s) (cstate s) (reterr s)
          (wrote s) (quit s) (pbuf s) (failed s) (pool s) (wg s) (mainpc s) p (execpc s) (maps s) (redpc s)
          (g_sent s) (g_drained s) (g_written s) (g_reduced s) (g_rdrained s) (g_peak s) (g_cancels s) (g_panics s).
Definition set_exec (s : state) (e : epc) : state :=
  mkState (ctx_done s) (src_closed s) (coll s) (coll_closed s) (finished s) (cstate s) (reterr s)
          (wrote s) (quit s) (pbuf s) (failed s) (pool s) (wg s) (mainpc s) (genpc s) e (maps s) (redpc s)
          (g_sent s) (g_drained s) (g_written s) (g_reduced s) (g_rdrained s) (g_peak s) (g_cancels s) (g_panics s).
Definition set_maps (s : state) (ms : list mapper) : state :=
  mkState (ctx_done s) (src_closed s) (coll s) (coll_closed s) (finished s) (cstate s) (reterr s)
          (wrote s) (quit s) (pbuf s) (failed s) (pool s) (wg s) (mainpc s) (genpc s) (execpc s) ms (redpc s)
          (g_sent s) (g_drained s) (g_written s) (g_reduced s) (g_rdrained s) (g_peak s) (g_cancels s) (g_panics s).
Definition set_red (s : state) (p : pc) : state :=
  mkState (ctx_done s) (src_closed s) (coll s) (coll_closed s) (finished s) (cstate s) (reterr s)
          (wrote s) (quit s) (pbuf s) (failed s) (pool s) (wg s) (mainpc s) (genpc s) (execpc s) (maps s) p
          (g_sent s) (g_drained s) (g_written s) (g_reduced s) (g_rdrained s) (g_peak s) (g_cancels s) (g_panics s).
Definition set_ctx (s : state) : state :=
  mkState true (src_closed s) (coll s) (coll_closed s) (finished s) (cstate s) (reterr s)
          (wrote s) (quit s) (pbuf s) (failed s) (pool s) (wg s) (mainpc s) (genpc s) (execpc s) (maps s) (redpc s)
          (g_sent s) (g_drained s) (g_written s) (g_reduced s) (g_rdrained s) (g_peak s) (g_cancels s) (g_panics s).
Definition set_srcclosed (s : state) : state :=
  mkState (ctx_done s) true (coll s) (coll_closed s) (finished s) (cstate s) (reterr s)
          (wrote s) (quit s) (pbuf s) (failed s) (pool s) (wg s) (mainpc s) (genpc s) (execpc s) (maps s) (redpc s)
          (g_sent s) (g_drained s) (g_written s) (g_reduced s) (g_rdrained s) (g_peak s) (g_cancels s) (g_panics s).
Definition set_collclosed (s : state) : state :=
  mkState (ctx_done s) (src_closed s) (coll s) true (finished s) (cstate s) (reterr s)
          (wrote s) (quit s) (pbuf s) (failed s) (pool s) (wg s) (mainpc s) (genpc s) (execpc s) (maps s) (redpc s)
          (g_sent s) (g_drained s) (g_written s) (g_reduced s) (g_rdrained s) (g_peak s) (g_cancels s) (g_panics s).
(* collector: push (a mapper's Write is accepted) *)
Definition coll_push (s : state) (y : Z) : state :=
  mkState (ctx_done s) (src_closed s) (coll s ++ [y]) (coll_closed s) (finished s) (cstate s) (reterr s)
          (wrote s) (quit s) (pbuf s) (failed s) (pool s) (wg s) (mainpc s) (genpc s) (execpc s) (maps s) (redpc s)
          (g_sent s) (g_drained s) (g_written s ++ [y]) (g_reduced s) (g_rdrained s) (g_peak s) (g_cancels s) (g_panics s).
(* collector: pop by the reducer function ([user]=true) or by the wrapper's drain *)
Definition coll_pop (s : state) (user : bool) (v : Z) (tl : list Z) : state :=
  mkState (ctx_done s) (src_closed s) tl (coll_closed s) (finished s) (cstate s) (reterr s)
          (wrote s) (quit s) (pbuf s) (failed s) (pool s) (wg s) (mainpc s) (genpc s) (execpc s) (maps s) (redpc s)
          (g_sent s) (g_drained s) (g_written s)
          (if user then g_reduced s ++ [v] else g_reduced s)
          (if user then g_rdrained s else g_rdrained s ++ [v])
          (g_peak s) (g_cancels s) (g_panics s).
(* finish(): close(done); close(output) *)
Definition set_finished (s : state) : state :=
  mkState (ctx_done s) (src_closed s) (coll s) (coll_closed s) true (cstate s) (reterr s)
          (wrote s) (quit s) (pbuf s) (failed s) (pool s) (wg s) (mainpc s) (genpc s) (execpc s) (maps s) (redpc s)
          (g_sent s) (g_drained s) (g_written s) (g_reduced s) (g_rdrained s) (g_peak s) (g_cancels s) (g_panics s).
Definition set_cancel (s : state) (cs : cst) (re : option err) : state :=
  mkState (ctx_done s) (src_closed s) (coll s) (coll_closed s) (finished s) cs re
          (wrote s) (quit s) (pbuf s) (failed s) (pool s) (wg s) (mainpc s) (genpc s) (execpc s) (maps s) (redpc s)
          (g_sent s) (g_drained s) (g_written s) (g_reduced s) (g_rdrained s) (g_peak s) (g_cancels s) (g_panics s).
Definition log_cancel (s : state) (e : err) : state :=
  mkState (ctx_done s) (src_closed s) (coll s) (coll_closed s) (finished s) (cstate s) (reterr s)
          (wrote s) (quit s) (pbuf s) (failed s) (pool s) (wg s) (mainpc s) (genpc s) (execpc s) (maps s) (redpc s)
          (g_sent s) (g_drained s) (g_written s) (g_reduced s) (g_rdrained s) (g_peak s) (g_cancels s ++ [e]) (g_panics s).
Definition log_panic (s : state) (p : pval) : state :=
  mkState (ctx_done s) (src_closed s) (coll s) (coll_closed s) (finished s) (cstate s) (reterr s)
          (wrote s) (quit s) (pbuf s) (failed s) (pool s) (wg s) (mainpc s) (genpc s) (execpc s) (maps s) (redpc s)
          (g_sent s) (g_drained s) (g_written s) (g_reduced s) (g_rdrained s) (g_peak s) (g_cancels s) (g_panics s ++ [p]).
Definition set_pchan (s : state) (w q : bool) (b : option pval) : state :=
  mkState (ctx_done s) (src_closed s) (coll s) (coll_closed s) (finished s) (cstate s) (reterr s)
          w q b (failed s) (pool s) (wg s) (mainpc s) (genpc s) (execpc s) (maps s) (redpc s)
          (g_sent s) (g_drained s) (g_written s) (g_reduced s) (g_rdrained s) (g_peak s) (g_cancels s) (g_panics s).
Definition set_failed (s : state) : state :=
  mkState (ctx_done s) (src_closed s) (coll s) (coll_closed s) (finished s) (cstate s) (reterr s)
          (wrote s) (quit s) (pbuf s) true (pool s) (wg s) (mainpc s) (genpc s) (execpc s) (maps s) (redpc s)
          (g_sent s) (g_drained s) (g_written s) (g_reduced s) (g_rdrained s) (g_peak s) (g_cancels s) (g_panics s).
Definition set_pool (s : state) (n : nat) : state :=
  mkState (ctx_done s) (src_closed s) (coll s) (coll_closed s) (finished s) (cstate s) (reterr s)
          (wrote s) (quit s) (pbuf s) (failed s) n (wg s) (mainpc s) (genpc s) (execpc s) (maps s) (redpc s)
          (g_sent s) (g_drained s) (g_written s) (g_reduced s) (g_rdrained s) (g_peak s) (g_cancels s) (g_panics s).
Definition set_wg (s : state) (n : nat) : state :=
  mkState (ctx_done s) (src_closed s) (coll s) (coll_closed s) (finished s) (cstate s) (reterr s)
          (wrote s) (quit s) (pbuf s) (failed s) (pool s) n (mainpc s) (genpc s) (execpc s) (maps s) (redpc s)
          (g_sent s) (g_drained s) (g_written s) (g_reduced s) (g_rdrained s) (g_peak s) (g_cancels s) (g_panics s).
(* an item leaves the source: received by a drain ([todrain]) or by executeMappers *)
Definition log_item (s : state) (x : Z) (todrain : bool) : state :=
  mkState (ctx_done s) (src_closed s) (coll s) (coll_closed s) (finished s) (cstate s) (reterr s)
          (wrote s) (quit s) (pbuf s) (failed s) (pool s) (wg s) (mainpc s) (genpc s) (execpc s) (maps s) (redpc s)
          (g_sent s ++ [x]) (if todrain then g_drained s ++ [x] else g_drained s)
          (g_written s) (g_reduced s) (g_rdrained s) (g_peak s) (g_cancels s) (g_panics s).
Definition set_peak (s : state) (n : nat) : state :=
  mkState (ctx_done s) (src_closed s) (coll s) (coll_closed s) (finished s) (cstate s) (reterr s)
          (wrote s) (quit s) (pbuf s) (failed s) (pool s) (wg s) (mainpc s) (genpc s) (execpc s) (maps s) (redpc s)
          (g_sent s) (g_drained s) (g_written s) (g_reduced s) (g_rdrained s) n (g_cancels s) (g_panics s).

(* ---- helpers ---- *)
Definition in_user (p : pc) : bool :=
  match p with
  | Gate _ | SendPend _ _ | CancelPend _ _ | Draining _ | RecvPend _ _ => true
  | _ => false
  end.

Definition running (ms : list mapper) : nat := length (filter (fun m => in_user (mpc m)) ms).

Definition is_fin (p : pc) : bool := match p with Fin => true | _ => false end.

Definition err_of (e : option Z) : err :=
  match e with Some k => ECancel k | None => ECancelNil end.

Fixpoint upd_nth (i : nat) (p : pc) (ms : list mapper) : list mapper :=
  match ms, i with
  | [], _ => []
  | m :: tl, O => mkMapper (mitem m) p :: tl
  | m :: tl, S j => m :: upd_nth j p tl
  end.

(* panicChan.write(p) by a thread that continues at [Epi2]: (state, next pc) *)
Definition pwrite (c : config) (s : state) (p : pval) : state * pc :=
  if wrote s then (s, Epi2)
  else match variant_of c with
       | VBuffered => (set_pchan s true (quit s) (Some p), Epi2)
       | _ => (set_pchan s true (quit s) (pbuf s), PanicPend p)
       end.

(* the writer blocked in panicChan.write, if any (at most one: wrote is a once flag) *)
Inductive who := WGen | WMap (i : nat) | WRed.

Fixpoint find_pend (i : nat) (ms : list mapper) : option (nat * pval) :=
  match ms with
  | [] => None
  | m :: tl => match mpc m with
               | PanicPend p => Some (i, p)
               | _ => find_pend (S i) tl
               end
  end.

Definition pending_panic (s : state) : option (who * pval) :=
  match genpc s with
  | PanicPend p => Some (WGen, p)
  | _ => match redpc s with
         | PanicPend p => Some (WRed, p)
         | _ => match find_pend 0 (maps s) with
                | Some (i, p) => Some (WMap i, p)
                | None => None
                end
         end
  end.

Definition release_writer (s : state) (w : who) : state :=
  match w with
  | WGen => set_gen s Epi2
  | WRed => set_red s Epi2
  | WMap i => set_maps s (upd_nth i Epi2 (maps s))
  end.

(* Main receives from panicChan.channel *)
Definition recv_panic (c : config) (s : state) : option (state * pval) :=
  match variant_of c with
  | VBuffered => match pbuf s with
                 | Some p => Some (set_pchan s (wrote s) (quit s) None, p)
                 | None => None
                 end
  | _ => match pending_panic s with
         | Some (w, p) => Some (release_writer s w, p)
         | None => None
         end
  end.

(* a receive from source by a drain or by executeMappers: the pending generator send *)
Definition src_take (s : state) : option (Z * state) :=
  match genpc s with
  | SendPend x r => Some (x, set_gen s (Gate r))
  | _ => None
  end.

(* one step of the body of cancel (drain(source); finish()); [None] = blocked,
   [Some (s, true)] = cancel returned *)
Definition drain_step (s : state) : option (state * bool) :=
  match src_take s with
  | Some (x, s1) => Some (log_item s1 x true, false)
  | None => if src_closed s then Some (set_cancel (set_finished s) CDone (reterr s), true)
            else None
  end.

(* guardedWriter.Write's guard *)
Definition guard_open (s : state) : bool := negb (ctx_done s) && negb (finished s).

(* ---- user threads: the part common to generator, mapper and reducer ---- *)
Inductive role := RGen | RMap | RRed.

(* the step of a user thread in control state [p]; returns the new state (its own pc
   not yet stored) and the new pc *)
Definition user_step (c : config) (r : role) (s : state) (p : pc) : option (state * pc) :=
  match p with
  | Gate [] => Some (s, Epi None)
  | Gate (a :: rest) =>
    match a, r with
    | UPanic k, _ => Some (log_panic s (PUser k), Epi (Some (PUser k)))
    | USend x, RGen => Some (s, SendPend x rest)
    | UWrite y, RMap | UWrite y, RRed =>
      if foreach c then Some (s, Gate rest)
      else if guard_open s then Some (s, SendPend y rest) else Some (s, Gate rest)
    | UCancel e, RMap | UCancel e, RRed =>
      if foreach c then Some (s, Gate rest)
      else Some (s, CancelPend e rest)
    | URecv, RRed => Some (s, RecvPend false rest)
    | URecvAll, RRed => Some (s, RecvPend true rest)
    | _, _ => Some (s, Gate rest)          (* action not available to this role: skipped *)
    end
  | SendPend y rest =>
    match r with
    | RGen => None                                     (* completed by the receiver *)
    | RMap => if safe_out c && finished s then Some (s, Gate rest)   (* woken by close(done): value dropped *)
              else if length (coll s) <? workers c then Some (coll_push s y, Gate rest) else None
    | RRed => if finished s
              then (if safe_out c then Some (s, Gate rest)           (* woken by close(done): value dropped *)
                    else Some (s, Epi (Some PClosed)))               (* woken by close(output): runtime panic *)
              else None
    end
  | CancelPend e rest =>
    match cstate s with
    | CNone => Some (set_cancel (log_cancel s (err_of e)) CBusy (Some (err_of e)), Draining rest)
    | CBusy => None
    | CDone => Some (s, Gate rest)
    end
  | Draining rest =>
    match drain_step s with
    | Some (s1, true) => Some (s1, Gate rest)
    | Some (s1, false) => Some (s1, Draining rest)
    | None => None
    end
  | RecvPend all rest =>
    match r with
    | RRed =>
      match coll s with
      | v :: tl => Some (coll_pop s true v tl, if all then RecvPend true rest else Gate rest)
      | [] => if coll_closed s then Some (s, Gate rest) else None
      end
    | _ => None
    end
  | PanicPend _ =>
    match variant_of c with
    | VFixed => if quit s then Some (s, Epi2) else None
    | _ => None
    end
  | _ => None
  end.

Definition gen_step (c : config) (s : state) : option state :=
  match genpc s with
  | Epi None => Some (set_gen s Epi2)
  | Epi (Some p) => let '(s1, q) := pwrite c s p in Some (set_gen s1 q)
  | Epi2 => Some (set_gen (set_srcclosed s) Fin)
  | Epi3 | Fin => None
  | p => match user_step c RGen s p with
         | Some (s1, q) => Some (set_gen s1 q)
         | None => None
         end
  end.

Definition map_step (c : config) (s : state) (i : nat) : option state :=
  match nth_error (maps s) i with
  | None => None
  | Some m =>
    match mpc m with
    | Epi None => Some (set_maps s (upd_nth i Epi2 (maps s)))
    | Epi (Some p) =>
      let '(s1, q) := pwrite c (set_failed s) p in Some (set_maps s1 (upd_nth i q (maps s1)))
    | Epi2 => Some (set_maps (set_wg s (pred (wg s))) (upd_nth i Epi3 (maps s)))
    | Epi3 => Some (set_maps (set_pool s (pred (pool s))) (upd_nth i Fin (maps s)))
    | Fin => None
    | p => match user_step c RMap s p with
           | Some (s1, q) => Some (set_maps s1 (upd_nth i q (maps s1)))
           | None => None
           end
    end
  end.

Definition red_step (c : config) (s : state) : option state :=
  match redpc s with
  | Epi p =>
    (* drain(collector), then the recovered panic is written *)
    match coll s with
    | v :: tl => Some (coll_pop s false v tl)
    | [] => if coll_closed s then
              match p with
              | None => Some (set_red s Epi2)
              | Some v => let '(s1, q) := pwrite c s v in Some (set_red s1 q)
              end
            else None
    end
  | Epi2 => Some (set_red (set_finished s) Fin)
  | Epi3 | Fin => None
  | p => match user_step c RRed s p with
         | Some (s1, q) => Some (set_red s1 q)
         | None => None
         end
  end.

Definition exec_step (c : config) (s : state) (quitb : bool) : option state :=
  match execpc s with
  | ELoop => Some (set_exec s (if failed s then EWait else ESelect))
  | ESelect =>
    if quitb then
      (if ctx_done s || finished s then Some (set_exec s EWait) else None)
    else if pool s <? workers c then Some (set_exec (set_pool s (S (pool s))) ERecv)
    else None
  | ERecv =>
    match src_take s with
    | Some (x, s1) =>
      let s2 := log_item s1 x false in
      let ms := maps s2 ++ [mkMapper x (Gate (mscript c x))] in
      let s3 := set_wg (set_maps s2 ms) (S (wg s2)) in
      Some (set_exec (set_peak s3 (Nat.max (g_peak s3) (running ms))) ELoop)
    | None => if src_closed s then Some (set_exec (set_pool s (pred (pool s))) EWait) else None
    end
  | EWait => if wg s =? 0 then Some (set_exec s EClose) else None
  | EClose => Some (set_exec (set_collclosed s) EDrain)
  | EDrain =>
    match src_take s with
    | Some (x, s1) => Some (log_item s1 x true)
    | None => if src_closed s then Some (set_exec s EFin) else None
    end
  | EFin => None
  end.

(* what Main returns on the output branch *)
Definition out_result (s : state) (v : option Z) : outcome :=
  match reterr s with
  | Some e => OErr e
  | None => match v with Some y => OVal y | None => ONoOutput end
  end.

(* a pending send of the reducer on output (only while output is open) *)
Definition out_take (s : state) : option (Z * state) :=
  if finished s then None      (* close(output) wakes a blocked sender with a panic *)
  else match redpc s with
       | SendPend y r => Some (y, set_red s (Gate r))
       | _ => None
       end.

Definition fixedb (c : config) : bool :=
  match variant_of c with VFixed => true | _ => false end.

Definition main_step (c : config) (s : state) (b : branch) : option state :=
  match mainpc s with
  | MSelect =>
    if foreach c then
      match b with
      | BPanic => match recv_panic c s with
                  | Some (s1, p) => Some (set_main s1 (MQuit (OPanic p)))
                  | None => None
                  end
      | BOut => if coll_closed s then Some (set_main s (MQuit OUnit)) else None
      | BCtx => None
      end
    else
      match b with
      | BCtx => if ctx_done s then
                  let s1 := if fixedb c then set_pchan s (wrote s) true (pbuf s) else s in
                  Some (set_main (log_cancel s1 ECtx) MCancelPend)
                else None
      | BPanic => match recv_panic c s with
                  | Some (s1, p) => Some (set_main s1 (MDrainOut p))
                  | None => None
                  end
      | BOut => match out_take s with
                | Some (y, s1) => Some (set_main s1 (MDefer (out_result s (Some y))))
                | None => if finished s then Some (set_main s (MDefer (out_result s None))) else None
                end
      end
  | MCancelPend =>
    match cstate s with
    | CNone => Some (set_main (set_cancel s CBusy (Some ECtx)) MDraining)
    | CBusy => None
    | CDone => Some (set_main s (MDefer (OErr ECtx)))
    end
  | MDraining =>
    match drain_step s with
    | Some (s1, true) => Some (set_main s1 (MDefer (OErr ECtx)))
    | Some (s1, false) => Some s1
    | None => None
    end
  | MDrainOut p =>
    match out_take s with
    | Some (_, s1) => Some s1
    | None => if finished s then Some (set_main s (MQuit (OPanic p))) else None
    end
  | MDefer o =>
    match b with
    | BPanic => if fixedb c then
                  match recv_panic c s with
                  | Some (s1, p) => Some (set_main s1 (MDrainOut p))
                  | None => None
                  end
                else None
    | _ => match out_take s with
           | Some (_, s1) => Some (set_main s1 (MQuit (OPanic PMulti)))
           | None => if finished s then Some (set_main s (MQuit o)) else None
           end
    end
  | MQuit o =>
    Some (set_main (if fixedb c then set_pchan s (wrote s) true (pbuf s) else s) (MFin o))
  | MFin _ => None
  end.

Definition step (c : config) (s : state) (l : label) : option state :=
  match l with
  | LCtx => if ctx_done s then None else Some (set_ctx s)
  | LMain b => main_step c s b
  | LGen => gen_step c s
  | LExec q => exec_step c s q
  | LMap i => map_step c s i
  | LRed => red_step c s
  end.

(* a schedule: labels that are not enabled are skipped (the thread was not runnable) *)
Fixpoint run (c : config) (s : state) (sched : list label) : state :=
  match sched with
  | [] => s
  | l :: tl => match step c s l with
               | Some s1 => run c s1 tl
               | None => run c s tl
               end
  end.

Definition result (s : state) : option outcome :=
  match mainpc s with MFin o => Some o | _ => None end.

(* every goroutine started by the call has ended and the call has returned *)
Definition clean (s : state) : bool :=
  match mainpc s with MFin _ => true | _ => false end
  && is_fin (genpc s)
  && match execpc s with EFin => true | _ => false end
  && forallb (fun m => is_fin (mpc m)) (maps s)
  && is_fin (redpc s).

(* all labels that can matter in state s (the two selects with their cases) *)
Definition labels (s : state) : list label :=
  [LMain BCtx; LMain BPanic; LMain BOut; LGen; LExec true; LExec false; LRed]
  ++ map LMap (seq 0 (length (maps s))).

(* no thread can move (the context event is the environment's, not a thread) *)
Definition stuck (c : config) (s : state) : bool :=
  forallb (fun l => match step c s l with None => true | Some _ => false end) (labels s).

(* the items a generator script sends / the values a script writes, in order *)
Fixpoint all_sends (l : list uact) : list Z :=
  match l with USend x :: tl => x :: all_sends tl | _ :: tl => all_sends tl | [] => [] end.
Fixpoint all_writes (l : list uact) : list Z :=
  match l with UWrite y :: tl => y :: all_writes tl | _ :: tl => all_writes tl | [] => [] end.
