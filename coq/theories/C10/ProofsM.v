(* C10 — a termination measure for the MapReduce LTS: every step of every thread (and the
   context event) strictly decreases it.  Consequences, for every configuration (any scripts, any
   variant): the number of steps a schedule executes is bounded by the measure of the initial
   state (every run is finite), every state can be completed to a terminal state (no thread can
   move), and every infinite schedule that keeps offering every thread label reaches a terminal
   state after finitely many labels.  With ProofsT.terminal_clean_l the terminal state is clean. *)
From Coq Require Import List ZArith Bool Arith Lia.
From GZ Require Import C10.Model C10.Proofs C10.ProofsT.
Import ListNotations.

(* ---------- weights ---------- *)
(* an action of a mapper / reducer script: a Write is "arrive" + "complete" (which also adds one
   buffered value), a cancel is "reach the once" + "enter" + "return" *)
Definition wa (a : uact) : nat :=
  match a with UWrite _ | UCancel _ => 3 | URecv | URecvAll => 2 | _ => 1 end.
Fixpoint ws (l : list uact) : nat := match l with [] => 0 | a :: tl => wa a + ws tl end.

(* control states; [sendw] = what is still to be paid when a pending send completes *)
Definition pcw (sendw : Z -> nat) (W : list uact -> nat) (p : pc) : nat :=
  match p with
  | Gate r => W r + 6
  | SendPend y r => sendw y + W r + 6
  | CancelPend _ r => 2 + W r + 6
  | Draining r => 1 + W r + 6
  | RecvPend _ r => 1 + W r + 6
  | Epi _ => 5
  | PanicPend _ => 4
  | Epi2 => 3
  | Epi3 => 2
  | Fin => 0
  end.

Definition usrw (p : pc) : nat := pcw (fun _ => 2) ws p.

(* a send of the generator pays for the mapper invocation it may create and for one more turn of
   the loop of executeMappers *)
Definition mw (c : config) (x : Z) : nat := ws (mscript c x) + 6.
Definition wga (c : config) (a : uact) : nat :=
  match a with USend x => mw c x + 8 | _ => wa a end.
Fixpoint wsg (c : config) (l : list uact) : nat := match l with [] => 0 | a :: tl => wga c a + wsg c tl end.
Definition genw (c : config) (p : pc) : nat := pcw (fun x => mw c x + 7) (wsg c) p.

Definition execw (e : epc) : nat :=
  match e with ELoop => 7 | ESelect => 6 | ERecv => 5 | EWait => 3 | EClose => 2 | EDrain => 1 | EFin => 0 end.
Definition mainw (m : mstate) : nat :=
  match m with
  | MSelect => 6 | MCancelPend => 5 | MDraining => 4 | MDefer _ => 3 | MDrainOut _ => 2 | MQuit _ => 1 | MFin _ => 0
  end.
Definition sumw (ms : list mapper) : nat := fold_right (fun m n => usrw (mpc m) + n) 0 ms.

Definition measure (c : config) (s : state) : nat :=
  mainw (mainpc s) + genw c (genpc s) + execw (execpc s) + sumw (maps s) + usrw (redpc s)
  + length (coll s) + (if ctx_done s then 0 else 1).

Lemma sumw_upd : forall i q ms m, nth_error ms i = Some m ->
  sumw (upd_nth i q ms) + usrw (mpc m) = sumw ms + usrw q.
Proof.
  intros i q ms; revert i; induction ms as [|a tl IH]; intros i m H; destruct i; simpl in *; try discriminate.
  - inversion H; subst. lia.
  - specialize (IH _ _ H). lia.
Qed.

Lemma sumw_app1 : forall ms m, sumw (ms ++ [m]) = sumw ms + usrw (mpc m).
Proof. induction ms as [|a tl IH]; intros m; simpl; [lia | rewrite IH; lia]. Qed.

Ltac sumu :=
  repeat match goal with
  | Hn : nth_error (maps ?s) ?i = Some ?m |- context [sumw (upd_nth ?i ?q (maps ?s))] =>
    let C := fresh "C" in
    pose proof (sumw_upd i q (maps s) m Hn) as C; simpl in C;
    generalize dependent (sumw (upd_nth i q (maps s))); intros
  end.

Ltac rwall :=
  repeat match goal with
  | H : genpc ?s = _ |- _ => rewrite H in *; clear H
  | H : redpc ?s = _ |- _ => rewrite H in *; clear H
  | H : mainpc ?s = _ |- _ => rewrite H in *; clear H
  | H : execpc ?s = _ |- _ => rewrite H in *; clear H
  | H : mpc ?m = _ |- _ => rewrite H in *; clear H
  | H : coll ?s = _ |- _ => rewrite H in *; clear H
  | H : ctx_done ?s = _ |- _ => rewrite H in *; clear H
  end.

Ltac msolve :=
  unfold measure; try (destruct (fixedb _) eqn:?); cbn -[usrw genw sumw] in *; fp; sumu; rwall;
  cbn -[mw] in *; rewrite ?app_length, ?sumw_app1 in *; cbn -[mw] in *;
  try match goal with |- context [if failed ?s then _ else _] => destruct (failed s) end;
  cbn -[mw] in *; try lia; unfold mw in *; try lia.

Lemma step_decreases : forall c s l s', step c s l = Some s' -> measure c s' < measure c s.
Proof.
  intros c s l s' H. destruct l; simpl in H.
  - (* ctx *) brk. unfold measure; simpl. rewrite Heqb. lia.
  - (* main *) unf0; brk; rp; try (destruct (ctx_done s) eqn:?); msolve.
  - (* gen *) unf0; brk; rp; msolve.
  - (* exec *) unf0; brk; rp; msolve.
  - (* map *) unf0; brk; rp; msolve.
  - (* red *) unf0; brk; rp; try (destruct all); msolve.
Qed.

(* ---------- every run is finite ---------- *)
(* the number of labels of a schedule that are executed (enabled when their turn comes) *)
Fixpoint nsteps (c : config) (s : state) (sched : list label) : nat :=
  match sched with
  | [] => 0
  | l :: tl => match step c s l with
               | Some s1 => S (nsteps c s1 tl)
               | None => nsteps c s tl
               end
  end.

Lemma run_bounded : forall c sched s, nsteps c s sched + measure c (run c s sched) <= measure c s.
Proof.
  intros c sched; induction sched as [|l tl IH]; intros s; simpl; [lia|].
  destruct (step c s l) eqn:E.
  - pose proof (step_decreases c s l s0 E). specialize (IH s0). lia.
  - apply IH.
Qed.

Lemma run_app : forall c a b s, run c s (a ++ b) = run c (run c s a) b.
Proof.
  intros c a; induction a as [|l tl IH]; intros b s; simpl; auto.
  destruct (step c s l); apply IH.
Qed.

Lemma run_measure_le : forall c sched s, measure c (run c s sched) <= measure c s.
Proof. intros c sched s. pose proof (run_bounded c sched s). lia. Qed.

(* ---------- every state can be completed to a terminal state ---------- *)
Lemma not_stuck_step : forall c s, stuck c s = false -> exists l s', step c s l = Some s'.
Proof.
  intros c s H. unfold stuck in H.
  assert (existsb (fun l => match step c s l with None => false | Some _ => true end) (labels s) = true) as X.
  { induction (labels s) as [|a tl IH]; simpl in *; [discriminate|].
    destruct (step c s a); simpl in *; auto. }
  apply existsb_exists in X. destruct X as (l & _ & Hl).
  destruct (step c s l) eqn:E; [eauto | discriminate].
Qed.

Lemma can_finish_n : forall c n s, measure c s <= n -> exists sched, stuck c (run c s sched) = true.
Proof.
  intros c n; induction n as [|n IH]; intros s Hm.
  - destruct (stuck c s) eqn:K; [exists []; exact K|].
    destruct (not_stuck_step c s K) as (l & s' & E). pose proof (step_decreases c s l s' E). lia.
  - destruct (stuck c s) eqn:K; [exists []; exact K|].
    destruct (not_stuck_step c s K) as (l & s' & E). pose proof (step_decreases c s l s' E) as D.
    destruct (IH s') as (sched & Hs); [lia|].
    exists (l :: sched). simpl. rewrite E. exact Hs.
Qed.

Lemma can_finish : forall c s, exists sched, stuck c (run c s sched) = true.
Proof. intros c s. apply (can_finish_n c (measure c s)). lia. Qed.

(* no reachable deadlock: every reachable state of the repaired protocol has a continuation that
   ends in a state in which the caller has returned and every goroutine has ended *)
Lemma no_reachable_deadlock_l : forall c sched,
  variant_of c = VFixed -> 1 <= workers c -> length (all_writes (rscript c)) <= 2 ->
  exists more, let s := run c (init c) (sched ++ more) in stuck c s = true /\ clean s = true.
Proof.
  intros c sched V W1 H2.
  destruct (can_finish c (run c (init c) sched)) as (more & K).
  exists more. simpl. rewrite run_app. split; [exact K|].
  rewrite <- run_app. apply (terminal_clean_l c (sched ++ more) V W1 H2).
  rewrite run_app. exact K.
Qed.

(* ---------- infinite schedules ---------- *)
Definition prefix (f : nat -> label) (n : nat) : list label := map f (seq 0 n).

Lemma prefix_S : forall f n, prefix f (S n) = prefix f n ++ [f n].
Proof. intros f n. unfold prefix. rewrite seq_S, map_app. reflexivity. Qed.

Lemma run_prefix_S : forall c f n s,
  run c s (prefix f (S n)) = match step c (run c s (prefix f n)) (f n) with
                             | Some s1 => s1
                             | None => run c s (prefix f n)
                             end.
Proof.
  intros c f n s. rewrite prefix_S, run_app. simpl. destruct (step c (run c s (prefix f n)) (f n)); reflexivity.
Qed.

(* between two positions the state is unchanged or the measure has dropped *)
Lemma same_or_smaller : forall c f s0 n d,
  run c s0 (prefix f (n + d)) = run c s0 (prefix f n)
  \/ measure c (run c s0 (prefix f (n + d))) < measure c (run c s0 (prefix f n)).
Proof.
  intros c f s0 n d; induction d as [|d IH].
  - left. rewrite Nat.add_0_r. reflexivity.
  - replace (n + S d) with (S (n + d)) by lia. rewrite run_prefix_S.
    destruct (step c (run c s0 (prefix f (n + d))) (f (n + d))) eqn:E; [|exact IH].
    right. pose proof (step_decreases _ _ _ _ E). destruct IH as [IH | IH]; [rewrite IH in *|]; lia.
Qed.

(* a schedule is fair when it offers every thread label again and again (the context event is
   the environment's: it may or may not occur) *)
Definition fair (f : nat -> label) : Prop :=
  forall l, l <> LCtx -> forall n, exists m, n <= m /\ f m = l.

Lemma labels_not_ctx : forall s l, In l (labels s) -> l <> LCtx.
Proof.
  intros s l H E. subst. unfold labels in H. apply in_app_or in H. destruct H as [H | H].
  - simpl in H. repeat (destruct H as [H | H]; [discriminate|]). exact H.
  - apply in_map_iff in H. destruct H as (i & X & _). discriminate.
Qed.

Lemma fair_reaches_stuck_n : forall c f s0, fair f ->
  forall k n, measure c (run c s0 (prefix f n)) <= k ->
  exists N, n <= N /\ stuck c (run c s0 (prefix f N)) = true.
Proof.
  intros c f s0 F k; induction k as [|k IH]; intros n Hm.
  - destruct (stuck c (run c s0 (prefix f n))) eqn:K; [exists n; auto|].
    destruct (not_stuck_step c _ K) as (l & s' & E). pose proof (step_decreases _ _ _ _ E). lia.
  - destruct (stuck c (run c s0 (prefix f n))) eqn:K; [exists n; auto|].
    (* some label of the state is enabled; the schedule offers it at some m >= n *)
    assert (exists l, In l (labels (run c s0 (prefix f n)))
                      /\ step c (run c s0 (prefix f n)) l <> None) as (l & Hin & Hen).
    { unfold stuck in K.
      induction (labels (run c s0 (prefix f n))) as [|a tl IHl]; simpl in K; [discriminate|].
      destruct (step c (run c s0 (prefix f n)) a) eqn:E.
      - exists a. split; [left; reflexivity | congruence].
      - simpl in K. destruct (IHl K) as (l & A & B). exists l. split; [right; exact A | exact B]. }
    destruct (F l (labels_not_ctx _ _ Hin) n) as (m & Hnm & Hfm).
    assert (exists n', n <= n' /\ measure c (run c s0 (prefix f n')) < measure c (run c s0 (prefix f n)))
      as (n' & Hn' & Hlt).
    { replace m with (n + (m - n)) in * by lia.
      destruct (same_or_smaller c f s0 n (m - n)) as [Same | Less].
      - exists (S (n + (m - n))). split; [lia|]. rewrite run_prefix_S, Same, Hfm.
        destruct (step c (run c s0 (prefix f n)) l) eqn:E; [|congruence].
        apply (step_decreases _ _ _ _ E).
      - exists (n + (m - n)). split; [lia | exact Less]. }
    destruct (IH n') as (N & HN & KN); [lia|]. exists N. split; [lia | exact KN].
Qed.

Lemma fair_reaches_stuck : forall c f s0, fair f ->
  exists N, stuck c (run c s0 (prefix f N)) = true.
Proof.
  intros c f s0 F.
  destruct (fair_reaches_stuck_n c f s0 F (measure c (run c s0 (prefix f 0))) 0) as (N & _ & K); [lia|].
  exists N. exact K.
Qed.

(* every fair schedule of the repaired protocol reaches, after finitely many labels, a state in
   which the caller has returned and every goroutine has ended *)
Lemma fair_schedule_terminates_l : forall c f,
  variant_of c = VFixed -> 1 <= workers c -> length (all_writes (rscript c)) <= 2 -> fair f ->
  exists N, let s := run c (init c) (prefix f N) in stuck c s = true /\ clean s = true.
Proof.
  intros c f V W1 H2 F. destruct (fair_reaches_stuck c f (init c) F) as (N & K).
  exists N. simpl. split; [exact K|]. apply (terminal_clean_l c (prefix f N) V W1 H2 K).
Qed.
