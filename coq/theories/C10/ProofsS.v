(* C10 — the repaired output protocol ([safe_out c = true]: output is never closed, Write selects
   on done) never raises the runtime's send-on-closed-channel panic: the value [PClosed] occurs
   nowhere in any reachable state, for every schedule. *)
From Coq Require Import List ZArith Bool Arith Lia Permutation.
From GZ Require Import C10.Model C10.Proofs C10.ProofsT.
Import ListNotations.

Definition ncl (p : pc) : Prop := carries p <> Some PClosed.

Definition inv_nc (s : state) : Prop :=
  ncl (genpc s) /\ ncl (redpc s) /\ Forall (fun m => ncl (mpc m)) (maps s)
  /\ pbuf s <> Some PClosed
  /\ match mainpc s with
     | MDrainOut p => p <> PClosed
     | MDefer o | MQuit o | MFin o => o <> OPanic PClosed
     | _ => True
     end.

Lemma inv_nc_init : forall c, inv_nc (init c).
Proof.
  intros c. unfold inv_nc, ncl, init; simpl. repeat split; auto; try discriminate.
  destruct (foreach c); simpl; discriminate.
Qed.

Lemma out_result_nc : forall s v, out_result s v <> OPanic PClosed.
Proof. intros s v. unfold out_result. destruct (reterr s); [discriminate|]. destruct v; discriminate. Qed.

Ltac ncm Jm :=
  match goal with
  | Hn : nth_error _ _ = Some ?m, Hm : mpc ?m = _ |- _ =>
    let X := fresh "X" in
    pose proof (Forall_nth _ _ _ _ Jm Hn) as X; simpl in X; rewrite Hm in X; unfold ncl in X; simpl in X
  end.

Ltac clnc Jg Jr Jm Jb JM :=
  first
  [ assumption
  | exact I
  | discriminate
  | apply out_result_nc
  | unfold ncl; simpl; discriminate
  | unfold ncl in *; simpl in *; congruence
  | eapply Forall_upd; [eassumption | eassumption | unfold ncl; simpl; discriminate]
  | eapply Forall_upd; [eassumption | eassumption | unfold ncl; simpl; ncm Jm; congruence]
  | apply Forall_app; split; [assumption | constructor; [unfold ncl; simpl; discriminate | constructor]]
  | ncm Jm; congruence
  | ncm Jm; intro; subst; congruence
  | intro; subst; unfold ncl in *; simpl in *; congruence
  | idtac ].

Lemma inv_nc_step : forall c s l s', safe_out c = true -> inv_nc s -> step c s l = Some s' -> inv_nc s'.
Proof.
  intros c s l s' SF (Jg & Jr & Jm & Jb & JM) H. unfold inv_nc.
  destruct l; simpl in H.
  - brk; simpl; repeat split; auto.
  - unf0; rewrite ?SF in H; brk; rp; ifs; simpl in *; rwg; rwm; simpl in *;
      (split; [|split; [|split; [|split]]]); clnc Jg Jr Jm Jb JM.
  - unf0; rewrite ?SF in H; brk; rp; ifs; simpl in *; rwg; rwm; simpl in *;
      (split; [|split; [|split; [|split]]]); clnc Jg Jr Jm Jb JM.
  - unf0; rewrite ?SF in H; brk; rp; ifs; simpl in *; rwg; rwm; simpl in *;
      (split; [|split; [|split; [|split]]]); clnc Jg Jr Jm Jb JM.
  - unf0; rewrite ?SF in H; brk; rp; ifs; simpl in *; rwg; rwm; simpl in *;
      (split; [|split; [|split; [|split]]]); clnc Jg Jr Jm Jb JM.
  - unf0; rewrite ?SF in H; brk; rp; ifs; simpl in *; rwg; rwm; simpl in *;
      (split; [|split; [|split; [|split]]]); clnc Jg Jr Jm Jb JM.
Qed.

Lemma inv_nc_all : forall c sched, safe_out c = true -> inv_nc (run c (init c) sched).
Proof.
  intros c sched SF. apply run_inv; [intros; eapply inv_nc_step; eauto | apply inv_nc_init].
Qed.

Lemma safe_no_runtime_panic_l : forall c sched, safe_out c = true ->
  result (run c (init c) sched) <> Some (OPanic PClosed).
Proof.
  intros c sched SF H. destruct (inv_nc_all c sched SF) as (_ & _ & _ & _ & JM).
  unfold result in H. destruct (mainpc (run c (init c) sched)); try discriminate.
  inversion H; subst. apply JM. reflexivity.
Qed.

(* ================================================================== *)
(* provenance: every logged cancel error and every raised panic comes from an action of a user
   script — of the reducer, or of the mapper of an item that was handed to a mapper invocation
   (the generator for panics) — and the context error only after the context ended             *)

(* the part of its script a user thread still has to run, including a cancel call in progress *)
Definition cur2 (p : pc) : option (list uact) :=
  match p with
  | Gate r | SendPend _ r | Draining r | RecvPend _ r => Some r
  | CancelPend e r => Some (UCancel e :: r)
  | _ => None
  end.

Definition sfx (scr : list uact) (p : pc) : Prop :=
  forall r, cur2 p = Some r -> exists pre, scr = pre ++ r.

Definition cancel_src (c : config) (s : state) (e : err) : Prop :=
  (e = ECtx /\ ctx_done s = true)
  \/ exists e', e = err_of e'
       /\ (In (UCancel e') (rscript c)
           \/ exists x, In x (map mitem (maps s)) /\ In (UCancel e') (mscript c x)).

Definition panic_src (c : config) (s : state) (p : pval) : Prop :=
  exists k, p = PUser k
    /\ (In (UPanic k) (gscript c) \/ In (UPanic k) (rscript c)
        \/ exists x, In x (map mitem (maps s)) /\ In (UPanic k) (mscript c x)).

Definition inv_src (c : config) (s : state) : Prop :=
  sfx (gscript c) (genpc s) /\ sfx (rscript c) (redpc s)
  /\ Forall (fun m => sfx (mscript c (mitem m)) (mpc m)) (maps s)
  /\ (forall e, In e (g_cancels s) -> cancel_src c s e)
  /\ (forall p, In p (g_panics s) -> panic_src c s p).

Lemma inv_src_init : forall c, inv_src c (init c).
Proof.
  intros c. unfold inv_src, init, sfx; simpl. repeat split; try (intros; contradiction); auto.
  - intros r H. inversion H; subst. exists []. reflexivity.
  - intros r H. destruct (foreach c); simpl in H; inversion H; subst. exists []. reflexivity.
Qed.

Lemma cancel_src_mono : forall c s s' e,
  (ctx_done s = true -> ctx_done s' = true) ->
  (forall x, In x (map mitem (maps s)) -> In x (map mitem (maps s'))) ->
  cancel_src c s e -> cancel_src c s' e.
Proof.
  intros c s s' e HC HM [(A & B) | (e' & A & [B | (x & B1 & B2)])].
  - left. auto.
  - right. exists e'. auto.
  - right. exists e'. split; auto. right. exists x. auto.
Qed.

Lemma panic_src_mono : forall c s s' p,
  (forall x, In x (map mitem (maps s)) -> In x (map mitem (maps s'))) ->
  panic_src c s p -> panic_src c s' p.
Proof.
  intros c s s' p HM (k & A & [B | [B | (x & B1 & B2)]]); exists k; split; auto.
  right. right. exists x. auto.
Qed.

Lemma sfx_tl : forall (scr : list uact) a r, (exists pre, scr = pre ++ a :: r) -> exists pre, scr = pre ++ r.
Proof. intros scr a r (pre & H). exists (pre ++ [a]). rewrite <- app_assoc. exact H. Qed.

Lemma sfx_in : forall (scr : list uact) a r, (exists pre, scr = pre ++ a :: r) -> In a scr.
Proof. intros scr a r (pre & H). subst. apply in_or_app. right. left. reflexivity. Qed.

Lemma items_upd : forall i q ms x, In x (map mitem ms) -> In x (map mitem (upd_nth i q ms)).
Proof. intros. rewrite upd_nth_items. assumption. Qed.

Lemma items_app : forall ms m x, In x (map mitem ms) -> In x (map mitem (ms ++ [m])).
Proof. intros. rewrite map_app. apply in_or_app. left. assumption. Qed.

Lemma item_nth : forall ms i m q, nth_error ms i = Some m -> In (mitem m) (map mitem (upd_nth i q ms)).
Proof. intros. rewrite upd_nth_items. apply in_map. eapply nth_error_In; eauto. Qed.

Lemma item_nth0 : forall ms i m, nth_error ms i = Some m -> In (mitem m) (map mitem ms).
Proof. intros. apply in_map. eapply nth_error_In; eauto. Qed.

(* goal [sfx scr q] from a fact [G : sfx scr p] about the previous control state *)
Ltac sfx_from G :=
  let r0 := fresh "r0" in let X := fresh "X" in
  intros r0 X; simpl in X;
  first [ discriminate X
        | inversion X; subst; clear X;
          first [ apply G; reflexivity | eapply sfx_tl; apply G; reflexivity ] ].

Ltac mfact M k :=
  match goal with
  | Hn : nth_error _ _ = Some ?m, Hm : mpc ?m = _ |- _ =>
    let X := fresh "MX" in
    pose proof (Forall_nth _ _ _ _ M Hn) as X; simpl in X; rewrite Hm in X; k X
  end.

Ltac items_mono :=
  first [ intros ? ?; assumption
        | intros ? ?; apply items_upd; assumption
        | intros ? ?; apply items_app; assumption ].

Ltac old_cancel C :=
  eapply cancel_src_mono; [ | | apply C; eassumption ]; simpl; [ auto | items_mono ].
Ltac old_panic P :=
  eapply panic_src_mono; [ | apply P; eassumption ]; simpl; items_mono.

Ltac clsrc G R M C P :=
  first
  [ assumption
  | sfx_from G
  | sfx_from R
  | eapply Forall_upd; [eassumption | eassumption | simpl; mfact M ltac:(fun X => sfx_from X)]
  | eapply Forall_upd; [eassumption | eassumption | simpl; let r0 := fresh in let X := fresh in intros r0 X; discriminate X]
  | apply Forall_app; split; [assumption | constructor; [simpl; let r0 := fresh in let X := fresh in
        intros r0 X; inversion X; subst; exists []; reflexivity | constructor]]
  | let e0 := fresh "e0" in let He := fresh "He" in intros e0 He; old_cancel C
  | let p0 := fresh "p0" in let Hp := fresh "Hp" in intros p0 Hp; old_panic P
  | let e0 := fresh "e0" in let He := fresh "He" in
    intros e0 He; apply in_app_or in He; destruct He as [He | [He | []]];
    [ old_cancel C
    | subst;
      first [ left; split; [reflexivity | simpl; assumption]
            | right; eexists; split; [reflexivity | left; eapply sfx_in; apply R; reflexivity]
            | mfact M ltac:(fun X => right; eexists; split; [reflexivity | right; eexists; split;
                [simpl; eapply item_nth; eassumption | eapply sfx_in; apply X; reflexivity]]) ] ]
  | let p0 := fresh "p0" in let Hp := fresh "Hp" in
    intros p0 Hp; apply in_app_or in Hp; destruct Hp as [Hp | [Hp | []]];
    [ old_panic P
    | subst; eexists; split; [reflexivity |
      first [ left; eapply sfx_in; apply G; reflexivity
            | right; left; eapply sfx_in; apply R; reflexivity
            | mfact M ltac:(fun X => right; right; eexists; split;
                [simpl; eapply item_nth; eassumption | eapply sfx_in; apply X; reflexivity]) ] ] ]
  | idtac ].

Ltac killgen G0 := try (simpl in G0; discriminate G0);
  try match goal with Hg : genpc ?s = _ |- _ => rewrite Hg in G0; simpl in G0; discriminate G0 end.

Lemma inv_src_step : forall c s l s', inv_st c s -> inv_src c s -> step c s l = Some s' -> inv_src c s'.
Proof.
  intros c s l s' (G0 & _) (G & R & M & C & P) H. unfold inv_src.
  destruct l; simpl in H.
  - brk; simpl. repeat split; auto.
    intros e He. eapply cancel_src_mono; [| |apply C; exact He]; simpl; auto.
  - unf0; brk; rp; killgen G0; ifs; simpl in *; rwg; simpl in *;
      (split; [|split; [|split; [|split]]]); clsrc G R M C P.
  - unf0; brk; rp; killgen G0; ifs; simpl in *; rwg; simpl in *;
      (split; [|split; [|split; [|split]]]); clsrc G R M C P.
  - unf0; brk; rp; killgen G0; ifs; simpl in *; rwg; simpl in *;
      (split; [|split; [|split; [|split]]]); clsrc G R M C P.
  - unf0; brk; rp; killgen G0; ifs; simpl in *; rwg; simpl in *;
      (split; [|split; [|split; [|split]]]); clsrc G R M C P.
  - unf0; brk; rp; killgen G0; ifs; simpl in *; rwg; simpl in *;
      (split; [|split; [|split; [|split]]]); clsrc G R M C P.
Qed.

Lemma inv_src_all : forall c sched, inv_src c (run c (init c) sched).
Proof.
  intros c sched.
  assert (inv_st c (run c (init c) sched) /\ inv_src c (run c (init c) sched)) as [_ H]; [|exact H].
  apply (run_inv c (fun s => inv_st c s /\ inv_src c s)).
  - intros s l s' [A B] H. split; [eapply inv_st_step; eauto | eapply inv_src_step; eauto].
  - split; [apply inv_st_init | apply inv_src_init].
Qed.

(* an item that was handed to a mapper invocation was sent by the generator script *)
Lemma mapped_was_sent : forall c sched x,
  In x (map mitem (maps (run c (init c) sched))) -> In x (all_sends (gscript c)).
Proof.
  intros c sched x H. destruct (inv_logs_all c sched) as (P & _ & _ & tl & E).
  rewrite <- E. apply in_or_app. left.
  eapply Permutation_in; [apply Permutation_sym; exact P|]. apply in_or_app. left. exact H.
Qed.

Definition script_cancels (c : config) (s : state) (e' : option Z) : Prop :=
  In (UCancel e') (rscript c)
  \/ exists x, In x (all_sends (gscript c)) /\ In x (map mitem (maps s)) /\ In (UCancel e') (mscript c x).

Definition script_panics (c : config) (s : state) (k : Z) : Prop :=
  In (UPanic k) (gscript c) \/ In (UPanic k) (rscript c)
  \/ exists x, In x (all_sends (gscript c)) /\ In x (map mitem (maps s)) /\ In (UPanic k) (mscript c x).

Lemma cancels_from_scripts_l : forall c sched e,
  let s := run c (init c) sched in
  In e (g_cancels s) ->
  (e = ECtx /\ ctx_done s = true) \/ exists e', e = err_of e' /\ script_cancels c s e'.
Proof.
  intros c sched e s H. destruct (inv_src_all c sched) as (_ & _ & _ & C & _). fold s in C.
  destruct (C e H) as [X | (e' & A & [B | (x & B1 & B2)])]; [left; exact X | |];
    right; exists e'; split; auto; [left; exact B|].
  right. exists x. repeat split; auto. apply (mapped_was_sent c sched x B1).
Qed.

Lemma panics_from_scripts_l : forall c sched p,
  let s := run c (init c) sched in
  In p (g_panics s) -> exists k, p = PUser k /\ script_panics c s k.
Proof.
  intros c sched p s H. destruct (inv_src_all c sched) as (_ & _ & _ & _ & P). fold s in P.
  destruct (P p H) as (k & A & [B | [B | (x & B1 & B2)]]); exists k; split; auto;
    [left; exact B | right; left; exact B |].
  right. right. exists x. repeat split; auto. apply (mapped_was_sent c sched x B1).
Qed.

(* what the call returns, in terms of the user scripts alone *)
Lemma result_from_scripts_l : forall c sched o,
  let s := run c (init c) sched in
  result s = Some o ->
  match o with
  | OVal v => In (UWrite v) (rscript c)
  | ONoOutput => foreach c = false
  | OUnit => foreach c = true
  | OErr e => (e = ECtx /\ ctx_done s = true) \/ exists e', e = err_of e' /\ script_cancels c s e'
  | OPanic p => p = PMulti \/ (p = PClosed /\ safe_out c = false)
                \/ exists k, p = PUser k /\ script_panics c s k
  end.
Proof.
  intros c sched o s H. destruct (inv_just_all c sched) as (_ & _ & _ & _ & _ & _ & _ & JM).
  fold s in JM. pose proof H as H0. unfold result in H. destruct (mainpc s); try discriminate.
  inversion H; subst. destruct o; simpl in JM; auto.
  - destruct JM as [X | X]; [left; exact X | apply (cancels_from_scripts_l c sched e X)].
  - destruct JM as [X | [X | X]]; [left; exact X | |].
    + right. right. apply (panics_from_scripts_l c sched p X).
    + subst. right. left. split; auto. destruct (safe_out c) eqn:SF; auto.
      exfalso. apply (safe_no_runtime_panic_l c sched SF). exact H0.
Qed.
