(* C10 — a panic is never lost.  Repaired panicChan protocol (VFixed), either output protocol, a
   generator that does not panic: if nothing was cancelled and the context did not end, and some
   user function (mapper or reducer) panicked, then a call that returns does so by panicking.
   The reason is the order of the mapper's epilogue - the recovered panic is handed to panicChan
   BEFORE wg.Done - so that while a panic is undelivered the collector cannot be closed, the
   reducer goroutine cannot finish and output cannot be closed: the caller can only see the panic.
   Pinned.done_before_write_loses_panic refutes the other order (seeded change C10-9). *)
From Coq Require Import List ZArith Bool Arith Lia.
From GZ Require Import C10.Model C10.Proofs C10.ProofsT C10.ProofsC C10.ProofsS.
Import ListNotations.

Definition is_unw (p : pc) : bool := match p with Epi (Some _) => true | _ => false end.
Definition nunw (s : state) : nat :=
  b2n (is_unw (genpc s)) + b2n (is_unw (redpc s)) + length (filter (fun m => is_unw (mpc m)) (maps s)).

Definition delivered (m : mstate) : Prop :=
  match m with
  | MDrainOut _ | MQuit (OPanic _) | MFin (OPanic _) => True
  | _ => False
  end.
Definition normal_exit (m : mstate) : Prop :=
  match m with
  | MQuit (OPanic _) | MFin (OPanic _) => False
  | MQuit _ | MFin _ => True
  | _ => False
  end.

(* nothing cancelled so far, context alive (both can only become false) *)
Definition calm (s : state) : Prop := g_cancels s = [] /\ ctx_done s = false.

Definition inv_l (c : config) (s : state) : Prop :=
  calm s ->
  cstate s = CNone
  /\ (finished s = true -> redpc s = Fin)
  /\ (quit s = true -> exists o, mainpc s = MFin o)
  /\ (normal_exit (mainpc s) ->
        (foreach c = false -> finished s = true) /\ (foreach c = true -> coll_closed s = true))
  /\ (wrote s = true -> 1 <= npend s \/ delivered (mainpc s))
  /\ (g_panics s <> [] -> wrote s = true \/ 1 <= nunw s)
  /\ carries (genpc s) = None.

Lemma inv_l_init : forall c, inv_l c (init c).
Proof.
  intros c _. unfold init, nunw; simpl. repeat split; auto; try discriminate; try contradiction.
Qed.

(* while a mapper has not done wg.Done, or the reducer goroutine has not ended, the caller cannot
   have left normally *)
Lemma no_normal_exit : forall c s, inv_st c s -> inv_fr c s -> calm s -> inv_l c s ->
  ((exists i m, nth_error (maps s) i = Some m /\ bd (mpc m) = true) \/ (foreach c = false /\ redpc s <> Fin)) ->
  ~ normal_exit (mainpc s).
Proof.
  intros c s (_ & _ & _ & _ & W & CC & L & _) (A & _ & _) CA IL H NE.
  destruct (IL CA) as (_ & B & _ & D & _). destruct (D NE) as (D1 & D2).
  assert (coll_closed s = true) as CL.
  { destruct (foreach c) eqn:FE; [apply D2; reflexivity|].
    specialize (B (D1 eq_refl)). rewrite B in A. destruct (A eq_refl) as (_ & X). apply X. reflexivity. }
  destruct H as [(i & m & Hn & Hb) | (FE & NR)].
  - assert (elate (execpc s) = true) as EL by (rewrite CL in CC; destruct (execpc s); simpl in *; congruence).
    specialize (L EL). pose proof (count_pos bd (maps s) i m Hn Hb). unfold cnt_bd in W. lia.
  - apply NR. apply B. apply D1. exact FE.
Qed.

Lemma calm_back : forall c s l s', step c s l = Some s' -> calm s' -> calm s.
Proof.
  intros c s l s' H (A & B). unfold calm.
  destruct l; simpl in H.
  - brk. simpl in B. discriminate.
  - unf0; brk; rp; ifs; simpl in *; split; auto;
      try (destruct (g_cancels _); simpl in A; discriminate A); try congruence;
      try (destruct (fixedb c); simpl in *; assumption).
  - unf0; brk; rp; ifs; simpl in *; split; auto;
      try (destruct (g_cancels _); simpl in A; discriminate A); try congruence;
      try (destruct (fixedb c); simpl in *; assumption).
  - unf0; brk; rp; ifs; simpl in *; split; auto;
      try (destruct (g_cancels _); simpl in A; discriminate A); try congruence;
      try (destruct (fixedb c); simpl in *; assumption).
  - unf0; brk; rp; ifs; simpl in *; split; auto;
      try (destruct (g_cancels _); simpl in A; discriminate A); try congruence;
      try (destruct (fixedb c); simpl in *; assumption).
  - unf0; brk; rp; ifs; simpl in *; split; auto;
      try (destruct (g_cancels _); simpl in A; discriminate A); try congruence;
      try (destruct (fixedb c); simpl in *; assumption).
Qed.

Definition no_gen_panic (c : config) : Prop := forall k, ~ In (UPanic k) (gscript c).

Ltac cu := repeat match goal with
  | Hn : nth_error (maps ?s) ?i = Some ?m |- context [filter (fun m => is_unw (mpc m)) (upd_nth ?i ?q (maps ?s))] =>
    let C := fresh "CU" in pose proof (count_upd is_unw i q (maps s) m Hn) as C; simpl in C;
    generalize dependent (length (filter (fun m => is_unw (mpc m)) (upd_nth i q (maps s)))); intros
  end.
Ltac cp := repeat match goal with
  | Hn : nth_error (maps ?s) ?i = Some ?m |- context [filter (fun m => is_pend (mpc m)) (upd_nth ?i ?q (maps ?s))] =>
    let C := fresh "CP" in pose proof (count_upd is_pend i q (maps s) m Hn) as C; simpl in C;
    generalize dependent (length (filter (fun m => is_pend (mpc m)) (upd_nth i q (maps s)))); intros
  end.


Ltac use_fin I2 := try match goal with X : finished _ = true |- _ =>
  let Y := fresh "Y" in first [pose proof (I2 X) as Y | pose proof (I2 eq_refl) as Y]; first [discriminate Y | congruence] end.
Ltac use_quit I3 := try match goal with X : quit _ = true |- _ =>
  let Y := fresh "Y" in destruct (I3 X) as (? & Y); first [discriminate Y | congruence] end.
Ltac use_wrote I5 := try match goal with X : wrote _ = true |- _ =>
  let Y := fresh "Y" in destruct (I5 X) as [Y | Y];
  [ first [left; simpl in *; lia | right; exact I] | first [right; exact Y | right; exact I | contradiction] ] end.
Ltac use_pan I6 := try match goal with X : g_panics _ <> [] |- _ =>
  let Y := fresh "Y" in destruct (I6 X) as [Y | Y];
  [ first [left; exact Y | left; reflexivity | congruence] | first [right; simpl in *; lia | left; reflexivity] ] end.

Ltac use_fe FR := try match goal with X : foreach _ = true |- _ =>
  let A := fresh in let B := fresh in
  destruct FR as (_ & _ & A); destruct (A X) as (? & ? & ? & ? & B);
  repeat match goal with Hm : mainpc _ = _ |- _ => rewrite Hm in B end; simpl in B; discriminate B end.

Section StepL.
  Variables (c : config).
  Hypothesis V : variant_of c = VFixed.
  Hypothesis NG : no_gen_panic c.

  Lemma inv_l_step : forall s l s',
    inv_st c s -> inv_cn s -> inv_fr c s -> inv_just c s -> inv_src c s -> inv_l c s ->
    step c s l = Some s' -> inv_l c s'.
  Proof.
    intros s l s' ST CN FR JU SR IL H CA'.
    pose proof (calm_back c s l s' H CA') as CA.
    destruct (IL CA) as (I1 & I2 & I3 & I4 & I5 & I6 & I7).
    pose proof (no_normal_exit c s ST FR CA IL) as NNE.
    destruct CA as (CA1 & CA2). destruct CA' as (CB1 & CB2).
    destruct CN as (N & _). rewrite I1 in N. simpl in N. unfold ndrain in N.
    destruct SR as (SG & _).
    destruct JU as (_ & _ & _ & _ & _ & _ & _ & JM).
    pose proof ST as (G0 & _).
    unfold nunw, npend in *.
    destruct l; simpl in H.
    - brk. simpl in CB2. discriminate.
    - unf0; unfold fixedb in *; try rewrite V in *; brk; rpf V; killg G0; simpl in *; rwg; rwm; simpl in *;
        try congruence; try (destruct JM as (X & _); congruence).
      all: repeat split; intros; simpl in *; rwg; rwm; simpl in *; cu; cp; rwpc; simpl in *;
           rewrite ?(count_app1 is_pend), ?(count_app1 is_unw) in *; simpl in *;
           try tauto; try congruence; try discriminate; try lia; eauto;
           use_fin I2; use_quit I3; use_wrote I5; use_pan I6; use_fe FR.
    - unf0; unfold fixedb in *; try rewrite V in *; brk; rpf V; killg G0; simpl in *; rwg; rwm; simpl in *;
        try congruence.
      all: repeat split; intros; simpl in *; rwg; rwm; simpl in *; cu; cp; rwpc; simpl in *;
           rewrite ?(count_app1 is_pend), ?(count_app1 is_unw) in *; simpl in *;
           try tauto; try congruence; try discriminate; try lia; eauto;
           use_fin I2; use_quit I3; use_wrote I5; use_pan I6; use_fe FR;
           try (exfalso; eapply NG; eapply sfx_in; apply SG; reflexivity);
           try (exfalso; destruct (g_cancels _); simpl in CB1; discriminate CB1);
           try (exfalso; cpos is_drain; simpl in *; lia).
    - unf0; unfold fixedb in *; try rewrite V in *; brk; rpf V; killg G0; simpl in *; rwg; rwm; simpl in *;
        try congruence.
      all: repeat split; intros; simpl in *; rwg; rwm; simpl in *; cu; cp; rwpc; simpl in *;
           rewrite ?(count_app1 is_pend), ?(count_app1 is_unw) in *; simpl in *;
           try tauto; try congruence; try discriminate; try lia; eauto;
           use_fin I2; use_quit I3; use_wrote I5; use_pan I6; use_fe FR;
           try (exfalso; eapply NG; eapply sfx_in; apply SG; reflexivity);
           try (exfalso; destruct (g_cancels _); simpl in CB1; discriminate CB1);
           try (exfalso; cpos is_drain; simpl in *; lia).
    - unf0; unfold fixedb in *; try rewrite V in *; brk; rpf V; killg G0; simpl in *; rwg; rwm; simpl in *;
        try congruence.
      all: repeat split; intros; simpl in *; rwg; rwm; simpl in *; cu; cp; rwpc; simpl in *;
           rewrite ?(count_app1 is_pend), ?(count_app1 is_unw) in *; simpl in *;
           try tauto; try congruence; try discriminate; try lia; eauto;
           use_fin I2; use_quit I3; use_wrote I5; use_pan I6; use_fe FR;
           try (exfalso; eapply NG; eapply sfx_in; apply SG; reflexivity);
           try (exfalso; destruct (g_cancels _); simpl in CB1; discriminate CB1);
           try (exfalso; cpos is_drain; simpl in *; lia).
      + right. destruct (I3 eq_refl) as (o & M). rewrite M.
        assert (~ normal_exit (MFin o)) as X.
        { rewrite <- M. apply NNE. left. exists i, m. rewrite Heqp. auto. }
        destruct o; simpl in *; try tauto.
    - unf0; unfold fixedb in *; try rewrite V in *; brk; rpf V; killg G0; simpl in *; rwg; rwm; simpl in *;
        try congruence.
      all: repeat split; intros; simpl in *; rwg; rwm; simpl in *; cu; cp; rwpc; simpl in *;
           rewrite ?(count_app1 is_pend), ?(count_app1 is_unw) in *; simpl in *;
           try tauto; try congruence; try discriminate; try lia; eauto;
           use_fin I2; use_quit I3; use_wrote I5; use_pan I6; use_fe FR;
           try (exfalso; eapply NG; eapply sfx_in; apply SG; reflexivity);
           try (exfalso; destruct (g_cancels _); simpl in CB1; discriminate CB1);
           try (exfalso; lia).
      + right. destruct (I3 eq_refl) as (o & M). rewrite M.
        assert (~ normal_exit (MFin o)) as X.
        { rewrite <- M. apply NNE. right. split; [|try rewrite Heqp; discriminate].
          destruct (foreach c) eqn:FE; auto. destruct FR as (_ & _ & A). destruct (A FE) as (B & _). congruence. }
        destruct o; simpl in *; try tauto.
  Qed.
End StepL.

Lemma inv_l_all : forall c sched, variant_of c = VFixed -> no_gen_panic c ->
  let s := run c (init c) sched in
  inv_st c s /\ inv_fr c s /\ inv_l c s.
Proof.
  intros c sched V NG.
  assert (let s := run c (init c) sched in
          inv_st c s /\ inv_cn s /\ inv_fr c s /\ inv_just c s /\ inv_src c s /\ inv_l c s) as (A & _ & B & _ & _ & C);
    [|split; [exact A | split; [exact B | exact C]]].
  apply (run_inv c (fun s => inv_st c s /\ inv_cn s /\ inv_fr c s /\ inv_just c s /\ inv_src c s /\ inv_l c s)).
  - intros s l s' (X1 & X2 & X3 & X4 & X5 & X6) H. split; [|split; [|split; [|split; [|split]]]].
    + eapply inv_st_step; eauto.
    + eapply inv_cn_step; eauto.
    + eapply inv_fr_step; eauto.
    + eapply inv_just_step; eauto.
    + eapply inv_src_step; eauto.
    + eapply inv_l_step; eauto.
  - split; [|split; [|split; [|split; [|split]]]];
      [apply inv_st_init | apply inv_cn_init | apply inv_fr_init | apply inv_just_init | apply inv_src_init | apply inv_l_init].
Qed.

Lemma carrier_blocks_exit : forall c s (f : pc -> bool),
  (forall p, f p = true -> bd p = true /\ p <> Fin /\ carries p <> None) ->
  inv_st c s -> inv_fr c s -> calm s -> inv_l c s ->
  1 <= b2n (f (genpc s)) + b2n (f (redpc s)) + length (filter (fun m => f (mpc m)) (maps s)) ->
  ~ normal_exit (mainpc s).
Proof.
  intros c s f Hf ST FR CA IL H.
  pose proof (IL CA) as (_ & _ & _ & _ & _ & _ & I7).
  apply (no_normal_exit c s ST FR CA IL).
  destruct (f (genpc s)) eqn:Eg.
  { exfalso. destruct (Hf _ Eg) as (_ & _ & X). apply X. exact I7. }
  destruct (f (redpc s)) eqn:Er.
  - right. destruct (Hf _ Er) as (_ & X & _). split; auto.
    destruct (foreach c) eqn:FE; auto. destruct FR as (_ & _ & A). destruct (A FE) as (B & _). congruence.
  - simpl in H. destruct (count_ex f (maps s)) as (i & m & Hn & Hm); [lia|].
    left. exists i, m. split; auto. apply (Hf _ Hm).
Qed.

Lemma panic_is_never_lost_l : forall c sched o,
  variant_of c = VFixed -> no_gen_panic c ->
  let s := run c (init c) sched in
  result s = Some o -> g_panics s <> [] -> g_cancels s = [] -> ctx_done s = false ->
  exists p, o = OPanic p.
Proof.
  intros c sched o V NG s R P C1 C2.
  destruct (inv_l_all c sched V NG) as (ST & FR & IL). fold s in ST, FR, IL.
  assert (calm s) as CA by (split; assumption).
  pose proof (IL CA) as (_ & _ & _ & _ & I5 & I6 & _).
  unfold result in R. destruct (mainpc s) eqn:M; try discriminate. inversion R; subst o0.
  assert (~ normal_exit (MFin o) -> exists p, o = OPanic p) as Fin.
  { intro X. destruct o; simpl in X; try tauto. eauto. }
  destruct (I6 P) as [W | U].
  - destruct (I5 W) as [Pd | D].
    + apply Fin. rewrite <- M. apply (carrier_blocks_exit c s is_pend); auto.
      intros p Hp. destruct p; try discriminate. repeat split; discriminate.
    + try rewrite M in D. destruct o; simpl in D; try contradiction. eauto.
  - apply Fin. rewrite <- M. apply (carrier_blocks_exit c s is_unw); auto.
    intros p Hp. destruct p as [| | | | |[v|]| | | |]; try discriminate. repeat split; discriminate.
Qed.
