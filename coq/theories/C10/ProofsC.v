(* C10 — what is known when the caller commits to a value: the error store of cancel and the
   cancel once move together, and as long as no error is stored no cancel call has entered the
   once body.  Hence a value is only ever returned if, at the moment the caller received it, nothing
   had been cancelled (the window between retErr.Set and finish() inside cancel cannot produce a
   value: seeded change C10-4, Pinned.seed_c10_4_value_masks_cancel). *)
From Coq Require Import List ZArith Bool Arith Lia.
From GZ Require Import C10.Model C10.Proofs C10.ProofsT.
Import ListNotations.

Definition inv_rc (s : state) : Prop :=
  (cstate s = CNone <-> reterr s = None)
  /\ (reterr s = None -> g_cancels s = [] \/ (g_cancels s = [ECtx] /\ mainpc s = MCancelPend)).

Lemma inv_rc_init : forall c, inv_rc (init c).
Proof. intros c. unfold inv_rc, init; simpl. split; [tauto | auto]. Qed.

Ltac clrc A B :=
  first [ assumption | tauto | intros; discriminate | split; intros; discriminate
        | split; intros; congruence
        | let X := fresh in intro X; destruct (B X) as [? | (? & ?)]; [left; assumption | congruence]
        | let X := fresh in intro X; destruct (B X) as [? | (? & ?)];
          [left; assumption | right; split; [assumption | congruence]]
        | idtac ].

Ltac finrc A B :=
  try exact A;
  try (let X := fresh "X" in let E := fresh "E" in let M := fresh "M" in
       intro X; destruct (B X) as [E | (E & M)];
       [ rewrite E; simpl; first [left; reflexivity | right; split; reflexivity | auto]
       | first [discriminate M | congruence | right; split; [assumption | congruence]] ]);
  try (let X := fresh "X" in intro X; apply A in X; congruence);
  try (let X := fresh "X" in split; intro X; first [discriminate X | apply A in X; congruence | congruence]).

(* a thread inside the cancel body: the once is busy, so an error is stored *)
Ltac busyrc A N :=
  let X := fresh "X" in
  split; intro X; [discriminate X | exfalso; apply A in X; unfold ndrain in N; rewrite X in N;
    repeat match goal with
    | H : mainpc ?s = _ |- _ => rewrite H in N
    | H : redpc ?s = _ |- _ => rewrite H in N
    end; simpl in N; try cpos is_drain; lia].

Lemma inv_rc_step : forall c s l s', inv_st c s -> inv_cn s -> inv_rc s -> step c s l = Some s' -> inv_rc s'.
Proof.
  intros c s l s' (G0 & _) (N & _) (A & B) H. unfold inv_rc.
  destruct l; simpl in H.
  - brk; simpl. split; auto.
  - unf0; brk; rp; killg G0; ifs; simpl in *; rwm; simpl in *; split; clrc A B; finrc A B; try busyrc A N.
  - unf0; brk; rp; killg G0; ifs; simpl in *; rwm; simpl in *; split; clrc A B; finrc A B; try busyrc A N.
  - unf0; brk; rp; killg G0; ifs; simpl in *; rwm; simpl in *; split; clrc A B; finrc A B; try busyrc A N.
  - unf0; brk; rp; killg G0; ifs; simpl in *; rwm; simpl in *; split; clrc A B; finrc A B; try busyrc A N.
  - unf0; brk; rp; killg G0; ifs; simpl in *; rwm; simpl in *; split; clrc A B; finrc A B; try busyrc A N.
Qed.

Lemma inv_rc_all : forall c sched, inv_rc (run c (init c) sched).
Proof.
  intros c sched.
  assert (inv_st c (run c (init c) sched) /\ inv_cn (run c (init c) sched) /\ inv_rc (run c (init c) sched))
    as (_ & _ & H); [|exact H].
  apply (run_inv c (fun s => inv_st c s /\ inv_cn s /\ inv_rc s)).
  - intros s l s' (X & Y & Z) H. split; [|split].
    + eapply inv_st_step; eauto.
    + eapply inv_cn_step; eauto.
    + eapply inv_rc_step; eauto.
  - split; [|split]; [apply inv_st_init | apply inv_cn_init | apply inv_rc_init].
Qed.

(* when the caller's select takes a value from output and commits to it, no cancel call has entered
   the once body and the context branch has not been taken: a value is never returned from inside
   the window between retErr.Set and finish() *)
Lemma value_commit_not_cancelled_l : forall c sched b s' v,
  let s := run c (init c) sched in
  mainpc s = MSelect -> step c s (LMain b) = Some s' -> mainpc s' = MDefer (OVal v) ->
  g_cancels s = [] /\ reterr s = None /\ cstate s = CNone.
Proof.
  intros c sched b s' v s M H D.
  destruct (inv_rc_all c sched) as (A & B). fold s in A, B.
  assert (reterr s = None) as R.
  { simpl in H. unfold main_step in H. rewrite M in H.
    destruct (foreach c); destruct b; brk; simpl in D; try discriminate D; rp; simpl in D; try discriminate D.
    all: unfold out_result in D; destruct (reterr s); [discriminate D | reflexivity]. }
  split; [|split; [exact R | apply A; exact R]].
  destruct (B R) as [E | (_ & X)]; [exact E | congruence].
Qed.
