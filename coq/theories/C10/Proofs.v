(* C10 — invariants of the MapReduce LTS, proved for all configurations and all
   schedules by induction on the schedule. *)
From Coq Require Import List ZArith Bool Arith Lia Permutation.
From GZ Require Import C10.Model.
Import ListNotations.

(* ------------------------------------------------------------------ *)
(* generic: an invariant of [step] holds after every schedule          *)

Lemma run_inv : forall (c : config) (P : state -> Prop),
  (forall s l s', P s -> step c s l = Some s' -> P s') ->
  forall sched s, P s -> P (run c s sched).
Proof.
  intros c P HP sched; induction sched as [|l tl IH]; intros s Hs; simpl; auto.
  destruct (step c s l) eqn:E; auto. apply IH. eapply HP; eauto.
Qed.

(* break a hypothesis [step ... = Some s'] into its cases *)
Ltac brk :=
  repeat match goal with
  | H : Some _ = Some _ |- _ => inversion H; subst; clear H
  | H : None = Some _ |- _ => discriminate H
  | H : (let '(_, _) := ?x in _) = Some _ |- _ => destruct x eqn:?
  | H : match ?x with _ => _ end = Some _ |- _ => destruct x eqn:?; try discriminate H
  | H : (if ?x then _ else _) = Some _ |- _ => destruct x eqn:?; try discriminate H
  | H : (_, _) = (_, _) |- _ => inversion H; subst; clear H
  | H : (if ?x then _ else _) = (_, _) |- _ => destruct x eqn:?
  | H : match ?x with _ => _ end = (_, _) |- _ => destruct x eqn:?
  end.

Ltac unf :=
  unfold step, main_step, gen_step, map_step, red_step, exec_step, user_step, drain_step,
         recv_panic, out_take, src_take, pwrite, release_writer in *.

(* ------------------------------------------------------------------ *)
(* lists of mappers                                                     *)

Definition live (ms : list mapper) : nat := length (filter (fun m => negb (is_fin (mpc m))) ms).

Definition b2n (b : bool) : nat := if b then 1 else 0.

Lemma count_upd : forall (f : pc -> bool) i p ms m,
  nth_error ms i = Some m ->
  length (filter (fun m => f (mpc m)) (upd_nth i p ms)) + b2n (f (mpc m))
  = length (filter (fun m => f (mpc m)) ms) + b2n (f p).
Proof.
  intros f i p ms; revert i; induction ms as [|a tl IH]; intros i m H.
  - destruct i; discriminate.
  - destruct i; simpl in *.
    + inversion H; subst. destruct (f (mpc m)), (f p); simpl; lia.
    + specialize (IH _ _ H). destruct (f (mpc a)); simpl; lia.
Qed.

Lemma count_app1 : forall (f : pc -> bool) ms m,
  length (filter (fun m => f (mpc m)) (ms ++ [m]))
  = length (filter (fun m => f (mpc m)) ms) + b2n (f (mpc m)).
Proof.
  intros. rewrite filter_app, app_length. simpl. destruct (f (mpc m)); simpl; lia.
Qed.

Lemma upd_nth_items : forall i p ms, map mitem (upd_nth i p ms) = map mitem ms.
Proof.
  intros i p ms; revert i; induction ms as [|a tl IH]; intros i; destruct i; simpl; auto.
  f_equal; apply IH.
Qed.

Lemma upd_nth_length : forall i p ms, length (upd_nth i p ms) = length ms.
Proof.
  intros i p ms; revert i; induction ms as [|a tl IH]; intros i; destruct i; simpl; auto.
Qed.

Lemma running_le_live : forall ms, running ms <= live ms.
Proof.
  induction ms as [|a tl IH]; unfold running, live in *; simpl; auto.
  destruct (mpc a); simpl; lia.
Qed.

(* ------------------------------------------------------------------ *)
(* 1. worker bound                                                      *)

Definition exec_holds (e : epc) : nat := match e with ERecv => 1 | _ => 0 end.

Definition inv_pool (c : config) (s : state) : Prop :=
  pool s = exec_holds (execpc s) + live (maps s) /\ pool s <= workers c /\ g_peak s <= workers c.

Lemma inv_pool_init : forall c, inv_pool c (init c).
Proof. intros c; unfold inv_pool, init, live; simpl; lia. Qed.

Lemma user_step_pool : forall c r s p s1 q,
  user_step c r s p = Some (s1, q) ->
  pool s1 = pool s /\ maps s1 = maps s /\ execpc s1 = execpc s /\ g_peak s1 = g_peak s
  /\ (is_fin q = false) /\ (is_fin p = false).
Proof.
  intros c r s p s1 q H. unf.
  destruct p; try discriminate; brk; simpl; repeat split; auto.
  destruct all; auto.
Qed.

Lemma find_pend_spec : forall ms k i p,
  find_pend k ms = Some (i, p) ->
  exists m, k <= i /\ nth_error ms (i - k) = Some m /\ mpc m = PanicPend p.
Proof.
  induction ms as [|a tl IH]; intros k i p H; simpl in H; try discriminate.
  destruct (mpc a) eqn:E;
    try (apply IH in H; destruct H as (m & Hk & Hn & Hm); exists m; split; [lia|];
         split; auto; replace (i - k) with (S (i - S k)) by lia; exact Hn).
  inversion H; subst. exists a. rewrite Nat.sub_diag. simpl. auto.
Qed.

Lemma find_pend_0 : forall ms i p,
  find_pend 0 ms = Some (i, p) -> exists m, nth_error ms i = Some m /\ mpc m = PanicPend p.
Proof.
  intros ms i p H. apply find_pend_spec in H. destruct H as (m & _ & Hn & Hm).
  rewrite Nat.sub_0_r in Hn. eauto.
Qed.

(* use the counting lemma for the mapper that moved *)
Ltac cnt f :=
  match goal with
  | Hn : nth_error (maps ?s) ?i = Some ?m |- context [upd_nth ?i ?q (maps ?s)] =>
    let C := fresh "C" in
    pose proof (count_upd f i q (maps s) m Hn) as C; simpl in C
  end.

Ltac fp :=
  repeat match goal with
  | H : find_pend 0 _ = Some _ |- _ => apply find_pend_0 in H; destruct H as (? & ? & ?)
  end.


(* what Main's receive from panicChan does *)
Lemma recv_panic_spec : forall c s s1 p, recv_panic c s = Some (s1, p) ->
  (pbuf s = Some p /\ s1 = set_pchan s (wrote s) (quit s) None)
  \/ (genpc s = PanicPend p /\ s1 = set_gen s Epi2)
  \/ (redpc s = PanicPend p /\ s1 = set_red s Epi2)
  \/ (exists i m, nth_error (maps s) i = Some m /\ mpc m = PanicPend p
                   /\ s1 = set_maps s (upd_nth i Epi2 (maps s))).
Proof.
  intros c s s1 p H. unfold recv_panic, pending_panic, release_writer in H.
  destruct (variant_of c); brk; fp; auto.
  all: try (right; right; right; eauto; fail).
  all: try (right; left; auto; fail).
  all: try (right; right; left; auto; fail).
Qed.

Ltac unf0 :=
  unfold step, main_step, gen_step, map_step, red_step, exec_step, user_step, drain_step,
         out_take, src_take, pwrite in *.

Ltac rp :=
  repeat match goal with
  | H : recv_panic _ _ = Some _ |- _ =>
    apply recv_panic_spec in H;
    destruct H as [(? & ?) | [(? & ?) | [(? & ?) | (? & ? & ? & ? & ?)]]]; subst
  end.

Ltac ifs := repeat (match goal with |- context [if ?b then _ else _] => destruct b eqn:? end; simpl).

Ltac rwpc := repeat match goal with Hm : mpc _ = _ |- _ => rewrite Hm in * end.

Ltac nb := repeat match goal with
  | H : (_ <? _) = true |- _ => apply Nat.ltb_lt in H
  | H : (_ <? _) = false |- _ => apply Nat.ltb_ge in H
  | H : (_ =? _) = true |- _ => apply Nat.eqb_eq in H
  end.
Ltac rwe := repeat match goal with H : execpc ?s = _ |- context [execpc ?s] => rewrite H end.
Ltac solve_pool :=
  simpl in *; rwe; fp; ifs; try (cnt (fun p => negb (is_fin p))); rwpc; simpl in *; ifs; repeat split; try lia; auto.

Lemma inv_pool_step : forall c s l s', inv_pool c s -> step c s l = Some s' -> inv_pool c s'.
Proof.
  intros c s l s' (Hp & Hw & Hk) H. unfold inv_pool, live in *.
  destruct l; simpl in H.
  - (* ctx *) brk; simpl; auto.
  - (* main *) unf; unfold pending_panic in *; brk; solve_pool.
  - (* gen *) unf; brk; solve_pool.
  - (* exec *) unf; brk; nb; try solve [solve_pool].
    simpl in *; rwe.
    pose proof (running_le_live (maps s ++ [mkMapper z (Gate (mscript c z))])) as R.
    unfold live in R. rewrite (count_app1 (fun p => negb (is_fin p))) in *. simpl in *.
    repeat split; try lia.
  - (* map *) unf; brk; nb; try solve [solve_pool].
  - (* red *) unf; brk; nb; try solve [solve_pool].
Qed.

Lemma inv_pool_all : forall c sched, inv_pool c (run c (init c) sched).
Proof.
  intros c sched. apply run_inv; [apply inv_pool_step | apply inv_pool_init].
Qed.

Lemma workers_bounded_l : forall c sched,
  let s := run c (init c) sched in
  running (maps s) <= workers c /\ g_peak s <= workers c /\ pool s <= workers c.
Proof.
  intros c sched s. destruct (inv_pool_all c sched) as (Hp & Hw & Hk). fold s in Hp, Hw, Hk.
  pose proof (running_le_live (maps s)). repeat split; auto. lia.
Qed.

(* ------------------------------------------------------------------ *)
(* 2. conservation of items and of mapper outputs                        *)

Definition todo (p : pc) : list Z :=
  match p with
  | Gate r | CancelPend _ r | Draining r | RecvPend _ r => all_sends r
  | SendPend x r => x :: all_sends r
  | _ => []
  end.

Definition inv_logs (c : config) (s : state) : Prop :=
  Permutation (g_sent s) (map mitem (maps s) ++ g_drained s)
  /\ g_written s = g_reduced s ++ g_rdrained s ++ coll s
  /\ (in_user (redpc s) = true -> g_rdrained s = [])
  /\ (exists tl, g_sent s ++ todo (genpc s) ++ tl = all_sends (gscript c)).

Lemma inv_logs_init : forall c, inv_logs c (init c).
Proof.
  intros c; unfold inv_logs, init; simpl. repeat split; auto.
  exists []. rewrite app_nil_r. reflexivity.
Qed.

Ltac rwg := repeat match goal with
  | H : genpc ?s = _, H2 : context [genpc ?s] |- _ => rewrite H in H2
  | H : redpc ?s = _, H2 : context [redpc ?s] |- _ => rewrite H in H2
  | H : genpc ?s = _ |- context [genpc ?s] => rewrite H
  | H : redpc ?s = _ |- context [redpc ?s] => rewrite H
  | H : coll ?s = _ |- context [coll ?s] => rewrite H
  end.

Ltac solve_logs1 tl :=
  simpl in *; rwg; rwpc; simpl in *; try rewrite upd_nth_items;
  (split; [|split; [|split]]);
  [ auto | auto | try (intro; discriminate); auto | try (exists tl; simpl; auto; fail) ].
Ltac solve_logs tl := ifs; solve_logs1 tl.

Ltac fin_logs Hs Hw Hr Hg tl :=
  ifs; simpl in *; rwg; simpl in *; try rewrite upd_nth_items; (split; [|split; [|split]]);
  [ first [ exact Hs | rewrite app_assoc; apply Permutation_app_tail; exact Hs ]
  | first [ assumption
          | rewrite Hw; rewrite <- ?app_assoc; reflexivity
          | rewrite Hw; rewrite Hr by reflexivity; simpl; rewrite <- ?app_assoc; reflexivity ]
  | first [ intro; discriminate | assumption | intro; apply Hr; reflexivity ]
  | first [ exists tl; simpl; assumption | exists tl; rewrite <- app_assoc; simpl; exact Hg ] ].

Lemma inv_logs_step : forall c s l s', inv_logs c s -> step c s l = Some s' -> inv_logs c s'.
Proof.
  intros c s l s' (Hs & Hw & Hr & tl & Hg) H. unfold inv_logs.
  destruct l; simpl in H.
  - brk; simpl; eauto 6.
  - unf0; brk; rp; try solve [solve_logs tl].
    (* Main's cancel drains an item *)
    simpl in *; rwg; simpl in *. split; [|split; [|split]]; auto.
    + rewrite app_assoc. apply Permutation_app_tail. exact Hs.
    + exists tl. rewrite <- app_assoc. simpl. exact Hg.
  - unf0; brk; rp; try solve [solve_logs tl].
    + simpl in *. split; [|split; [|split]]; auto. exists (all_sends l ++ tl). exact Hg.
  - unf0; brk; rp; try solve [solve_logs tl].
    + simpl in *; rwg; simpl in *. split; [|split; [|split]]; auto.
      * rewrite map_app. simpl. rewrite <- app_assoc. simpl.
        apply Permutation_elt. rewrite app_nil_r. exact Hs.
      * exists tl. rewrite <- app_assoc. simpl. exact Hg.
    + simpl in *; rwg; simpl in *. split; [|split; [|split]]; auto.
      * rewrite app_assoc. apply Permutation_app_tail. exact Hs.
      * exists tl. rewrite <- app_assoc. simpl. exact Hg.
  - unf0; brk; rp; try solve [solve_logs tl].
    + simpl in *; rwg; simpl in *; try rewrite upd_nth_items. split; [|split; [|split]]; eauto.
      rewrite Hw. rewrite <- !app_assoc. reflexivity.
    + simpl in *; rwg; simpl in *; try rewrite upd_nth_items. split; [|split; [|split]]; auto.
      * rewrite app_assoc. apply Permutation_app_tail. exact Hs.
      * exists tl. rewrite <- app_assoc. simpl. exact Hg.
  - unf0; brk; rp; try solve [solve_logs tl]; try solve [fin_logs Hs Hw Hr Hg tl].
    assert (g_rdrained s = []) as E by (apply Hr; reflexivity).
    destruct all; simpl in *; rwg; simpl in *; (split; [|split; [|split]]); eauto;
      rewrite Hw, E; simpl; rewrite <- app_assoc; reflexivity.
Qed.

Lemma inv_logs_all : forall c sched, inv_logs c (run c (init c) sched).
Proof.
  intros c sched. apply run_inv; [apply inv_logs_step | apply inv_logs_init].
Qed.

(* ------------------------------------------------------------------ *)
(* 3. every result is justified                                          *)

(* a panic value in flight was raised by a user function, or is the runtime's
   "send on closed channel" *)
Definition pj (l : list pval) (p : pval) : Prop := In p l \/ p = PClosed.

Definition carries (p : pc) : option pval :=
  match p with Epi (Some v) => Some v | PanicPend v => Some v | _ => None end.

Definition pc_ok (l : list pval) (p : pc) : Prop := forall v, carries p = Some v -> pj l v.

(* the reducer's position in its script *)
Definition cur_red (p : pc) : option (list uact) :=
  match p with
  | Gate r => Some r
  | SendPend y r => Some (UWrite y :: r)
  | CancelPend e r => Some r
  | Draining r => Some r
  | RecvPend _ r => Some r
  | _ => None
  end.

Definition ojust (c : config) (s : state) (o : outcome) : Prop :=
  match o with
  | OErr e => (e = ECtx /\ ctx_done s = true) \/ In e (g_cancels s)
  | OPanic p => p = PMulti \/ pj (g_panics s) p
  | OVal v => In (UWrite v) (rscript c)
  | ONoOutput => foreach c = false
  | OUnit => foreach c = true
  end.

Definition inv_just (c : config) (s : state) : Prop :=
  (forall e, reterr s = Some e -> In e (g_cancels s))
  /\ (In ECtx (g_cancels s) -> ctx_done s = true)
  /\ pc_ok (g_panics s) (genpc s) /\ pc_ok (g_panics s) (redpc s)
  /\ Forall (fun m => pc_ok (g_panics s) (mpc m)) (maps s)
  /\ (forall v, pbuf s = Some v -> pj (g_panics s) v)
  /\ (forall r, cur_red (redpc s) = Some r -> exists pre, rscript c = pre ++ r)
  /\ match mainpc s with
     | MDrainOut p => pj (g_panics s) p
     | MDefer o | MQuit o | MFin o => ojust c s o
     | MSelect => True
     | MCancelPend | MDraining => ctx_done s = true /\ In ECtx (g_cancels s)
     end.

Lemma Forall_upd : forall (P : mapper -> Prop) i q ms m,
  Forall P ms -> nth_error ms i = Some m -> P (mkMapper (mitem m) q) -> Forall P (upd_nth i q ms).
Proof.
  intros P i q ms; revert i; induction ms as [|a tl IH]; intros i m HF Hn HP.
  - destruct i; discriminate.
  - inversion HF; subst. destruct i; simpl in *.
    + inversion Hn; subst. constructor; auto.
    + constructor; auto. eapply IH; eauto.
Qed.

Lemma Forall_nth : forall (P : mapper -> Prop) i ms m,
  Forall P ms -> nth_error ms i = Some m -> P m.
Proof.
  intros P i ms m HF Hn. rewrite Forall_forall in HF. apply HF. eapply nth_error_In; eauto.
Qed.

Lemma pj_mono : forall l x p, pj l p -> pj (l ++ [x]) p.
Proof. intros l x p [H|H]; [left; apply in_or_app; auto | right; auto]. Qed.

Lemma pc_ok_mono : forall l x p, pc_ok l p -> pc_ok (l ++ [x]) p.
Proof. intros l x p H v Hv. apply pj_mono. auto. Qed.

Lemma Forall_pc_mono : forall l x ms,
  Forall (fun m => pc_ok l (mpc m)) ms -> Forall (fun m => pc_ok (l ++ [x]) (mpc m)) ms.
Proof. intros l x ms H. eapply Forall_impl; [|exact H]. intros a Ha. apply pc_ok_mono; auto. Qed.

Lemma inv_just_init : forall c, inv_just c (init c).
Proof.
  intros c. unfold inv_just, init, pc_ok; simpl.
  repeat split; try discriminate; try tauto; auto.
  - destruct (foreach c); simpl; discriminate.
  - intros r H. destruct (foreach c); simpl in H; try discriminate. inversion H; subst. exists []. reflexivity.
Qed.

Ltac rwm := repeat match goal with H : mainpc ?s = _ |- context [mainpc ?s] => rewrite H end.
Ltac sj :=
  ifs; simpl in *; rwg; rwm; simpl in *;
  repeat match goal with
  | |- _ /\ _ => split
  end.

Ltac pcok :=
  match goal with
  | |- pc_ok _ _ => let v := fresh "v" in let Hv := fresh "Hv" in
                    intros v Hv; simpl in Hv; first [ discriminate Hv | inversion Hv; subst; clear Hv ]
  end.

Lemma suffix_step : forall (scr : list uact) a r,
  (exists pre, scr = pre ++ a :: r) -> exists pre, scr = pre ++ r.
Proof. intros scr a r (pre & H). exists (pre ++ [a]). rewrite <- app_assoc. exact H. Qed.

Lemma suffix_in : forall (scr : list uact) a r,
  (exists pre, scr = pre ++ a :: r) -> In a scr.
Proof. intros scr a r (pre & H). subst. apply in_or_app. right. left. reflexivity. Qed.

Ltac frame_main :=
  match goal with
  | |- match mainpc ?s with _ => _ end =>
    destruct (mainpc s); simpl in *; auto; try (apply pj_mono; assumption);
    try match goal with |- ojust _ _ ?o => destruct o; simpl in *; auto end;
    try match goal with
        | H : _ \/ _ |- _ => destruct H; [left; assumption | right; first [apply pj_mono; assumption | apply in_or_app; left; assumption]]
        end
  end.

Ltac pjs Jg Jr Jm Jb :=
  match goal with |- _ = PMulti \/ _ => right | _ => idtac end;
  first
  [ apply Jb; assumption
  | apply Jg; reflexivity
  | apply Jr; reflexivity
  | match goal with
    | Hn : nth_error _ _ = Some ?m, Hm : mpc ?m = _ |- _ =>
      let X := fresh "X" in
      pose proof (Forall_nth _ _ _ _ Jm Hn) as X; simpl in X; rewrite Hm in X; apply X; reflexivity
    end ].

Ltac sfx Js :=
  let r := fresh "r" in let Hr := fresh "Hr" in
  intros r Hr; inversion Hr; subst; clear Hr;
  first [ apply Js; reflexivity
        | eapply suffix_step; apply Js; reflexivity ].

Ltac jfin Jg Jr Jm Jb Js JM :=
  first
  [ assumption
  | tauto
  | intros; discriminate
  | pcok; unfold pj; simpl; auto; fail
  | pcok; match goal with H : pc_ok _ _ |- _ => apply H; simpl; reflexivity end
  | eapply Forall_upd; [eassumption | eassumption | simpl; pcok; unfold pj; simpl; auto; fail]
  | eapply Forall_upd; [apply Forall_pc_mono; eassumption | eassumption
                       | simpl; pcok; left; apply in_or_app; right; left; reflexivity]
  | eapply Forall_upd; [eassumption | eassumption
                       | simpl; pcok;
                         match goal with
                         | Hn : nth_error _ _ = Some ?m, Hm : mpc ?m = _ |- _ =>
                           let X := fresh "X" in
                           pose proof (Forall_nth _ _ _ _ Jm Hn) as X; simpl in X; rewrite Hm in X; apply X; reflexivity
                         end]
  | intros; apply in_or_app; simpl; auto; fail
  | right; assumption
  | pjs Jg Jr Jm Jb
  | sfx Js
  | frame_main; fail
  | apply pc_ok_mono; assumption
  | apply Forall_pc_mono; assumption
  | intros; apply pj_mono; auto; fail
  | pcok; left; apply in_or_app; right; left; reflexivity
  | match goal with
    | |- ojust _ _ (out_result ?s _) =>
      unfold out_result; destruct (reterr s) eqn:?; simpl; auto;
      eapply suffix_in; apply Js; reflexivity
    end
  | match goal with
    | |- forall e, Some ECtx = Some e -> _ => let e := fresh in let E := fresh in intros e E; inversion E; subst; tauto
    end
  | apply in_or_app; right; left; reflexivity
  | match goal with
    | |- forall e0, Some ?x = Some e0 -> In e0 (_ ++ [?x]) =>
      let e0 := fresh in let E := fresh in intros e0 E; inversion E; subst; apply in_or_app; right; left; reflexivity
    end
  | match goal with
    | |- In ECtx (_ ++ [err_of ?e]) -> _ =>
      let H := fresh in intro H; apply in_app_or in H; destruct H as [H|[H|[]]]; [auto | destruct e; discriminate H]
    end
  | match goal with
    | |- match mainpc ?s with _ => _ end =>
      destruct (mainpc s); simpl in *; auto;
      try (destruct JM; split; [assumption | apply in_or_app; left; assumption]);
      try match goal with |- ojust _ _ ?o => destruct o; simpl in *; auto end;
      try match goal with
          | H : _ \/ _ |- _ => destruct H; [left; assumption | right; apply in_or_app; left; assumption]
          end
    end
  | idtac ].

Lemma inv_just_step : forall c s l s', inv_just c s -> step c s l = Some s' -> inv_just c s'.
Proof.
  intros c s l s' (J1 & J2 & Jg & Jr & Jm & Jb & Js & JM) H. unfold inv_just.
  destruct l; simpl in H.
  - brk; simpl; repeat split; auto.
    destruct (mainpc s); simpl in *; auto; try tauto.
    all: destruct o; simpl in *; auto; destruct JM as [(? & ?)|?]; auto.
  - unf0; brk; rp. all: sj. all: jfin Jg Jr Jm Jb Js JM.
  - unf0; brk; rp. all: sj. all: jfin Jg Jr Jm Jb Js JM.
  - unf0; brk; rp. all: sj. all: jfin Jg Jr Jm Jb Js JM.
    apply Forall_app; split; auto.
  - unf0; brk; rp. all: sj. all: jfin Jg Jr Jm Jb Js JM.
  - unf0; brk; rp. all: sj. all: jfin Jg Jr Jm Jb Js JM. 
Qed.

Lemma inv_just_all : forall c sched, inv_just c (run c (init c) sched).
Proof.
  intros c sched. apply run_inv; [apply inv_just_step | apply inv_just_init].
Qed.

(* ------------------------------------------------------------------ *)
(* 4. the repaired panicChan: once the caller has committed, writers are released *)

Definition inv_quit (c : config) (s : state) : Prop :=
  variant_of c = VFixed ->
  match mainpc s with
  | MFin _ | MCancelPend | MDraining => quit s = true
  | _ => True
  end.

Lemma inv_quit_init : forall c, inv_quit c (init c).
Proof. intros c H. simpl. exact I. Qed.

Lemma inv_quit_step : forall c s l s', inv_quit c s -> step c s l = Some s' -> inv_quit c s'.
Proof.
  intros c s l s' Q H V. specialize (Q V). unfold fixedb in *.
  destruct l; simpl in H.
  - brk; simpl; auto.
  - unf0; unfold fixedb in *; try rewrite V in *; brk; rp; simpl in *; rwm; auto; try (destruct (mainpc _); auto; fail).
  - unf0; unfold fixedb in *; try rewrite V in *; brk; rp; simpl in *; rwm; auto; try (destruct (mainpc _); auto; fail).
  - unf0; unfold fixedb in *; try rewrite V in *; brk; rp; simpl in *; rwm; auto; try (destruct (mainpc _); auto; fail).
  - unf0; unfold fixedb in *; try rewrite V in *; brk; rp; simpl in *; rwm; auto; try (destruct (mainpc _); auto; fail).
  - unf0; unfold fixedb in *; try rewrite V in *; brk; rp; simpl in *; rwm; auto; try (destruct (mainpc _); auto; fail).
Qed.

Lemma inv_quit_all : forall c sched, inv_quit c (run c (init c) sched).
Proof.
  intros c sched. apply run_inv; [apply inv_quit_step | apply inv_quit_init].
Qed.
