(* C10 — the final-state form of "a normal result means nothing was cancelled".
   [inv_f]: done / output are closed either by a cancel body (the once is then done) or by the
   reducer goroutine's epilogue (it has then ended): finished /\ cstate = CNone -> the reducer
   goroutine has ended - hence the collector is closed, every mapper is past its user function, and
   nobody can enter cancel any more.  [inv_v]: while the caller holds ErrReduceNoOutput (or ForEach's
   plain return) as its outcome, no cancel call has been executed and the context branch was not
   taken - up to and including the return. *)
From Coq Require Import List ZArith Bool Arith Lia.
From GZ Require Import C10.Model C10.Proofs C10.ProofsT C10.ProofsC C10.ProofsV.
Import ListNotations.

Definition inv_f (s : state) : Prop := finished s = true -> cstate s = CDone \/ redpc s = Fin.

Ltac clf F :=
  first [ exact F
        | intros; discriminate
        | intros _; right; reflexivity
        | intros _; apply F; reflexivity
        | intros _; first [left; assumption | right; assumption]
        | let Y := fresh in intros _; destruct (F eq_refl) as [Y | Y]; [left; exact Y | discriminate Y]
        | intros _; left; reflexivity
        | let X := fresh in let Y := fresh in intro X; destruct (F X) as [Y | Y];
          [first [left; exact Y | congruence] | first [right; exact Y | congruence]]
        | let X := fresh in intro X; simpl in F; congruence
        | idtac ].

Lemma inv_f_step : forall c s l s', inv_f s -> step c s l = Some s' -> inv_f s'.
Proof.
  intros c s l s' F H. unfold inv_f in *.
  destruct l; simpl in H.
  - brk; simpl; auto.
  - unf0; brk; rp; ifs; simpl in *; clf F.
  - unf0; brk; rp; ifs; simpl in *; clf F.
  - unf0; brk; rp; ifs; simpl in *; clf F.
  - unf0; brk; rp; ifs; simpl in *; clf F.
  - unf0; brk; rp; ifs; simpl in *; clf F.
Qed.

Lemma inv_f_all : forall c sched, inv_f (run c (init c) sched).
Proof.
  intros c sched. apply (run_inv c inv_f).
  - intros s l s' F H. eapply inv_f_step; eauto.
  - unfold inv_f, init; simpl. discriminate.
Qed.

Definition noout (m : mstate) : bool :=
  match m with
  | MDefer ONoOutput | MQuit ONoOutput | MFin ONoOutput | MDefer OUnit | MQuit OUnit | MFin OUnit => true
  | _ => false
  end.

Definition inv_v (s : state) : Prop := noout (mainpc s) = true -> g_cancels s = [] /\ finished s = true.

Ltac clv V :=
  first [ intros; discriminate
        | exact V
        | let X := fresh in intro X; destruct (V X) as (? & ?); split; [assumption | first [assumption | reflexivity]]
        | let X := fresh in intro X; destruct (V eq_refl) as (? & ?); split; [assumption | first [assumption | reflexivity]]
        | idtac ].

Lemma inv_v_step : forall c s l s', foreach c = false -> inv_st c s -> inv_fr c s -> inv_f s -> inv_rc s ->
  inv_v s -> step c s l = Some s' -> inv_v s'.
Proof.
  intros c s l s' FE (G & R & M & S & W & CC & L & F0) (A & B0 & C0) F (RA & RB) V H. unfold inv_v in *.
  destruct l; simpl in H.
  - brk; simpl; auto.
  - unf0; rewrite ?FE in H; brk; rp; ifs; simpl in *; rwm; simpl in *; clv V.
    all: unfold out_result; destruct (reterr s) eqn:RE; simpl; intros; try discriminate.
    split; [destruct (RB eq_refl) as [E | (_ & E)]; [exact E | discriminate E] | assumption].
  - unf0; rewrite ?FE in H; brk; rp; ifs; simpl in *; rwm; simpl in *; clv V.
  - unf0; rewrite ?FE in H; brk; rp; ifs; simpl in *; rwm; simpl in *; clv V.
  - unf0; rewrite ?FE in H; brk; rp; ifs; simpl in *; rwm; simpl in *; clv V.
    intro X; exfalso; destruct (V X) as (_ & FN). destruct (F FN) as [Y | Y]; [congruence|].
    assert (post_red (redpc s) = true) as PR by (rewrite Y; reflexivity).
    destruct (A PR) as (_ & A2). specialize (A2 FE). rewrite A2 in CC.
    assert (elate (execpc s) = true) as EL by (destruct (execpc s); simpl in *; congruence).
    specialize (L EL). pose proof (count_pos bd (maps s) i m Heqo) as P. rewrite Heqp in P. specialize (P eq_refl).
    unfold cnt_bd in W. lia.
  - unf0; rewrite ?FE in H; brk; rp; ifs; simpl in *; rwm; simpl in *; clv V.
    intro X; exfalso; destruct (V X) as (_ & FN). destruct (F FN) as [Y | Y]; congruence.
Qed.

(* ForEach / FinishVoid: there is no cancel func and no context branch *)
Lemma fe_no_cancel_step : forall c s l s', foreach c = true -> inv_st c s -> inv_fr c s ->
  g_cancels s = [] -> step c s l = Some s' -> g_cancels s' = [].
Proof.
  intros c s l s' FE (G & _) (A & B & C) V H. unfold inv_fr in *. rewrite FE in *.
  destruct (C eq_refl) as (C1 & C2 & C3 & C4 & C5). clear B C.
  rewrite C1 in A. destruct (A eq_refl) as (A1 & _). clear A.
  destruct l; simpl in H.
  - brk; simpl; auto.
  - unf0; rewrite ?FE, ?C1, ?C2, ?C3, ?A1 in H; brk; rp; simpl in *; try congruence; killg G; killm C4; ifs; simpl; auto.
  - unf0; rewrite ?FE, ?C1, ?C2, ?C3, ?A1 in H; brk; rp; simpl in *; try congruence; killg G; killm C4; ifs; simpl; auto.
  - unf0; rewrite ?FE, ?C1, ?C2, ?C3, ?A1 in H; brk; rp; simpl in *; try congruence; killg G; killm C4; ifs; simpl; auto.
  - unf0; rewrite ?FE, ?C1, ?C2, ?C3, ?A1 in H; brk; rp; simpl in *; try congruence; killg G; killm C4; ifs; simpl; auto.
  - unf0; rewrite ?FE, ?C1, ?C2, ?C3, ?A1 in H; brk; rp; simpl in *; try congruence; killg G; killm C4; ifs; simpl; auto.
Qed.

Lemma inv_v_all : forall c sched, foreach c = false -> inv_v (run c (init c) sched).
Proof.
  intros c sched FE.
  assert (let s := run c (init c) sched in
          inv_st c s /\ inv_cn s /\ inv_fr c s /\ inv_f s /\ inv_rc s /\ inv_v s) as X.
  { apply (run_inv c (fun s => inv_st c s /\ inv_cn s /\ inv_fr c s /\ inv_f s /\ inv_rc s /\ inv_v s)).
    - intros s l s' (A & B & C & D & E & F) H. split; [|split; [|split; [|split; [|split]]]].
      + eapply inv_st_step; eauto.
      + eapply inv_cn_step; eauto.
      + eapply inv_fr_step; eauto.
      + eapply inv_f_step; eauto.
      + eapply inv_rc_step; eauto.
      + eapply inv_v_step; eauto.
    - split; [|split; [|split; [|split; [|split]]]].
      + apply inv_st_init.
      + apply inv_cn_init.
      + apply inv_fr_init.
      + unfold inv_f, init; simpl; discriminate.
      + apply inv_rc_init.
      + unfold inv_v, init; simpl; discriminate. }
  simpl in X. tauto.
Qed.

Lemma fe_no_cancel_all : forall c sched, foreach c = true -> g_cancels (run c (init c) sched) = [].
Proof.
  intros c sched FE.
  assert (let s := run c (init c) sched in inv_st c s /\ inv_fr c s /\ g_cancels s = []) as X.
  { apply (run_inv c (fun s => inv_st c s /\ inv_fr c s /\ g_cancels s = [])).
    - intros s l s' (A & B & C) H. split; [|split].
      + eapply inv_st_step; eauto.
      + eapply inv_fr_step; eauto.
      + eapply fe_no_cancel_step; eauto.
    - split; [apply inv_st_init | split; [apply inv_fr_init | reflexivity]]. }
  simpl in X. tauto.
Qed.

(* the final-state theorem: a call that returns ErrReduceNoOutput (MapReduce / MapReduceChan; nil
   for MapReduceVoid / Finish) or simply returns (ForEach / FinishVoid) has executed no cancel call
   and never took the context branch - every API, every schedule, all scripts *)
Lemma no_output_nothing_cancelled_l : forall c sched o,
  let s := run c (init c) sched in
  result s = Some o -> o = ONoOutput \/ o = OUnit -> g_cancels s = [].
Proof.
  intros c sched o s R O. destruct (foreach c) eqn:FE.
  - apply fe_no_cancel_all. exact FE.
  - pose proof (inv_v_all c sched FE) as V. fold s in V. unfold inv_v in V.
    unfold result in R. destruct (mainpc s) eqn:M; try discriminate R. inversion R; subst o0.
    apply V. destruct O; subst o; reflexivity.
Qed.

(* contrapositive: once a cancel call has been executed or the context branch taken, a call that
   returns does so with an error, a value committed BEFORE (value_commit_not_cancelled), or a panic -
   never with ErrReduceNoOutput *)
Lemma cancelled_never_no_output_l : forall c sched o,
  let s := run c (init c) sched in
  result s = Some o -> g_cancels s <> [] -> o <> ONoOutput /\ o <> OUnit.
Proof.
  intros c sched o s R N. split; intro E; apply N; eapply no_output_nothing_cancelled_l; eauto.
Qed.

Lemma void_nil_l : forall c sched o,
  void_cfg c ->
  let s := run c (init c) sched in
  result s = Some o ->
  (o = ONoOutput /\ g_cancels s = [] /\ void_post false o = OUnit)
  \/ (exists e, o = OErr e /\ ((e = ECtx /\ ctx_done s = true) \/ In e (g_cancels s)))
  \/ (exists p, o = OPanic p).
Proof.
  intros c sched o V s R.
  destruct (void_result_final_l c sched o V R) as (NV & NU & E).
  destruct o as [v | | e | p | ].
  - exfalso. eapply NV; reflexivity.
  - left. split; [reflexivity | split; [|reflexivity]].
    eapply no_output_nothing_cancelled_l; [exact R | left; reflexivity].
  - right; left. exists e. split; [reflexivity | apply E; reflexivity].
  - right; right. exists p. reflexivity.
  - exfalso. apply NU; reflexivity.
Qed.
