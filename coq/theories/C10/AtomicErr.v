(* C10 — core/errorx/atomicerror.go (the retErr of mapReduceWithPanicChan) and Go's error VALUES:
   executable model, no proofs.

   A Go interface value is either the nil interface or a pair (dynamic type, payload).  A payload of
   pointer-like kind may be the nil pointer: such a "typed nil" is a NON-nil interface value
   ([err != nil] is true for it, calling Error() on it usually panics).  Identity of error values
   ([==] on interfaces) is equality of both components.

     type AtomicError struct{ err atomic.Value }
     func (ae *AtomicError) Set(err error)  { if err != nil { ae.err.Store(err) } }
     func (ae *AtomicError) Load() error    { if v := ae.err.Load(); v != nil { return v.(error) }; return nil }

   sync/atomic.Value: Store(nil) panics; the first Store fixes the concrete type, a later Store of a
   value of another concrete type panics ("store of inconsistent type") and stores nothing; otherwise
   the last Store is what Load returns.

   The guard of Set is a parameter ([ignored]): [guard_today] is the plain nil test of the source,
   [guard_c1010] the variant of seeded change C10-10 (reflect: a nil pointer inside the interface is
   ignored as well).

   mr's cancel body begins with  if err != nil { retErr.Set(err) } else { retErr.Set(ErrCancelWithNil) }
   ([cancel_store]); the caller's output branch reads  if e := retErr.Load(); e != nil { err = e }. *)
From Coq Require Import List ZArith Bool.
From GZ Require Import C10.Model.
Import ListNotations.
Local Open Scope Z_scope.

Inductive payload :=
| PNil               (* the nil pointer / nil channel of a pointer-like dynamic type *)
| PPtr (a : Z)       (* a non-nil pointer, identified by its address *)
| PVal (d : Z).      (* a value of a non-pointer type (int, struct, ...) *)

Record dyn := mkDyn { dty : Z; dpl : payload }.

(* an error value: None = the nil interface *)
Definition goerr := option dyn.

Definition payload_eqb (a b : payload) : bool :=
  match a, b with
  | PNil, PNil => true
  | PPtr x, PPtr y | PVal x, PVal y => Z.eqb x y
  | _, _ => false
  end.
Definition dyn_eqb (a b : dyn) : bool := Z.eqb (dty a) (dty b) && payload_eqb (dpl a) (dpl b).
Definition goerr_eqb (a b : goerr) : bool :=
  match a, b with
  | None, None => true
  | Some x, Some y => dyn_eqb x y
  | _, _ => false
  end.

Definition is_nil_iface (v : goerr) : bool := match v with None => true | Some _ => false end.
Definition is_typed_nil (v : goerr) : bool :=
  match v with Some (mkDyn _ PNil) => true | _ => false end.

(* ---- sync/atomic.Value holding errors: what was stored last, if anything ---- *)
Definition av := option dyn.

(* Store: (new content, panicked) *)
Definition av_store (st : av) (v : goerr) : av * bool :=
  match v with
  | None => (st, true)
  | Some d => match st with
              | None => (Some d, false)
              | Some d0 => if Z.eqb (dty d0) (dty d) then (Some d, false) else (st, true)
              end
  end.

(* ---- AtomicError ---- *)
Definition ae_set (ignored : goerr -> bool) (st : av) (v : goerr) : av * bool :=
  if ignored v then (st, false) else av_store st v.
Definition ae_load (st : av) : goerr := st.

Definition guard_today : goerr -> bool := is_nil_iface.
(* seeded change C10-10: "Set ignores a nil pointer wrapped in an error interface" *)
Definition guard_c1010 (v : goerr) : bool := is_nil_iface v || is_typed_nil v.

(* a sequence of Sets by one goroutine; the flag: some Store panicked *)
Fixpoint ae_sets (ignored : goerr -> bool) (st : av) (vs : list goerr) : av * bool :=
  match vs with
  | [] => (st, false)
  | v :: tl => let '(st1, p1) := ae_set ignored st v in
               let '(st2, p2) := ae_sets ignored st1 tl in (st2, p1 || p2)
  end.

(* the value a sequence of Sets leaves behind according to the contract: the last one that is not
   the nil interface *)
Fixpoint last_non_nil (st : av) (vs : list goerr) : av :=
  match vs with
  | [] => st
  | None :: tl => last_non_nil st tl
  | Some d :: tl => last_non_nil (Some d) tl
  end.

(* all values (and the content, if any) have one concrete type: no Store can panic *)
Definition same_type (st : av) (v : goerr) : bool :=
  match st, v with
  | Some d0, Some d => Z.eqb (dty d0) (dty d)
  | _, _ => true
  end.
Fixpoint consistent (st : av) (vs : list goerr) : bool :=
  match vs with
  | [] => true
  | None :: tl => consistent st tl
  | Some d :: tl => same_type st (Some d) && consistent (Some d) tl
  end.

(* ---- mr: the store at the head of the cancel body, and the vocabulary of the executor ---- *)
(* mr.ErrCancelWithNil = errors.New(..): a non-nil *errors.errorString *)
Definition dyn_cancel_with_nil : dyn := mkDyn 2 (PPtr 1001).

Definition cancel_arg (v : goerr) : goerr :=
  if is_nil_iface v then Some dyn_cancel_with_nil else v.
Definition cancel_store (ignored : goerr -> bool) (st : av) (v : goerr) : av * bool :=
  ae_set ignored st (cancel_arg v).

(* the error values the executor (harness/cmd/c10) hands to cancel / returns from Finish functions /
   panics with, by code.  Dynamic types: 1 cancelErr (an int), 2 *errors.errorString, 3
   context.deadlineExceededError (an empty struct), 4 *fmt.wrapError, 5 *ptrErr, 6 structErr (a
   comparable struct, value receiver), 7 *panickyErr (Error() panics), 8 chanErr (a channel type).
   9 mapErr, 10 sliceErr, 11 funcErr (NON-comparable types: == on two values of such a type panics in Go; the
   model's identity is on (type, payload) and nothing in mr / AtomicError compares errors with ==).
   1011 = a nil pointer of type ptrErr, 1015 = a nil chanErr and 1020 = a nil mapErr are typed nils. *)
Definition dyn_of_code (k : Z) : dyn :=
  if (k =? 1001) || (k =? 1002) || (k =? 1003) || (k =? 1007) || (k =? 1009) || (k =? 1017) then mkDyn 2 (PPtr k)
  else if k =? 1004 then mkDyn 3 (PVal 0)
  else if (k =? 1005) || (k =? 1006) || (k =? 1010) || (k =? 1014) then mkDyn 4 (PPtr k)
  else if (k =? 1008) || (k =? 1018) then mkDyn 5 (PPtr k)
  else if k =? 1011 then mkDyn 5 PNil
  else if k =? 1012 then mkDyn 6 (PVal 1012)
  else if k =? 1016 then mkDyn 6 (PVal 0)
  else if k =? 1013 then mkDyn 7 (PPtr k)
  else if k =? 1015 then mkDyn 8 PNil
  else if k =? 1019 then mkDyn 9 (PPtr k)
  else if k =? 1020 then mkDyn 9 PNil
  else if k =? 1021 then mkDyn 10 (PPtr k)
  else if k =? 1022 then mkDyn 11 (PPtr k)
  else mkDyn 1 (PVal k).

(* what cancel(..) of a script action passes: None = cancel(nil) *)
Definition goerr_of (e : option Z) : goerr :=
  match e with Some k => Some (dyn_of_code k) | None => None end.

(* back from a loaded value to the LTS's opaque error (Model.err) *)
Definition code_of_dyn (d : dyn) : Z :=
  match d with
  | mkDyn 1 (PVal k) => k
  | mkDyn 3 (PVal 0) => 1004
  | mkDyn 5 PNil => 1011
  | mkDyn 6 (PVal 0) => 1016
  | mkDyn 6 (PVal k) => k
  | mkDyn 8 PNil => 1015
  | mkDyn 9 PNil => 1020
  | mkDyn _ (PPtr k) => k
  | _ => -1
  end.
Definition err_of_dyn (d : dyn) : err :=
  if dyn_eqb d dyn_cancel_with_nil then ECancelNil else ECancel (code_of_dyn d).

(* the caller's output branch:  if e := retErr.Load(); e != nil { err = e } else if ok { val = v }
   else { err = ErrReduceNoOutput } *)
Definition out_branch (st : av) (v : option Z) : outcome :=
  match ae_load st with
  | Some d => OErr (err_of_dyn d)
  | None => match v with Some y => OVal y | None => ONoOutput end
  end.

(* ---- histories of one AtomicError as observed on the implementation (Check.v) ---- *)
Inductive aop :=
| ASet (v : goerr) (opanic : bool)                 (* Set(v); observed: it panicked *)
| ALoad (o : goerr)                                (* Load(); observed: the value, by identity *)
| AConc (vs : list goerr) (mids : list goerr) (opanic : bool) (o : goerr).
    (* one goroutine per value, all calling Set concurrently, and a reader whose Loads INTERLEAVE with the Sets
       (mids: what it saw); all joined; then a Load that returned o *)

Definition non_nil_of (vs : list goerr) : list goerr := filter (fun v => negb (is_nil_iface v)) vs.

(* the Load after concurrent Sets of one concrete type returns one of the non-nil values (whichever
   Store was last), or the old content if every Set was ignored *)
Definition conc_allowed (st : av) (vs : list goerr) (o : goerr) : bool :=
  match non_nil_of vs with
  | [] => goerr_eqb o st
  | nn => existsb (goerr_eqb o) nn
  end.

(* a Load interleaved with the concurrent Sets sees the old content or one of the non-nil values *)
Definition mid_allowed (st : av) (vs : list goerr) (o : goerr) : bool :=
  goerr_eqb o st || existsb (goerr_eqb o) (non_nil_of vs).

(* the model (today's Set) reproduces the observed history *)
Fixpoint ae_agrees (st : av) (ops : list aop) : bool :=
  match ops with
  | [] => true
  | ASet v p :: tl => let '(st1, p1) := ae_set guard_today st v in Bool.eqb p p1 && ae_agrees st1 tl
  | ALoad o :: tl => goerr_eqb (ae_load st) o && ae_agrees st tl
  | AConc vs mids p o :: tl =>
    (* values of several concrete types: which Store panics depends on the order - not compared *)
    if consistent st vs then negb p && forallb (mid_allowed st vs) mids && conc_allowed st vs o && ae_agrees o tl
    else ae_agrees o tl
  end.

(* the contract that mr relies on, judged on the observations alone - weaker than the model on purpose
   (which Set wins among several is not part of it: mr's once lets one Set in per call):
   Set(nil) is ignored and does not panic; a Set of ANY non-nil interface value - typed nils
   included - of the stored concrete type does not panic; Load returns nil iff nothing but nil was
   ever Set, and otherwise - by identity - one of the non-nil values Set so far; in particular after
   exactly one such Set, that very value.
   [l] = the non-nil values Set so far; [cur] = the value Set / observed last, used only to tell
   whether a Store is of another concrete type (sync/atomic's own panic: cannot happen in mr and is
   not judged). *)
Definition load_ok (l : list dyn) (o : goerr) : bool :=
  match l with
  | [] => is_nil_iface o
  | _ => existsb (fun d => goerr_eqb o (Some d)) l
  end.
Fixpoint dyns (vs : list goerr) : list dyn :=
  match vs with
  | [] => []
  | Some d :: tl => d :: dyns tl
  | None :: tl => dyns tl
  end.

(* a Load interleaved with concurrent Sets: a legitimate Load of the content before them, or one of
   the values being Set *)
Definition mid_ok (l : list dyn) (vs : list goerr) (o : goerr) : bool :=
  load_ok l o || existsb (fun d => goerr_eqb o (Some d)) (dyns vs).

Fixpoint ae_prop (cur : av) (l : list dyn) (ops : list aop) : bool :=
  match ops with
  | [] => true
  | ASet None p :: tl => negb p && ae_prop cur l tl
  | ASet (Some d) p :: tl =>
    if same_type cur (Some d) then negb p && ae_prop (Some d) (d :: l) tl
    else if p then ae_prop cur l tl else ae_prop (Some d) (d :: l) tl
  | ALoad o :: tl => load_ok l o && ae_prop cur l tl
  | AConc vs mids p o :: tl =>
    if consistent cur vs
    then negb p && forallb (mid_ok l vs) mids && load_ok (dyns vs ++ l) o && ae_prop o (dyns vs ++ l) tl
    else ae_prop o (match o with Some d => [d] | None => [] end) tl
  end.
