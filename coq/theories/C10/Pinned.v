(* C10 — the panicChan protocol as it was at the pinned commit (VPinned: unbuffered
   rendezvous, nobody listens after the caller left its select) and the rejected
   repair (VBuffered: make(chan any, 1)).  Each defect is refuted by a concrete
   schedule evaluated with vm_compute; the same schedules end clean under VFixed.
   DESIGN.md §5, F4.  The schedules are replayed on the implementation by the first
   corpus entries of tools/props/c10.py. *)
From Coq Require Import List ZArith Bool Arith.
From GZ Require Import C10.Model C10.AtomicErr C10.ProofsT C10.ProofsP C10.ProofsL.
Import ListNotations.
Open Scope Z_scope.

Definition rw : list uact := [URecvAll; UWrite 777].

Fixpoint rep (n : nat) (l : list label) : list label :=
  match n with O => [] | S k => l ++ rep k l end.

(* everything except the caller: a fair round-robin (labels that are not enabled are skipped) *)
Definition others : list label := [LGen; LExec false; LExec true; LRed; LMap 0; LMap 1].

(* all user functions have returned (every thread is past its user code) *)
Definition users_returned (s : state) : bool :=
  negb (in_user (genpc s)) && negb (in_user (redpc s))
  && forallb (fun m => negb (in_user (mpc m))) (maps s).

(* F4: two items, mapper 1 cancels, mapper 2 panics after the call returned; the reducer
   returns at once (as in mr.Finish), so every user function has returned at the end *)
Definition f4_cfg (v : variant) : config :=
  mkCfg v false 2%nat [USend 1; USend 2]
        (fun x => if x =? 1 then [UCancel (Some 5)] else [UPanic 9]) [] false.
Definition f4_sched : list label :=
  rep 12 [LGen; LExec false] ++ rep 8 [LMap 0] ++ rep 4 [LMain BOut] ++ rep 5 [LMap 1] ++ rep 12 others.

Theorem pinned_late_panic_leaks :
  exists sched, let s := run (f4_cfg VPinned) (init (f4_cfg VPinned)) sched in
    result s = Some (OErr (ECancel 5)) /\ users_returned s = true
    /\ stuck (f4_cfg VPinned) s = true /\ clean s = false.
Proof. exists f4_sched. vm_compute. repeat split; reflexivity. Qed.

Example fixed_late_panic_clean :
  let s := run (f4_cfg VFixed) (init (f4_cfg VFixed)) f4_sched in
  result s = Some (OErr (ECancel 5)) /\ stuck (f4_cfg VFixed) s = true /\ clean s = true.
Proof. vm_compute. repeat split; reflexivity. Qed.

(* F4-A: the reducer writes its output early, then a mapper panics: the pinned
   caller waits in its deferred `for range output` and never returns *)
Definition f4a_cfg (v : variant) : config :=
  mkCfg v false 2%nat [USend 1] (fun _ => [UPanic 9]) [UWrite 42] false.
Definition f4a_sched : list label :=
  rep 12 [LGen; LExec false] ++ [LRed; LMain BOut; LRed; LRed] ++ rep 3 [LMap 0; LMain BPanic] ++ rep 12 (LMain BOut :: others).

Theorem pinned_panic_after_output_deadlocks :
  exists sched, let s := run (f4a_cfg VPinned) (init (f4a_cfg VPinned)) sched in
    result s = None /\ users_returned s = true /\ stuck (f4a_cfg VPinned) s = true.
Proof. exists f4a_sched. vm_compute. repeat split; reflexivity. Qed.

Example fixed_panic_after_output_reraised :
  let s := run (f4a_cfg VFixed) (init (f4a_cfg VFixed)) f4a_sched in
  result s = Some (OPanic (PUser 9)) /\ stuck (f4a_cfg VFixed) s = true /\ clean s = true.
Proof. vm_compute. repeat split; reflexivity. Qed.

(* F4-B: the context ends, the caller is inside cancel -> drain(source), then the
   generator panics: its write waits for the caller, the caller waits for close(source) *)
Definition f4b_cfg (v : variant) : config :=
  mkCfg v false 2%nat [UPanic 3] (fun _ => []) [] false.
Definition f4b_sched : list label :=
  [LExec false; LExec false; LRed; LCtx] ++ rep 3 [LMain BCtx] ++ rep 4 [LGen] ++ rep 12 (LMain BOut :: others).

Theorem pinned_ctx_then_generator_panic_deadlocks :
  exists sched, let s := run (f4b_cfg VPinned) (init (f4b_cfg VPinned)) sched in
    result s = None /\ users_returned s = true /\ stuck (f4b_cfg VPinned) s = true.
Proof. exists f4b_sched. vm_compute. repeat split; reflexivity. Qed.

Example fixed_ctx_then_generator_panic_clean :
  let s := run (f4b_cfg VFixed) (init (f4b_cfg VFixed)) f4b_sched in
  result s = Some (OErr ECtx) /\ stuck (f4b_cfg VFixed) s = true /\ clean s = true.
Proof. vm_compute. repeat split; reflexivity. Qed.

(* The rejected repair: with a buffered panicChan the writer never waits, the
   pipeline runs to its end, and a caller that reaches its select late may take the
   closed output: the mapper's panic is dropped although nothing cancelled. *)
Definition buf_cfg (v : variant) : config :=
  mkCfg v false 1%nat [USend 1] (fun _ => [UPanic 9]) [URecvAll] false.
Definition buf_sched : list label :=
  rep 12 [LGen; LExec false] ++ rep 12 others ++ rep 4 [LMain BOut].

Theorem buffered_variant_loses_panic :
  exists sched, let s := run (buf_cfg VBuffered) (init (buf_cfg VBuffered)) sched in
    g_panics s = [PUser 9] /\ g_cancels s = [] /\ ctx_done s = false
    /\ result s = Some ONoOutput /\ clean s = true.
Proof. exists buf_sched. vm_compute. repeat split; reflexivity. Qed.

(* under the rendezvous-or-quit protocol the same schedule cannot drop it: the
   mapper is still blocked in its write (before wg.Done), so the collector is not
   closed and the caller's only ready case is the panic *)
Example fixed_keeps_panic :
  let s := run (buf_cfg VFixed) (init (buf_cfg VFixed)) (buf_sched ++ [LMain BPanic] ++ rep 12 (LMain BOut :: others)) in
  result s = Some (OPanic (PUser 9)) /\ clean s = true.
Proof. vm_compute. repeat split; reflexivity. Qed.

(* F13 (present before and after the F4 repair): guardedWriter.Write checks done and then sends;
   finish() closes output in between (a mapper's cancel racing with the reducer's Write).  The
   reducer's send panics with the runtime's "send on closed channel"; the wrapper recovers it and
   hands it to the caller, which may re-raise it although no user function panicked.  The -race
   free run reports the close/send pair as a data race. *)
Definition f13_cfg_of (safe : bool) : config :=
  mkCfg VFixed false 2%nat [USend 1] (fun _ => [UCancel (Some 5)]) [UWrite 42] safe.
Definition f13_cfg : config := f13_cfg_of false.
Definition f13_sched : list label :=
  rep 12 [LGen; LExec false] ++ [LRed] ++ rep 4 [LMap 0] ++ rep 12 others ++ [LMain BPanic]
  ++ rep 12 (LMain BOut :: others).

Theorem cancel_racing_reducer_write_reraises_runtime_panic :
  exists sched, let s := run f13_cfg (init f13_cfg) sched in
    g_panics s = [] /\ result s = Some (OPanic PClosed) /\ clean s = true.
Proof. exists f13_sched. vm_compute. repeat split; reflexivity. Qed.

(* the repair (pending/C10-output-never-closed.diff: output is never closed, Write selects on done):
   under the same schedule the blocked Write is released by close(done), its value is dropped and
   the call returns the error that was passed to cancel.  Props.safe_no_runtime_panic proves that no
   schedule of the repaired protocol raises the runtime panic. *)
Example repaired_cancel_racing_reducer_write_returns_cancel_error :
  let c := f13_cfg_of true in
  let s := run c (init c) f13_sched in
  g_panics s = [] /\ result s = Some (OErr (ECancel 5)) /\ clean s = true /\ stuck c s = true.
Proof. vm_compute. repeat split; reflexivity. Qed.

(* why terminal_clean assumes at most two Writes of the reducer: the caller re-raises "more than
   one element written in reducer" at the second value and is gone; a third Write blocks in the
   reducer's own call for ever (nothing closes output) *)
Definition w3_cfg_of (safe : bool) : config := mkCfg VFixed false 1%nat [] (fun _ => []) [UWrite 1; UWrite 2; UWrite 3] safe.
Definition w3_cfg : config := w3_cfg_of false.
Theorem third_write_blocks :
  exists sched, let s := run w3_cfg (init w3_cfg) sched in
    result s = Some (OPanic PMulti) /\ stuck w3_cfg s = true /\ clean s = false
    /\ redpc s = SendPend 3 [].
Proof. exists (rep 20 (LMain BOut :: others)). vm_compute. repeat split; reflexivity. Qed.
(* the same with the repaired output protocol: done is only closed by the reducer's wrapper or by cancel *)
Theorem third_write_blocks_repaired :
  exists sched, let c := w3_cfg_of true in let s := run c (init c) sched in
    result s = Some (OPanic PMulti) /\ stuck c s = true /\ clean s = false
    /\ redpc s = SendPend 3 [].
Proof. exists (rep 20 (LMain BOut :: others)). vm_compute. repeat split; reflexivity. Qed.

(* Seeded change C10-4: the caller's output branch prefers a received value over the stored cancel
   error ("if ok { val = v } else if e := retErr.Load() ...").  cancel is not atomic: retErr.Set,
   then drain(source) - held open by a generator that has not returned - then finish(); a reducer
   Write inside that window still passes the guard.  The variant returns the value although a
   cancel had entered before; the model of the real code returns the cancel error under the same
   schedule, and Props.value_commit_not_cancelled proves it for every schedule. *)
Definition out_result_c104 (s : state) (v : option Z) : outcome :=
  match v with
  | Some y => OVal y
  | None => match reterr s with Some e => OErr e | None => ONoOutput end
  end.
Definition step_c104 (c : config) (s : state) (l : label) : option state :=
  match l, mainpc s with
  | LMain BOut, MSelect =>
    if foreach c then step c s l
    else match out_take s with
         | Some (y, s1) => Some (set_main s1 (MDefer (out_result_c104 s (Some y))))
         | None => step c s l
         end
  | _, _ => step c s l
  end.
Fixpoint run_c104 (c : config) (s : state) (sched : list label) : state :=
  match sched with
  | [] => s
  | l :: tl => match step_c104 c s l with Some s1 => run_c104 c s1 tl | None => run_c104 c s tl end
  end.

Definition c104_cfg : config :=
  mkCfg VFixed false 2%nat [USend 1; USend 2; USend 3]
        (fun x => if x =? 1 then [UCancel (Some 5)] else if x =? 2 then [UWrite 20] else [])
        [URecv; UWrite 777; URecvAll] false.
(* two mappers spawned, the generator blocked in its third send; mapper 1 enters cancel and drains
   the third item, the generator then stalls before returning (the window stays open) *)
Definition c104_open : list label := rep 12 [LGen; LExec false] ++ rep 4 [LMap 0].
(* inside the window: mapper 2 writes, the reducer receives the value and writes its result *)
Definition c104_window : list label := rep 3 [LMap 1] ++ rep 4 [LRed] ++ [LMain BOut].
Definition c104_rest : list label := rep 14 (LMain BOut :: LGen :: LMap 2 :: others).

Theorem seed_c10_4_value_masks_cancel :
  let s1 := run_c104 c104_cfg (init c104_cfg) c104_open in
  let s2 := run_c104 c104_cfg s1 (c104_window ++ c104_rest) in
  (g_cancels s1 = [ECancel 5] /\ reterr s1 = Some (ECancel 5) /\ finished s1 = false /\ mainpc s1 = MSelect)
  /\ result s2 = Some (OVal 777) /\ clean s2 = true.
Proof. vm_compute. repeat split; reflexivity. Qed.

Example real_code_returns_cancel_error_in_that_window :
  let s := run c104_cfg (init c104_cfg) (c104_open ++ c104_window ++ c104_rest) in
  result s = Some (OErr (ECancel 5)) /\ clean s = true /\ g_cancels s = [ECancel 5].
Proof. vm_compute. repeat split; reflexivity. Qed.

(* Seeded changes C10-1 / C10-2 / C10-3 (the once around cancel removed or narrowed so that
   retErr.Set runs on every cancel call): the observable failure is sync/atomic.Value panicking on a
   second Store of a different concrete error type.  The model has no dynamic types, so there is no
   pinned variant; the executor passes errors of three concrete types (cancelErr, *ptrErr,
   *errors.errorString, wrapped errors, the context error of the ctx branch) to concurrent cancel
   calls, and the real runtime panic is then an outcome outside the allowed set. *)

(* Seeded change C10-6 - a plausible repair of F13 that is wrong: finish() no longer closes output,
   only the reducer goroutine closes it after the reducer function has returned (and after
   drain(collector) and finish()).  A closed output was also what let the CALLER return at once
   after a cancel: now the caller's selects see output closed only when the reducer goroutine has
   ended, which needs the collector closed, which needs every running mapper to have returned.
   Variant: the caller's three waits test "reducer goroutine ended" instead of [finished].  (The
   seed's `received` flag, which lets the deferred loop accept one value, is not needed for the
   witness and left out.)  Props.prompt_after_cancel proves that the real protocols - both values of
   [safe_out] - return with library steps only. *)
Definition out_closed_late (s : state) : bool := is_fin (redpc s).
Definition main_step_late (c : config) (s : state) (b : branch) : option state :=
  match mainpc s with
  | MSelect =>
    if foreach c then main_step c s b
    else match b with
         | BOut => match out_take s with
                   | Some (y, s1) => Some (set_main s1 (MDefer (out_result s (Some y))))
                   | None => if out_closed_late s then Some (set_main s (MDefer (out_result s None))) else None
                   end
         | _ => main_step c s b
         end
  | MDrainOut p =>
    match out_take s with
    | Some (_, s1) => Some s1
    | None => if out_closed_late s then Some (set_main s (MQuit (OPanic p))) else None
    end
  | MDefer o =>
    match b with
    | BPanic => main_step c s b
    | _ => match out_take s with
           | Some (_, s1) => Some (set_main s1 (MQuit (OPanic PMulti)))
           | None => if out_closed_late s then Some (set_main s (MQuit o)) else None
           end
    end
  | _ => main_step c s b
  end.
Definition step_late (c : config) (s : state) (l : label) : option state :=
  match l with LMain b => main_step_late c s b | _ => step c s l end.
Fixpoint run_late (c : config) (s : state) (sched : list label) : state :=
  match sched with
  | [] => s
  | l :: tl => match step_late c s l with Some s1 => run_late c s1 tl | None => run_late c s tl end
  end.

(* two items; mapper 1 cancels and returns; mapper 2 stays parked before its first action for ever *)
Definition c106_cfg : config :=
  mkCfg VFixed false 2%nat [USend 1; USend 2]
        (fun x => if x =? 1 then [UCancel (Some 5)] else [UWrite 20]) [URecvAll; UWrite 777] false.
Definition c106_sched : list label :=
  rep 12 [LGen; LExec false] ++ rep 10 [LMap 0]
  ++ rep 12 [LRed; LExec true; LExec false; LMain BOut; LMain BPanic; LMain BCtx; LGen; LMap 0].

Theorem seed_c10_6_waits_for_stragglers :
  let s := run_late c106_cfg (init c106_cfg) c106_sched in
  lib_stuck_with (step_late c106_cfg) s = true            (* only the parked mapper could move *)
  /\ reterr s = Some (ECancel 5) /\ finished s = true /\ genpc s = Fin
  /\ map mpc (maps s) = [Fin; Gate [UWrite 20]]
  /\ mainpc s = MSelect.                                  (* ... and the caller has not returned *)
Proof. vm_compute. repeat split; reflexivity. Qed.

Example real_code_returns_while_the_mapper_is_parked :
  let s := run c106_cfg (init c106_cfg) c106_sched in
  lib_stuck c106_cfg s = true /\ map mpc (maps s) = [Fin; Gate [UWrite 20]]
  /\ result s = Some (OErr (ECancel 5)).
Proof. vm_compute. repeat split; reflexivity. Qed.

(* the candidate repair pending/C10-output-never-closed.diff keeps promptness (the caller selects on done) *)
Example never_closed_repair_returns_while_the_mapper_is_parked :
  let c := mkCfg VFixed false 2%nat (gscript c106_cfg) (mscript c106_cfg) (rscript c106_cfg) true in
  let s := run c (init c) c106_sched in
  lib_stuck c s = true /\ map mpc (maps s) = [Fin; Gate [UWrite 20]]
  /\ result s = Some (OErr (ECancel 5)).
Proof. vm_compute. repeat split; reflexivity. Qed.

(* Seeded change C10-9: the three recover blocks become one deferred helper and the mapper worker's
   defers end up in the order  wg.Done(); <-pool  BEFORE  failed++; panicChan.write(r).  On HEAD an
   undelivered mapper panic keeps the WaitGroup held: the collector cannot close, the reducer goroutine
   cannot finish, output cannot close - the caller can only see the panic (Props.panic_is_never_lost).
   Variant: executeMappers' wg.Wait does not count mappers that carry a panic (their Done already
   happened).  With the caller not yet at its select, everything else runs to its end, output closes
   while the worker is still blocked in write, and a caller that takes the closed output returns
   ErrReduceNoOutput: the user panic is swallowed, nothing was cancelled. *)
Definition waits_for (p : pc) : bool := bd p && negb (is_unw p) && negb (is_pend p).
Definition step_dbw (c : config) (s : state) (l : label) : option state :=
  match l, execpc s with
  | LExec _, EWait =>
    if Nat.eqb (length (filter (fun m => waits_for (mpc m)) (maps s))) 0 then Some (set_exec s EClose) else None
  | _, _ => step c s l
  end.
Fixpoint run_dbw (c : config) (s : state) (sched : list label) : state :=
  match sched with
  | [] => s
  | l :: tl => match step_dbw c s l with Some s1 => run_dbw c s1 tl | None => run_dbw c s tl end
  end.

Definition c109_cfg : config :=
  mkCfg VFixed false 2%nat [USend 1] (fun _ => [UPanic 9]) [URecvAll] false.
(* the caller does not move while the generator, the dispatcher, the mapper and the reducer run as far
   as they can; then it takes the closed output (twice: select, deferred loop) *)
Definition c109_sched : list label :=
  rep 8 [LGen; LExec false] ++ rep 4 [LMap 0] ++ rep 8 [LExec true; LExec false; LRed]
  ++ [LMain BOut; LMain BOut; LMain BOut] ++ rep 6 (LMain BPanic :: LMain BOut :: others).

Theorem done_before_write_loses_panic :
  let s := run_dbw c109_cfg (init c109_cfg) c109_sched in
  g_panics s = [PUser 9] /\ g_cancels s = [] /\ ctx_done s = false
  /\ result s = Some ONoOutput /\ clean s = true.
Proof. vm_compute. repeat split; reflexivity. Qed.

Example real_order_reraises_the_panic :
  let s := run c109_cfg (init c109_cfg) c109_sched in
  g_panics s = [PUser 9] /\ result s = Some (OPanic (PUser 9)) /\ clean s = true.
Proof. vm_compute. repeat split; reflexivity. Qed.

(* Why Props.panic_is_never_lost assumes a generator that does not panic (a model-level observation
   about the unchanged code, not reproducible with gates: the dispatcher must be preempted between
   spawning a mapper and re-reading `failed`).  The generator's panic wins the CAS and blocks in
   panicChan.write before close(source) - it holds the SOURCE, not the WaitGroup.  If a mapper then
   panics, it loses the CAS, sets `failed` and does wg.Done; a dispatcher that is at its loop head sees
   `failed`, wg.Wait passes, the collector closes, the reducer finishes and output closes while the
   generator is still blocked: a caller that is not yet at its select may take the closed output. *)
Definition gpo_cfg : config :=
  mkCfg VFixed false 2%nat [USend 1; UPanic 3] (fun _ => [UPanic 9]) [URecvAll] false.
Definition gpo_sched : list label :=
  [LGen; LExec false; LExec false; LGen; LExec false]       (* item 1 handed over; dispatcher back at its loop head *)
  ++ rep 3 [LGen] ++ rep 5 [LMap 0]                        (* generator panics and blocks; mapper panics, Done *)
  ++ rep 8 [LExec true; LExec false; LRed]
  ++ [LMain BOut; LMain BOut; LMain BOut] ++ rep 6 (LMain BPanic :: LMain BOut :: others).

Theorem generator_panic_can_be_overtaken :
  let s := run gpo_cfg (init gpo_cfg) gpo_sched in
  g_panics s = [PUser 3; PUser 9] /\ g_cancels s = [] /\ ctx_done s = false
  /\ result s = Some ONoOutput /\ clean s = true.
Proof. vm_compute. repeat split; reflexivity. Qed.

(* Seeded change C10-10: core/errorx/atomicerror.go, "Set ignores a nil pointer wrapped in an error
   interface" ([AtomicErr.guard_c1010]).  mr's cancel decides with a plain [err != nil] whether to
   store the caller's error or ErrCancelWithNil: a typed nil passes that test and is handed to Set,
   which now drops it.  The variant of the LTS: the store at the head of the cancel body goes
   through [cancel_store guard_c1010] - a typed nil leaves retErr empty - everything else unchanged.
   The call then returns ErrReduceNoOutput: an error nobody passed to cancel, although a cancel call
   had been executed (ProofsA.normal_commit_not_cancelled_l proves the real LTS never does that). *)

(* the contract of Set itself fails for the variant: a non-nil interface value is not loaded *)
Theorem typed_nil_guard_breaks_set_contract :
  exists v, v <> None /\ is_nil_iface v = false /\ same_type None v = true
            /\ ae_load (fst (ae_set guard_c1010 None v)) <> v
            /\ ae_load (fst (ae_set guard_today None v)) = v.
Proof. exists (goerr_of (Some 1011)). vm_compute. repeat split; congruence. Qed.

Theorem typed_nil_guard_drops_cancel_error :
  exists e, goerr_of e <> None
            /\ ae_load (fst (cancel_store guard_c1010 None (goerr_of e))) = None
            /\ out_branch (fst (cancel_store guard_c1010 None (goerr_of e))) None = ONoOutput
            /\ out_branch (fst (cancel_store guard_today None (goerr_of e))) None = OErr (err_of e).
Proof. exists (Some 1011). vm_compute. repeat split; congruence. Qed.

Definition step_c1010 (c : config) (s : state) (l : label) : option state :=
  match step c s l with
  | Some s1 =>
    match reterr s, reterr s1 with
    | None, Some (ECancel k) =>
      (* the step was the head of a cancel body with cancel(code k) *)
      match ae_load (fst (cancel_store guard_c1010 None (goerr_of (Some k)))) with
      | None => Some (set_cancel s1 (cstate s1) None)
      | Some _ => Some s1
      end
    | _, _ => Some s1
    end
  | None => None
  end.
Fixpoint run_c1010 (c : config) (s : state) (sched : list label) : state :=
  match sched with
  | [] => s
  | l :: tl => match step_c1010 c s l with Some s1 => run_c1010 c s1 tl | None => run_c1010 c s tl end
  end.

(* one item whose mapper cancels with the typed nil (code 1011), a reducer that ranges over the pipe
   and writes; any fair schedule will do *)
Definition c1010_cfg (k : Z) : config :=
  mkCfg VFixed false 1%nat [USend 1] (fun _ => [UCancel (Some k)]) rw false.
Definition c1010_sched : list label := rep 30 (LMain BOut :: others).

Theorem seed_c10_10_typed_nil_cancel_returns_no_output :
  let s := run_c1010 (c1010_cfg 1011) (init (c1010_cfg 1011)) c1010_sched in
  g_cancels s = [ECancel 1011] /\ result s = Some ONoOutput /\ clean s = true.
Proof. vm_compute. repeat split; reflexivity. Qed.

(* the same variant with an ordinary error, and the real code with the typed nil, return the error
   that was passed *)
Example c1010_variant_ordinary_error :
  let s := run_c1010 (c1010_cfg 1008) (init (c1010_cfg 1008)) c1010_sched in
  result s = Some (OErr (ECancel 1008)) /\ clean s = true.
Proof. vm_compute. split; reflexivity. Qed.
Example real_code_returns_the_typed_nil :
  let s := run (c1010_cfg 1011) (init (c1010_cfg 1011)) c1010_sched in
  g_cancels s = [ECancel 1011] /\ result s = Some (OErr (ECancel 1011)) /\ clean s = true.
Proof. vm_compute. repeat split; reflexivity. Qed.

(* a "first Set wins" AtomicError (CompareAndSwap(nil, err) instead of Store) is invisible to mr -
   the once lets one Set in per call - but not to the contract: the second value is not loaded *)
Definition ae_set_first_wins (st : av) (v : goerr) : av * bool :=
  match st with Some _ => (st, false) | None => ae_set guard_today st v end.
Theorem first_set_wins_breaks_set_contract :
  exists st v, v <> None /\ same_type st v = true /\ ae_load (fst (ae_set_first_wins st v)) <> v.
Proof. exists (Some (dyn_of_code 1008)), (goerr_of (Some 1018)). vm_compute. repeat split; congruence. Qed.

(* Seeded change C10-11: MapReduceVoid drops its `cancelled` flag and the cancel wrappers; its
   adapter reducer calls the user's void reducer and then writer.Write(struct{}{}) - a placeholder
   output.  In the LTS that variant is a call whose reducer script is the user's void reducer
   followed by one Write (the placeholder, 0), with (placeholder, nil) read as nil.  The reducer's
   RETURN then decides the result: a void reducer that returns before its pipe is closed (one
   receive here) makes the caller commit to the placeholder; the second mapper, still running,
   cancels afterwards - the cancel is executed (g_cancels), the call returns nil.  Today's adapter
   (no Write after the user's reducer: ProofsV.void_commit_l, Props.void_result_is_cancel_error_or_nil)
   returns the cancel error under the same schedule. *)
Definition c1011_cfg (red : list uact) : config :=
  mkCfg VFixed false 2%nat [USend 1; USend 2]
        (fun x => if x =? 1 then [UWrite 10] else [UCancel (Some 5)]) red false.
(* both mappers spawned; mapper 1 writes; the void reducer receives one value and returns; the
   adapter's placeholder Write; the caller takes it *)
Definition c1011_open : list label := rep 12 [LGen; LExec false] ++ rep 2 [LMap 0] ++ rep 4 [LRed] ++ [LMain BOut].
Definition c1011_rest : list label := rep 20 (LMain BOut :: others).

Theorem seed_c10_11_placeholder_write_loses_cancel :
  let c := c1011_cfg [URecv; UWrite 0] in
  let s1 := run c (init c) c1011_open in
  let s2 := run c s1 c1011_rest in
  (mainpc s1 = MDefer (OVal 0) /\ g_cancels s1 = [] /\ redpc s1 = Gate [])
  /\ result s2 = Some (OVal 0) /\ g_cancels s2 = [ECancel 5] /\ clean s2 = true.
Proof. vm_compute. repeat split; reflexivity. Qed.

Example todays_void_adapter_returns_the_cancel_error :
  let c := c1011_cfg [URecv] in
  let s1 := run c (init c) c1011_open in
  let s2 := run c s1 c1011_rest in
  (mainpc s1 = MSelect /\ redpc s1 = Epi None)        (* the reducer has returned; nothing is decided *)
  /\ result s2 = Some (OErr (ECancel 5)) /\ g_cancels s2 = [ECancel 5] /\ clean s2 = true.
Proof. vm_compute. repeat split; reflexivity. Qed.
