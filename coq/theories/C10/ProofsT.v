(* C10 — supporting invariants for clean termination (structure of the pipeline, the cancel
   once, the panicChan rendezvous, reducer / ForEach facts, consumed reducer writes) and the
   deadlock-freedom theorem for the repaired protocol. *)
From Coq Require Import List ZArith Bool Arith Lia Permutation.
From GZ Require Import C10.Model C10.Proofs.
Import ListNotations.

(* ---------- structural invariants (every variant) ---------- *)
Definition gen_ok (p : pc) : bool :=
  match p with Gate _ | SendPend _ _ | Epi _ | PanicPend _ | Epi2 | Fin => true | _ => false end.
Definition map_ok (p : pc) : bool := match p with RecvPend _ _ => false | _ => true end.
Definition red_ok (p : pc) : bool := match p with Epi3 => false | _ => true end.
Definition bd (p : pc) : bool := match p with Epi3 | Fin => false | _ => true end.
Definition elate (e : epc) : bool := match e with EClose | EDrain | EFin => true | _ => false end.
Definition eclosed (e : epc) : bool := match e with EDrain | EFin => true | _ => false end.
Definition cnt_bd (ms : list mapper) : nat := length (filter (fun m => bd (mpc m)) ms).

Definition inv_st (c : config) (s : state) : Prop :=
  gen_ok (genpc s) = true /\ red_ok (redpc s) = true
  /\ Forall (fun m => map_ok (mpc m) = true) (maps s)
  /\ (src_closed s = true <-> genpc s = Fin)
  /\ wg s = cnt_bd (maps s)
  /\ coll_closed s = eclosed (execpc s)
  /\ (elate (execpc s) = true -> wg s = 0)
  /\ (execpc s = EFin -> src_closed s = true).

Lemma inv_st_init : forall c, inv_st c (init c).
Proof.
  intros c. unfold inv_st, init, cnt_bd; simpl. repeat split; auto; try discriminate.
  destruct (foreach c); reflexivity.
Qed.

Lemma count_pos : forall (f : pc -> bool) ms i m,
  nth_error ms i = Some m -> f (mpc m) = true -> 1 <= length (filter (fun m => f (mpc m)) ms).
Proof.
  intros f ms; induction ms as [|a tl IH]; intros i m Hn Hf; destruct i; simpl in *; try discriminate.
  - inversion Hn; subst. rewrite Hf. simpl. lia.
  - specialize (IH _ _ Hn Hf). destruct (f (mpc a)); simpl; lia.
Qed.

Ltac fa :=
  first [ eapply Forall_upd; [eassumption | eassumption | simpl; auto; fail]
        | apply Forall_app; split; [assumption | constructor; [simpl; auto | constructor]] ].

Ltac cntb :=
  match goal with
  | Hn : nth_error (maps ?s) ?i = Some ?m |- context [upd_nth ?i ?q (maps ?s)] =>
    let C := fresh "C" in
    pose proof (count_upd bd i q (maps s) m Hn) as C; simpl in C
  end.

Ltac iffc S :=
  let X := fresh "X" in
  destruct S as [?S1 ?S2]; split; intro X; try discriminate X; try congruence;
  try (apply S1 in X; discriminate X); auto.

Ltac clst S :=
  first [ assumption | reflexivity | fa | iffc S; fail
        | intros; discriminate
        | intros; cntb; rwpc; simpl in *; nb; lia
        | intros; simpl in *; nb; lia
        | intros; congruence
        | idtac ].

Lemma inv_st_step : forall c s l s', inv_st c s -> step c s l = Some s' -> inv_st c s'.
Proof.
  intros c s l s' (G & R & M & S & W & C & L & F) H. unfold inv_st, cnt_bd in *.
  destruct l; simpl in H.
  - brk; simpl; repeat split; auto; apply S.
  - unf0; brk; rp; ifs; simpl in *; rwg; rwm; rwe; simpl in *;
      (split; [|split; [|split; [|split; [|split; [|split; [|split]]]]]]); clst S.
  - unf0; brk; rp; ifs; simpl in *; rwg; rwm; rwe; simpl in *;
      (split; [|split; [|split; [|split; [|split; [|split; [|split]]]]]]); clst S.
  - unf0; brk; rp; ifs; simpl in *; rwg; rwm; rwe; simpl in *;
      (split; [|split; [|split; [|split; [|split; [|split; [|split]]]]]]); clst S.
    rewrite (count_app1 bd). simpl. lia.
  - unf0; brk; rp; ifs; simpl in *; rwg; rwm; rwe; simpl in *;
      (split; [|split; [|split; [|split; [|split; [|split; [|split]]]]]]); clst S.
    intro X. rewrite (L X). reflexivity.
  - unf0; brk; rp; ifs; simpl in *; rwg; rwm; rwe; simpl in *;
      (split; [|split; [|split; [|split; [|split; [|split; [|split]]]]]]); clst S.
Qed.

Lemma inv_st_all : forall c sched, inv_st c (run c (init c) sched).
Proof. intros c sched. apply run_inv; [apply inv_st_step | apply inv_st_init]. Qed.


(* ---------- the cancel once: exactly one thread is inside its body while it is busy ---------- *)
Definition is_drain (p : pc) : bool := match p with Draining _ => true | _ => false end.
Definition mdr (m : mstate) : bool := match m with MDraining => true | _ => false end.
Definition cb (x : cst) : bool := match x with CBusy => true | _ => false end.
Definition ndrain (s : state) : nat :=
  b2n (is_drain (redpc s)) + length (filter (fun m => is_drain (mpc m)) (maps s)) + b2n (mdr (mainpc s)).

Definition inv_cn (s : state) : Prop :=
  ndrain s = b2n (cb (cstate s)) /\ (cstate s = CDone -> finished s = true).

Lemma inv_cn_init : forall c, inv_cn (init c).
Proof. intros c. unfold inv_cn, ndrain, init; simpl. split; [destruct (foreach c); reflexivity | discriminate]. Qed.

Ltac cntf f :=
  match goal with
  | Hn : nth_error (maps ?s) ?i = Some ?m |- context [upd_nth ?i ?q (maps ?s)] =>
    let C := fresh "C" in
    pose proof (count_upd f i q (maps s) m Hn) as C; simpl in C
  end.

Ltac rwc := repeat match goal with H : cstate ?s = _ |- context [cstate ?s] => rewrite H end.

Ltac clcn N D :=
  first [ assumption | reflexivity | intros; discriminate
        | let X := fresh in intro X; specialize (D X); congruence
        | try cntf is_drain; rwpc; simpl in *; lia
        | try cntf is_drain; rwpc; simpl in *;
          match type of N with context [cstate ?s] => destruct (cstate s); simpl in *; try discriminate; lia end
        | idtac ].

Lemma inv_cn_step : forall c s l s', inv_st c s -> inv_cn s -> step c s l = Some s' -> inv_cn s'.
Proof.
  intros c s l s' (G & _) (N & D) H. unfold inv_cn, ndrain in *.
  destruct l; simpl in H.
  - brk; simpl; auto.
  - unf0; brk; rp; ifs; simpl in *; rwg; rwm; rwc; simpl in *; split; clcn N D.
  - unf0; brk; rp; ifs; simpl in *; rwg; rwm; rwc; simpl in *; split; clcn N D.
  - unf0; brk; rp; ifs; simpl in *; rwg; rwm; rwc; simpl in *; split; clcn N D.
    rewrite (count_app1 is_drain). simpl. lia.
  - unf0; brk; rp; ifs; simpl in *; rwg; rwm; rwc; simpl in *; split; clcn N D.
  - unf0; brk; rp; ifs; simpl in *; rwg; rwm; rwc; simpl in *; split; clcn N D.
Qed.

Lemma inv_cn_all : forall c sched, inv_cn (run c (init c) sched).
Proof.
  intros c sched.
  assert (inv_st c (run c (init c) sched) /\ inv_cn (run c (init c) sched)) as [_ H]; [|exact H].
  apply (run_inv c (fun s => inv_st c s /\ inv_cn s)).
  - intros s l s' [A B] H. split; [eapply inv_st_step; eauto | eapply inv_cn_step; eauto].
  - split; [apply inv_st_init | apply inv_cn_init].
Qed.


(* ---------- panicChan (repaired protocol): at most one writer is blocked, and none once the
   caller has received a panic ---------- *)
Definition is_pend (p : pc) : bool := match p with PanicPend _ => true | _ => false end.
Definition npend (s : state) : nat :=
  b2n (is_pend (genpc s)) + b2n (is_pend (redpc s)) + length (filter (fun m => is_pend (mpc m)) (maps s)).
Definition mdo (m : mstate) : bool := match m with MDrainOut _ => true | _ => false end.

Definition inv_pn (s : state) : Prop :=
  npend s <= 1 /\ (wrote s = false -> npend s = 0) /\ (mdo (mainpc s) = true -> npend s = 0)
  /\ (mdo (mainpc s) = true -> wrote s = true).

Lemma inv_pn_init : forall c, inv_pn (init c).
Proof. intros c. unfold inv_pn, npend, init; simpl. destruct (foreach c); simpl; repeat split; auto; discriminate. Qed.

Lemma recv_panic_fixed : forall c s s1 p, variant_of c = VFixed -> recv_panic c s = Some (s1, p) ->
  (genpc s = PanicPend p /\ s1 = set_gen s Epi2)
  \/ (redpc s = PanicPend p /\ s1 = set_red s Epi2)
  \/ (exists i m, nth_error (maps s) i = Some m /\ mpc m = PanicPend p
                   /\ s1 = set_maps s (upd_nth i Epi2 (maps s))).
Proof.
  intros c s s1 p V H. unfold recv_panic, pending_panic, release_writer in H. rewrite V in H.
  brk; fp; auto.
  all: try (right; right; eauto; fail).
  all: try (right; left; auto; fail).
Qed.

Ltac rpf V :=
  repeat match goal with
  | H : recv_panic _ _ = Some _ |- _ =>
    apply (recv_panic_fixed _ _ _ _ V) in H;
    destruct H as [(? & ?) | [(? & ?) | (? & ? & ? & ? & ?)]]; subst
  end.

Ltac rww := repeat match goal with H : wrote ?s = _ |- context [wrote ?s] => rewrite H end.

Ltac cpos f :=
  match goal with
  | Hn : nth_error (maps ?s) ?i = Some ?m, Hm : mpc ?m = _ |- _ =>
    let C := fresh "C" in
    pose proof (count_pos f (maps s) i m Hn) as C; rewrite Hm in C; simpl in C; specialize (C eq_refl)
  end.
Ltac clpn W D E :=
  first [ assumption | reflexivity | intros; discriminate
        | intros; try cntf is_pend; rwpc; simpl in *; lia
        | let X := fresh in intro X; try specialize (E X); try specialize (D X); try congruence;
          try cntf is_pend; rwpc; simpl in *; lia
        | try specialize (W eq_refl); intros; try cntf is_pend; rwpc; simpl in *; lia
        | let X := fresh in intro X; specialize (W X); try cntf is_pend; rwpc; simpl in *; lia
        | match goal with Hw : wrote ?s = false |- _ =>
            specialize (W Hw); try cntf is_pend; rwpc; simpl in *; lia end
        | intros; match goal with |- wrote ?s = true =>
            destruct (wrote s) eqn:?; [reflexivity | specialize (W eq_refl); try cpos is_pend; simpl in *; lia] end
        | idtac ].

Lemma inv_pn_step : forall c s l s', variant_of c = VFixed ->
  inv_pn s -> step c s l = Some s' -> inv_pn s'.
Proof.
  intros c s l s' V (N & W & D & E) H. unfold inv_pn, npend in *.
  destruct l; simpl in H.
  - brk; simpl; auto.
  - unf0; unfold fixedb in *; try rewrite V in *; brk; rpf V; ifs; simpl in *; rwg; rwm; rww; simpl in *;
      (split; [|split; [|split]]); clpn W D E.
  - unf0; unfold fixedb in *; try rewrite V in *; brk; rpf V; ifs; simpl in *; rwg; rwm; rww; simpl in *;
      (split; [|split; [|split]]); clpn W D E.
  - unf0; unfold fixedb in *; try rewrite V in *; brk; rpf V; ifs; simpl in *; rwg; rwm; rww; simpl in *;
      (split; [|split; [|split]]); clpn W D E.
    all: rewrite (count_app1 is_pend); simpl; try intro X; try specialize (D X); try specialize (W X); lia.
  - unf0; unfold fixedb in *; try rewrite V in *; brk; rpf V; ifs; simpl in *; rwg; rwm; rww; simpl in *;
      (split; [|split; [|split]]); clpn W D E.
  - unf0; unfold fixedb in *; try rewrite V in *; brk; rpf V; ifs; simpl in *; rwg; rwm; rww; simpl in *;
      (split; [|split; [|split]]); clpn W D E.
Qed.


(* ---------- reducer / ForEach facts ---------- *)
Definition post_red (p : pc) : bool := match p with PanicPend _ | Epi2 | Fin => true | _ => false end.
Definition fe_ok (p : pc) : bool :=
  match p with SendPend _ _ | CancelPend _ _ | Draining _ | RecvPend _ _ => false | _ => true end.
Definition mfe (m : mstate) : bool := match m with MSelect | MQuit _ | MFin _ => true | _ => false end.

Definition inv_fr (c : config) (s : state) : Prop :=
  (post_red (redpc s) = true -> coll s = [] /\ (foreach c = false -> coll_closed s = true))
  /\ (foreach c = false -> redpc s = Fin -> finished s = true)
  /\ (foreach c = true ->
       redpc s = Fin /\ finished s = false /\ cstate s = CNone
       /\ Forall (fun m => fe_ok (mpc m) = true) (maps s) /\ mfe (mainpc s) = true).

Lemma inv_fr_init : forall c, inv_fr c (init c).
Proof.
  intros c. unfold inv_fr, init; simpl. destruct (foreach c); simpl; repeat split; auto; discriminate.
Qed.

Ltac fafe :=
  first [ eapply Forall_upd; [eassumption | eassumption | simpl; auto; fail]
        | apply Forall_app; split; [assumption | constructor; [simpl; auto | constructor]] ].

Ltac killg G := try match goal with Hg : genpc ?s = _ |- _ => rewrite Hg in G; simpl in G; discriminate G end.

Ltac killm C4 := try match goal with Hn : nth_error _ _ = Some ?m, Hm : mpc ?m = _ |- _ =>
   let X := fresh in pose proof (Forall_nth _ _ _ _ C4 Hn) as X; simpl in X; rewrite Hm in X; simpl in X; discriminate X end.

Lemma inv_fr_step_fe : forall c s l s', foreach c = true -> inv_st c s ->
  inv_fr c s -> step c s l = Some s' -> inv_fr c s'.
Proof.
  intros c s l s' FE (G & _) (A & B & C) H. unfold inv_fr in *. rewrite FE in *.
  destruct (C eq_refl) as (C1 & C2 & C3 & C4 & C5). clear B C.
  rewrite C1 in A. destruct (A eq_refl) as (A1 & _). clear A.
  destruct l; simpl in H.
  - brk; simpl; rewrite C1; repeat split; auto; discriminate.
  - unf0; rewrite ?FE, ?C1, ?C2, ?C3, ?A1 in H; brk; rp; simpl in *; try congruence; killg G; killm C4;
      rwm; try discriminate; ifs; rewrite ?C1; simpl; repeat split; auto; try discriminate; try fafe.
  - unf0; rewrite ?FE, ?C1, ?C2, ?C3, ?A1 in H; brk; rp; simpl in *; try congruence; killg G; killm C4;
      rwm; try discriminate; ifs; rewrite ?C1; simpl; repeat split; auto; try discriminate; try fafe.
  - unf0; rewrite ?FE, ?C1, ?C2, ?C3, ?A1 in H; brk; rp; simpl in *; try congruence; killg G; killm C4;
      rwm; try discriminate; ifs; rewrite ?C1; simpl; repeat split; auto; try discriminate; try fafe.
  - unf0; rewrite ?FE, ?C1, ?C2, ?C3, ?A1 in H; brk; rp; simpl in *; try congruence; killg G; killm C4;
      rwm; try discriminate; ifs; rewrite ?C1; simpl; repeat split; auto; try discriminate; try fafe.
  - unf0; rewrite ?FE, ?C1, ?C2, ?C3, ?A1 in H; brk; rp; simpl in *; try congruence; killg G; killm C4;
      rwm; try discriminate; ifs; rewrite ?C1; simpl; repeat split; auto; try discriminate; try fafe.
Qed.


Lemma inv_fr_step_mr : forall c s l s', foreach c = false -> inv_st c s ->
  inv_fr c s -> step c s l = Some s' -> inv_fr c s'.
Proof.
  intros c s l s' FE (G & R & M & S & W & CC & L & F) (A & B & C) H. unfold inv_fr in *. rewrite FE in *.
  specialize (B eq_refl). clear C.
  destruct l; simpl in H.
  - brk; simpl; repeat split; auto; try discriminate; apply A; auto.
  - unf0; rewrite ?FE in H; brk; rp; ifs; simpl in *; rwg; simpl in *; (split; [|split]);
      try (intros; discriminate); try assumption; try (intros; congruence); auto.
  - unf0; rewrite ?FE in H; brk; rp; ifs; simpl in *; rwg; simpl in *; (split; [|split]);
      try (intros; discriminate); try assumption; try (intros; congruence); auto.
  - unf0; rewrite ?FE in H; brk; rp; ifs; simpl in *; rwg; simpl in *; (split; [|split]);
      try (intros; discriminate); try assumption; try (intros; congruence); auto.
    intro X. split; auto. apply A; auto.
  - unf0; rewrite ?FE in H; brk; rp; ifs; simpl in *; rwg; simpl in *; (split; [|split]);
      try (intros; discriminate); try assumption; try (intros; congruence); auto.
    intro X. exfalso. destruct (A X) as (_ & A2). specialize (A2 eq_refl).
    rewrite A2 in CC. assert (elate (execpc s) = true) as EL by (destruct (execpc s); simpl in *; congruence).
    specialize (L EL). pose proof (count_pos bd (maps s) i m Heqo) as P. rewrite Heqp in P. specialize (P eq_refl).
    unfold cnt_bd in W. lia.
  - unf0; rewrite ?FE in H; brk; rp; ifs; simpl in *; rwg; simpl in *; (split; [|split]);
      try (intros; discriminate); try assumption; try (intros; congruence); auto.
Qed.


Lemma inv_fr_step : forall c s l s', inv_st c s -> inv_fr c s -> step c s l = Some s' -> inv_fr c s'.
Proof.
  intros c s l s' ST FR H. destruct (foreach c) eqn:FE.
  - eapply inv_fr_step_fe; eauto.
  - eapply inv_fr_step_mr; eauto.
Qed.

(* ---------- the reducer writes at most twice: what the caller has consumed ---------- *)
Definition nw (p : pc) : nat :=
  match cur_red p with Some r => length (all_writes r) | None => 0 end.

Definition inv_nw (s : state) : Prop :=
  finished s = false ->
  match mainpc s with
  | MSelect => nw (redpc s) <= 2
  | MDefer _ => nw (redpc s) <= 1
  | MQuit _ | MFin _ => nw (redpc s) = 0
  | _ => True
  end.

Lemma inv_nw_init : forall c, length (all_writes (rscript c)) <= 2 -> inv_nw (init c).
Proof. intros c H _. unfold init, nw; simpl. destruct (foreach c); simpl; lia. Qed.

Lemma inv_nw_step : forall c s l s', inv_fr c s -> inv_cn s ->
  inv_nw s -> step c s l = Some s' -> inv_nw s'.
Proof.
  intros c s l s' (_ & _ & FR) (_ & CD) N H. unfold inv_nw, nw in *.
  destruct l; simpl in H.
  - brk; simpl; auto.
  - unf0; brk; rp; ifs; simpl in *; rwg; rwm; simpl in *; intro X; try discriminate X;
      try specialize (N X); simpl in *; try lia; auto;
      try (destruct (FR eq_refl) as (FR1 & _); rewrite FR1; reflexivity); try congruence;
      try (match goal with Hc : cstate _ = CDone |- _ => specialize (CD Hc); congruence end);
      try (specialize (CD eq_refl); congruence).
  - unf0; brk; rp; ifs; simpl in *; rwg; simpl in *; intro X; try discriminate X;
      try specialize (N X); simpl in *; auto; try (match goal with |- context [mainpc ?s0] => destruct (mainpc s0) end; simpl in *; auto; lia).
  - unf0; brk; rp; ifs; simpl in *; rwg; simpl in *; intro X; try discriminate X;
      try specialize (N X); simpl in *; auto; try (match goal with |- context [mainpc ?s0] => destruct (mainpc s0) end; simpl in *; auto; lia).
  - unf0; brk; rp; ifs; simpl in *; rwg; simpl in *; intro X; try discriminate X;
      try specialize (N X); simpl in *; auto; try (match goal with |- context [mainpc ?s0] => destruct (mainpc s0) end; simpl in *; auto; lia).
  - unf0; brk; rp; ifs; simpl in *; rwg; simpl in *; intro X; try discriminate X; try congruence;
      try specialize (N X); simpl in *; auto; try (match goal with |- context [mainpc ?s0] => destruct (mainpc s0) end; simpl in *; auto; lia).
Qed.


(* ---------- all supporting invariants together ---------- *)
Definition inv_all (c : config) (s : state) : Prop :=
  inv_st c s /\ inv_cn s /\ inv_fr c s /\ inv_nw s /\ inv_pn s /\ inv_quit c s /\ inv_pool c s.

Lemma inv_all_run : forall c sched,
  variant_of c = VFixed -> length (all_writes (rscript c)) <= 2 ->
  inv_all c (run c (init c) sched).
Proof.
  intros c sched V H2. apply run_inv.
  - intros s l s' (A & B & C & D & E & F & G) H. unfold inv_all.
    split; [|split; [|split; [|split; [|split; [|split]]]]].
    + eapply inv_st_step; eauto.
    + eapply inv_cn_step; eauto.
    + eapply inv_fr_step; eauto.
    + eapply inv_nw_step; eauto.
    + eapply inv_pn_step; eauto.
    + eapply inv_quit_step; eauto.
    + eapply inv_pool_step; eauto.
  - unfold inv_all. split; [|split; [|split; [|split; [|split; [|split]]]]].
    + apply inv_st_init.
    + apply inv_cn_init.
    + apply inv_fr_init.
    + apply inv_nw_init; auto.
    + apply inv_pn_init.
    + apply inv_quit_init.
    + apply inv_pool_init.
Qed.

(* ---------- what "no thread can move" means, thread by thread ---------- *)
Lemma stuck_spec : forall c s, stuck c s = true ->
  (forall b, main_step c s b = None) /\ gen_step c s = None
  /\ (forall q, exec_step c s q = None) /\ red_step c s = None
  /\ (forall i m, nth_error (maps s) i = Some m -> map_step c s i = None).
Proof.
  intros c s H. unfold stuck in H. rewrite forallb_forall in H.
  assert (forall l, In l (labels s) -> step c s l = None) as K.
  { intros l Hl. specialize (H l Hl). destruct (step c s l); [discriminate | reflexivity]. }
  unfold labels in K. repeat split.
  - intros b. apply (K (LMain b)). destruct b; simpl; auto.
  - apply (K LGen). simpl; auto 10.
  - intros q. apply (K (LExec q)). destruct q; simpl; auto 10.
  - apply (K LRed). simpl; auto 10.
  - intros i m Hn. apply (K (LMap i)). apply in_or_app. right. apply in_map. apply in_seq.
    split; [lia|]. simpl. apply nth_error_Some. congruence.
Qed.

Lemma count_ex : forall (f : pc -> bool) ms,
  1 <= length (filter (fun m => f (mpc m)) ms) ->
  exists i m, nth_error ms i = Some m /\ f (mpc m) = true.
Proof.
  intros f ms; induction ms as [|a tl IH]; simpl; intros H; [lia|].
  destruct (f (mpc a)) eqn:E.
  - exists 0, a. simpl. auto.
  - destruct (IH H) as (i & m & Hn & Hf). exists (S i), m. simpl. auto.
Qed.

Lemma count_zero : forall (f : pc -> bool) ms,
  (forall i m, nth_error ms i = Some m -> f (mpc m) = false) ->
  length (filter (fun m => f (mpc m)) ms) = 0.
Proof.
  intros f ms H. destruct (length (filter (fun m => f (mpc m)) ms)) eqn:E; auto.
  assert (1 <= length (filter (fun m => f (mpc m)) ms)) as P by lia.
  destruct (count_ex f ms P) as (i & m & Hn & Hf). rewrite (H i m Hn) in Hf. discriminate.
Qed.

Lemma find_pend_ex : forall ms k i m p,
  nth_error ms i = Some m -> mpc m = PanicPend p -> exists j q, find_pend k ms = Some (j, q).
Proof.
  induction ms as [|a tl IH]; intros k i m p Hn Hm; destruct i; simpl in *; try discriminate.
  - inversion Hn; subst. rewrite Hm. eauto.
  - destruct (mpc a); eauto.
Qed.

(* a blocked writer of panicChan is seen by the caller's receive *)
Lemma pend_recv : forall c s, variant_of c = VFixed -> 1 <= npend s ->
  exists s1 p, recv_panic c s = Some (s1, p).
Proof.
  intros c s V H. unfold recv_panic, pending_panic. rewrite V. unfold npend in H.
  destruct (genpc s) eqn:Eg; simpl in H; try (eexists; eexists; reflexivity).
  all: destruct (redpc s) eqn:Er; simpl in H; try (eexists; eexists; reflexivity).
  all: destruct (count_ex is_pend (maps s)) as (i & m & Hn & Hf); try lia;
       destruct (mpc m) as [| | | | | |pv| | |] eqn:Em; try discriminate;
       destruct (find_pend_ex (maps s) 0 i m pv Hn Em) as (j & q & Hj); rewrite Hj;
       eexists; eexists; reflexivity.
Qed.

Lemma pend_quit : forall c s, variant_of c = VFixed -> quit s = true -> 1 <= npend s ->
  gen_step c s <> None \/ red_step c s <> None
  \/ exists i m, nth_error (maps s) i = Some m /\ map_step c s i <> None.
Proof.
  intros c s V Q H. unfold npend in H.
  destruct (genpc s) eqn:Eg; simpl in H;
    try (left; unfold gen_step, user_step; rewrite Eg, V, Q; discriminate).
  all: destruct (redpc s) eqn:Er; simpl in H;
    try (right; left; unfold red_step, user_step; rewrite Er, V, Q; discriminate).
  all: right; right; destruct (count_ex is_pend (maps s)) as (i & m & Hn & Hf); try lia;
       exists i, m; split; auto; unfold map_step, user_step; rewrite Hn;
       destruct (mpc m); try discriminate; rewrite V, Q; discriminate.
Qed.

Lemma no_pend : forall c s, variant_of c = VFixed -> inv_all c s -> stuck c s = true -> npend s = 0.
Proof.
  intros c s V (ST & CN & FR & NW & PN & Q & PL) K.
  destruct (stuck_spec c s K) as (KM & KG & KE & KR & KMp).
  destruct (npend s) eqn:E; auto. exfalso.
  assert (1 <= npend s) as P by lia.
  destruct (pend_recv c s V P) as (s1 & p & RP).
  specialize (Q V). destruct PN as (_ & _ & D0 & _).
  assert (quit s = true -> False) as NQ.
  { intros QT. destruct (pend_quit c s V QT P) as [X|[X|(i & m & Hn & X)]]; auto. apply X. eauto. }
  destruct (mainpc s) eqn:EM; simpl in *; auto.
  - specialize (KM BPanic). unfold main_step in KM. rewrite EM, RP in KM. destruct (foreach c); discriminate.
  - rewrite D0 in E; auto. discriminate.
  - specialize (KM BPanic). unfold main_step, fixedb in KM. rewrite EM, V, RP in KM. discriminate.
  - specialize (KM BOut). unfold main_step in KM. rewrite EM in KM. discriminate.
Qed.

Ltac ns := repeat match goal with
  | H : Some _ = None |- _ => discriminate H
  | H : (let '(_, _) := ?x in _) = None |- _ => destruct x eqn:?
  | H : match ?x with _ => _ end = None |- _ => destruct x eqn:?
  | H : (if ?x then _ else _) = None |- _ => destruct x eqn:?
  end.

Lemma gen_cases : forall c s, gen_step c s = None -> gen_ok (genpc s) = true ->
  is_pend (genpc s) = false ->
  genpc s = Fin \/ exists x r, genpc s = SendPend x r.
Proof.
  intros c s H G P. unfold gen_step, user_step, pwrite in H.
  destruct (genpc s) eqn:E; simpl in *; try discriminate; eauto.
  all: ns.
Qed.

Lemma drain_none : forall s, drain_step s = None ->
  (forall x r, genpc s <> SendPend x r) /\ src_closed s = false.
Proof.
  intros s H. unfold drain_step, src_take in H.
  destruct (genpc s) eqn:E; try discriminate; destruct (src_closed s); try discriminate;
    split; auto; intros; discriminate.
Qed.

Lemma gen_blocks_nobody : forall c s, inv_all c s -> stuck c s = true -> npend s = 0 ->
  drain_step s = None -> False.
Proof.
  intros c s ((G & _ & _ & S & _) & _) K NP D.
  destruct (stuck_spec c s K) as (_ & KG & _).
  destruct (drain_none s D) as (D1 & D2).
  assert (is_pend (genpc s) = false) as P.
  { unfold npend in NP. destruct (is_pend (genpc s)); simpl in NP; [lia | reflexivity]. }
  destruct (gen_cases c s KG G P) as [F | (x & r & F)].
  - apply S in F. congruence.
  - eapply D1; eauto.
Qed.

Lemma no_busy : forall c s, variant_of c = VFixed -> inv_all c s -> stuck c s = true ->
  cstate s <> CBusy.
Proof.
  intros c s V IA K CB.
  pose proof (no_pend c s V IA K) as NP.
  destruct (stuck_spec c s K) as (KM & KG & KE & KR & KMp).
  pose proof IA as (ST & (N & _) & _).
  rewrite CB in N. simpl in N. unfold ndrain in N.
  destruct (redpc s) eqn:Er; simpl in N.
  all: try (apply (gen_blocks_nobody c s IA K NP); unfold red_step, user_step in KR; rewrite Er in KR;
            destruct (drain_step s) as [[? []]|]; [discriminate | discriminate | reflexivity]).
  all: destruct (mainpc s) eqn:Em; simpl in N.
  all: try (apply (gen_blocks_nobody c s IA K NP); specialize (KM BOut); unfold main_step in KM; rewrite Em in KM;
            destruct (drain_step s) as [[? []]|]; [discriminate | discriminate | reflexivity]).
  all: destruct (count_ex is_drain (maps s)) as (i & m & Hn & Hf); try lia;
       apply (gen_blocks_nobody c s IA K NP); specialize (KMp i m Hn);
       unfold map_step, user_step in KMp; rewrite Hn in KMp;
       destruct (mpc m); try discriminate Hf;
       destruct (drain_step s) as [[? []]|]; [discriminate | discriminate | reflexivity].
Qed.

Lemma red_not_send : forall c s, variant_of c = VFixed -> inv_all c s -> stuck c s = true ->
  forall y r, redpc s <> SendPend y r.
Proof.
  intros c s V IA K y r Er.
  pose proof (no_busy c s V IA K) as NB.
  destruct (stuck_spec c s K) as (KM & KG & KE & KR & KMp).
  pose proof IA as (ST & (N & _) & (_ & _ & FE) & NW & _).
  assert (finished s = false) as F.
  { unfold red_step, user_step in KR. rewrite Er in KR. destruct (finished s); [destruct (safe_out c); discriminate | reflexivity]. }
  assert (out_take s <> None) as OT by (unfold out_take; rewrite F, Er; discriminate).
  specialize (NW F). unfold nw in NW. rewrite Er in NW. simpl in NW.
  specialize (KM BOut). unfold main_step in KM.
  destruct (mainpc s) eqn:Em; try lia.
  - destruct (foreach c) eqn:Fe.
    + destruct (FE eq_refl) as (X & _). congruence.
    + destruct (out_take s) as [[? ?]|]; [discriminate | congruence].
  - destruct (cstate s); try discriminate. congruence.
  - unfold ndrain in N. rewrite Em in N. simpl in N. destruct (cstate s); simpl in N; try lia. congruence.
  - destruct (out_take s) as [[? ?]|]; [discriminate | congruence].
  - destruct (out_take s) as [[? ?]|]; [discriminate | congruence].
Qed.

Lemma red_cases : forall c s, red_step c s = None -> red_ok (redpc s) = true ->
  is_pend (redpc s) = false -> is_drain (redpc s) = false -> cstate s <> CBusy ->
  (forall y r, redpc s <> SendPend y r) ->
  redpc s = Fin \/ (coll s = [] /\ coll_closed s = false).
Proof.
  intros c s H R P D NB NS. unfold red_step, user_step, pwrite in H.
  destruct (redpc s) eqn:E; simpl in *; try discriminate; auto.
  all: try (exfalso; eapply NS; eauto; fail).
  all: ns; auto; try congruence.
Qed.

Lemma map_cases : forall c s i m, nth_error (maps s) i = Some m -> map_step c s i = None ->
  map_ok (mpc m) = true -> is_pend (mpc m) = false -> is_drain (mpc m) = false -> cstate s <> CBusy ->
  mpc m = Fin \/ exists y r, mpc m = SendPend y r /\ workers c <= length (coll s).
Proof.
  intros c s i m Hn H R P D NB. unfold map_step, user_step, pwrite in H. rewrite Hn in H.
  destruct (mpc m) eqn:E; simpl in *; try discriminate; auto.
  all: ns; auto; try congruence.
  right. exists y, rest. split; auto. apply Nat.ltb_ge. assumption.
Qed.

Lemma count0_nth : forall (f : pc -> bool) ms i m,
  length (filter (fun m => f (mpc m)) ms) = 0 -> nth_error ms i = Some m -> f (mpc m) = false.
Proof.
  intros f ms i m H Hn. destruct (f (mpc m)) eqn:E; auto.
  pose proof (count_pos f ms i m Hn E). lia.
Qed.

Section Stuck.
  Variables (c : config) (s : state).
  Hypothesis V : variant_of c = VFixed.
  Hypothesis W1 : 1 <= workers c.
  Hypothesis IA : inv_all c s.
  Hypothesis K : stuck c s = true.

  Lemma st_npend : npend s = 0. Proof. apply (no_pend c s V IA K). Qed.
  Lemma st_nbusy : cstate s <> CBusy. Proof. apply (no_busy c s V IA K). Qed.

  Lemma st_ndrain : ndrain s = 0.
  Proof.
    destruct IA as (_ & (N & _) & _). rewrite N. pose proof st_nbusy. destruct (cstate s); simpl; congruence.
  Qed.

  Lemma st_red_pc : is_pend (redpc s) = false /\ is_drain (redpc s) = false.
  Proof.
    pose proof st_npend as P. pose proof st_ndrain as D. unfold npend in P. unfold ndrain in D.
    destruct (is_pend (redpc s)), (is_drain (redpc s)); simpl in *; try lia; auto.
  Qed.

  Lemma st_map_pc : forall i m, nth_error (maps s) i = Some m ->
    is_pend (mpc m) = false /\ is_drain (mpc m) = false.
  Proof.
    intros i m Hn. pose proof st_npend as P. pose proof st_ndrain as D. unfold npend in P. unfold ndrain in D.
    split; eapply count0_nth; eauto; lia.
  Qed.

  Lemma st_red : redpc s = Fin \/ (coll s = [] /\ coll_closed s = false).
  Proof.
    destruct (stuck_spec c s K) as (_ & _ & _ & KR & _).
    destruct IA as ((_ & R & _) & _). destruct st_red_pc as (P & D).
    apply (red_cases c s KR R P D st_nbusy). apply (red_not_send c s V IA K).
  Qed.

  Lemma st_maps_fin : forall i m, nth_error (maps s) i = Some m -> mpc m = Fin.
  Proof.
    intros i m Hn.
    destruct (stuck_spec c s K) as (_ & _ & _ & _ & KMp).
    pose proof IA as ((_ & _ & M & _) & _ & (A & _) & _).
    destruct (st_map_pc i m Hn) as (P & D).
    destruct (map_cases c s i m Hn (KMp i m Hn) (Forall_nth _ _ _ _ M Hn) P D st_nbusy) as [F | (y & r & E & L)]; auto.
    exfalso. assert (coll s <> []) as NE by (destruct (coll s); simpl in L; [lia | discriminate]).
    destruct st_red as [F | (F & _)]; [|congruence].
    rewrite F in A. destruct (A eq_refl) as (X & _). congruence.
  Qed.

  Lemma st_counts : live (maps s) = 0 /\ cnt_bd (maps s) = 0.
  Proof.
    split; [unfold live; apply (count_zero (fun p => negb (is_fin p)))
           | unfold cnt_bd; apply (count_zero bd)]; intros i m Hn;
      rewrite (st_maps_fin i m Hn); reflexivity.
  Qed.

  Lemma st_exec : execpc s = EFin
    \/ ((forall x r, genpc s <> SendPend x r) /\ src_closed s = false).
  Proof.
    destruct (stuck_spec c s K) as (_ & _ & KE & _).
    pose proof IA as ((_ & _ & _ & _ & Wg & _) & _ & _ & _ & _ & _ & (PL & _)).
    destruct st_counts as (L0 & B0). rewrite L0 in PL. rewrite B0 in Wg.
    pose proof (KE false) as KF. unfold exec_step, src_take in KF.
    destruct (execpc s) eqn:Ee; simpl in *; auto; try discriminate.
    - rewrite PL in KF. destruct (0 <? workers c) eqn:X; [discriminate|]. apply Nat.ltb_ge in X. lia.
    - right. destruct (genpc s); try discriminate; destruct (src_closed s); try discriminate;
        split; auto; intros; discriminate.
    - rewrite Wg in KF. discriminate.
    - right. destruct (genpc s); try discriminate; destruct (src_closed s); try discriminate;
        split; auto; intros; discriminate.
  Qed.

  Lemma st_gen_fin : genpc s = Fin.
  Proof.
    destruct (stuck_spec c s K) as (_ & KG & _).
    pose proof IA as ((G & _ & _ & S & _ & _ & _ & F) & _).
    assert (is_pend (genpc s) = false) as P.
    { pose proof st_npend as NP. unfold npend in NP. destruct (is_pend (genpc s)); simpl in NP; [lia | reflexivity]. }
    destruct (gen_cases c s KG G P) as [X | (x & r & X)]; auto.
    exfalso. destruct st_exec as [E | (E & _)].
    - apply F in E. apply S in E. congruence.
    - eapply E; eauto.
  Qed.

  Lemma st_exec_fin : execpc s = EFin.
  Proof.
    destruct st_exec as [E | (_ & E)]; auto.
    pose proof IA as ((_ & _ & _ & S & _) & _). pose proof st_gen_fin as G. apply S in G. congruence.
  Qed.

  Lemma st_red_fin : redpc s = Fin.
  Proof.
    destruct st_red as [F | (_ & F)]; auto.
    pose proof IA as ((_ & _ & _ & _ & _ & CC & _) & _). rewrite st_exec_fin in CC. simpl in CC. congruence.
  Qed.

  Lemma st_main_fin : exists o, mainpc s = MFin o.
  Proof.
    destruct (stuck_spec c s K) as (KM & _).
    pose proof IA as ((_ & _ & _ & _ & _ & CC & _) & (N & _) & (_ & FB & _) & _).
    rewrite st_exec_fin in CC. simpl in CC.
    pose proof (KM BOut) as KB. unfold main_step, out_take in KB.
    destruct (mainpc s) eqn:Em; eauto; exfalso.
    - destruct (foreach c) eqn:Fe.
      + rewrite CC in KB. discriminate.
      + rewrite (FB eq_refl st_red_fin) in KB. discriminate.
    - pose proof st_nbusy. destruct (cstate s); try discriminate. congruence.
    - pose proof st_ndrain as D. unfold ndrain in D. rewrite Em in D. simpl in D. lia.
    - destruct (foreach c) eqn:Fe.
      + pose proof IA as (_ & _ & (_ & _ & FE) & _). destruct (FE Fe) as (_ & _ & _ & _ & X). rewrite Em in X. discriminate.
      + rewrite (FB eq_refl st_red_fin) in KB. discriminate.
    - destruct (foreach c) eqn:Fe.
      + pose proof IA as (_ & _ & (_ & _ & FE) & _). destruct (FE Fe) as (_ & _ & _ & _ & X). rewrite Em in X. discriminate.
      + rewrite (FB eq_refl st_red_fin) in KB. discriminate.
    - discriminate.
  Qed.

  Lemma st_clean : clean s = true.
  Proof.
    unfold clean. destruct st_main_fin as (o & M). rewrite M, st_gen_fin, st_exec_fin, st_red_fin. simpl.
    rewrite andb_true_r. apply forallb_forall. intros m Hm.
    destruct (In_nth_error _ _ Hm) as (i & Hi). rewrite (st_maps_fin i m Hi). reflexivity.
  Qed.
End Stuck.

(* ---------- deadlock freedom ---------- *)
Lemma terminal_clean_l : forall c sched,
  variant_of c = VFixed -> 1 <= workers c -> length (all_writes (rscript c)) <= 2 ->
  let s := run c (init c) sched in
  stuck c s = true -> clean s = true.
Proof.
  intros c sched V W1 H2 s K. apply (st_clean c s V W1 (inv_all_run c sched V H2) K).
Qed.
