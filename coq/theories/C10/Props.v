(* C10 — property theorems only.  Every theorem is closed by [exact] of a lemma of
   Proofs.v and followed by [Print Assumptions].  All theorems quantify over every
   configuration (API mode, worker count, generator / mapper / reducer scripts, hence
   item counts, fan-out and fault placements) and over every schedule (list of
   labels: which thread moves, which ready select case is taken, when the context
   ends); [run] skips labels that are not enabled. *)
From Coq Require Import List ZArith Bool Arith Permutation.
From GZ Require Import C10.Model C10.Proofs C10.ProofsT C10.ProofsQ.
Import ListNotations.

(* At most [workers] mapper functions run at any time (and the pool never holds more
   than [workers] slots); [g_peak] is the running maximum. *)
Theorem workers_bounded : forall c sched,
  let s := run c (init c) sched in
  running (maps s) <= workers c /\ g_peak s <= workers c /\ pool s <= workers c.
Proof. exact workers_bounded_l. Qed.
Print Assumptions workers_bounded.

(* Hand-over of items, in every run (faults included).  Every item whose send on [source]
   completed went to exactly one receiver — a new mapper invocation (one per item) or a
   drain(source) — and the completed sends are a prefix of the generator's sends, in order. *)
Theorem items_handed_over_once : forall c sched,
  let s := run c (init c) sched in
  Permutation (g_sent s) (map mitem (maps s) ++ g_drained s)
  /\ exists later, g_sent s ++ todo (genpc s) ++ later = all_sends (gscript c).
Proof.
  intros c sched s. destruct (inv_logs_all c sched) as (H1 & _ & _ & H4). split; assumption.
Qed.
Print Assumptions items_handed_over_once.

(* When nothing is cancelled: no script contains a cancel or a panic ([quiet_cfg]) and the
   context does not end (the schedule has no [LCtx]).  Then, under every such schedule, in
   every state: nothing is ever drained, the items handed to mapper invocations are exactly
   the completed sends, and once the generator has ended they are all of its sends. *)
Theorem map_nothing_drained : forall c sched, quiet_cfg c -> ~ In LCtx sched ->
  let s := run c (init c) sched in
  g_drained s = [] /\ Permutation (g_sent s) (map mitem (maps s))
  /\ (genpc s = Fin -> Permutation (all_sends (gscript c)) (map mitem (maps s))).
Proof. exact map_exactly_once_l. Qed.
Print Assumptions map_nothing_drained.

(* map_exactly_once: in every terminal state (no thread can move) of a fault-free run of the
   repaired protocol, every item the generator sends has been handed to exactly one mapper
   invocation — for all item counts, worker counts >= 1 and fan-outs. *)
Theorem map_exactly_once : forall c sched,
  variant_of c = VFixed -> 1 <= workers c -> length (all_writes (rscript c)) <= 2 ->
  quiet_cfg c -> ~ In LCtx sched ->
  let s := run c (init c) sched in
  stuck c s = true -> Permutation (all_sends (gscript c)) (map mitem (maps s)).
Proof.
  intros c sched V W1 H2 QC NC s K.
  pose proof (terminal_clean_l c sched V W1 H2 K) as CL. fold s in CL.
  destruct (map_exactly_once_l c sched QC NC) as (_ & _ & H). apply H.
  unfold clean in CL. fold s. repeat (apply andb_true_iff in CL; destruct CL as (CL & ?)).
  destruct (genpc s); try discriminate. reflexivity.
Qed.
Print Assumptions map_exactly_once.

(* Exactly-once delivery of mapper outputs: the values accepted by the collector are,
   in order, those received by the reducer function, then those received by the
   wrapper's drain(collector) after the reducer returned, then those still buffered;
   nothing is lost or duplicated, and the drain takes nothing while the reducer
   function is still running. *)
Theorem reduce_exactly_once : forall c sched,
  let s := run c (init c) sched in
  g_written s = g_reduced s ++ g_rdrained s ++ coll s
  /\ (in_user (redpc s) = true -> g_rdrained s = []).
Proof.
  intros c sched s. destruct (inv_logs_all c sched) as (_ & H2 & H3 & _). split; assumption.
Qed.
Print Assumptions reduce_exactly_once.

(* every_write_reaches_reducer: in a fault-free run of MapReduce (not ForEach) every value a
   mapper writes is accepted by the collector (always: written ++ not-yet-written = all Writes
   of the scripts of the mapped items); if the reducer ranges over the pipe until it is closed,
   the wrapper's drain never receives anything, and in every terminal state of the repaired
   protocol the reducer function has received exactly the Writes of all generated items. *)
Theorem every_write_accepted : forall c sched, foreach c = false -> quiet_cfg c -> ~ In LCtx sched ->
  let s := run c (init c) sched in
  Permutation (g_written s ++ pw (maps s)) (aw c (maps s))
  /\ (In URecvAll (rscript c) -> g_rdrained s = []).
Proof.
  intros c sched FE QC NC s. destruct (every_write_l c sched FE QC NC) as (A & B & _). split; assumption.
Qed.
Print Assumptions every_write_accepted.

Theorem every_write_reaches_reducer : forall c sched,
  variant_of c = VFixed -> 1 <= workers c -> length (all_writes (rscript c)) <= 2 ->
  foreach c = false -> quiet_cfg c -> ~ In LCtx sched -> In URecvAll (rscript c) ->
  let s := run c (init c) sched in
  stuck c s = true ->
  Permutation (g_reduced s) (flat_map (fun x => all_writes (mscript c x)) (all_sends (gscript c)))
  /\ g_rdrained s = [].
Proof.
  intros c sched V W1 H2 FE QC NC RA s K.
  pose proof (terminal_clean_l c sched V W1 H2 K) as CL. fold s in CL.
  destruct (every_write_l c sched FE QC NC) as (_ & B & C). fold s in B, C.
  split; [|apply B; assumption].
  eapply Permutation_trans; [apply C; assumption|].
  rewrite aw_items. apply Permutation_flat_map. apply Permutation_sym.
  apply (map_exactly_once c sched V W1 H2 QC NC K).
Qed.
Print Assumptions every_write_reaches_reducer.

(* What the call can return.  A value is one the reducer wrote; an error is the
   context error (and then the context did end) or the error of a cancel call
   (ErrCancelWithNil for nil); a re-raised panic is one a user function raised, the
   runtime's send-on-closed-channel raised inside the reducer's Write, or the
   library's "more than one element written in reducer". *)
Theorem result_is_reducers_or_fault : forall c sched o,
  let s := run c (init c) sched in
  result s = Some o ->
  match o with
  | OVal v => In (UWrite v) (rscript c)
  | ONoOutput => foreach c = false
  | OUnit => foreach c = true
  | OErr e => (e = ECtx /\ ctx_done s = true) \/ In e (g_cancels s)
  | OPanic p => p = PMulti \/ In p (g_panics s) \/ p = PClosed
  end.
Proof.
  intros c sched o s H. destruct (inv_just_all c sched) as (_ & _ & _ & _ & _ & _ & _ & JM).
  fold s in JM. unfold result in H. destruct (mainpc s); try discriminate.
  inversion H; subst. destruct o; simpl in JM; auto.
Qed.
Print Assumptions result_is_reducers_or_fault.

(* the error stored by cancel is one that was passed to cancel; ECtx is only ever
   logged when the context has ended *)
Theorem error_is_cancels : forall c sched e,
  let s := run c (init c) sched in
  (reterr s = Some e -> In e (g_cancels s)) /\ (In ECtx (g_cancels s) -> ctx_done s = true).
Proof.
  intros c sched e s. destruct (inv_just_all c sched) as (J1 & J2 & _). split; auto.
Qed.
Print Assumptions error_is_cancels.

(* terminal_clean (deadlock- and leak-freedom of the repaired protocol): for every item count,
   worker count >= 1 (WithWorkers clamps to 1), fan-out, fault placement (any scripts) and every
   schedule, a state in which no thread can move is one in which the caller has returned and
   every goroutine started by the call has ended.  In particular no user function is left
   blocked inside a library call either.  Hypothesis on the reducer: at most two Writes (a
   third Write blocks inside the reducer's own call: [Pinned.third_write_blocks]).
   The pinned protocol violates this (Pinned.v). *)
Theorem terminal_clean : forall c sched,
  variant_of c = VFixed -> 1 <= workers c -> length (all_writes (rscript c)) <= 2 ->
  let s := run c (init c) sched in
  stuck c s = true -> clean s = true.
Proof. exact terminal_clean_l. Qed.
Print Assumptions terminal_clean.

(* the blocking point the F4 repair concerns: once the caller has returned, or is inside cancel
   on the context branch, quit is closed, so no thread stays blocked in panicChan.write *)
Theorem quit_closed_after_commit : forall c sched,
  variant_of c = VFixed ->
  let s := run c (init c) sched in
  match mainpc s with
  | MFin _ | MCancelPend | MDraining => quit s = true
  | _ => True
  end.
Proof. intros c sched V. exact (inv_quit_all c sched V). Qed.
Print Assumptions quit_closed_after_commit.

(* non-vacuity: a concrete run with 3 items, 2 workers, fan-out 2 in which a mapper
   cancels and another panics later; the hypotheses are met and the run ends clean *)
Open Scope Z_scope.
Definition ex_cfg : config :=
  mkCfg VFixed false 2%nat [USend 1; USend 2; USend 3]
        (fun x => if Z.eqb x 2 then [UWrite 20; UCancel (Some 7)]
                  else if Z.eqb x 3 then [UWrite 30; UPanic 9] else [UWrite 10; UWrite 11])
        [URecvAll; UWrite 777] false.
Definition ex_sched : list label :=
  (fix rep n l := match n with O => [] | S k => l ++ rep k l end) 40%nat
    [LGen; LExec false; LExec true; LMap 0; LMap 1; LMap 2; LRed; LMain BOut; LMain BPanic].
Example ex_run :
  let s := run ex_cfg (init ex_cfg) ex_sched in
  result s = Some (OErr (ECancel 7)) /\ clean s = true /\ stuck ex_cfg s = true
  /\ g_peak s = 2%nat /\ g_cancels s = [ECancel 7]
  /\ map mitem (maps s) = [1; 2] /\ g_drained s = [3] /\ g_reduced s = [10; 11; 20].
Proof. vm_compute. repeat split; reflexivity. Qed.

(* a second run of the same configuration in which mapper 3 is spawned before the
   cancel and panics after the call has returned: still clean (the F4 shape) *)
Definition ex_sched2 : list label :=
  (fix rep n l := match n with O => [] | S k => l ++ rep k l end) 12%nat [LGen; LExec false; LMap 0]
  ++ (fix rep n l := match n with O => [] | S k => l ++ rep k l end) 12%nat [LGen; LExec false; LMap 1; LMain BOut; LExec true; LRed]
  ++ (fix rep n l := match n with O => [] | S k => l ++ rep k l end) 20%nat
       [LGen; LExec false; LExec true; LMap 0; LMap 1; LMap 2; LRed; LMain BOut; LMain BPanic].
Example ex_run2 :
  let s := run ex_cfg (init ex_cfg) ex_sched2 in
  result s = Some (OErr (ECancel 7)) /\ clean s = true /\ g_panics s = [PUser 9]
  /\ g_cancels s = [ECancel 7] /\ map mitem (maps s) = [1; 2; 3].
Proof. vm_compute. repeat split; reflexivity. Qed.

(* non-vacuity of the fault-free theorems: 3 items, 2 workers, fan-out 2, the reducer ranges over
   the pipe and writes one value; a fair round-robin schedule ends in a terminal state *)
Definition q_cfg : config :=
  mkCfg VFixed false 2%nat [USend 1; USend 2; USend 3] (fun x => [UWrite (10 * x); UWrite (10 * x + 1)])
        [URecvAll; UWrite 777] false.
Example q_cfg_quiet : quiet_cfg q_cfg.
Proof. repeat split; reflexivity. Qed.
Example q_run :
  let s := run q_cfg (init q_cfg) ex_sched in
  ~ In LCtx ex_sched /\ stuck q_cfg s = true /\ result s = Some (OVal 777)
  /\ map mitem (maps s) = [1; 2; 3] /\ g_drained s = [] /\ g_rdrained s = []
  /\ length (g_reduced s) = 6%nat /\ g_peak s = 2%nat.
Proof.
  split.
  - intro H. vm_compute in H. repeat (destruct H as [H|H]; [discriminate|]). exact H.
  - vm_compute. repeat split; reflexivity.
Qed.
