(* C10 — property theorems only.  Every theorem is closed by [exact] of a lemma of
   Proofs.v and followed by [Print Assumptions].  All theorems quantify over every
   configuration (API mode, worker count, generator / mapper / reducer scripts, hence
   item counts, fan-out and fault placements) and over every schedule (list of
   labels: which thread moves, which ready select case is taken, when the context
   ends); [run] skips labels that are not enabled. *)
From Coq Require Import List ZArith Bool Arith Permutation.
From GZ Require Import C10.Model C10.AtomicErr C10.Proofs C10.ProofsT C10.ProofsQ C10.ProofsM C10.ProofsS C10.ProofsC C10.ProofsP C10.ProofsL C10.ProofsA C10.ProofsV C10.ProofsW.
Import ListNotations.

(* At most [workers] mapper functions run at any time (and the pool never holds more
   than [workers] slots); [g_peak] is the running maximum. *)
Theorem workers_bounded : forall c sched,
  let s := run c (init c) sched in
  running (maps s) <= workers c /\ g_peak s <= workers c /\ pool s <= workers c.
Proof. exact workers_bounded_l. Qed.
Print Assumptions workers_bounded.

(* Hand-over of items, in every run (faults included).  Every item whose send on [source]
   completed went to exactly one receiver — a new mapper invocation (one per item) or a
   drain(source) — and the completed sends are a prefix of the generator's sends, in order. *)
Theorem items_handed_over_once : forall c sched,
  let s := run c (init c) sched in
  Permutation (g_sent s) (map mitem (maps s) ++ g_drained s)
  /\ exists later, g_sent s ++ todo (genpc s) ++ later = all_sends (gscript c).
Proof.
  intros c sched s. destruct (inv_logs_all c sched) as (H1 & _ & _ & H4). split; assumption.
Qed.
Print Assumptions items_handed_over_once.

(* When nothing is cancelled: no script contains a cancel or a panic ([quiet_cfg]) and the
   context does not end (the schedule has no [LCtx]).  Then, under every such schedule, in
   every state: nothing is ever drained, the items handed to mapper invocations are exactly
   the completed sends, and once the generator has ended they are all of its sends. *)
Theorem map_nothing_drained : forall c sched, quiet_cfg c -> ~ In LCtx sched ->
  let s := run c (init c) sched in
  g_drained s = [] /\ Permutation (g_sent s) (map mitem (maps s))
  /\ (genpc s = Fin -> Permutation (all_sends (gscript c)) (map mitem (maps s))).
Proof. exact map_exactly_once_l. Qed.
Print Assumptions map_nothing_drained.

(* map_exactly_once: in every terminal state (no thread can move) of a fault-free run of the
   repaired protocol, every item the generator sends has been handed to exactly one mapper
   invocation — for all item counts, worker counts >= 1 and fan-outs. *)
Theorem map_exactly_once : forall c sched,
  variant_of c = VFixed -> 1 <= workers c -> length (all_writes (rscript c)) <= 2 ->
  quiet_cfg c -> ~ In LCtx sched ->
  let s := run c (init c) sched in
  stuck c s = true -> Permutation (all_sends (gscript c)) (map mitem (maps s)).
Proof.
  intros c sched V W1 H2 QC NC s K.
  pose proof (terminal_clean_l c sched V W1 H2 K) as CL. fold s in CL.
  destruct (map_exactly_once_l c sched QC NC) as (_ & _ & H). apply H.
  unfold clean in CL. fold s. repeat (apply andb_true_iff in CL; destruct CL as (CL & ?)).
  destruct (genpc s); try discriminate. reflexivity.
Qed.
Print Assumptions map_exactly_once.

(* Exactly-once delivery of mapper outputs: the values accepted by the collector are,
   in order, those received by the reducer function, then those received by the
   wrapper's drain(collector) after the reducer returned, then those still buffered;
   nothing is lost or duplicated, and the drain takes nothing while the reducer
   function is still running. *)
Theorem reduce_exactly_once : forall c sched,
  let s := run c (init c) sched in
  g_written s = g_reduced s ++ g_rdrained s ++ coll s
  /\ (in_user (redpc s) = true -> g_rdrained s = []).
Proof.
  intros c sched s. destruct (inv_logs_all c sched) as (_ & H2 & H3 & _). split; assumption.
Qed.
Print Assumptions reduce_exactly_once.

(* every_write_reaches_reducer: in a fault-free run of MapReduce (not ForEach) every value a
   mapper writes is accepted by the collector (always: written ++ not-yet-written = all Writes
   of the scripts of the mapped items); if the reducer ranges over the pipe until it is closed,
   the wrapper's drain never receives anything, and in every terminal state of the repaired
   protocol the reducer function has received exactly the Writes of all generated items. *)
Theorem every_write_accepted : forall c sched, foreach c = false -> quiet_cfg c -> ~ In LCtx sched ->
  let s := run c (init c) sched in
  Permutation (g_written s ++ pw (maps s)) (aw c (maps s))
  /\ (In URecvAll (rscript c) -> g_rdrained s = []).
Proof.
  intros c sched FE QC NC s. destruct (every_write_l c sched FE QC NC) as (A & B & _). split; assumption.
Qed.
Print Assumptions every_write_accepted.

Theorem every_write_reaches_reducer : forall c sched,
  variant_of c = VFixed -> 1 <= workers c -> length (all_writes (rscript c)) <= 2 ->
  foreach c = false -> quiet_cfg c -> ~ In LCtx sched -> In URecvAll (rscript c) ->
  let s := run c (init c) sched in
  stuck c s = true ->
  Permutation (g_reduced s) (flat_map (fun x => all_writes (mscript c x)) (all_sends (gscript c)))
  /\ g_rdrained s = [].
Proof.
  intros c sched V W1 H2 FE QC NC RA s K.
  pose proof (terminal_clean_l c sched V W1 H2 K) as CL. fold s in CL.
  destruct (every_write_l c sched FE QC NC) as (_ & B & C). fold s in B, C.
  split; [|apply B; assumption].
  eapply Permutation_trans; [apply C; assumption|].
  rewrite aw_items. apply Permutation_flat_map. apply Permutation_sym.
  apply (map_exactly_once c sched V W1 H2 QC NC K).
Qed.
Print Assumptions every_write_reaches_reducer.

(* What the call can return.  A value is one the reducer wrote; an error is the
   context error (and then the context did end) or the error of a cancel call
   (ErrCancelWithNil for nil); a re-raised panic is one a user function raised, the
   runtime's send-on-closed-channel raised inside the reducer's Write, or the
   library's "more than one element written in reducer". *)
Theorem result_is_reducers_or_fault : forall c sched o,
  let s := run c (init c) sched in
  result s = Some o ->
  match o with
  | OVal v => In (UWrite v) (rscript c)
  | ONoOutput => foreach c = false
  | OUnit => foreach c = true
  | OErr e => (e = ECtx /\ ctx_done s = true) \/ In e (g_cancels s)
  | OPanic p => p = PMulti \/ In p (g_panics s) \/ p = PClosed
  end.
Proof.
  intros c sched o s H. destruct (inv_just_all c sched) as (_ & _ & _ & _ & _ & _ & _ & JM).
  fold s in JM. unfold result in H. destruct (mainpc s); try discriminate.
  inversion H; subst. destruct o; simpl in JM; auto.
Qed.
Print Assumptions result_is_reducers_or_fault.

(* the error stored by cancel is one that was passed to cancel; ECtx is only ever
   logged when the context has ended *)
Theorem error_is_cancels : forall c sched e,
  let s := run c (init c) sched in
  (reterr s = Some e -> In e (g_cancels s)) /\ (In ECtx (g_cancels s) -> ctx_done s = true).
Proof.
  intros c sched e s. destruct (inv_just_all c sched) as (J1 & J2 & _). split; auto.
Qed.
Print Assumptions error_is_cancels.

(* terminal_clean (deadlock- and leak-freedom of the repaired protocol): for every item count,
   worker count >= 1 (WithWorkers clamps to 1), fan-out, fault placement (any scripts) and every
   schedule, a state in which no thread can move is one in which the caller has returned and
   every goroutine started by the call has ended.  In particular no user function is left
   blocked inside a library call either.  Hypothesis on the reducer: at most two Writes (a
   third Write blocks inside the reducer's own call: [Pinned.third_write_blocks]).
   The pinned protocol violates this (Pinned.v). *)
Theorem terminal_clean : forall c sched,
  variant_of c = VFixed -> 1 <= workers c -> length (all_writes (rscript c)) <= 2 ->
  let s := run c (init c) sched in
  stuck c s = true -> clean s = true.
Proof. exact terminal_clean_l. Qed.
Print Assumptions terminal_clean.

(* the blocking point the F4 repair concerns: once the caller has returned, or is inside cancel
   on the context branch, quit is closed, so no thread stays blocked in panicChan.write *)
Theorem quit_closed_after_commit : forall c sched,
  variant_of c = VFixed ->
  let s := run c (init c) sched in
  match mainpc s with
  | MFin _ | MCancelPend | MDraining => quit s = true
  | _ => True
  end.
Proof. intros c sched V. exact (inv_quit_all c sched V). Qed.
Print Assumptions quit_closed_after_commit.

(* ---- provenance: results in terms of the user scripts alone ---- *)
(* every error logged by a cancel call that entered the once body is the context error (and the
   context has ended) or was passed to cancel by an action of the reducer script or of the mapper
   script of an item that the generator sent and that was handed to a mapper invocation *)
Theorem cancels_from_scripts : forall c sched e,
  let s := run c (init c) sched in
  In e (g_cancels s) ->
  (e = ECtx /\ ctx_done s = true) \/ exists e', e = err_of e' /\ script_cancels c s e'.
Proof. exact cancels_from_scripts_l. Qed.
Print Assumptions cancels_from_scripts.

(* every panic raised is panic(k) of an action of the generator script, the reducer script or the
   mapper script of a generated, mapped item *)
Theorem panics_from_scripts : forall c sched p,
  let s := run c (init c) sched in
  In p (g_panics s) -> exists k, p = PUser k /\ script_panics c s k.
Proof. exact panics_from_scripts_l. Qed.
Print Assumptions panics_from_scripts.

(* result_is_reducers_or_fault with the ghost logs eliminated: what the call returns is determined
   by actions that occur in the user scripts; the runtime panic only under the unrepaired output
   protocol (finding F13) *)
Theorem result_from_scripts : forall c sched o,
  let s := run c (init c) sched in
  result s = Some o ->
  match o with
  | OVal v => In (UWrite v) (rscript c)
  | ONoOutput => foreach c = false
  | OUnit => foreach c = true
  | OErr e => (e = ECtx /\ ctx_done s = true) \/ exists e', e = err_of e' /\ script_cancels c s e'
  | OPanic p => p = PMulti \/ (p = PClosed /\ safe_out c = false)
                \/ exists k, p = PUser k /\ script_panics c s k
  end.
Proof. exact result_from_scripts_l. Qed.
Print Assumptions result_from_scripts.

(* the repaired output protocol (output never closed, Write selects on done:
   pending/C10-output-never-closed.diff) never re-raises the runtime's send-on-closed-channel
   panic, under any schedule; the unrepaired one does (Pinned.cancel_racing_reducer_write_...) *)
Theorem safe_no_runtime_panic : forall c sched, safe_out c = true ->
  result (run c (init c) sched) <> Some (OPanic PClosed).
Proof. exact safe_no_runtime_panic_l. Qed.
Print Assumptions safe_no_runtime_panic.

(* when the caller's select takes a value from output and commits to it (the only way to a normal
   result with a value), no cancel call has entered the once body, no error is stored and the
   context branch has not been taken — in particular not inside the window between retErr.Set
   and finish() of a cancel that is still draining the source (Pinned.seed_c10_4_...) *)
Theorem value_commit_not_cancelled : forall c sched b s' v,
  let s := run c (init c) sched in
  mainpc s = MSelect -> step c s (LMain b) = Some s' -> mainpc s' = MDefer (OVal v) ->
  g_cancels s = [] /\ reterr s = None /\ cstate s = CNone.
Proof. exact value_commit_not_cancelled_l. Qed.
Print Assumptions value_commit_not_cancelled.

(* ---- promptness: the call does not wait for user functions that ignore a cancellation ---- *)
(* [lib_stuck c s]: no LIBRARY step is enabled in s - the only things that could still happen are
   releases of user functions parked before their next action (or before returning) and the context
   event.  Once a cancel call has stored its error and the generator has ended, in every such state
   the caller has returned: its return needs library steps only, whatever the parked mapper and
   reducer functions do (for ever).  Every variant, both output protocols.  (The generator is
   excepted by the code: cancel waits in drain(source) for it.) *)
Theorem prompt_after_cancel : forall c sched,
  let s := run c (init c) sched in
  lib_stuck c s = true -> genpc s = Fin -> reterr s <> None -> exists o, mainpc s = MFin o.
Proof. exact prompt_after_cancel_l. Qed.
Print Assumptions prompt_after_cancel.

(* the same once the caller has taken the context branch of its select ... *)
Theorem prompt_after_ctx_branch : forall c sched,
  let s := run c (init c) sched in
  lib_stuck c s = true -> genpc s = Fin -> In ECtx (g_cancels s) -> exists o, mainpc s = MFin o.
Proof. exact prompt_after_ctx_branch_l. Qed.
Print Assumptions prompt_after_ctx_branch.

(* ... which a caller that is still at its select does as soon as the context has ended *)
Theorem ctx_seen_at_select : forall c sched,
  let s := run c (init c) sched in
  lib_stuck c s = true -> foreach c = false -> ctx_done s = true -> mainpc s <> MSelect.
Proof. exact ctx_seen_at_select_l. Qed.
Print Assumptions ctx_seen_at_select.

(* ---- a panic is never lost ---- *)
(* Repaired panicChan protocol, either output protocol, a generator that does not panic.  If nothing
   was cancelled and the context did not end, and some user function (a mapper or the reducer)
   panicked, then a call that returns does so by panicking (a user panic, or the library's "more
   than one element" if the reducer also wrote twice) - under every schedule, in particular when
   the caller reaches its select late.  It rests on the order of the mapper's epilogue (the panic
   is handed over BEFORE wg.Done: while it is undelivered the collector, hence output, cannot
   close): Pinned.done_before_write_loses_panic refutes the other order (seeded change C10-9).
   Pinned.generator_panic_can_be_overtaken shows why the generator is excepted. *)
Theorem panic_is_never_lost : forall c sched o,
  variant_of c = VFixed -> no_gen_panic c ->
  let s := run c (init c) sched in
  result s = Some o -> g_panics s <> [] -> g_cancels s = [] -> ctx_done s = false ->
  exists p, o = OPanic p.
Proof. exact panic_is_never_lost_l. Qed.
Print Assumptions panic_is_never_lost.

(* ---- termination ---- *)
(* every step of every thread, and the context event, strictly decreases [measure] (any variant,
   any scripts) *)
Theorem every_step_decreases_measure : forall c s l s',
  step c s l = Some s' -> measure c s' < measure c s.
Proof. exact step_decreases. Qed.
Print Assumptions every_step_decreases_measure.

(* every run is finite: whatever the schedule, at most [measure c (init c)] of its labels are
   executed *)
Theorem every_run_is_finite : forall c sched, nsteps c (init c) sched <= measure c (init c).
Proof. intros c sched. pose proof (run_bounded c sched (init c)). apply (Nat.le_trans _ _ _ (Nat.le_add_r _ _) H). Qed.
Print Assumptions every_run_is_finite.

(* no reachable deadlock: every reachable state of the repaired panicChan protocol (either output
   protocol) has a continuation ending in a state in which no thread can move, the caller has
   returned and every goroutine has ended — for all scripts, i.e. all fault placements *)
Theorem no_reachable_deadlock : forall c sched,
  variant_of c = VFixed -> 1 <= workers c -> length (all_writes (rscript c)) <= 2 ->
  exists more, let s := run c (init c) (sched ++ more) in stuck c s = true /\ clean s = true.
Proof. exact no_reachable_deadlock_l. Qed.
Print Assumptions no_reachable_deadlock.

(* every fair infinite schedule (one that offers every thread label again and again; the context
   may or may not end) reaches such a state after finitely many labels *)
Theorem fair_schedule_terminates : forall c f,
  variant_of c = VFixed -> 1 <= workers c -> length (all_writes (rscript c)) <= 2 -> fair f ->
  exists N, let s := run c (init c) (prefix f N) in stuck c s = true /\ clean s = true.
Proof. exact fair_schedule_terminates_l. Qed.
Print Assumptions fair_schedule_terminates.

(* non-vacuity: a concrete run with 3 items, 2 workers, fan-out 2 in which a mapper
   cancels and another panics later; the hypotheses are met and the run ends clean *)
Open Scope Z_scope.
Definition ex_cfg : config :=
  mkCfg VFixed false 2%nat [USend 1; USend 2; USend 3]
        (fun x => if Z.eqb x 2 then [UWrite 20; UCancel (Some 7)]
                  else if Z.eqb x 3 then [UWrite 30; UPanic 9] else [UWrite 10; UWrite 11])
        [URecvAll; UWrite 777] false.
Definition ex_sched : list label :=
  (fix rep n l := match n with O => [] | S k => l ++ rep k l end) 40%nat
    [LGen; LExec false; LExec true; LMap 0; LMap 1; LMap 2; LRed; LMain BOut; LMain BPanic].
Example ex_run :
  let s := run ex_cfg (init ex_cfg) ex_sched in
  result s = Some (OErr (ECancel 7)) /\ clean s = true /\ stuck ex_cfg s = true
  /\ g_peak s = 2%nat /\ g_cancels s = [ECancel 7]
  /\ map mitem (maps s) = [1; 2] /\ g_drained s = [3] /\ g_reduced s = [10; 11; 20].
Proof. vm_compute. repeat split; reflexivity. Qed.

(* a second run of the same configuration in which mapper 3 is spawned before the
   cancel and panics after the call has returned: still clean (the F4 shape) *)
Definition ex_sched2 : list label :=
  (fix rep n l := match n with O => [] | S k => l ++ rep k l end) 12%nat [LGen; LExec false; LMap 0]
  ++ (fix rep n l := match n with O => [] | S k => l ++ rep k l end) 12%nat [LGen; LExec false; LMap 1; LMain BOut; LExec true; LRed]
  ++ (fix rep n l := match n with O => [] | S k => l ++ rep k l end) 20%nat
       [LGen; LExec false; LExec true; LMap 0; LMap 1; LMap 2; LRed; LMain BOut; LMain BPanic].
Example ex_run2 :
  let s := run ex_cfg (init ex_cfg) ex_sched2 in
  result s = Some (OErr (ECancel 7)) /\ clean s = true /\ g_panics s = [PUser 9]
  /\ g_cancels s = [ECancel 7] /\ map mitem (maps s) = [1; 2; 3].
Proof. vm_compute. repeat split; reflexivity. Qed.

(* non-vacuity of the fault-free theorems: 3 items, 2 workers, fan-out 2, the reducer ranges over
   the pipe and writes one value; a fair round-robin schedule ends in a terminal state *)
Definition q_cfg : config :=
  mkCfg VFixed false 2%nat [USend 1; USend 2; USend 3] (fun x => [UWrite (10 * x); UWrite (10 * x + 1)])
        [URecvAll; UWrite 777] false.
Example q_cfg_quiet : quiet_cfg q_cfg.
Proof. repeat split; reflexivity. Qed.
Example q_run :
  let s := run q_cfg (init q_cfg) ex_sched in
  ~ In LCtx ex_sched /\ stuck q_cfg s = true /\ result s = Some (OVal 777)
  /\ map mitem (maps s) = [1; 2; 3] /\ g_drained s = [] /\ g_rdrained s = []
  /\ length (g_reduced s) = 6%nat /\ g_peak s = 2%nat.
Proof.
  split.
  - intro H. vm_compute in H. repeat (destruct H as [H|H]; [discriminate|]). exact H.
  - vm_compute. repeat split; reflexivity.
Qed.

(* the same under the repaired output protocol *)
Definition ex_cfg_safe : config :=
  mkCfg VFixed false 2%nat (gscript ex_cfg) (mscript ex_cfg) (rscript ex_cfg) true.
Example ex_run_safe :
  let s := run ex_cfg_safe (init ex_cfg_safe) ex_sched in
  result s = Some (OErr (ECancel 7)) /\ clean s = true /\ stuck ex_cfg_safe s = true
  /\ script_cancels ex_cfg_safe s (Some 7) /\ nsteps ex_cfg_safe (init ex_cfg_safe) ex_sched = 48%nat
  /\ measure ex_cfg_safe (init ex_cfg_safe) = 89%nat.
Proof.
  vm_compute. repeat split; try reflexivity.
  right. exists 2. repeat split; simpl; auto.
Qed.

(* a fair schedule: six fixed labels in turn, and in every seventh position LMap i where i runs
   through b - (sqrt b)^2, which takes every value again and again *)
Definition fair_f (n : nat) : label :=
  match (n mod 7)%nat with
  | 0%nat => LMain BCtx | 1%nat => LMain BPanic | 2%nat => LMain BOut | 3%nat => LGen
  | 4%nat => LExec true | 5%nat => LExec false
  | _ => let b := (n / 7)%nat in
         if Nat.even b then LRed else LMap ((b / 2) - Nat.sqrt (b / 2) * Nat.sqrt (b / 2))
  end.

Example fair_f_fair : fair fair_f.
Proof.
  intros l NL n.
  assert (forall r, (r < 6)%nat -> exists m, (n <= m)%nat /\ (m mod 7 = r)%nat) as Fix.
  { intros r Hr. exists (7 * n + r)%nat. split; [Lia.lia|].
    rewrite Nat.mul_comm, Nat.add_comm, Nat.mod_add by Lia.lia. apply Nat.mod_small. Lia.lia. }
  assert (forall b, (n <= b)%nat -> exists m, (n <= m)%nat /\ (m mod 7 = 6)%nat /\ (m / 7 = b)%nat) as Sev.
  { intros b Hb. exists (b * 7 + 6)%nat. split; [Lia.lia|]. split.
    - rewrite Nat.add_comm, Nat.mod_add by Lia.lia. reflexivity.
    - rewrite Nat.add_comm, Nat.div_add by Lia.lia. reflexivity. }
  destruct l as [|b| |q|i|]; try congruence.
  - destruct b.
    + destruct (Fix 0%nat) as (m & A & B); [Lia.lia|]. exists m. split; auto. unfold fair_f. rewrite B. reflexivity.
    + destruct (Fix 1%nat) as (m & A & B); [Lia.lia|]. exists m. split; auto. unfold fair_f. rewrite B. reflexivity.
    + destruct (Fix 2%nat) as (m & A & B); [Lia.lia|]. exists m. split; auto. unfold fair_f. rewrite B. reflexivity.
  - destruct (Fix 3%nat) as (m & A & B); [Lia.lia|]. exists m. split; auto. unfold fair_f. rewrite B. reflexivity.
  - destruct q.
    + destruct (Fix 4%nat) as (m & A & B); [Lia.lia|]. exists m. split; auto. unfold fair_f. rewrite B. reflexivity.
    + destruct (Fix 5%nat) as (m & A & B); [Lia.lia|]. exists m. split; auto. unfold fair_f. rewrite B. reflexivity.
  - (* LMap i: b = 2 * (k * k + i) + 1 with k >= i, k >= n *)
    set (k := (n + i)%nat). set (h := (k * k + i)%nat).
    destruct (Sev (2 * h + 1)%nat) as (m & A & B & D); [unfold h, k; Lia.nia|].
    exists m. split; auto. unfold fair_f. rewrite B, D.
    assert (Nat.even (2 * h + 1) = false) as Ev.
    { rewrite Nat.add_comm. rewrite Nat.even_add_mul_2. reflexivity. }
    rewrite Ev.
    assert (((2 * h + 1) / 2)%nat = h) as Hh.
    { rewrite Nat.mul_comm, Nat.div_add_l by Lia.lia. simpl. Lia.lia. }
    rewrite Hh.
    assert (Nat.sqrt h = k) as Sq.
    { apply Nat.sqrt_unique. unfold h, k. split; Lia.nia. }
    rewrite Sq. unfold h. f_equal. Lia.lia.
  - (* LRed: an even b *)
    destruct (Sev (2 * n)%nat) as (m & A & B & D); [Lia.lia|].
    exists m. split; auto. unfold fair_f. rewrite B, D.
    assert (Nat.even (2 * n) = true) as Ev.
    { replace (2 * n)%nat with (0 + 2 * n)%nat by Lia.lia. rewrite Nat.even_add_mul_2. reflexivity. }
    rewrite Ev. reflexivity.
Qed.

(* ... and it drives the example configuration into a clean terminal state *)
Example fair_f_finishes :
  let s := run ex_cfg_safe (init ex_cfg_safe) (prefix fair_f 4000) in
  stuck ex_cfg_safe s = true /\ clean s = true.
Proof. vm_compute. split; reflexivity. Qed.

(* non-vacuity of panic_is_never_lost: ex_cfg's generator does not panic *)
Example ex_cfg_no_gen_panic : no_gen_panic ex_cfg.
Proof. intros k H. simpl in H. repeat (destruct H as [H|H]; [discriminate|]). exact H. Qed.

(* ---- AtomicError (core/errorx/atomicerror.go) and the error VALUE of a cancellation ---- *)
(* Error values are Go interface values: the nil interface, or a dynamic type with a payload that may
   be a nil pointer (a typed nil: a NON-nil error).  The contract of the anchor, for every content and
   every value: a Set of any non-nil interface value - typed nils included - whose concrete type
   agrees with what is stored (always so on a fresh AtomicError) does not panic, and Load returns
   that very value.  Pinned.typed_nil_guard_breaks_set_contract refutes the variant of seeded change
   C10-10. *)
Theorem set_non_nil_interface_is_loaded : forall st v,
  v <> None -> same_type st v = true ->
  ae_set guard_today st v = (v, false) /\ ae_load (fst (ae_set guard_today st v)) = v.
Proof. exact set_non_nil_interface_is_loaded_l. Qed.
Print Assumptions set_non_nil_interface_is_loaded.

Example set_typed_nil_is_loaded :
  let tn := goerr_of (Some 1011) in
  tn <> None /\ is_typed_nil tn = true /\ ae_load (fst (ae_set guard_today None tn)) = tn
  /\ ae_load (fst (ae_set guard_today (Some (dyn_of_code 1008)) tn)) = tn.
Proof. vm_compute. repeat split; congruence. Qed.

Theorem set_nil_is_ignored : forall st, ae_set guard_today st None = (st, false).
Proof. exact set_nil_is_ignored_l. Qed.
Print Assumptions set_nil_is_ignored.

(* any sequence of Sets of one concrete type: nothing panics, the last non-nil value wins *)
Theorem sets_last_wins : forall vs st,
  consistent st vs = true -> ae_sets guard_today st vs = (last_non_nil st vs, false).
Proof. exact sets_last_wins_l. Qed.
Print Assumptions sets_last_wins.

(* concurrent Sets of one concrete type, every order in which the Stores take effect: nothing
   panics and the Load afterwards returns one of the non-nil values Set (the old content if every
   Set was ignored) - exactly what Check.conc_allowed accepts of the implementation *)
Theorem concurrent_sets : forall st vs order,
  Permutation vs order -> consistent st vs = true ->
  let '(st', p) := ae_sets guard_today st order in
  p = false /\ conc_allowed st vs (ae_load st') = true.
Proof. exact concurrent_sets_l. Qed.
Print Assumptions concurrent_sets.

Example concurrent_sets_example :
  consistent None [goerr_of (Some 1011); goerr_of (Some 1008); None; goerr_of (Some 1018)] = true.
Proof. reflexivity. Qed.

(* the judgement of the check on observed Set / Load histories (the contract mr relies on: Load
   returns, by identity, one of the non-nil values Set so far - the one after a single Set - and nil
   only if there is none; Set(nil) and Sets of the stored type never panic) is implied by the model
   reproducing them; it pins the value after a single Set; histories computed by the model are
   accepted *)
Theorem ae_agrees_prop : forall ops, ae_agrees None ops = true -> ae_prop None [] ops = true.
Proof. exact ae_agrees_prop_l. Qed.
Print Assumptions ae_agrees_prop.
Theorem ae_prop_single_set : forall d o,
  ae_prop None [] [ASet (Some d) false; ALoad o] = true -> o = Some d.
Proof. exact ProofsA.ae_prop_single_set. Qed.
Print Assumptions ae_prop_single_set.
Example ae_prop_rejects_dropped_typed_nil :
  ae_prop None [] [ASet (goerr_of (Some 1011%Z)) false; ALoad None] = false.
Proof. reflexivity. Qed.
Theorem model_history_accepted : forall vs st, ae_agrees st (seq_history st vs) = true.
Proof. exact model_history_accepted_l. Qed.
Print Assumptions model_history_accepted.

(* mr: the head of the cancel body on the fresh retErr of a call, for EVERY value passed to cancel:
   nothing panics; Load returns the passed value itself if it is a non-nil interface (typed nils
   included) and ErrCancelWithNil if it is the nil interface *)
Theorem cancel_stores_passed_value : forall v,
  cancel_store guard_today None v = (cancel_arg v, false)
  /\ (v <> None -> ae_load (fst (cancel_store guard_today None v)) = v)
  /\ (v = None -> ae_load (fst (cancel_store guard_today None v)) = Some dyn_cancel_with_nil).
Proof. exact cancel_stores_passed_value_l. Qed.
Print Assumptions cancel_stores_passed_value.

(* ... which is what the LTS stores ([Some (err_of e)], Model.user_step) and what the caller's
   output branch turns into the result, for every script action UCancel e; distinct codes are
   distinct values (identity) *)
Theorem cancel_store_refines_lts : forall e,
  e <> Some 1001%Z ->
  let '(st, p) := cancel_store guard_today None (goerr_of e) in
  p = false /\ exists d, ae_load st = Some d /\ err_of_dyn d = err_of e
                         /\ out_branch st None = OErr (err_of e)
                         /\ (forall y, out_branch st (Some y) = OErr (err_of e)).
Proof. exact cancel_store_refines_lts_l. Qed.
Print Assumptions cancel_store_refines_lts.
Theorem error_codes_are_distinct_values : forall j k, dyn_of_code j = dyn_of_code k -> j = k.
Proof. exact dyn_of_code_injective. Qed.
Print Assumptions error_codes_are_distinct_values.

(* whenever the caller's select commits to an outcome that is not an error - a value, or
   ErrReduceNoOutput for the closed output - no cancel call has entered the once body, nothing is
   stored and the context branch has not been taken: a cancelled call never returns
   ErrReduceNoOutput (every schedule, all scripts, both output protocols; generalises
   value_commit_not_cancelled).  Pinned.seed_c10_10_typed_nil_cancel_returns_no_output: the variant
   of seeded change C10-10 does. *)
Theorem normal_commit_not_cancelled : forall c sched b s' o,
  let s := run c (init c) sched in
  mainpc s = MSelect -> step c s (LMain b) = Some s' -> mainpc s' = MDefer o ->
  (forall e, o <> OErr e) ->
  g_cancels s = [] /\ reterr s = None /\ cstate s = CNone.
Proof. exact normal_commit_not_cancelled_l. Qed.
Print Assumptions normal_commit_not_cancelled.

(* non-vacuity: no items, a reducer that writes nothing - the caller commits to ErrReduceNoOutput at
   its select, and nothing was cancelled *)
Example normal_commit_example :
  let c := mkCfg VFixed false 1%nat [] (fun _ => []) [] false in
  let s := run c (init c) [LGen; LGen; LGen; LExec false; LExec false; LExec false; LExec false; LExec false;
                           LExec false; LRed; LRed; LRed; LRed] in
  mainpc s = MSelect
  /\ (exists s', step c s (LMain BOut) = Some s' /\ mainpc s' = MDefer ONoOutput)
  /\ g_cancels s = [].
Proof. vm_compute. split; [reflexivity | split; [eexists; split; reflexivity | reflexivity]]. Qed.

(* ---- MapReduceVoid / Finish: the adapter around the user's void reducer ---- *)
(* A Void call is a call whose reducer script contains no Write (the adapter hands the user's reducer
   no writer and writes nothing itself), post-processed by [void_post].  The reducer's return is an
   action of its own and decides nothing:
   (1) whatever the schedule, the call never returns a value; an error is the context error after
       the context ended or one passed to a cancel call;
   (2) when the caller's select takes its output branch, the output is CLOSED, and the outcome is
       either ErrReduceNoOutput with nothing cancelled so far - mapped to nil - or the error stored
       by a cancel call: the cancel error or nil.
   Pinned.seed_c10_11_placeholder_write_loses_cancel refutes the adapter of seeded change C10-11. *)
Theorem void_result_is_cancel_error_or_nil : forall c sched,
  void_cfg c ->
  let s := run c (init c) sched in
  (forall o, result s = Some o ->
     (forall v, o <> OVal v) /\ o <> OUnit
     /\ (forall e, o = OErr e -> (e = ECtx /\ ctx_done s = true) \/ In e (g_cancels s)))
  /\ (forall b s' o, mainpc s = MSelect -> step c s (LMain b) = Some s' -> mainpc s' = MDefer o ->
       finished s = true
       /\ ((o = ONoOutput /\ g_cancels s = [] /\ reterr s = None /\ void_post false o = OUnit)
           \/ (exists e, o = OErr e /\ reterr s = Some e /\ In e (g_cancels s) /\ forall f, void_post f o = OErr e))).
Proof.
  intros c sched V s. split.
  - intros o. exact (void_result_final_l c sched o V).
  - intros b s' o. exact (void_commit_l c sched b s' o V).
Qed.
Print Assumptions void_result_is_cancel_error_or_nil.

Theorem void_reducer_never_writes : forall c sched y r,
  void_cfg c -> redpc (run c (init c) sched) <> SendPend y r.
Proof. exact ProofsV.void_reducer_never_writes. Qed.
Print Assumptions void_reducer_never_writes.

(* non-vacuity: a Void call whose reducer returns after one receive, a mapper cancelling later *)
Example void_cfg_example :
  void_cfg (mkCfg VFixed false 2%nat [USend 1%Z; USend 2%Z]
                  (fun x => if Z.eqb x 1 then [UWrite 10%Z] else [UCancel (Some 5%Z)]) [URecv] false).
Proof. split; reflexivity. Qed.

(* ---- final-state form: a normal "nothing" result means nothing was cancelled ---- *)
(* done / output are closed either by a cancel body (the once is then done) or by the reducer
   goroutine's epilogue (the goroutine has then ended) *)
Theorem finished_by_cancel_or_reducer_end : forall c sched,
  let s := run c (init c) sched in
  finished s = true -> cstate s = CDone \/ redpc s = Fin.
Proof. exact inv_f_all. Qed.
Print Assumptions finished_by_cancel_or_reducer_end.

(* a call that returns ErrReduceNoOutput (MapReduce / MapReduceChan; mapped to nil by MapReduceVoid /
   Finish) or simply returns (ForEach / FinishVoid) has executed NO cancel call and never took the
   context branch, up to and including its return - every API, every schedule, all scripts, both
   output protocols, every panicChan variant *)
Theorem no_output_means_nothing_cancelled : forall c sched o,
  let s := run c (init c) sched in
  result s = Some o -> o = ONoOutput \/ o = OUnit -> g_cancels s = [].
Proof. exact no_output_nothing_cancelled_l. Qed.
Print Assumptions no_output_means_nothing_cancelled.

Theorem cancelled_never_no_output : forall c sched o,
  let s := run c (init c) sched in
  result s = Some o -> g_cancels s <> [] -> o <> ONoOutput /\ o <> OUnit.
Proof. exact cancelled_never_no_output_l. Qed.
Print Assumptions cancelled_never_no_output.

(* MapReduceVoid / Finish, final state: the call returns nil (its adapter maps the inner
   ErrReduceNoOutput to nil) only if no cancel call was executed and the context branch was not taken;
   otherwise it returns an error passed to cancel / the context error, or re-raises a panic *)
Theorem void_nil_means_nothing_cancelled : forall c sched o,
  void_cfg c ->
  let s := run c (init c) sched in
  result s = Some o ->
  (o = ONoOutput /\ g_cancels s = [] /\ void_post false o = OUnit)
  \/ (exists e, o = OErr e /\ ((e = ECtx /\ ctx_done s = true) \/ In e (g_cancels s)))
  \/ (exists p, o = OPanic p).
Proof. exact void_nil_l. Qed.
Print Assumptions void_nil_means_nothing_cancelled.

Example no_output_example :
  let c := mkCfg VFixed false 1%nat [] (fun _ => []) [] false in
  let s := run c (init c) [LGen; LGen; LGen; LExec false; LExec false; LExec false; LExec false; LExec false;
                           LExec false; LRed; LRed; LRed; LRed; LMain BOut; LMain BOut; LMain BOut; LMain BOut] in
  result s = Some ONoOutput /\ g_cancels s = [].
Proof. vm_compute. split; reflexivity. Qed.

(* a Load interleaved with concurrent Sets of one concrete type - after any k of the Stores, in any
   order - returns the old content or one of the non-nil values being Set (Check: mid_allowed) *)
Theorem interleaved_load : forall st vs order k,
  Permutation vs order -> consistent st vs = true ->
  let '(st', p) := ae_sets guard_today st (firstn k order) in
  p = false /\ mid_allowed st vs (ae_load st') = true.
Proof. exact interleaved_load_l. Qed.
Print Assumptions interleaved_load.
