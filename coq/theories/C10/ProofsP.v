(* C10 — promptness: once a cancel call has stored its error (or the caller has taken the context
   branch) and the generator has ended, the caller's return needs library steps only: in every
   reachable state in which no LIBRARY step is enabled - user callbacks may be parked at their
   gates for ever - the caller has returned.  The call never waits for a mapper or reducer function
   that ignores the cancellation.  Holds for every variant and for both output protocols
   ([safe_out]); the protocol of seeded change C10-6 (only the reducer goroutine closes output)
   violates it (Pinned.seed_c10_6_waits_for_stragglers). *)
From Coq Require Import List ZArith Bool Arith Lia.
From GZ Require Import C10.Model C10.Proofs C10.ProofsT C10.ProofsC.
Import ListNotations.

(* a user function parked before its next action (or before returning): releasing it is a step of
   user code; every other step of every thread is the library's *)
Definition parked (p : pc) : bool := match p with Gate _ => true | _ => false end.

Fixpoint lmaps (i : nat) (ms : list mapper) : list label :=
  match ms with
  | [] => []
  | m :: tl => (if parked (mpc m) then [] else [LMap i]) ++ lmaps (S i) tl
  end.

Definition lib_labels (s : state) : list label :=
  [LMain BCtx; LMain BPanic; LMain BOut; LExec true; LExec false]
  ++ (if parked (genpc s) then [] else [LGen])
  ++ (if parked (redpc s) then [] else [LRed])
  ++ lmaps 0 (maps s).

(* no library step is enabled: only releases of parked user functions (and the context event) remain *)
Definition lib_stuck_with (stepf : state -> label -> option state) (s : state) : bool :=
  forallb (fun l => match stepf s l with None => true | Some _ => false end) (lib_labels s).
Definition lib_stuck (c : config) (s : state) : bool := lib_stuck_with (step c) s.

Lemma lmaps_in : forall ms i k m, nth_error ms k = Some m -> parked (mpc m) = false -> In (LMap (i + k)) (lmaps i ms).
Proof.
  induction ms as [|a tl IH]; intros i k m Hn Hp; destruct k; simpl in *; try discriminate.
  - inversion Hn; subst. rewrite Hp. rewrite Nat.add_0_r. left. reflexivity.
  - apply in_or_app. right. replace (i + S k) with (S i + k) by lia. eapply IH; eauto.
Qed.

Lemma lib_stuck_spec : forall c s, lib_stuck c s = true ->
  (forall b, main_step c s b = None)
  /\ (parked (redpc s) = false -> red_step c s = None)
  /\ (forall i m, nth_error (maps s) i = Some m -> parked (mpc m) = false -> map_step c s i = None).
Proof.
  intros c s H. unfold lib_stuck, lib_stuck_with in H. rewrite forallb_forall in H.
  assert (forall l, In l (lib_labels s) -> step c s l = None) as K.
  { intros l Hl. specialize (H l Hl). destruct (step c s l); [discriminate | reflexivity]. }
  unfold lib_labels in K. repeat split.
  - intros b. apply (K (LMain b)). destruct b; simpl; auto.
  - intros P. apply (K LRed). rewrite P. simpl. right. right. right. right. right.
    apply in_or_app. right. left. reflexivity.
  - intros i m Hn P. apply (K (LMap i)). simpl. right. right. right. right. right.
    apply in_or_app. right. apply in_or_app. right. apply (lmaps_in (maps s) 0 i m Hn P).
Qed.

(* the context branch: after the caller has logged the context error it is at the once or the once
   has been entered *)
Definition inv_ec (s : state) : Prop :=
  (In ECtx (g_cancels s) -> mainpc s = MCancelPend \/ cstate s <> CNone).

Lemma inv_ec_init : forall c, inv_ec (init c).
Proof. intros c H. simpl in H. contradiction. Qed.

Lemma err_of_not_ctx : forall e, err_of e <> ECtx.
Proof. intros [k|]; discriminate. Qed.

Lemma inv_ec_step : forall c s l s', inv_st c s -> inv_ec s -> step c s l = Some s' -> inv_ec s'.
Proof.
  intros c s l s' (G0 & _) A H. unfold inv_ec in *.
  destruct l; simpl in H.
  - brk; simpl; auto.
  - unf0; brk; rp; killg G0; ifs; simpl in *; rwm; simpl in *;
      try (left; reflexivity); try (right; discriminate); try (right; congruence);
      try (intro X; destruct (A X) as [Y | Y]; [congruence | right; congruence]);
      try (intro X; destruct (A X) as [Y | Y]; [left; assumption | right; assumption]).
  - unf0; brk; rp; killg G0; ifs; simpl in *; rwm; simpl in *;
      try (right; discriminate);
      try (intro X; apply in_app_or in X; destruct X as [X | [X | []]];
           [ | exfalso; eapply err_of_not_ctx; eauto ]);
      try (intro X; destruct (A X) as [Y | Y]; [left; assumption | right; congruence]); auto.
  - unf0; brk; rp; killg G0; ifs; simpl in *; rwm; simpl in *;
      try (right; discriminate);
      try (intro X; destruct (A X) as [Y | Y]; [left; assumption | right; congruence]); auto.
  - unf0; brk; rp; killg G0; ifs; simpl in *; rwm; simpl in *;
      try (right; discriminate);
      try (intro X; apply in_app_or in X; destruct X as [X | [X | []]];
           [ | exfalso; eapply err_of_not_ctx; eauto ]);
      try (intro X; destruct (A X) as [Y | Y]; [left; assumption | right; congruence]); auto.
  - unf0; brk; rp; killg G0; ifs; simpl in *; rwm; simpl in *;
      try (right; discriminate);
      try (intro X; apply in_app_or in X; destruct X as [X | [X | []]];
           [ | exfalso; eapply err_of_not_ctx; eauto ]);
      try (intro X; destruct (A X) as [Y | Y]; [left; assumption | right; congruence]); auto.
Qed.

Lemma drain_enabled : forall s, genpc s = Fin -> src_closed s = true -> drain_step s <> None.
Proof. intros s G S. unfold drain_step, src_take. rewrite G, S. discriminate. Qed.

Section Prompt.
  Variables (c : config) (s : state).
  Hypothesis ST : inv_st c s.
  Hypothesis CN : inv_cn s.
  Hypothesis FR : inv_fr c s.
  Hypothesis RC : inv_rc s.
  Hypothesis K : lib_stuck c s = true.
  Hypothesis GF : genpc s = Fin.

  Lemma pr_closed : src_closed s = true.
  Proof. destruct ST as (_ & _ & _ & S & _). apply S. exact GF. Qed.

  (* nobody is inside the cancel body: with the source closed its drain would be enabled *)
  Lemma pr_not_busy : cstate s <> CBusy.
  Proof.
    intro CB. destruct (lib_stuck_spec c s K) as (KM & KR & KMp).
    destruct CN as (N & _). rewrite CB in N. simpl in N. unfold ndrain in N.
    pose proof (drain_enabled s GF pr_closed) as DE.
    destruct (redpc s) eqn:Er; simpl in N.
    all: try (assert (red_step c s = None) as X by (apply KR; try rewrite Er; reflexivity);
              unfold red_step, user_step in X; rewrite Er in X;
              destruct (drain_step s) as [[? []]|]; [discriminate X | discriminate X | apply DE; reflexivity]).
    all: destruct (mainpc s) eqn:Em; simpl in N.
    all: try (pose proof (KM BOut) as X; unfold main_step in X; rewrite Em in X;
              destruct (drain_step s) as [[? []]|]; [discriminate X | discriminate X | apply DE; reflexivity]).
    all: assert (1 <= length (filter (fun m => is_drain (mpc m)) (maps s))) as PP by lia;
         destruct (count_ex is_drain (maps s) PP) as (i & m & Hn & Hf);
         assert (parked (mpc m) = false) as P by (destruct (mpc m); try discriminate Hf; reflexivity);
         pose proof (KMp i m Hn P) as X; unfold map_step, user_step in X; rewrite Hn in X;
         destruct (mpc m); try discriminate Hf;
         destruct (drain_step s) as [[? []]|]; [discriminate X | discriminate X | apply DE; reflexivity].
  Qed.

  Lemma prompt_core : reterr s <> None -> exists o, mainpc s = MFin o.
  Proof.
    intro RE. destruct RC as (A & _).
    assert (cstate s <> CNone) as NC by (intro X; apply A in X; contradiction).
    assert (cstate s = CDone) as CD by (pose proof pr_not_busy; destruct (cstate s); congruence).
    assert (finished s = true) as F by (destruct CN as (_ & D); apply D; exact CD).
    assert (foreach c = false) as FE.
    { destruct (foreach c) eqn:E; auto. destruct FR as (_ & _ & X). destruct (X E) as (_ & _ & Y & _). congruence. }
    destruct (lib_stuck_spec c s K) as (KM & _).
    pose proof (KM BOut) as KB. unfold main_step, out_take in KB. rewrite F, FE in KB.
    destruct (mainpc s) eqn:Em; eauto; try discriminate KB.
    - rewrite CD in KB. discriminate.
    - unfold drain_step, src_take in KB. rewrite GF, pr_closed in KB. discriminate.
  Qed.
End Prompt.

Lemma prompt_invs : forall c sched,
  let s := run c (init c) sched in
  inv_st c s /\ inv_cn s /\ inv_fr c s /\ inv_rc s /\ inv_ec s.
Proof.
  intros c sched. apply (run_inv c (fun s => inv_st c s /\ inv_cn s /\ inv_fr c s /\ inv_rc s /\ inv_ec s)).
  - intros s l s' (A & B & C & D & E) H. split; [|split; [|split; [|split]]].
    + eapply inv_st_step; eauto.
    + eapply inv_cn_step; eauto.
    + eapply inv_fr_step; eauto.
    + eapply inv_rc_step; eauto.
    + eapply inv_ec_step; eauto.
  - split; [|split; [|split; [|split]]];
      [apply inv_st_init | apply inv_cn_init | apply inv_fr_init | apply inv_rc_init | apply inv_ec_init].
Qed.

(* after a cancel call has stored its error: the call has returned as soon as the library is quiet
   and the generator has ended, whatever the other user functions do *)
Lemma prompt_after_cancel_l : forall c sched,
  let s := run c (init c) sched in
  lib_stuck c s = true -> genpc s = Fin -> reterr s <> None -> exists o, mainpc s = MFin o.
Proof.
  intros c sched s K G R. destruct (prompt_invs c sched) as (A & B & C & D & _).
  apply (prompt_core c s A B C D K G R).
Qed.

(* after the caller has taken the context branch: likewise *)
Lemma prompt_after_ctx_branch_l : forall c sched,
  let s := run c (init c) sched in
  lib_stuck c s = true -> genpc s = Fin -> In ECtx (g_cancels s) -> exists o, mainpc s = MFin o.
Proof.
  intros c sched s K G E. destruct (prompt_invs c sched) as (A & B & C & D & EC).
  fold s in A, B, C, D, EC.
  apply (prompt_core c s A B C D K G).
  destruct D as (D1 & _). intro X. apply D1 in X.
  destruct (EC E) as [M | N]; [|contradiction].
  destruct (lib_stuck_spec c s K) as (KM & _). specialize (KM BOut).
  unfold main_step in KM. rewrite M, X in KM. discriminate.
Qed.

(* a context that has ended is not ignored by a caller that is still at its select *)
Lemma ctx_seen_at_select_l : forall c sched,
  let s := run c (init c) sched in
  lib_stuck c s = true -> foreach c = false -> ctx_done s = true -> mainpc s <> MSelect.
Proof.
  intros c sched s K FE CD M. destruct (lib_stuck_spec c s K) as (KM & _). specialize (KM BCtx).
  unfold main_step in KM. rewrite M, FE, CD in KM. discriminate.
Qed.
