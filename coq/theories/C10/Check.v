(* C10 — correspondence / property evaluation on forced schedules observed on the
   implementation.  Executable only.

   A case is: the API, the worker count, the user scripts, and a list of release
   events.  The Go executor parks every user function at a gate before each of its
   actions (and before its return); an event releases one parked function for one
   action (or ends the context); then the executor waits until every goroutine of
   the call is parked at a gate, blocked inside core/mr, or gone.  [drive] does the
   same on the model: one user step, then all internal steps to quiescence. *)
From Coq Require Import List ZArith Bool Arith.
From GZ Require Export Lib.CheckLib C10.Model C10.AtomicErr.
From GZgen Require Export C10Consts.
Import ListNotations.
Local Open Scope nat_scope.

Inductive event := EvGen | EvMap (x : Z) | EvRed | EvCtx
  | EvCaller.   (* release the caller, held before its final select by a context whose Done() parks it *)

Inductive api := AMapReduce | AVoid | AChan | AForEach | AFinish | AFinishVoid
  | AAtomic.   (* not a call of core/mr: one errorx.AtomicError (the retErr of a call) driven directly, [caops] *)

Record case := mkCase
  { capi : api;
    cworkers : nat;
    cgen : list uact;
    cmaps : list (Z * list uact);
    cred : list uact;
    cevents : list event;
    cprectx : bool;               (* the context has already ended when the call starts *)
    cheld : bool;                 (* the caller is held at the entry of its final select until EvCaller *)
    (* observed on the implementation *)
    ofired : list (bool * bool);  (* first entry: start of the call; then per event: a function was
                                     released; the call has returned at the following quiescence *)
    oacts : list nat;             (* per entry of ofired, what was executed: 0 nothing, 1 ordinary action,
                                     2 panic / context end, 3 Write of the reducer, 4 cancel call,
                                     5 the generator function returns *)
    oresult : option outcome;     (* None: the call did not return *)
    omapped : list Z;             (* items the mapper was called with (sorted) *)
    oreduced : list Z;            (* values the reducer function received (sorted) *)
    opeak : nat;
    ocensus : nat;                (* goroutines with core/mr frames alive at the end *)
    caops : list aop }.           (* AAtomic: the Set / Load history with what was observed *)

Definition lookup_script (l : list (Z * list uact)) (x : Z) : list uact :=
  match find (fun kv => Z.eqb (fst kv) x) l with
  | Some kv => snd kv
  | None => []
  end.

Definition is_foreach (a : api) : bool :=
  match a with AForEach | AFinishVoid => true | _ => false end.
Definition is_void (a : api) : bool :=
  match a with AVoid | AFinish => true | _ => false end.
(* Finish / FinishVoid: the generator is go-zero's own closure and cannot be gated *)
Definition is_auto (a : api) : bool :=
  match a with AFinish | AFinishVoid => true | _ => false end.

(* WithWorkers clamps to minWorkers; the output protocol is read from today's source
   (coq/gen/C10Consts.v; GenProofs.v checks that the three shape flags are consistent) *)
Definition eff_workers (c : case) : nat := Nat.max gen_minWorkers (cworkers c).
Definition cfg_of (c : case) : config :=
  mkCfg VFixed (is_foreach (capi c)) (eff_workers c) (cgen c)
        (lookup_script (cmaps c)) (cred c) gen_writeSelectsDone.

(* ---- quiescence ---- *)
Definition at_gate (p : pc) : bool := match p with Gate _ => true | _ => false end.

Definition enabled (c : config) (s : state) (l : label) : bool :=
  match step c s l with Some _ => true | None => false end.

Fixpoint find_gate_map (x : Z) (i : nat) (ms : list mapper) : option nat :=
  match ms with
  | [] => None
  | m :: tl => if Z.eqb (mitem m) x && at_gate (mpc m) then Some i else find_gate_map x (S i) tl
  end.

(* Finish / FinishVoid: the return of a function is not gated *)
Definition gated (auto : bool) (p : pc) : bool :=
  match p with
  | Gate [] => negb auto
  | Gate _ => true
  | _ => false
  end.

Fixpoint internal_maps (auto : bool) (i : nat) (ms : list mapper) : list label :=
  match ms with
  | [] => []
  | m :: tl => (if gated auto (mpc m) then [] else [LMap i]) ++ internal_maps auto (S i) tl
  end.

(* the next internal step, and whether the implementation had a real choice there *)
Definition next_internal (c : config) (auto held : bool) (s : state) : option (state * bool) :=
  let mb := filter (fun b => enabled c s (LMain b))
                   (match mainpc s with
                    | MSelect => if held then [] else [BPanic; BCtx; BOut]
                    | MDefer _ => [BPanic; BOut]
                    | _ => [BOut]
                    end) in
  let src_race := match genpc s, execpc s, cstate s with
                  | SendPend _ _, ERecv, CBusy => true
                  | _, _, _ => false
                  end in
  match mb with
  | b :: more => match step c s (LMain b) with
                 | Some s1 => Some (s1, negb (length more =? 0) || src_race)
                 | None => None
                 end
  | [] =>
    let exec_quit := enabled c s (LExec true) in
    let exec_slot := enabled c s (LExec false) in
    let gen_more := negb (src_closed s) in
    let cands :=
        (if auto || negb (at_gate (genpc s)) then [LGen] else [])
        ++ (if exec_quit then [LExec true] else [LExec false])
        ++ internal_maps auto 0 (maps s)
        ++ (if gated auto (redpc s) then [] else [LRed]) in
    match filter (enabled c s) cands with
    | l :: _ =>
      match step c s l with
      | Some s1 =>
        let racy := match l with
                    | LExec true => match execpc s with
                                    | ESelect => exec_slot && gen_more
                                    | _ => false
                                    end
                    | LMap i =>
                      (* two writers blocked on the full collector: Go serves them in
                         arrival order, which the model does not record *)
                      match nth_error (maps s) i with
                      | Some (mkMapper _ (SendPend _ _)) =>
                        2 <=? length (filter (fun m => match mpc m with SendPend _ _ => true | _ => false end) (maps s))
                      | _ => false
                      end
                    | _ => false
                    end in
        Some (s1, racy || src_race)
      | None => None
      end
    | [] => None
    end
  end.

Definition is_atomic (a : api) : bool := match a with AAtomic => true | _ => false end.

(* (state, racy, out of fuel) *)
Fixpoint settle (fuel : nat) (c : config) (auto held : bool) (s : state) (racy : bool)
  : state * bool * bool :=
  match fuel with
  | O => (s, racy, true)
  | S f => match next_internal c auto held s with
           | Some (s1, r) => settle f c auto held s1 (racy || r)
           | None => (s, racy, false)
           end
  end.

Definition release (c : config) (s : state) (e : event) : option state :=
  match e with
  | EvCaller => None          (* handled by [drive] *)
  | EvCtx => step c s LCtx
  | EvGen => if at_gate (genpc s) then step c s LGen else None
  | EvRed => if at_gate (redpc s) then step c s LRed else None
  | EvMap x => match find_gate_map x 0 (maps s) with
               | Some i => step c s (LMap i)
               | None => None
               end
  end.

Definition returned (s : state) : bool :=
  match mainpc s with MFin _ => true | _ => false end.

Definition FUEL : nat := 3000.

Definition is_caller (e : event) : bool := match e with EvCaller => true | _ => false end.

Fixpoint drive (c : config) (auto held : bool) (s : state) (evs : list event) (racy bad : bool)
  : state * list (bool * bool) * bool * bool :=
  match evs with
  | [] => (s, [], racy, bad)
  | e :: tl =>
    match (if is_caller e then (if held then Some s else None) else release c s e) with
    | None => let '(s2, fl, r2, b2) := drive c auto held s tl racy bad in
              (s2, (false, returned s) :: fl, r2, b2)
    | Some s1 =>
      let held1 := held && negb (is_caller e) in
      let '(s1', r1, b1) := settle FUEL c auto held1 s1 false in
      let '(s2, fl, r2, b2) := drive c auto held1 s1' tl (racy || r1) (bad || b1) in
      (s2, (true, returned s1') :: fl, r2, b2)
    end
  end.

Record mobs := mkObs
  { m_fired : list (bool * bool); m_result : option outcome; m_mapped : list Z;
    m_reduced : list Z; m_peak : nat; m_clean : bool; m_racy : bool; m_bad : bool }.

(* cancel codes of the executor that stand for error values which are (errors.Is) ErrReduceNoOutput:
   the sentinel itself and a %w-wrapped one *)
Definition is_nooutput_code (k : Z) : bool := Z.eqb k 1002 || Z.eqb k 1005.

(* MapReduceVoid / Finish: ErrReduceNoOutput is the expected outcome of the wrapped reducer and is
   mapped to nil.  Today's MapReduceVoid (gen_voidSwallowsCancelledNoOutput, regenerated) does that
   with errors.Is on whatever error comes back, also one that was passed to cancel. *)
Definition post_result (a : api) (o : outcome) : outcome :=
  if is_void a then
    match o with
    | ONoOutput => OUnit
    | OErr (ECancel k) => if gen_voidSwallowsCancelledNoOutput && is_nooutput_code k then OUnit else o
    | _ => o
    end
  else o.

Definition model_run (c : case) : mobs :=
  let cf := cfg_of c in
  let auto := is_auto (capi c) in
  let i0 := if cprectx c then match step cf (init cf) LCtx with Some s => s | None => init cf end else init cf in
  let '(s0, r0, b0) := settle FUEL cf auto (cheld c) i0 false in
  let '(s, fl, racy, bad) := drive cf auto (cheld c) s0 (cevents c) r0 b0 in
  mkObs ((true, returned s0) :: fl)
        (match result s with Some o => Some (post_result (capi c) o) | None => None end)
        (sort_z (map mitem (maps s))) (sort_z (g_reduced s)) (g_peak s) (clean s) racy bad.

(* AAtomic: what the model loads after each op (for concurrent Sets of one type: every allowed choice) *)
Fixpoint ae_expected (st : av) (ops : list aop) : list (list goerr) :=
  match ops with
  | [] => []
  | ASet v _ :: tl => let st1 := fst (ae_set guard_today st v) in [st1] :: ae_expected st1 tl
  | ALoad _ :: tl => [st] :: ae_expected st tl
  | AConc vs _ _ o :: tl =>
    (match non_nil_of vs with [] => [st] | nn => nn end) :: ae_expected o tl
  end.

(* shown in replay files next to the implementation's observation *)
Definition model_obs (c : case) : mobs * list (list goerr) :=
  if is_atomic (capi c) then (mkObs [] (Some OUnit) [] [] 0 true false false, ae_expected None (caops c))
  else (model_run c, []).

(* ---- equality helpers ---- *)
Definition pval_eqb (a b : pval) : bool :=
  match a, b with
  | PUser x, PUser y => Z.eqb x y
  | PClosed, PClosed | PMulti, PMulti => true
  | _, _ => false
  end.
Definition err_eqb (a b : err) : bool :=
  match a, b with
  | ECancel x, ECancel y => Z.eqb x y
  | ECancelNil, ECancelNil | ECtx, ECtx => true
  | _, _ => false
  end.
Definition outcome_eqb (a b : outcome) : bool :=
  match a, b with
  | OVal x, OVal y => Z.eqb x y
  | ONoOutput, ONoOutput | OUnit, OUnit => true
  | OErr x, OErr y => err_eqb x y
  | OPanic x, OPanic y => pval_eqb x y
  | _, _ => false
  end.
Definition bb_eqb (a b : bool * bool) : bool := Bool.eqb (fst a) (fst b) && Bool.eqb (snd a) (snd b).

(* Finish() / FinishVoid() without functions return at once *)
Definition trivial_case (c : case) : bool :=
  is_auto (capi c) && match cgen c with [] => true | _ => false end.

(* the model reproduces what the implementation did (runs in which the
   implementation had a pseudo-random choice between ready select cases / competing
   receivers are only compared on what does not depend on the choice) *)
Definition agrees (c : case) : bool :=
  if is_atomic (capi c) then ae_agrees None (caops c) else
  if trivial_case c then
    opt_eqb outcome_eqb (oresult c) (Some OUnit) && (ocensus c =? 0)
  else
  let m := model_run c in
  negb (m_bad m) &&
  if m_racy m then true
  else
    list_eqb bb_eqb (m_fired m) (ofired c)
    && opt_eqb outcome_eqb (m_result m) (oresult c)
    && zs_eqb (m_mapped m) (omapped c)
    && zs_eqb (m_reduced m) (oreduced c)
    && (is_auto (capi c) || (m_peak m =? opeak c))
    && Bool.eqb (m_clean m) ((ocensus c =? 0) && match oresult c with Some _ => true | None => false end).

(* ---- the property, evaluated on the implementation's own observations ---- *)
Fixpoint sends (l : list uact) : list Z :=
  match l with USend x :: tl => x :: sends tl | UPanic _ :: _ => [] | _ :: tl => sends tl | [] => [] end.
Fixpoint writes (l : list uact) : list Z :=
  match l with UWrite y :: tl => y :: writes tl | UPanic _ :: _ => [] | _ :: tl => writes tl | [] => [] end.
Definition is_fault (a : uact) : bool :=
  match a with UCancel _ | UPanic _ => true | _ => false end.
Definition cancels_of (l : list uact) : list err :=
  flat_map (fun a => match a with UCancel e => [err_of e] | _ => [] end) l.
Definition panics_of (l : list uact) : list Z :=
  flat_map (fun a => match a with UPanic k => [k] | _ => [] end) l.
Definition is_ctx (e : event) : bool := match e with EvCtx => true | _ => false end.

Fixpoint nodup_sorted (l : list Z) : bool :=
  match l with
  | x :: ((y :: _) as tl) => negb (Z.eqb x y) && nodup_sorted tl
  | _ => true
  end.
Definition memz (x : Z) (l : list Z) : bool := existsb (Z.eqb x) l.
Fixpoint remove1 (x : Z) (l : list Z) : option (list Z) :=
  match l with
  | [] => None
  | y :: tl => if Z.eqb x y then Some tl
               else match remove1 x tl with Some r => Some (y :: r) | None => None end
  end.
(* multiset inclusion *)
Fixpoint msub (a b : list Z) : bool :=
  match a with
  | [] => true
  | x :: tl => match remove1 x b with Some b' => msub tl b' | None => false end
  end.

(* a fault was executed while the call had not returned and before the reducer wrote *)
Fixpoint fault_before_commit (prev_ret : bool) (l : list ((bool * bool) * nat)) : bool :=
  match l with
  | [] => false
  | ((f, r), k) :: tl =>
    if negb f then fault_before_commit prev_ret tl
    else if prev_ret then false
    else if (k =? 2) || (k =? 4) then true
    else if k =? 3 then false
    else fault_before_commit r tl
  end.

(* promptness (Props.prompt_after_cancel / prompt_after_ctx_branch / ctx_seen_at_select): once a
   cancel call has been executed - or the context has ended while the caller was still at its select
   (no reducer Write taken, no panic received before) - and the generator function has ended, the call
   must have returned at that very quiescence: only library steps are needed, the call does not
   wait for mapper / reducer functions that are still parked.  [evs] are the events of the entries
   (None for the start of the call). *)
Fixpoint prompt_ok (auto held : bool) (l : list (option event * ((bool * bool) * nat)))
         (gen_ended pending committed : bool) : bool :=
  match l with
  | [] => true
  | (e, ((f, r), k)) :: tl =>
    let held := held && negb (f && match e with Some EvCaller => true | _ => false end) in
    let isgen := match e with Some EvGen => true | _ => false end in
    let isctx := match e with Some EvCtx | None => true | _ => false end in
    let ge := gen_ended || (f && ((k =? 5) || (isgen && (k =? 2)))) in
    let pd := pending || (f && ((k =? 4) || ((k =? 2) && isctx && negb committed))) in
    let cm := committed || (f && ((k =? 3) || ((k =? 2) && negb isctx))) in
    (* (a caller that is still held before its select cannot return) *)
    (if pd && (auto || ge) && negb held then r else true) && prompt_ok auto held tl ge pd cm
  end.

Definition last_is_recvall (l : list uact) : bool :=
  match rev l with URecvAll :: _ => true | _ => false end.

Definition prop_ok (c : case) : bool :=
  if is_atomic (capi c) then ae_prop None [] (caops c) else
  let a := capi c in
  let fe := is_foreach a in
  let w := eff_workers c in
  let items := sends (cgen c) in
  let scripts := map (fun x => lookup_script (cmaps c) x) items in
  let all_user := cgen c :: cred c :: scripts in
  let ctx_ends := existsb is_ctx (cevents c) || cprectx c in
  let nofault := negb (existsb (existsb is_fault) all_user) && negb ctx_ends in
  let mapped_scripts := map (fun x => lookup_script (cmaps c) x) (omapped c) in
  let wr := if fe then [] else flat_map all_writes mapped_scripts in
  let allowed_cancels := flat_map cancels_of (cred c :: scripts) in
  let allowed_panics := flat_map panics_of all_user in
  let rw := if is_void a || fe then [] else all_writes (cred c) in
  (* clean termination: the call returned and nothing of core/mr is left *)
  (ocensus c =? 0)
  && match oresult c with
     | None => false
     | Some o =>
       (* the result is the reducer's, an error that was passed to cancel, the context
          error (only if the context ended), or a panic a user function raised *)
       (match o with
        | OVal v => negb fe && negb (is_void a) && memz v rw
        | ONoOutput => negb fe && negb (is_void a)
        | OUnit => fe || is_void a
        | OErr ECtx => negb fe && ctx_ends
        | OErr e => negb fe && existsb (err_eqb e) allowed_cancels
        | OPanic (PUser k) => memz k allowed_panics
        | OPanic PMulti => 2 <=? length rw
        (* the runtime's send-on-closed-channel is not a panic of a user function: never allowed
           (finding F13 is only reachable by preemption inside Write: free-running monitor) *)
        | OPanic PClosed => false
        end)
       (* nothing cancelled, ended or panicked: exactly-once and the reducer's single output *)
       && (if nofault && negb (trivial_case c) then
             zs_eqb (omapped c) (sort_z items)
             && (if fe then outcome_eqb o OUnit
                 else
                   (if last_is_recvall (cred c)
                    then zs_eqb (oreduced c) (sort_z (flat_map all_writes scripts)) else true)
                   && outcome_eqb o
                        (match rw with
                         | [] => if is_void a then OUnit else ONoOutput
                         | [v] => OVal v
                         | _ => OPanic PMulti
                         end))
           else true)
       (* a fault before the result was decided: error or panic, never a normal result *)
       && (if fault_before_commit false (combine (ofired c) (oacts c)) then
             match o with OErr _ | OPanic _ => true | _ => false end
           else true)
     end
  (* the call does not wait for straggling mapper / reducer functions after a cancel / context end *)
  && (fe || prompt_ok (is_auto a) (cheld c) (combine (None :: map Some (cevents c)) (combine (ofired c) (oacts c))) false false false)
  (* at most [workers] mapper functions at once *)
  && (opeak c <=? w)
  (* no item is mapped twice, and only generated items are mapped *)
  && nodup_sorted (omapped c) && msub (omapped c) items
  (* the reducer receives only values written by mappers, each at most once *)
  && msub (oreduced c) wr.
