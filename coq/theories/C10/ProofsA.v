(* C10 — AtomicError (core/errorx/atomicerror.go) and the error values of a cancellation.
   What Set / Load guarantee for EVERY interface value (typed nils included), for sequences and for
   concurrent Sets (every interleaving), what the head of mr's cancel body stores, the link to the
   opaque error of the LTS ([Model.err]), and: a call commits to a normal result only if nothing was
   cancelled.  Seeded change C10-10 (Set ignores typed nils) is refuted in Pinned.v. *)
From Coq Require Import List ZArith Bool Arith Lia Permutation.
From GZ Require Import C10.Model C10.AtomicErr C10.Proofs C10.ProofsT C10.ProofsC.
Import ListNotations.
Local Open Scope Z_scope.

(* ---- equality tests decide identity ---- *)
Lemma payload_eqb_eq : forall a b, payload_eqb a b = true <-> a = b.
Proof.
  intros a b; destruct a, b; simpl; split; intros H; try discriminate; try reflexivity;
    try (apply Z.eqb_eq in H; subst; reflexivity); try (inversion H; apply Z.eqb_refl).
Qed.
Lemma dyn_eqb_eq : forall a b, dyn_eqb a b = true <-> a = b.
Proof.
  intros [ta pa] [tb pb]; unfold dyn_eqb; simpl. rewrite andb_true_iff, Z.eqb_eq, payload_eqb_eq.
  split; [intros (-> & ->); reflexivity | intros H; inversion H; auto].
Qed.
Lemma goerr_eqb_eq : forall a b, goerr_eqb a b = true <-> a = b.
Proof.
  intros [a|] [b|]; simpl; try (split; [discriminate | discriminate]); try tauto.
  rewrite dyn_eqb_eq. split; [intros ->; reflexivity | intros H; inversion H; reflexivity].
Qed.

(* a typed nil is a non-nil interface value, and it is not the nil interface *)
Lemma typed_nil_is_not_nil : forall v, is_typed_nil v = true -> is_nil_iface v = false /\ v <> None.
Proof. intros [d|]; simpl; [split; [reflexivity | discriminate] | discriminate]. Qed.

(* ---- Set / Load ---- *)
(* THE contract of the anchor: a Set of any non-nil interface value whose concrete type agrees with
   what is stored (always the case on a fresh AtomicError) does not panic, and Load then returns that
   very value - for typed nils as for every other value *)
Lemma set_non_nil_interface_is_loaded_l : forall st v,
  v <> None -> same_type st v = true ->
  ae_set guard_today st v = (v, false) /\ ae_load (fst (ae_set guard_today st v)) = v.
Proof.
  intros st [d|] N T; [|congruence].
  unfold ae_set, guard_today, is_nil_iface, av_store. destruct st as [d0|]; simpl in *.
  - rewrite T. split; reflexivity.
  - split; reflexivity.
Qed.

Lemma set_nil_is_ignored_l : forall st, ae_set guard_today st None = (st, false).
Proof. reflexivity. Qed.

Lemma fresh_loads_nil : ae_load None = None.
Proof. reflexivity. Qed.

(* a Store of another concrete type panics and leaves the content alone (sync/atomic) *)
Lemma set_other_type_panics : forall d0 d,
  Z.eqb (dty d0) (dty d) = false -> ae_set guard_today (Some d0) (Some d) = (Some d0, true).
Proof. intros d0 d H. unfold ae_set, av_store; simpl. rewrite H. reflexivity. Qed.

(* sequences: the last non-nil value wins, nothing panics *)
Lemma sets_last_wins_l : forall vs st,
  consistent st vs = true -> ae_sets guard_today st vs = (last_non_nil st vs, false).
Proof.
  induction vs as [|v tl IH]; intros st C; [reflexivity|].
  destruct v as [d|]; cbn [consistent] in C; cbn [ae_sets last_non_nil].
  - apply andb_true_iff in C. destruct C as (T & C).
    destruct (set_non_nil_interface_is_loaded_l st (Some d)) as (E & _); [discriminate | exact T |].
    rewrite E. rewrite (IH _ C). reflexivity.
  - rewrite set_nil_is_ignored_l. rewrite (IH _ C). reflexivity.
Qed.

(* [consistent] does not depend on the order, nor on which value of the common type is stored *)
Definition ty_ok (t : Z) (v : goerr) : bool := match v with Some d => Z.eqb (dty d) t | None => true end.

Lemma consistent_some_iff : forall vs d0,
  consistent (Some d0) vs = true <-> forallb (ty_ok (dty d0)) vs = true.
Proof.
  induction vs as [|v tl IH]; intros d0; simpl; [tauto|].
  destruct v as [d|]; simpl.
  - rewrite !andb_true_iff, IH. rewrite (Z.eqb_sym (dty d) (dty d0)).
    split; intros (A & B); split; auto; apply Z.eqb_eq in A.
    + rewrite A. exact B.
    + rewrite <- A. exact B.
  - apply IH.
Qed.

Lemma forallb_perm : forall (f : goerr -> bool) l l', Permutation l l' -> forallb f l = forallb f l'.
Proof.
  intros f l l' P. induction P; simpl; auto.
  - rewrite IHP; reflexivity.
  - destruct (f x), (f y); reflexivity.
  - congruence.
Qed.

Lemma consistent_none : forall vs,
  consistent None vs = true <->
  match non_nil_of vs with
  | Some d :: _ => forallb (ty_ok (dty d)) vs = true
  | _ => True
  end.
Proof.
  induction vs as [|v tl IH]; [simpl; tauto|].
  destruct v as [d|].
  - change (non_nil_of (Some d :: tl)) with (Some d :: non_nil_of tl).
    cbn [consistent same_type andb forallb ty_ok]. rewrite consistent_some_iff. rewrite Z.eqb_refl. simpl. tauto.
  - change (non_nil_of (None :: tl)) with (non_nil_of tl). cbn [consistent]. rewrite IH.
    destruct (non_nil_of tl) as [|[d|] r]; simpl; tauto.
Qed.

Lemma non_nil_of_all_some : forall vs v, In v (non_nil_of vs) -> exists d, v = Some d.
Proof.
  intros vs v H. unfold non_nil_of in H. apply filter_In in H. destruct H as (_ & H).
  destruct v as [d|]; [eauto | discriminate].
Qed.

Lemma non_nil_perm : forall l l', Permutation l l' -> Permutation (non_nil_of l) (non_nil_of l').
Proof.
  intros l l' P. unfold non_nil_of. induction P; simpl; auto.
  - destruct (negb (is_nil_iface x)); auto.
  - destruct (negb (is_nil_iface x)), (negb (is_nil_iface y)); auto. apply perm_swap.
  - eapply perm_trans; eauto.
Qed.

Lemma consistent_perm : forall st l l', Permutation l l' -> consistent st l = true -> consistent st l' = true.
Proof.
  intros [d0|] l l' P C.
  - apply consistent_some_iff. rewrite <- (forallb_perm _ _ _ P). apply consistent_some_iff. exact C.
  - apply consistent_none. apply consistent_none in C.
    pose proof (non_nil_perm _ _ P) as Q.
    destruct (non_nil_of l') as [|w r'] eqn:F'; [exact I|].
    destruct (non_nil_of_all_some l' w) as (d' & ->); [rewrite F'; left; reflexivity|].
    assert (In (Some d') (non_nil_of l)) as X.
    { eapply Permutation_in; [apply Permutation_sym; exact Q | left; reflexivity]. }
    destruct (non_nil_of l) as [|w0 r0] eqn:F; [destruct X|].
    destruct (non_nil_of_all_some l w0) as (d0 & ->); [rewrite F; left; reflexivity|].
    rewrite <- (forallb_perm _ _ _ P).
    (* all values have the type of d0; d' is one of them *)
    assert (ty_ok (dty d0) (Some d') = true) as T.
    { rewrite forallb_forall in C. apply C. assert (In (Some d') (non_nil_of l)) as Y by (rewrite F; exact X).
      unfold non_nil_of in Y. apply filter_In in Y. tauto. }
    simpl in T. apply Z.eqb_eq in T. rewrite T. exact C.
Qed.

Lemma last_non_nil_cases : forall vs st,
  (non_nil_of vs = [] /\ last_non_nil st vs = st)
  \/ (In (last_non_nil st vs) (non_nil_of vs)).
Proof.
  induction vs as [|v tl IH]; intros st; simpl; [left; auto|].
  destruct v as [d|]; simpl.
  - destruct (IH (Some d)) as [(E & L) | I].
    + right. rewrite L. left; reflexivity.
    + right. right. exact I.
  - apply IH.
Qed.

(* concurrent Sets of one concrete type, EVERY interleaving (= every order in which the Stores take
   effect): nothing panics, and the value loaded afterwards is one of the non-nil values that were
   Set - or the old content when every Set was ignored.  This is what Check.conc_allowed accepts. *)
Lemma concurrent_sets_l : forall st vs order,
  Permutation vs order -> consistent st vs = true ->
  let '(st', p) := ae_sets guard_today st order in
  p = false /\ conc_allowed st vs (ae_load st') = true.
Proof.
  intros st vs order P C.
  pose proof (consistent_perm st _ _ P C) as C'.
  rewrite (sets_last_wins_l _ _ C'). split; [reflexivity|].
  unfold conc_allowed, ae_load.
  destruct (last_non_nil_cases order st) as [(E & L) | I].
  - assert (non_nil_of vs = []) as E0.
    { apply Permutation_nil. apply Permutation_sym. rewrite <- E. apply non_nil_perm. exact P. }
    rewrite E0, L. apply goerr_eqb_eq. reflexivity.
  - assert (In (last_non_nil st order) (non_nil_of vs)) as I0.
    { eapply Permutation_in; [apply Permutation_sym; apply non_nil_perm; exact P | exact I]. }
    destruct (non_nil_of vs) as [|w r] eqn:F; [destruct I0|].
    apply existsb_exists. exists (last_non_nil st order). split; [exact I0 | apply goerr_eqb_eq; reflexivity].
Qed.

(* a Load that INTERLEAVES with concurrent Sets of one concrete type - after any k of the Stores, in
   any order - returns the old content or one of the non-nil values being Set: what
   [mid_allowed] accepts of the implementation *)
Lemma last_non_nil_firstn : forall order k st,
  last_non_nil st (firstn k order) = st \/ In (last_non_nil st (firstn k order)) (non_nil_of order).
Proof.
  induction order as [|v tl IH]; intros k st; destruct k; simpl; auto.
  destruct v as [d|].
  - destruct (IH k (Some d)) as [E | I].
    + right. rewrite E. left. reflexivity.
    + right. right. exact I.
  - apply IH.
Qed.

Lemma consistent_firstn : forall order k st, consistent st order = true -> consistent st (firstn k order) = true.
Proof.
  induction order as [|v tl IH]; intros k st C; destruct k; simpl; auto.
  destruct v as [d|]; simpl in C |- *.
  - apply andb_true_iff in C. destruct C as (T & C). rewrite T. simpl. apply IH. exact C.
  - apply IH. exact C.
Qed.

Lemma interleaved_load_l : forall st vs order k,
  Permutation vs order -> consistent st vs = true ->
  let '(st', p) := ae_sets guard_today st (firstn k order) in
  p = false /\ mid_allowed st vs (ae_load st') = true.
Proof.
  intros st vs order k P C.
  pose proof (consistent_firstn order k st (consistent_perm st _ _ P C)) as C'.
  rewrite (sets_last_wins_l _ _ C'). split; [reflexivity|].
  unfold mid_allowed, ae_load. apply orb_true_iff.
  destruct (last_non_nil_firstn order k st) as [E | I].
  - left. rewrite E. apply goerr_eqb_eq. reflexivity.
  - right. apply existsb_exists. exists (last_non_nil st (firstn k order)). split.
    + eapply Permutation_in; [apply Permutation_sym; apply non_nil_perm; exact P | exact I].
    + apply goerr_eqb_eq. reflexivity.
Qed.

(* ---- the judgement of Check.v on histories of one AtomicError follows from the model ---- *)
Lemma non_nil_dyns : forall vs, non_nil_of vs = map Some (dyns vs).
Proof.
  induction vs as [|[d|] tl IH]; simpl; [reflexivity | | exact IH].
  unfold non_nil_of in *. simpl. rewrite IH. reflexivity.
Qed.

Definition inv_ap (st cur : av) (l : list dyn) : Prop :=
  cur = st /\ (st = None -> l = []) /\ (forall d, st = Some d -> In d l).

Lemma load_ok_inv : forall st cur l, inv_ap st cur l -> load_ok l st = true.
Proof.
  intros st cur l (_ & N & S). destruct st as [d|].
  - pose proof (S d eq_refl) as I. unfold load_ok. destruct l as [|x r]; [destruct I|].
    apply existsb_exists. exists d. split; [exact I | apply goerr_eqb_eq; reflexivity].
  - rewrite (N eq_refl). reflexivity.
Qed.

(* every history the model (today's Set, last Store wins) reproduces satisfies the contract *)
Lemma ae_agrees_prop_inv : forall ops st cur l,
  inv_ap st cur l -> ae_agrees st ops = true -> ae_prop cur l ops = true.
Proof.
  induction ops as [|op tl IH]; intros st cur l I A; [reflexivity|].
  pose proof I as (C & N & S). subst cur.
  destruct op as [v p | o | vs mids p o]; cbn [ae_agrees ae_prop] in A |- *.
  - destruct v as [d|].
    + destruct (same_type st (Some d)) eqn:T.
      * destruct (set_non_nil_interface_is_loaded_l st (Some d)) as (E & _); [discriminate | exact T |].
        rewrite E in A. apply andb_true_iff in A. destruct A as (A1 & A2).
        destruct p; simpl in A1; [discriminate|]. simpl. apply (IH (Some d)); [|exact A2].
        split; [reflexivity | split; [discriminate | intros d' X; inversion X; left; reflexivity]].
      * destruct st as [d0|]; [|discriminate T]. simpl in T.
        rewrite (set_other_type_panics d0 d T) in A. apply andb_true_iff in A. destruct A as (A1 & A2).
        destruct p; simpl in A1; [|discriminate]. apply (IH (Some d0)); [exact I | exact A2].
    + rewrite set_nil_is_ignored_l in A. apply andb_true_iff in A. destruct A as (A1 & A2).
      destruct p; simpl in A1; [discriminate|]. simpl. apply (IH st); [exact I | exact A2].
  - apply andb_true_iff in A. destruct A as (A1 & A2). unfold ae_load in A1.
    rewrite goerr_eqb_eq in A1. subst o. rewrite (load_ok_inv st st l I). simpl. apply (IH st); [exact I | exact A2].
  - destruct (consistent st vs).
    + apply andb_true_iff in A. destruct A as (A0 & A2). apply andb_true_iff in A0. destruct A0 as (A0 & A3).
      apply andb_true_iff in A0. destruct A0 as (A1 & AM).
      rewrite A1. simpl.
      assert (forallb (mid_ok l vs) mids = true) as MM.
      { rewrite forallb_forall in AM |- *. intros o' Io. specialize (AM o' Io). unfold mid_allowed in AM. unfold mid_ok.
        apply orb_true_iff in AM. apply orb_true_iff. destruct AM as [AM | AM].
        - left. apply goerr_eqb_eq in AM. subst o'. apply (load_ok_inv st st l I).
        - right. rewrite non_nil_dyns in AM. apply existsb_exists in AM. destruct AM as (w & W1 & W2).
          apply in_map_iff in W1. destruct W1 as (d & <- & W1). apply existsb_exists. exists d. split; assumption. }
      rewrite MM. simpl.
      assert (inv_ap o o (dyns vs ++ l)) as I'.
      { unfold conc_allowed in A3. rewrite non_nil_dyns in A3.
        destruct (dyns vs) as [|x r] eqn:D; simpl in A3.
        - apply goerr_eqb_eq in A3. subst o. simpl. exact I.
        - apply orb_true_iff in A3. split; [reflexivity|].
          assert (exists d, o = Some d /\ In d (x :: r)) as (d & -> & X).
          { destruct A3 as [A3 | A3].
            - apply goerr_eqb_eq in A3. exists x. split; [exact A3 | left; reflexivity].
            - apply existsb_exists in A3. destruct A3 as (w & W1 & W2). apply in_map_iff in W1.
              destruct W1 as (d & <- & W1). apply goerr_eqb_eq in W2. exists d. split; [exact W2 | right; exact W1]. }
          split; [discriminate|]. intros d' Y. inversion Y; subst d'. apply in_or_app. left. exact X. }
      rewrite (load_ok_inv o o _ I'). simpl. apply (IH o); [exact I' | exact A2].
    + apply (IH o); [|exact A].
      split; [reflexivity|]. destruct o as [d|]; (split; [try discriminate; try reflexivity|]); intros d' Y.
      * inversion Y. left; reflexivity.
      * discriminate Y.
Qed.

Lemma ae_agrees_prop_l : forall ops, ae_agrees None ops = true -> ae_prop None [] ops = true.
Proof.
  intros ops. apply ae_agrees_prop_inv. split; [reflexivity | split; [reflexivity | discriminate]].
Qed.

(* the contract is not vacuous: it rejects the histories of seeded change C10-10 and of a Set that
   stores nothing, and pins the value after exactly one Set *)
Lemma ae_prop_single_set : forall d o,
  ae_prop None [] [ASet (Some d) false; ALoad o] = true -> o = Some d.
Proof.
  intros d o H. simpl in H. rewrite orb_false_r, andb_true_r in H. apply goerr_eqb_eq in H. exact H.
Qed.

(* and a sequential history made of what the model computes is accepted: the judgement is not
   vacuous / not stronger than the model *)
Fixpoint seq_history (st : av) (vs : list goerr) : list aop :=
  match vs with
  | [] => [ALoad (ae_load st)]
  | v :: tl => let '(st1, p) := ae_set guard_today st v in ASet v p :: ALoad (ae_load st1) :: seq_history st1 tl
  end.
Lemma model_history_accepted_l : forall vs st, ae_agrees st (seq_history st vs) = true.
Proof.
  induction vs as [|v tl IH]; intros st; simpl.
  - unfold ae_load. rewrite (proj2 (goerr_eqb_eq st st) eq_refl). reflexivity.
  - destruct (ae_set guard_today st v) as [st1 p] eqn:E. simpl. rewrite E. rewrite Bool.eqb_reflx. simpl.
    unfold ae_load. rewrite (proj2 (goerr_eqb_eq st1 st1) eq_refl). simpl. apply IH.
Qed.

(* ---- mr: what the head of the cancel body stores ---- *)
(* on the fresh retErr of a call (the once lets exactly one cancel call in: inv_rc), whatever is
   passed to cancel: nothing panics and Load returns the passed value itself if it is a non-nil
   interface value (typed nils included), ErrCancelWithNil if it is the nil interface *)
Lemma cancel_stores_passed_value_l : forall v,
  cancel_store guard_today None v = (cancel_arg v, false)
  /\ (v <> None -> ae_load (fst (cancel_store guard_today None v)) = v)
  /\ (v = None -> ae_load (fst (cancel_store guard_today None v)) = Some dyn_cancel_with_nil).
Proof.
  intros [d|]; unfold cancel_store, cancel_arg; simpl; repeat split; auto; congruence.
Qed.

Lemma code_roundtrip : forall k, code_of_dyn (dyn_of_code k) = k.
Proof.
  intros k. unfold dyn_of_code.
  repeat match goal with
         | |- context [Z.eqb k ?n] => destruct (Z.eqb_spec k n) as [->|?]; simpl; try reflexivity
         end.
Qed.

Lemma dyn_of_code_injective : forall j k, dyn_of_code j = dyn_of_code k -> j = k.
Proof. intros j k H. rewrite <- (code_roundtrip j), <- (code_roundtrip k), H. reflexivity. Qed.

(* the link to the LTS: Model.user_step stores [Some (err_of e)] when a cancel call enters the once;
   that is the abstraction of what AtomicError holds after the head of the cancel body, for every
   script action UCancel e (1001 is ErrCancelWithNil itself: the same VALUE as for cancel(nil)) *)
Lemma cancel_store_refines_lts_l : forall e,
  e <> Some 1001 ->
  let '(st, p) := cancel_store guard_today None (goerr_of e) in
  p = false /\ exists d, ae_load st = Some d /\ err_of_dyn d = err_of e
                         /\ out_branch st None = OErr (err_of e)
                         /\ (forall y, out_branch st (Some y) = OErr (err_of e)).
Proof.
  intros [k|] N; simpl.
  - unfold cancel_store, cancel_arg; simpl. split; [reflexivity|]. exists (dyn_of_code k).
    assert (err_of_dyn (dyn_of_code k) = ECancel k) as X.
    { unfold err_of_dyn. destruct (dyn_eqb (dyn_of_code k) dyn_cancel_with_nil) eqn:D.
      - apply dyn_eqb_eq in D. change dyn_cancel_with_nil with (dyn_of_code 1001) in D.
        apply dyn_of_code_injective in D. subst k. congruence.
      - rewrite code_roundtrip. reflexivity. }
    unfold out_branch, ae_load. rewrite X. repeat split; reflexivity.
  - unfold cancel_store, cancel_arg; simpl. split; [reflexivity|]. exists dyn_cancel_with_nil.
    repeat split; reflexivity.
Qed.

(* ---- LTS: a normal result is committed only if nothing was cancelled ---- *)
(* whenever the caller's select commits to an outcome that is not an error (a value, or
   ErrReduceNoOutput for the closed output), no cancel call has entered the once body, nothing is
   stored in retErr and the context branch has not been taken: a cancelled call never returns
   ErrReduceNoOutput or a value (all schedules, all scripts, both output protocols).  Seeded change
   C10-10 breaks exactly this (Pinned.seed_c10_10_typed_nil_cancel_returns_no_output). *)
Lemma normal_commit_not_cancelled_l : forall c sched b s' o,
  let s := run c (init c) sched in
  mainpc s = MSelect -> step c s (LMain b) = Some s' -> mainpc s' = MDefer o ->
  (forall e, o <> OErr e) ->
  g_cancels s = [] /\ reterr s = None /\ cstate s = CNone.
Proof.
  intros c sched b s' o s M H D NE.
  destruct (inv_rc_all c sched) as (A & B). fold s in A, B.
  assert (reterr s = None) as R.
  { destruct (reterr s) as [e|] eqn:R; [|reflexivity]. exfalso.
    simpl in H. unfold main_step in H. rewrite M in H.
    destruct (foreach c); destruct b; brk; simpl in D; try discriminate D; rp; simpl in D; try discriminate D.
    all: unfold out_result in D; rewrite R in D; inversion D; subst o; eapply NE; reflexivity. }
  split; [|split; [exact R | apply A; exact R]].
  destruct (B R) as [E | (_ & X)]; [exact E | congruence].
Qed.
