(* Symbolic execution of GENERATED scripts (coq/gen/Lua_*.v), whatever their shape.

   The GenProofs.v files of C03 and C19 state what today's scripts compute; the scripts are
   re-translated from the tree on every run, so the proofs must survive any rewrite of a script that
   does not change what it computes (renamed locals, expressions split into locals or joined,
   operands of commutative operators exchanged, tonumber moved, early returns instead of else,
   `x or default` instead of `if x == nil`, ...).  Nothing here looks at the text of a script:

     [lua_exec]    runs the script on a symbolic store, one operation at a time, whatever operation
                   comes next; every test the script makes (and every case distinction of a Redis
                   command on the store's content) splits the goal;
     [lua_finish]  splits on the tests of the specification as well, and closes each combination by
                   linear arithmetic over the collected facts (the impossible ones by contradiction).

   All lemmas are about Lib/RedisStore.v; no axioms. *)
From Coq Require Import List ZArith String QArith Qround Qfield Bool Lia ZifyBool.
From GZ Require Import Lib.RedisStore Lib.RedisStoreFacts.
Import ListNotations.
Open Scope Z_scope.

(* ------------------------------------------------------------------ running a script *)
Definition run (m : M lval) (st : rstate) : reply * rstate :=
  match m st with
  | (Ok v, st') => (to_reply v, st')
  | (Err e, st') => (RErr e, st')
  end.

Lemma eval_run script keys args st :
  eval script keys args st = run (script (map LStr keys) (map LStr args)) st.
Proof. reflexivity. Qed.

Lemma run_ret v st : run (ret v) st = (to_reply v, st).
Proof. reflexivity. Qed.
Lemma run_fail e st : run (fail e) st = (RErr e, st).
Proof. reflexivity. Qed.
Lemma run_bind_ret {A} (a : A) f st : run (bind (ret a) f) st = run (f a) st.
Proof. reflexivity. Qed.
Lemma run_bind_fail {A} e (f : A -> M lval) st : run (bind (fail e) f) st = (RErr e, st).
Proof. reflexivity. Qed.
Lemma run_bind_lift_ok {A} (a : A) f st : run (bind (lift (Ok a)) f) st = run (f a) st.
Proof. reflexivity. Qed.
Lemma run_bind_lift_err {A} e (f : A -> M lval) st : run (bind (lift (Err e)) f) st = (RErr e, st).
Proof. reflexivity. Qed.
Lemma run_bind_bind {A B} (m : M A) (f : A -> M B) g st :
  run (bind (bind m f) g) st = run (bind m (fun x => bind (f x) g)) st.
Proof. unfold run, bind. destruct (m st) as [[a|e] st']; reflexivity. Qed.
Lemma run_bind_if {A} (c : bool) (a b : M A) f st :
  run (bind (if c then a else b) f) st = if c then run (bind a f) st else run (bind b f) st.
Proof. destruct c; reflexivity. Qed.
Lemma run_if (c : bool) a b st : run (if c then a else b) st = if c then run a st else run b st.
Proof. destruct c; reflexivity. Qed.

(* a Redis command: its arguments, then its effect on the store *)
Definition after {A} (r : res lval * rstate) (k : lval -> rstate -> A * rstate) (e : err -> A) : A * rstate :=
  match r with
  | (Ok v, st') => k v st'
  | (Err x, st') => (e x, st')
  end.

Lemma run_bind_call c vs f st :
  run (bind (redis_call c vs) f) st =
  match to_args vs with
  | Err e => (RErr e, st)
  | Ok args => after (exec c args st) (fun v st' => run (f v) st') RErr
  end.
Proof.
  unfold run, bind, redis_call, after. destruct (to_args vs) as [args|e]; [|reflexivity].
  destruct (exec c args st) as [[v|e] st']; reflexivity.
Qed.

Lemma run_call c vs st :
  run (redis_call c vs) st =
  match to_args vs with
  | Err e => (RErr e, st)
  | Ok args => after (exec c args st) (fun v st' => (to_reply v, st')) RErr
  end.
Proof.
  unfold run, redis_call, after. destruct (to_args vs) as [args|e]; [|reflexivity].
  destruct (exec c args st) as [[v|e] st']; reflexivity.
Qed.

Lemma after_ok {A} v st' (k : lval -> rstate -> A * rstate) e : after (Ok v, st') k e = k v st'.
Proof. reflexivity. Qed.
Lemma after_err {A} x st' (k : lval -> rstate -> A * rstate) e : after (Err x, st') k e = (e x, st').
Proof. reflexivity. Qed.
Lemma after_if {A} (c : bool) r1 r2 (k : lval -> rstate -> A * rstate) e :
  after (if c then r1 else r2) k e = if c then after r1 k e else after r2 k e.
Proof. destruct c; reflexivity. Qed.

(* the commands, on explicit argument lists *)
Lemma exec_get k st : exec GET [k] st = (Ok (get_val st k), st).
Proof. reflexivity. Qed.

Definition expire_ret (st : rstate) (k : bulk) : lval :=
  znum (match lookup st k with Some _ => 1 | None => 0 end).

(* EXPIRE is kept as one step on the store: the specifications speak about it the same way *)
Lemma exec_expire k p st :
  exec EXPIRE [k; BInt p] st = (Ok (expire_ret st k), snd (exec EXPIRE [k; BInt p] st)).
Proof. unfold expire_ret. cbn [exec]. destruct (lookup st k); [destruct (p <=? 0)|]; reflexivity. Qed.

Lemma exec_setex k ttl v st :
  exec SETEX [k; BInt ttl; v] st =
  if ttl <=? 0 then (Err EExpire, st)
  else (Ok (LStatus "OK"), store_put st k (mkEntry v (Some (rnow st + ttl * 1000)))).
Proof. reflexivity. Qed.

Lemma exec_incrby k d st :
  exec INCRBY [k; BInt d] st =
  match lookup st k with
  | Some (mkEntry (BInt v) ex) => (Ok (znum (v + d)), store_put st k (mkEntry (BInt (v + d)) ex))
  | Some (mkEntry (BStr _) _) => (Err ENotInt, st)
  | None => (Ok (znum d), store_put st k (mkEntry (BInt d) None))
  end.
Proof. reflexivity. Qed.

Lemma exec_del k st :
  exec DEL [k] st =
  match lookup st k with
  | Some _ => (Ok (znum 1), store_del st k)
  | None => (Ok (znum 0), st)
  end.
Proof. reflexivity. Qed.

Lemma exec_exists k st :
  exec EXISTS [k] st = (Ok (znum match lookup st k with Some _ => 1 | None => 0 end), st).
Proof. reflexivity. Qed.

Lemma exec_set k v opts st :
  exec SET (k :: v :: opts) st =
  match parse_setopts (mkSO false false None) opts with
  | Err e => (Err e, st)
  | Ok o =>
    if (so_nx o && so_xx o)%bool then (Err EArgs, st) else
    let present := match lookup st k with Some _ => true | None => false end in
    if (so_nx o && present)%bool then (Ok (LBool false), st)
    else if (so_xx o && negb present)%bool then (Ok (LBool false), st)
    else (Ok (LStatus "OK"), store_put st k (mkEntry v (exp_after st (so_ttl o))))
  end.
Proof. reflexivity. Qed.

(* the options of SET, one word at a time (the words are literals of the script) *)
Lemma parse_nil o : parse_setopts o [] = Ok o.
Proof. reflexivity. Qed.
Lemma parse_nx o w rest : upper w = "NX"%string ->
  parse_setopts o (BStr w :: rest) = parse_setopts (mkSO true (so_xx o) (so_ttl o)) rest.
Proof. intro U. cbn [parse_setopts]. rewrite U. reflexivity. Qed.
Lemma parse_xx o w rest : upper w = "XX"%string ->
  parse_setopts o (BStr w :: rest) = parse_setopts (mkSO (so_nx o) true (so_ttl o)) rest.
Proof. intro U. cbn [parse_setopts]. rewrite U. reflexivity. Qed.
Lemma parse_px o w n rest : upper w = "PX"%string ->
  parse_setopts o (BStr w :: BInt n :: rest) =
  if n <=? 0 then Err EExpire else parse_setopts (mkSO (so_nx o) (so_xx o) (Some n)) rest.
Proof. intro U. cbn [parse_setopts]. rewrite U. reflexivity. Qed.
Lemma parse_ex o w n rest : upper w = "EX"%string ->
  parse_setopts o (BStr w :: BInt n :: rest) =
  if n <=? 0 then Err EExpire else parse_setopts (mkSO (so_nx o) (so_xx o) (Some (n * 1000))) rest.
Proof. intro U. cbn [parse_setopts]. rewrite U. reflexivity. Qed.

(* ------------------------------------------------------------------ values
   (rewriting only: nothing here unfolds a definition under a binder of the rest of the script) *)
Lemma truthy_znum z : truthy (znum z) = true.          Proof. reflexivity. Qed.
Lemma truthy_bool b : truthy (LBool b) = b.            Proof. destruct b; reflexivity. Qed.
Lemma truthy_str b : truthy (LStr b) = true.           Proof. reflexivity. Qed.
Lemma truthy_status s : truthy (LStatus s) = true.     Proof. reflexivity. Qed.
Lemma truthy_nil : truthy LNil = false.                Proof. reflexivity. Qed.

Lemma lua_eq_znum_nil z : lua_eq (znum z) LNil = LBool false.             Proof. reflexivity. Qed.
Lemma lua_eq_nil_znum z : lua_eq LNil (znum z) = LBool false.             Proof. reflexivity. Qed.
Lemma lua_eq_znum_bool z b : lua_eq (znum z) (LBool b) = LBool false.     Proof. reflexivity. Qed.
Lemma lua_eq_bool_znum z b : lua_eq (LBool b) (znum z) = LBool false.     Proof. reflexivity. Qed.
Lemma lua_eq_znum_str z b : lua_eq (znum z) (LStr b) = LBool false.       Proof. reflexivity. Qed.
Lemma lua_eq_str_znum z b : lua_eq (LStr b) (znum z) = LBool false.       Proof. reflexivity. Qed.
Lemma lua_eq_str a b : lua_eq (LStr a) (LStr b) = LBool (bulk_eqb a b).   Proof. reflexivity. Qed.
Lemma lua_eq_str_bool a b : lua_eq (LStr a) (LBool b) = LBool false.      Proof. reflexivity. Qed.
Lemma lua_eq_bool_str a b : lua_eq (LBool b) (LStr a) = LBool false.      Proof. reflexivity. Qed.
Lemma lua_eq_str_nil a : lua_eq (LStr a) LNil = LBool false.              Proof. reflexivity. Qed.
Lemma lua_eq_nil_str a : lua_eq LNil (LStr a) = LBool false.              Proof. reflexivity. Qed.
Lemma lua_eq_bool a b : lua_eq (LBool a) (LBool b) = LBool (Bool.eqb a b). Proof. reflexivity. Qed.
Lemma lua_eq_bool_nil a : lua_eq (LBool a) LNil = LBool false.            Proof. reflexivity. Qed.
Lemma lua_eq_nil_bool a : lua_eq LNil (LBool a) = LBool false.            Proof. reflexivity. Qed.
Lemma lua_eq_nil : lua_eq LNil LNil = LBool true.                         Proof. reflexivity. Qed.
Lemma lua_eq_status_l s v : lua_eq (LStatus s) v = LBool false.           Proof. reflexivity. Qed.
Lemma lua_eq_status_r s v : lua_eq v (LStatus s) = LBool false.           Proof. destruct v; reflexivity. Qed.
Lemma lua_ne_of a b x : lua_eq a b = LBool x -> lua_ne a b = LBool (negb x).
Proof. unfold lua_ne. now intros ->. Qed.
Lemma lua_ne_z a b : lua_ne (znum a) (znum b) = LBool (negb (a =? b)).
Proof. apply lua_ne_of, lua_eq_z. Qed.
Lemma lua_ne_str a b : lua_ne (LStr a) (LStr b) = LBool (negb (bulk_eqb a b)).
Proof. reflexivity. Qed.
Lemma lua_ne_str_bool a b : lua_ne (LStr a) (LBool b) = LBool true.       Proof. reflexivity. Qed.
Lemma lua_ne_bool_str a b : lua_ne (LBool b) (LStr a) = LBool true.       Proof. reflexivity. Qed.
Lemma lua_ne_str_nil a : lua_ne (LStr a) LNil = LBool true.               Proof. reflexivity. Qed.
Lemma lua_ne_bool a b : lua_ne (LBool a) (LBool b) = LBool (negb (Bool.eqb a b)). Proof. reflexivity. Qed.
Lemma lua_ne_znum_nil z : lua_ne (znum z) LNil = LBool true.              Proof. reflexivity. Qed.
Lemma lua_ne_nil : lua_ne LNil LNil = LBool false.                        Proof. reflexivity. Qed.
Lemma lua_not_eq v : lua_not v = LBool (negb (truthy v)).                 Proof. reflexivity. Qed.
Lemma lua_tonumber_znum z : lua_tonumber (znum z) = znum z.               Proof. reflexivity. Qed.
Lemma lua_tonumber_int z : lua_tonumber (LStr (BInt z)) = znum z.         Proof. reflexivity. Qed.
Lemma lua_tonumber_str s : lua_tonumber (LStr (BStr s)) = LNil.           Proof. reflexivity. Qed.
Lemma lua_tonumber_bool b : lua_tonumber (LBool b) = LNil.                Proof. reflexivity. Qed.
Lemma lua_tonumber_nil : lua_tonumber LNil = LNil.                        Proof. reflexivity. Qed.
Lemma evalue_mk v ex : evalue (mkEntry v ex) = v.                         Proof. reflexivity. Qed.
Lemma eexp_mk v ex : eexp (mkEntry v ex) = ex.                            Proof. reflexivity. Qed.
Lemma rnow_put st k e : rnow (store_put st k e) = rnow st.               Proof. reflexivity. Qed.
Lemma rnow_del st k : rnow (store_del st k) = rnow st.                   Proof. reflexivity. Qed.
Lemma incl_put st k e : expiry_inclusive (store_put st k e) = expiry_inclusive st. Proof. reflexivity. Qed.
Lemma incl_del st k : expiry_inclusive (store_del st k) = expiry_inclusive st.     Proof. reflexivity. Qed.
Lemma exp_after_some st ms : exp_after st (Some ms) = Some (rnow st + ms). Proof. reflexivity. Qed.
Lemma exp_after_none st : exp_after st None = None.                       Proof. reflexivity. Qed.
Lemma eqb_true_r b : Bool.eqb b true = b.                                 Proof. destruct b; reflexivity. Qed.
Lemma eqb_false_r b : Bool.eqb b false = negb b.                          Proof. destruct b; reflexivity. Qed.

#[export] Hint Rewrite tonumber_get_val lua_eq_z lua_ne_z
  lua_eq_znum_nil lua_eq_nil_znum lua_eq_znum_bool lua_eq_bool_znum lua_eq_znum_str lua_eq_str_znum
  lua_eq_str lua_eq_str_bool lua_eq_bool_str lua_eq_str_nil lua_eq_nil_str lua_eq_bool lua_eq_bool_nil
  lua_eq_nil_bool lua_eq_nil lua_eq_status_l lua_eq_status_r
  lua_ne_str lua_ne_str_bool lua_ne_bool_str lua_ne_str_nil lua_ne_bool lua_ne_znum_nil lua_ne_nil
  lua_not_eq lua_tonumber_znum lua_tonumber_int lua_tonumber_str lua_tonumber_bool lua_tonumber_nil
  truthy_znum truthy_bool truthy_str truthy_status truthy_nil
  evalue_mk eexp_mk rnow_put rnow_del incl_put incl_del exp_after_some exp_after_none
  andb_false_l andb_true_l andb_false_r andb_true_r eqb_true_r eqb_false_r negb_involutive : luaval.

(* numerals that arrive as strings (ARGV, values read from the store) are coerced by arithmetic *)
Definition numeric (v : lval) (z : Z) : Prop := as_num v = Some (inject_Z z).
Lemma numeric_znum z : numeric (znum z) z.
Proof. reflexivity. Qed.
Lemma numeric_int z : numeric (LStr (BInt z)) z.
Proof. reflexivity. Qed.

Lemma arith2_numeric f a b x y : numeric a x -> numeric b y ->
  arith2 f a b = lift (f (inject_Z x) (inject_Z y)).
Proof. unfold numeric, arith2. intros -> ->. reflexivity. Qed.

Lemma lua_add_N a b x y : numeric a x -> numeric b y -> lua_add a b = ret (znum (x + y)).
Proof. intros Ha Hb. unfold lua_add. rewrite (arith2_numeric _ _ _ _ _ Ha Hb). apply (lua_add_M x y). Qed.
Lemma lua_sub_N a b x y : numeric a x -> numeric b y -> lua_sub a b = ret (znum (x - y)).
Proof. intros Ha Hb. unfold lua_sub. rewrite (arith2_numeric _ _ _ _ _ Ha Hb). apply (lua_sub_M x y). Qed.
Lemma lua_mul_N a b x y : numeric a x -> numeric b y -> lua_mul a b = ret (znum (x * y)).
Proof. intros Ha Hb. unfold lua_mul. rewrite (arith2_numeric _ _ _ _ _ Ha Hb). apply (lua_mul_M x y). Qed.
Lemma lua_max_N a b x y : numeric a x -> numeric b y -> lua_max a b = ret (znum (Z.max x y)).
Proof. intros Ha Hb. unfold lua_max. rewrite (arith2_numeric _ _ _ _ _ Ha Hb). apply (lua_max_M x y). Qed.
Lemma lua_min_N a b x y : numeric a x -> numeric b y -> lua_min a b = ret (znum (Z.min x y)).
Proof. intros Ha Hb. unfold lua_min. rewrite (arith2_numeric _ _ _ _ _ Ha Hb). apply (lua_min_M x y). Qed.

(* ------------------------------------------------------------------ fractions
   A division leaves the integers: the value is kept as the fraction n/d of two integers (d > 0);
   it may be multiplied, divided, added to ... and comes back to the integers by math.floor. *)
Definition frac (n d : Z) : lval := LNum (inject_Z n / inject_Z d).

Definition fractional (v : lval) (n d : Z) : Prop :=
  0 < d /\ exists q, as_num v = Some q /\ (q == inject_Z n / inject_Z d)%Q.

Lemma fractional_numeric v z : numeric v z -> fractional v z 1.
Proof.
  intro H. split; [lia|]. exists (inject_Z z). split; [exact H|].
  unfold Qdiv. change (/ inject_Z 1)%Q with 1%Q. now rewrite Qmult_1_r.
Qed.

Lemma inject_Z_nonzero d : 0 < d -> ~ (inject_Z d == 0)%Q.
Proof. intros H E. unfold Qeq, inject_Z in E; cbn in E. lia. Qed.

Lemma Qfloor_frac n d : 0 < d -> Qfloor (inject_Z n / inject_Z d) = n / d.
Proof.
  intro Hd. destruct d as [|p|p]; try lia.
  unfold Qfloor, Qdiv, Qmult, Qinv, inject_Z; cbn. now rewrite Z.mul_1_r.
Qed.

(* results of arithmetic on fractions are described up to == : only floor / comparisons look at them *)
Definition qval (m : M lval) (n d : Z) : Prop :=
  0 < d /\ exists q, m = ret (LNum q) /\ (q == inject_Z n / inject_Z d)%Q.

Lemma lua_div_F a b n1 d1 n2 d2 : fractional a n1 d1 -> fractional b n2 d2 -> 0 < n2 ->
  qval (lua_div a b) (n1 * d2) (d1 * n2).
Proof.
  intros [H1 [q1 [A1 E1]]] [H2 [q2 [A2 E2]]] Hn. split; [nia|].
  exists (q1 / q2)%Q. split.
  - unfold lua_div, arith2. rewrite A1, A2. unfold lift.
    destruct (Qeq_bool q2 0) eqn:Z0; [|reflexivity].
    apply Qeq_bool_eq in Z0. rewrite Z0 in E2. exfalso.
    destruct d2 as [|p|p]; try lia.
    unfold Qeq, Qdiv, Qmult, Qinv, inject_Z in E2; cbn in E2. lia.
  - rewrite E1, E2, !inject_Z_mult. field. repeat split; apply inject_Z_nonzero; assumption.
Qed.

Lemma lua_mul_F a b n1 d1 n2 d2 : fractional a n1 d1 -> fractional b n2 d2 ->
  qval (lua_mul a b) (n1 * n2) (d1 * d2).
Proof.
  intros [H1 [q1 [A1 E1]]] [H2 [q2 [A2 E2]]]. split; [nia|].
  exists (q1 * q2)%Q. split.
  - unfold lua_mul, arith2. now rewrite A1, A2.
  - rewrite E1, E2, !inject_Z_mult. field. split; apply inject_Z_nonzero; assumption.
Qed.

Lemma lua_add_F a b n1 d1 n2 d2 : fractional a n1 d1 -> fractional b n2 d2 ->
  qval (lua_add a b) (n1 * d2 + n2 * d1) (d1 * d2).
Proof.
  intros [H1 [q1 [A1 E1]]] [H2 [q2 [A2 E2]]]. split; [nia|].
  exists (q1 + q2)%Q. split.
  - unfold lua_add, arith2. now rewrite A1, A2.
  - rewrite E1, E2, inject_Z_plus, !inject_Z_mult. field. split; apply inject_Z_nonzero; assumption.
Qed.

Lemma lua_sub_F a b n1 d1 n2 d2 : fractional a n1 d1 -> fractional b n2 d2 ->
  qval (lua_sub a b) (n1 * d2 - n2 * d1) (d1 * d2).
Proof.
  intros [H1 [q1 [A1 E1]]] [H2 [q2 [A2 E2]]]. split; [nia|].
  exists (q1 - q2)%Q. split.
  - unfold lua_sub, arith2. now rewrite A1, A2.
  - rewrite E1, E2. unfold Z.sub. rewrite inject_Z_plus, inject_Z_opp, !inject_Z_mult. field.
    split; apply inject_Z_nonzero; assumption.
Qed.

Lemma lua_floor_F a n d : fractional a n d -> lua_floor a = ret (znum (n / d)).
Proof.
  intros [H [q [A E]]]. unfold lua_floor. rewrite A. apply ret_eq, znum_eq.
  rewrite E. now apply Qfloor_frac.
Qed.

(* a value whose description is a fraction, carried through the rest of the script *)
Lemma run_bind_qval m n d (f : lval -> M lval) st (P : reply * rstate -> Prop) :
  qval m n d ->
  (forall v, fractional v n d -> P (run (f v) st)) ->
  P (run (bind m f) st).
Proof.
  intros [H [q [-> E]]] K. rewrite run_bind_ret. apply K. split; [exact H|]. exists q. split; [reflexivity|exact E].
Qed.

(* ------------------------------------------------------------------ tactics *)
Ltac numeric_tac := first [ apply numeric_znum | apply numeric_int ].
Ltac fractional_tac := first [ eassumption | apply fractional_numeric; numeric_tac ].

(* two quotients in the goal that are the same up to ring identities of their operands are made equal *)
Ltac unify_divs :=
  repeat match goal with
  | |- context [?a / ?b] =>
      match goal with
      | |- context [?c / ?d] =>
          lazymatch constr:((a, b)) with (c, d) => fail | _ => idtac end;
          let E := fresh "E" in
          assert (E : a / b = c / d) by (f_equal; ring);
          rewrite E; clear E
      end
  end.

(* an arithmetic operation on fractions at the head of the script *)
Ltac qval_head L :=
  lazymatch goal with
  | |- run (bind ?m ?f) ?st = ?R =>
      eapply (run_bind_qval m _ _ f st (fun r => r = R));
      [ eapply L; first [ fractional_tac | lia ]
      | let v := fresh "q" in let Hv := fresh "Hq" in intros v Hv; cbv beta ]
  end.

(* values: equalities, negations, tonumber on what is known *)
Ltac lua_values :=
  autorewrite with luaval;
  repeat match goal with
  | |- context [bulk_eqb (BStr ?s) ?v] => is_var v; rewrite (bulk_eqb_sym (BStr s) v)
  | |- context [bulk_eqb (BInt ?s) ?v] => is_var v; rewrite (bulk_eqb_sym (BInt s) v)
  end;
  change (negb true) with false; change (negb false) with true;
  cbv iota.

(* the arguments of a Redis command *)
Ltac lua_args :=
  cbn [to_args to_arg]; rewrite ?to_arg_znum; cbn [to_args to_arg].

(* case distinctions on what the store holds *)
Ltac split_store :=
  match goal with
  | H : lookup ?st ?k = _ |- context [lookup ?st ?k] => rewrite H; cbv iota
  | H : stored_num ?st ?k = _ |- context [stored_num ?st ?k] => rewrite H; cbv iota
  | |- context [match stored_num ?st ?k with _ => _ end] => destruct (stored_num st k) eqn:?
  | |- context [get_val ?st ?k] =>
      unfold get_val, stored_num in *; destruct (lookup st k) as [[? ?]|] eqn:?
  | |- context [match lookup ?st ?k with _ => _ end] =>
      unfold stored_num in *; destruct (lookup st k) as [[? ?]|] eqn:?
  | |- context [match ?v with BInt _ => _ | BStr _ => _ end] => is_var v; destruct v
  end.

Ltac prune := try (exfalso; lia); try discriminate; try congruence.

(* one step of the script, whatever comes next *)
Ltac lua_step_core :=
  lazymatch goal with
  | |- run (ret _) _ = _ => fail
  | |- run (fail _) _ = _ => fail
  | |- run (bind (ret _) _) _ = _ => rewrite run_bind_ret; cbv beta zeta
  | |- run (bind (fail _) _) _ = _ => rewrite run_bind_fail
  | |- run (bind (bind _ _) _) _ = _ => rewrite run_bind_bind; cbv beta zeta
  | |- run (bind (if _ then _ else _) _) _ = _ => rewrite run_bind_if
  | |- run (if _ then _ else _) _ = _ => rewrite run_if
  | |- run (bind (lift (lua_tostring _)) _) _ = _ => cbn [lua_tostring]; rewrite ?q_integral_inject, ?q_to_z_inject; cbn [lift]
  | |- run (bind (lift (Ok _)) _) _ = _ => rewrite run_bind_lift_ok; cbv beta zeta
  | |- run (bind (lift (Err _)) _) _ = _ => rewrite run_bind_lift_err
  | |- run (bind (lua_add ?a ?b) _) _ = _ => first [ erewrite (lua_add_N a b) by numeric_tac | qval_head lua_add_F ]
  | |- run (bind (lua_sub ?a ?b) _) _ = _ => first [ erewrite (lua_sub_N a b) by numeric_tac | qval_head lua_sub_F ]
  | |- run (bind (lua_mul ?a ?b) _) _ = _ => first [ erewrite (lua_mul_N a b) by numeric_tac | qval_head lua_mul_F ]
  | |- run (bind (lua_max ?a ?b) _) _ = _ => erewrite (lua_max_N a b) by numeric_tac
  | |- run (bind (lua_min ?a ?b) _) _ = _ => erewrite (lua_min_N a b) by numeric_tac
  | |- run (bind (lua_div _ _) _) _ = _ => qval_head lua_div_F
  | |- run (bind (lua_floor ?a) _) _ = _ => erewrite (lua_floor_F a) by fractional_tac; rewrite ?Z.div_1_r; unify_divs
  | |- run (bind (lua_lt (znum _) (znum _)) _) _ = _ => rewrite lua_lt_M
  | |- run (bind (lua_le (znum _) (znum _)) _) _ = _ => rewrite lua_le_M
  | |- run (bind (lua_gt (znum _) (znum _)) _) _ = _ => rewrite lua_gt_M
  | |- run (bind (lua_ge (znum _) (znum _)) _) _ = _ => rewrite lua_ge_M
  | |- run (bind (redis_call _ _) _) _ = _ => rewrite run_bind_call; lua_args
  | |- after (exec GET [_] _) _ _ = _ => rewrite exec_get, after_ok; cbv beta zeta
  | |- after (exec EXPIRE [_; BInt _] _) _ _ = _ => rewrite exec_expire, after_ok; cbv beta zeta
  | |- after (exec SETEX [_; BInt _; _] _) _ _ = _ => rewrite exec_setex, after_if, after_ok, after_err; cbv beta zeta
  | |- after (exec INCRBY [_; BInt _] _) _ _ = _ => rewrite exec_incrby
  | |- after (exec DEL [_] _) _ _ = _ => rewrite exec_del
  | |- after (exec EXISTS [_] _) _ _ = _ => rewrite exec_exists, after_ok; cbv beta zeta
  | |- after (exec SET (?k :: ?v :: ?opts) ?st) _ _ = _ => rewrite (exec_set k v opts st)
  | |- after (match parse_setopts _ _ with _ => _ end) _ _ = _ =>
      first [ rewrite parse_nil
            | rewrite parse_nx by (vm_compute; reflexivity)
            | rewrite parse_xx by (vm_compute; reflexivity)
            | rewrite parse_px by (vm_compute; reflexivity)
            | rewrite parse_ex by (vm_compute; reflexivity) ];
      cbn [so_nx so_xx so_ttl]
  | |- after (match (if ?c then _ else _) with _ => _ end) _ _ = _ =>
      let H := fresh "C" in destruct c eqn:H; prune
  | |- after (match Ok _ with _ => _ end) _ _ = _ => cbv iota zeta; cbn [so_nx so_xx so_ttl]; lua_values
  | |- after (match Err _ with _ => _ end) _ _ = _ => cbv iota
  | |- after (Ok _, _) _ _ = _ => rewrite after_ok; cbv beta zeta
  | |- after (Err _, _) _ _ = _ => rewrite after_err
  | |- after (if ?c then _ else _) _ _ = _ =>
      lazymatch c with
      | context [match _ with _ => _ end] => split_store; cbn [andb negb]
      | _ => rewrite after_if
      end
  | |- after (match _ with _ => _ end) _ _ = _ => split_store
  | |- (if ?c then _ else _) = _ =>
      first [ progress lua_values
            | lazymatch c with
              | context [match _ with _ => _ end] => split_store
              | context [get_val _ _] => split_store
              end
            | let H := fresh "C" in destruct c eqn:H; prune ]
  | |- (match _ with _ => _ end) = _ => first [ progress lua_values | split_store ]
  end.

(* a test on a value of the script that is still open somewhere in what runs next *)
Ltac split_cond :=
  match goal with
  | |- context [if ?c then _ else _] =>
      lazymatch c with
      | context [match _ with _ => _ end] => fail
      | context [get_val _ _] => fail
      | _ => idtac
      end;
      let H := fresh "C" in destruct c eqn:H; prune
  end.

Ltac lua_step :=
  lazymatch goal with
  | |- run (ret _) _ = _ => fail
  | |- run (fail _) _ = _ => fail
  | |- _ => first [ lua_step_core | progress lua_values | split_store | split_cond ]
  end.

Ltac lua_exec :=
  rewrite eval_run;
  lazymatch goal with |- run (?s _ _) _ = _ => unfold s end;
  index_simp; cbv beta zeta; lua_values; repeat lua_step.

(* the end of a path: the script has returned (or failed); the specification is split on its own tests, and
   every combination is closed by arithmetic on the collected facts *)
Ltac spec_split :=
  repeat match goal with
  | |- context [match stored_num ?st ?k with _ => _ end] => destruct (stored_num st k) eqn:?
  | |- context [match lookup ?st ?k with _ => _ end] => destruct (lookup st k) as [[? ?]|] eqn:?
  | |- context [if ?c then _ else _] => let H := fresh "S" in destruct c eqn:H; prune
  | |- context [match ?v with BInt _ => _ | BStr _ => _ end] => is_var v; destruct v
  end.

(* equal replies and stores: structure first, then the integers by arithmetic *)
Ltac state_eq :=
  repeat match goal with
  | |- (_, _) = (_, _) => f_equal
  | |- store_put _ _ _ = store_put _ _ _ => f_equal
  | |- store_del _ _ = store_del _ _ => f_equal
  | |- mkEntry _ _ = mkEntry _ _ => f_equal
  | |- BInt _ = BInt _ => f_equal
  | |- @Some _ _ = Some _ => f_equal
  | |- RInt _ = RInt _ => f_equal
  | |- RBulk _ = RBulk _ => f_equal
  | |- RErr _ = RErr _ => f_equal
  end;
  try reflexivity;
  match goal with
  | |- @eq Z _ _ => lia
  | |- _ => congruence
  end.

Ltac lua_close :=
  rewrite ?run_ret, ?run_fail; autorewrite with luaval;
  cbn [to_reply fst snd]; rewrite ?Z.quot_1_r;
  try reflexivity; state_eq.

Ltac lua_finish := cbv beta zeta; spec_split; lua_close.
