(* Lemmas about Lib/Sched.v: invariants along schedules, list update, sums. *)
From Coq Require Import List Arith Lia.
From GZ Require Import Lib.Sched.
Import ListNotations.

Section LTS.
  Context {state : Type}.
  Variable step : state -> nat -> option state.

  Lemma run_inv (P : state -> Prop) :
    (forall s t s', P s -> step s t = Some s' -> P s') ->
    forall sched s, P s -> P (run step s sched).
  Proof.
    intros Hstep sched. induction sched as [|t r IH]; intros s Hs; cbn; [exact Hs|].
    destruct (step s t) as [s'|] eqn:E; [apply IH; eauto | apply IH; exact Hs].
  Qed.

  Lemma run_app s a b : run step s (a ++ b) = run step (run step s a) b.
  Proof.
    revert s. induction a as [|t r IH]; intros s; cbn; [reflexivity|].
    destruct (step s t); apply IH.
  Qed.

  (* a relation preserved by every step holds between the start and the end of a run *)
  Lemma run_rel (R : state -> state -> Prop) :
    (forall s, R s s) -> (forall a b c, R a b -> R b c -> R a c) ->
    (forall s t s', step s t = Some s' -> R s s') ->
    forall sched s, R s (run step s sched).
  Proof.
    intros Hr Ht Hs sched. induction sched as [|t r IH]; intros s; cbn; [apply Hr|].
    destruct (step s t) as [s'|] eqn:E; [eapply Ht; [eapply Hs; eauto | apply IH] | apply IH].
  Qed.
End LTS.

Lemma length_upd_nth {A} (l : list A) n x : length (upd_nth l n x) = length l.
Proof. revert n. induction l as [|y l IH]; intros [|n]; cbn; auto. Qed.

Lemma nth_error_upd_nth_eq {A} (l : list A) n x y :
  nth_error l n = Some y -> nth_error (upd_nth l n x) n = Some x.
Proof. revert n. induction l as [|z l IH]; intros [|n] H; cbn in *; try discriminate; auto. Qed.

Lemma nth_error_upd_nth_neq {A} (l : list A) n m x :
  n <> m -> nth_error (upd_nth l n x) m = nth_error l m.
Proof.
  revert n m. induction l as [|z l IH]; intros [|n] [|m] H; cbn; auto; try congruence.
Qed.

Lemma nth_error_upd_nth {A} (l : list A) n m x th :
  nth_error (upd_nth l n x) m = Some th ->
  (m = n /\ th = x /\ exists y, nth_error l n = Some y) \/ (m <> n /\ nth_error l m = Some th).
Proof.
  intros H. destruct (Nat.eq_dec m n) as [->|Hne].
  - left. destruct (nth_error l n) as [y|] eqn:E.
    + rewrite (nth_error_upd_nth_eq _ _ _ _ E) in H. inversion H. eauto.
    + exfalso. apply nth_error_None in E.
      assert (Hl : nth_error (upd_nth l n x) n <> None) by congruence.
      apply nth_error_Some in Hl. rewrite length_upd_nth in Hl. lia.
  - right. rewrite nth_error_upd_nth_neq in H by auto. auto.
Qed.

Lemma sumf_upd_nth {A} (f : A -> nat) (l : list A) n x y :
  nth_error l n = Some y -> sumf f (upd_nth l n x) + f y = sumf f l + f x.
Proof.
  revert n. induction l as [|z l IH]; intros [|n] H; cbn in *; try discriminate.
  - inversion H. lia.
  - specialize (IH _ H). lia.
Qed.

Lemma sumf_ext {A} (f g : A -> nat) l : (forall x, In x l -> f x = g x) -> sumf f l = sumf g l.
Proof.
  induction l as [|z l IH]; intros H; [reflexivity|]. cbn [sumf].
  rewrite (H z (or_introl eq_refl)), IH; [reflexivity|]. intros x Hx. apply H. right. exact Hx.
Qed.

Lemma sumf_zero {A} (f : A -> nat) l : (forall x, In x l -> f x = 0) -> sumf f l = 0.
Proof.
  induction l as [|z l IH]; intros H; [reflexivity|]. cbn [sumf].
  rewrite (H z (or_introl eq_refl)), IH; [reflexivity|]. intros x Hx. apply H. right. exact Hx.
Qed.

(* at most one element satisfies p -> the count is at most one *)
Lemma sumf_b2n_le1 {A} (p : A -> bool) (l : list A) :
  (forall i j x y, nth_error l i = Some x -> nth_error l j = Some y -> p x = true -> p y = true -> i = j) ->
  sumf (fun x => b2n (p x)) l <= 1.
Proof.
  induction l as [|z l IH]; intros H; cbn; [lia|].
  destruct (p z) eqn:Ez; cbn.
  - rewrite sumf_zero; [lia|]. intros x Hx. destruct (p x) eqn:Ex; cbn; auto.
    apply In_nth_error in Hx. destruct Hx as [j Hj].
    specialize (H 0 (S j) z x eq_refl Hj Ez Ex). discriminate.
  - apply IH. intros i j x y Hi Hj Hx Hy.
    specialize (H (S i) (S j) x y Hi Hj Hx Hy). lia.
Qed.

Lemma sumf_b2n_pos {A} (p : A -> bool) (l : list A) :
  1 <= sumf (fun x => b2n (p x)) l -> exists i x, nth_error l i = Some x /\ p x = true.
Proof.
  induction l as [|z l IH]; cbn; intros H; [lia|].
  destruct (p z) eqn:Ez.
  - exists 0, z. auto.
  - cbn in H. destruct (IH H) as (i & x & Hi & Hx). exists (S i), x. auto.
Qed.

Lemma sumf_le {A} (f g : A -> nat) l : (forall x, f x <= g x) -> sumf f l <= sumf g l.
Proof. intros H. induction l as [|z l IH]; cbn; [lia|]. specialize (H z). lia. Qed.

Lemma sumf_app {A} (f : A -> nat) l1 l2 : sumf f (l1 ++ l2) = sumf f l1 + sumf f l2.
Proof. induction l1 as [|z l IH]; cbn; [reflexivity|]. rewrite IH. lia. Qed.

Lemma sumf_map {A B} (f : B -> nat) (g : A -> B) l : sumf f (map g l) = sumf (fun x => f (g x)) l.
Proof. induction l as [|z l IH]; cbn; [reflexivity|]. rewrite IH. reflexivity. Qed.

Lemma Forall_upd_nth {A} (P : A -> Prop) l n x : Forall P l -> P x -> Forall P (upd_nth l n x).
Proof.
  intros Hl Hx. revert n. induction Hl as [|y l Hy Hl IH]; intros [|n]; cbn; constructor; auto.
Qed.

Lemma fupd_eq {B} (f : nat -> B) k v : fupd f k v k = v.
Proof. unfold fupd. rewrite Nat.eqb_refl. reflexivity. Qed.

Lemma fupd_neq {B} (f : nat -> B) k v i : i <> k -> fupd f k v i = f i.
Proof. intros H. unfold fupd. destruct (Nat.eqb_spec i k); congruence. Qed.
