(* Interleaving semantics shared by the concurrent properties (C05, C07).
   Executable definitions only; lemmas are in Lib/SchedProofs.v.

   An LTS is given by [step : state -> nat -> option state]: the next atomic
   action of thread (or pseudo-thread: timer, task) number [t], [None] when
   that action is disabled (the thread is blocked, finished, or absent).
   A schedule is a [list nat]; a disabled choice is a stutter step, so every
   list is a schedule and "for all schedules" is "for all lists". *)
From Coq Require Import List Arith.
Import ListNotations.

Section LTS.
  Context {state : Type}.
  Variable step : state -> nat -> option state.

  Fixpoint run (s : state) (sched : list nat) : state :=
    match sched with
    | [] => s
    | t :: r => match step s t with Some s' => run s' r | None => run s r end
    end.

  (* run thread [t] for at most [fuel] further actions while [stop] is false *)
  Fixpoint run_thread (stop : state -> bool) (fuel : nat) (s : state) (t : nat) : state :=
    match fuel with
    | O => s
    | S f =>
      if stop s then s else
      match step s t with
      | Some s' => run_thread stop f s' t
      | None => s
      end
    end.
End LTS.

(* functional update of a thread list *)
Fixpoint upd_nth {A} (l : list A) (n : nat) (x : A) : list A :=
  match l, n with
  | [], _ => []
  | _ :: l', O => x :: l'
  | y :: l', S n' => y :: upd_nth l' n' x
  end.

Fixpoint sumf {A} (f : A -> nat) (l : list A) : nat :=
  match l with
  | [] => 0
  | x :: l' => f x + sumf f l'
  end.

Definition b2n (b : bool) : nat := if b then 1 else 0.

(* functional maps *)
Definition fupd {B} (f : nat -> B) (k : nat) (v : B) : nat -> B :=
  fun i => if Nat.eqb i k then v else f i.
