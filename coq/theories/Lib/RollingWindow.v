(* Executable model of core/collection/rollingwindow.go (RollingWindow[T,B]).
   Shared by C16 (Reduce visits the last `size` intervals), C01 (breaker window)
   and C02 (shedder pass / latency windows).  No proofs here.

   - a bucket is the list of values added to it since its last reset (any concrete
     bucket type - Sum/Count, the breaker's {Sum,Success,Failure,Drop} - is a fold
     of that list);
   - times are integers (nanoseconds of timex.Now()); the clock is an argument;
   - Go's integer / and % truncate toward zero: Z.quot / Z.rem. *)
From Coq Require Import List ZArith Bool.
Import ListNotations.
Open Scope Z_scope.

Record rw := mkRW
  { rsize : nat;              (* number of buckets, >= 1 *)
    rinterval : Z;            (* bucket duration, > 0 *)
    roffset : nat;            (* index of the current bucket *)
    rlast : Z;                (* start time of the current bucket *)
    rignore : bool;           (* IgnoreCurrentBucket *)
    rbuckets : list (list Z)  (* length rsize *) }.

Definition rw_new (size : nat) (interval now : Z) (ignore : bool) : rw :=
  mkRW size interval 0 now ignore (repeat [] size).

(* span(): how many bucket boundaries were crossed since rlast, clipped to size *)
Definition rw_span (w : rw) (now : Z) : nat :=
  let o := Z.quot (now - rlast w) (rinterval w) in
  if (0 <=? o) && (o <? Z.of_nat (rsize w)) then Z.to_nat o else rsize w.

Fixpoint set_nth {A} (i : nat) (x : A) (l : list A) : list A :=
  match l, i with
  | [], _ => []
  | _ :: l', O => x :: l'
  | y :: l', S i' => y :: set_nth i' x l'
  end.

(* reset buckets (offset+1) .. (offset+span), modulo size *)
Fixpoint rw_reset (size offset : nat) (span : nat) (b : list (list Z)) : list (list Z) :=
  match span with
  | O => b
  | S k => set_nth ((offset + span) mod size) [] (rw_reset size offset k b)
  end.

Definition rw_update (w : rw) (now : Z) : rw :=
  let span := rw_span w now in
  match span with
  | O => w
  | _ =>
    mkRW (rsize w) (rinterval w) ((roffset w + span) mod rsize w)
         (now - Z.rem (now - rlast w) (rinterval w)) (rignore w)
         (rw_reset (rsize w) (roffset w) span (rbuckets w))
  end.

Definition rw_add (w : rw) (now v : Z) : rw :=
  let w' := rw_update w now in
  let i := (roffset w' mod rsize w')%nat in
  mkRW (rsize w') (rinterval w') (roffset w') (rlast w') (rignore w')
       (set_nth i (nth i (rbuckets w') [] ++ [v]) (rbuckets w')).

(* Reduce: the buckets handed to fn, in order *)
Definition rw_reduce (w : rw) (now : Z) : list (list Z) :=
  let span := rw_span w now in
  let diff := match span, rignore w with
              | O, true => (rsize w - 1)%nat
              | _, _ => (rsize w - span)%nat
              end in
  map (fun i => nth ((roffset w + span + 1 + i) mod rsize w) (rbuckets w) [])
      (seq 0 diff).
