(* Shared model of the part of Redis + its embedded Lua that go-zero's four scripts
   (lockscript, delscript, periodscript, tokenscript) use.  Executable definitions only;
   lemmas about them are in Lib/RedisStoreFacts.v.

   * store  : association list  key |-> (value, optional absolute expiry in ms) + a clock (ms)
              + the expiry convention [expiry_inclusive]: a key with expiry time t is absent for
              every command (lazy expiry) when  t <= clock  (true: miniredis' FastForward deletes
              at ttl <= 0)  resp.  t < clock  (false: real Redis' keyIsExpired is now > when, i.e.
              one ms later).  Every theorem quantifies over this bit.
   * values : [bulk] = BInt z (the canonical decimal rendering of z) | BStr s (any byte
              string that is not a numeral, e.g. a lock id or "NX").
   * Lua    : dynamically typed values [lval]; numbers are exact rationals (Q, never
              normalised; Lua uses float64 - exact below 2^53); scripts are functions in the
              state-and-error monad [M].  An error aborts the script and keeps the writes
              done so far (Redis does not roll back).
   The generated files coq/gen/Lua_*.v are written against this interface by
   translate/lua2coq.py. *)
From Coq Require Import List ZArith String QArith Qround Bool Ascii.
Import ListNotations.
Open Scope Z_scope.

(* ------------------------------------------------------------------ values *)
Inductive bulk := BInt (z : Z) | BStr (s : string).

Definition bulk_eqb (a b : bulk) : bool :=
  match a, b with
  | BInt x, BInt y => x =? y
  | BStr x, BStr y => String.eqb x y
  | _, _ => false
  end.

Record entry := mkEntry { evalue : bulk; eexp : option Z }.
Record rstate := mkR { rnow : Z; rdata : list (bulk * entry); expiry_inclusive : bool }.

Inductive err :=
| EExpire        (* invalid expire time in SET / SETEX *)
| ENotInt        (* value is not an integer or out of range *)
| EArgs          (* wrong number of arguments / syntax error *)
| EType          (* Lua run-time type error (arithmetic / comparison on a non-number) *)
| EUnsupported   (* outside the modelled fragment (non-integral number sent to Redis ...) *)
| EConn.         (* store unreachable (used by the Go-level models) *)

(* ------------------------------------------------------------------ store *)
(* [before incl x t]: at time x an expiry time t has not been reached yet *)
Definition before (incl : bool) (x t : Z) : bool := if incl then x <? t else x <=? t.

Definition live (incl : bool) (now : Z) (e : entry) : bool :=
  match eexp e with None => true | Some t => before incl now t end.

Fixpoint find (k : bulk) (d : list (bulk * entry)) : option entry :=
  match d with
  | [] => None
  | (k', e) :: d' => if bulk_eqb k k' then Some e else find k d'
  end.

Fixpoint put (k : bulk) (e : entry) (d : list (bulk * entry)) : list (bulk * entry) :=
  match d with
  | [] => [(k, e)]
  | (k', e') :: d' => if bulk_eqb k k' then (k, e) :: d' else (k', e') :: put k e d'
  end.

Fixpoint remove (k : bulk) (d : list (bulk * entry)) : list (bulk * entry) :=
  match d with
  | [] => []
  | (k', e') :: d' => if bulk_eqb k k' then remove k d' else (k', e') :: remove k d'
  end.

(* what every command sees *)
Definition lookup (st : rstate) (k : bulk) : option entry :=
  match find k (rdata st) with
  | Some e => if live (expiry_inclusive st) (rnow st) e then Some e else None
  | None => None
  end.

Definition store_put (st : rstate) (k : bulk) (e : entry) : rstate :=
  mkR (rnow st) (put k e (rdata st)) (expiry_inclusive st).
Definition store_del (st : rstate) (k : bulk) : rstate :=
  mkR (rnow st) (remove k (rdata st)) (expiry_inclusive st).
Definition advance (st : rstate) (ms : Z) : rstate :=
  mkR (rnow st + ms) (rdata st) (expiry_inclusive st).

(* remaining time to live in ms of a live key, None = no expiry *)
Definition pttl (st : rstate) (k : bulk) : option (option Z) :=
  match lookup st k with
  | Some e => Some (match eexp e with Some t => Some (t - rnow st) | None => None end)
  | None => None
  end.

(* ------------------------------------------------------------------ Lua values *)
Inductive lval :=
| LNil
| LBool (b : bool)
| LNum (q : Q)
| LStr (b : bulk)
| LStatus (s : string).      (* the table {ok = s}: a Redis status reply *)

Inductive res (A : Type) := Ok (a : A) | Err (e : err).
Arguments Ok {A} a.
Arguments Err {A} e.

Definition M (A : Type) := rstate -> res A * rstate.
Definition ret {A} (a : A) : M A := fun st => (Ok a, st).
Definition fail {A} (e : err) : M A := fun st => (Err e, st).
Definition bind {A B} (m : M A) (f : A -> M B) : M B :=
  fun st => match m st with
            | (Ok a, st') => f a st'
            | (Err e, st') => (Err e, st')
            end.
Definition lift {A} (r : res A) : M A := fun st => (r, st).

Declare Scope lua_scope.
Delimit Scope lua_scope with lua.
Notation "x <- m ;; k" := (bind m (fun x => k))
  (at level 61, m at next level, right associativity) : lua_scope.
Notation "' p <- m ;; k" := (bind m (fun x => match x with p => k end))
  (at level 61, p pattern, m at next level, right associativity) : lua_scope.

Definition znum (z : Z) : lval := LNum (inject_Z z).

Definition truthy (v : lval) : bool :=
  match v with LNil | LBool false => false | _ => true end.

(* KEYS[i] / ARGV[i], 1-based; nil when out of range (Lua semantics) *)
Definition index (l : list lval) (i : Z) : lval :=
  if i <=? 0 then LNil else nth (Z.to_nat (i - 1)) l LNil.

(* raw equality: no coercion between types *)
Definition lua_eq (a b : lval) : lval :=
  LBool match a, b with
        | LNil, LNil => true
        | LBool x, LBool y => Bool.eqb x y
        | LNum x, LNum y => Qeq_bool x y
        | LStr x, LStr y => bulk_eqb x y
        | _, _ => false            (* two status tables are never the same object *)
        end.
Definition lua_ne (a b : lval) : lval :=
  match lua_eq a b with LBool x => LBool (negb x) | v => v end.
Definition lua_not (a : lval) : lval := LBool (negb (truthy a)).

(* tonumber: numerals convert, everything else is nil *)
Definition lua_tonumber (a : lval) : lval :=
  match a with
  | LNum q => LNum q
  | LStr (BInt z) => znum z
  | _ => LNil
  end.

Definition q_integral (q : Q) : bool := (Qnum q mod Zpos (Qden q)) =? 0.
Definition q_to_z (q : Q) : Z := Qnum q / Zpos (Qden q).

Definition lua_tostring (a : lval) : res lval :=
  match a with
  | LStr b => Ok (LStr b)
  | LNum q => if q_integral q then Ok (LStr (BInt (q_to_z q))) else Err EUnsupported
  | LNil => Ok (LStr (BStr "nil"))
  | LBool true => Ok (LStr (BStr "true"))
  | LBool false => Ok (LStr (BStr "false"))
  | LStatus _ => Err EUnsupported
  end.

(* arithmetic and the math.* functions: numbers, and strings that are (canonical decimal) numerals -
   Lua coerces them ("10" + 1 = 11, math.max("3", 2) = 3); anything else is a run-time type error.
   Order comparisons do NOT coerce (Lua: "attempt to compare number with string"); two strings would
   be compared lexicographically by Lua - outside the modelled fragment, reported as a type error. *)
Definition as_num (a : lval) : option Q :=
  match a with
  | LNum x => Some x
  | LStr (BInt z) => Some (inject_Z z)
  | _ => None
  end.
Definition arith2 (f : Q -> Q -> res lval) (a b : lval) : M lval :=
  match as_num a, as_num b with
  | Some x, Some y => lift (f x y)
  | _, _ => fail EType
  end.
Definition num2 (f : Q -> Q -> res lval) (a b : lval) : M lval :=
  match a, b with
  | LNum x, LNum y => lift (f x y)
  | _, _ => fail EType
  end.
Definition lua_add := arith2 (fun x y => Ok (LNum (x + y)%Q)).
Definition lua_sub := arith2 (fun x y => Ok (LNum (x - y)%Q)).
Definition lua_mul := arith2 (fun x y => Ok (LNum (x * y)%Q)).
Definition lua_div := arith2 (fun x y =>
  if Qeq_bool y 0 then Err EUnsupported (* inf / nan *) else Ok (LNum (x / y)%Q)).
Definition lua_neg (a : lval) : M lval :=
  match as_num a with Some x => ret (LNum (- x)%Q) | None => fail EType end.
Definition qlt (x y : Q) : bool := negb (Qle_bool y x).
Definition lua_lt := num2 (fun x y => Ok (LBool (qlt x y))).
Definition lua_le := num2 (fun x y => Ok (LBool (Qle_bool x y))).
Definition lua_gt := num2 (fun x y => Ok (LBool (qlt y x))).
Definition lua_ge := num2 (fun x y => Ok (LBool (Qle_bool y x))).
Definition lua_max := arith2 (fun x y => Ok (LNum (if qlt x y then y else x))).
Definition lua_min := arith2 (fun x y => Ok (LNum (if qlt y x then y else x))).
Definition lua_floor (a : lval) : M lval :=
  match as_num a with Some x => ret (znum (Qfloor x)) | None => fail EType end.
Definition lua_ceil (a : lval) : M lval :=
  match as_num a with Some x => ret (znum (Qceiling x)) | None => fail EType end.
Definition lua_concat (a b : lval) : M lval :=
  match a, b with
  | LStr (BStr x), LStr (BStr y) => ret (LStr (BStr (x ++ y)))
  | _, _ => fail EUnsupported
  end.

(* ------------------------------------------------------------------ commands *)
Inductive cmd := GET | SET | SETEX | DEL | INCRBY | EXPIRE | EXISTS.

(* a Lua value as a command argument: strings as they are, integral numbers as numerals *)
Definition to_arg (v : lval) : res bulk :=
  match v with
  | LStr b => Ok b
  | LNum q => if q_integral q then Ok (BInt (q_to_z q)) else Err EUnsupported
  | _ => Err EArgs
  end.

Fixpoint to_args (vs : list lval) : res (list bulk) :=
  match vs with
  | [] => Ok []
  | v :: vs' => match to_arg v, to_args vs' with
                | Ok b, Ok bs => Ok (b :: bs)
                | Err e, _ => Err e
                | _, Err e => Err e
                end
  end.

Definition upper_ascii (c : ascii) : ascii :=
  let n := nat_of_ascii c in
  if (Nat.leb 97 n && Nat.leb n 122)%bool then ascii_of_nat (n - 32) else c.
Fixpoint upper (s : string) : string :=
  match s with EmptyString => EmptyString | String c s' => String (upper_ascii c) (upper s') end.

(* SET options *)
Record setopts := mkSO { so_nx : bool; so_xx : bool; so_ttl : option Z (* ms *) }.

Fixpoint parse_setopts (o : setopts) (args : list bulk) : res setopts :=
  match args with
  | [] => Ok o
  | BStr w :: rest =>
    let w := upper w in
    if String.eqb w "NX" then parse_setopts (mkSO true (so_xx o) (so_ttl o)) rest
    else if String.eqb w "XX" then parse_setopts (mkSO (so_nx o) true (so_ttl o)) rest
    else if String.eqb w "PX" then
      match rest with
      | BInt n :: rest' => if n <=? 0 then Err EExpire
                           else parse_setopts (mkSO (so_nx o) (so_xx o) (Some n)) rest'
      | BStr _ :: _ => Err ENotInt
      | [] => Err EArgs
      end
    else if String.eqb w "EX" then
      match rest with
      | BInt n :: rest' => if n <=? 0 then Err EExpire
                           else parse_setopts (mkSO (so_nx o) (so_xx o) (Some (n * 1000))) rest'
      | BStr _ :: _ => Err ENotInt
      | [] => Err EArgs
      end
    else Err EArgs
  | BInt _ :: _ => Err EArgs
  end.

Definition exp_after (st : rstate) (ttl : option Z) : option Z :=
  match ttl with Some ms => Some (rnow st + ms) | None => None end.

(* one Redis command on the store; the reply is already converted to a Lua value
   (nil bulk -> false, integer -> number, status -> {ok=..}) *)
Definition exec (c : cmd) (args : list bulk) (st : rstate) : res lval * rstate :=
  match c, args with
  | GET, [k] =>
    (Ok match lookup st k with Some e => LStr (evalue e) | None => LBool false end, st)
  | SET, k :: v :: opts =>
    match parse_setopts (mkSO false false None) opts with
    | Err e => (Err e, st)
    | Ok o =>
      if (so_nx o && so_xx o)%bool then (Err EArgs, st) else
      let present := match lookup st k with Some _ => true | None => false end in
      if (so_nx o && present)%bool then (Ok (LBool false), st)
      else if (so_xx o && negb present)%bool then (Ok (LBool false), st)
      else (Ok (LStatus "OK"), store_put st k (mkEntry v (exp_after st (so_ttl o))))
    end
  | SETEX, [k; BInt ttl; v] =>
    if ttl <=? 0 then (Err EExpire, st)
    else (Ok (LStatus "OK"), store_put st k (mkEntry v (Some (rnow st + ttl * 1000))))
  | SETEX, [_; BStr _; _] => (Err ENotInt, st)
  | DEL, [k] =>
    match lookup st k with
    | Some _ => (Ok (znum 1), store_del st k)
    | None => (Ok (znum 0), st)
    end
  | EXISTS, [k] =>
    (Ok (znum match lookup st k with Some _ => 1 | None => 0 end), st)
  | INCRBY, [k; BInt d] =>
    match lookup st k with
    | Some (mkEntry (BInt v) ex) =>
      (Ok (znum (v + d)), store_put st k (mkEntry (BInt (v + d)) ex))   (* TTL kept *)
    | Some (mkEntry (BStr _) _) => (Err ENotInt, st)
    | None => (Ok (znum d), store_put st k (mkEntry (BInt d) None))
    end
  | INCRBY, [_; BStr _] => (Err ENotInt, st)
  | EXPIRE, [k; BInt secs] =>
    match lookup st k with
    | Some e =>
      if secs <=? 0 then (Ok (znum 1), store_del st k)              (* expires at once *)
      else (Ok (znum 1), store_put st k (mkEntry (evalue e) (Some (rnow st + secs * 1000))))
    | None => (Ok (znum 0), st)
    end
  | EXPIRE, [_; BStr _] => (Err ENotInt, st)
  | _, _ => (Err EArgs, st)
  end.

(* redis.call: an error reply aborts the script *)
Definition redis_call (c : cmd) (vs : list lval) : M lval :=
  fun st => match to_args vs with
            | Err e => (Err e, st)
            | Ok args => exec c args st
            end.

(* redis.pcall: an error reply becomes a value (miniredis pushes nil; real Redis an
   {err=..} table - neither is truthy-compatible, so the result is only allowed to be
   discarded or tested with `not`) *)
Definition redis_pcall (c : cmd) (vs : list lval) : M lval :=
  fun st => match redis_call c vs st with
            | (Err _, st') => (Ok LNil, st')
            | r => r
            end.

(* ------------------------------------------------------------------ EVAL *)
Inductive reply :=
| RNil                       (* nil bulk: go-redis reports redis.Nil *)
| RInt (z : Z)
| RBulk (b : bulk)
| RStatus (s : string)
| RErr (e : err).

(* conversion of the script's return value to a Redis reply *)
Definition to_reply (v : lval) : reply :=
  match v with
  | LNil | LBool false => RNil
  | LBool true => RInt 1
  | LNum q => RInt (Z.quot (Qnum q) (Zpos (Qden q)))     (* truncated *)
  | LStr b => RBulk b
  | LStatus s => RStatus s
  end.

Definition eval (script : list lval -> list lval -> M lval) (keys args : list bulk)
                (st : rstate) : reply * rstate :=
  match script (map LStr keys) (map LStr args) st with
  | (Ok v, st') => (to_reply v, st')
  | (Err e, st') => (RErr e, st')
  end.
