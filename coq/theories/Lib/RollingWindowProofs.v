(* Proofs about the shared RollingWindow model (Lib/RollingWindow.v):
   Reduce returns, bucket by bucket, exactly the values added during the last
   `size` interval indices - for every size >= 1, interval > 0, creation time and
   every history of adds at non-decreasing times.  Used by C16, C01, C02. *)
From Coq Require Import List ZArith Bool Lia Arith PeanoNat.
From GZ Require Import Lib.RollingWindow Lib.RollingWindowSpec.
Import ListNotations.
Open Scope Z_scope.

(* ------------------------------------------------------------------ *)
(* lists                                                               *)

Lemma set_nth_length : forall {A} (l : list A) i x, length (set_nth i x l) = length l.
Proof.
  induction l as [|y l IH]; intros i x; destruct i; simpl; auto.
Qed.

Lemma nth_set_nth_eq : forall {A} (l : list A) i x d,
  (i < length l)%nat -> nth i (set_nth i x l) d = x.
Proof.
  induction l as [|y l IH]; intros i x d Hi; simpl in Hi; [lia|].
  destruct i; simpl; [reflexivity|]. apply IH. lia.
Qed.

Lemma nth_set_nth_neq : forall {A} (l : list A) i j x d,
  i <> j -> nth j (set_nth i x l) d = nth j l d.
Proof.
  induction l as [|y l IH]; intros i j x d Hij; destruct i; destruct j; simpl; auto; try lia.
Qed.

Lemma nth_repeat_nil : forall {A} n i, nth i (repeat (@nil A) n) [] = [].
Proof.
  induction n as [|n IH]; intros i; destruct i; simpl; auto.
Qed.

Lemma last_cons_default : forall {A} (l : list A) a d, last (a :: l) d = last l a.
Proof.
  induction l as [|b l IH]; intros a d; [reflexivity|].
  change (last (a :: b :: l) d) with (last (b :: l) d).
  rewrite (IH b d), (IH b a). reflexivity.
Qed.

(* ------------------------------------------------------------------ *)
(* nat modulo with a variable modulus                                   *)

Lemma mod_window_neq : forall n a i j,
  (0 < n -> i < j -> j - i < n -> (a + i) mod n <> (a + j) mod n)%nat.
Proof.
  intros n a i j Hn Hij Hd Heq.
  pose proof (Nat.div_mod_eq (a + i) n) as E1.
  pose proof (Nat.div_mod_eq (a + j) n) as E2.
  rewrite Heq in E1.
  remember ((a + i) / n)%nat as q1. remember ((a + j) / n)%nat as q2.
  remember ((a + j) mod n)%nat as r.
  destruct (le_lt_dec q2 q1) as [Hq|Hq]; nia.
Qed.

Lemma mod_add_self : forall n a, (0 < n -> (a + n) mod n = a mod n)%nat.
Proof.
  intros n a Hn. replace (a + n)%nat with (a + 1 * n)%nat by lia.
  apply Nat.mod_add. lia.
Qed.

(* ------------------------------------------------------------------ *)
(* rw_reset                                                             *)

Lemma reset_length : forall size off span b, length (rw_reset size off span b) = length b.
Proof.
  induction span as [|k IH]; intros b; simpl; [reflexivity|].
  rewrite set_nth_length. apply IH.
Qed.

Lemma reset_hit : forall size off span b i,
  (0 < size)%nat -> length b = size -> (1 <= i <= span)%nat ->
  nth ((off + i) mod size)%nat (rw_reset size off span b) [] = [].
Proof.
  induction span as [|k IH]; intros b i Hs Hl Hi; [lia|].
  cbn [rw_reset].
  destruct (Nat.eq_dec ((off + S k) mod size) ((off + i) mod size)) as [E|E].
  - rewrite E. apply nth_set_nth_eq. rewrite reset_length, Hl.
    apply Nat.mod_upper_bound. lia.
  - rewrite nth_set_nth_neq by exact E.
    apply IH; auto.
    assert (i <> S k) by (intro; subst; congruence). lia.
Qed.

Lemma reset_miss : forall size off span b p,
  (forall i, (1 <= i <= span)%nat -> (off + i) mod size <> p)%nat ->
  nth p (rw_reset size off span b) [] = nth p b [].
Proof.
  induction span as [|k IH]; intros b p Hm; [reflexivity|].
  cbn [rw_reset].
  rewrite nth_set_nth_neq by (apply Hm; lia).
  apply IH. intros i Hi. apply Hm. lia.
Qed.

(* ------------------------------------------------------------------ *)
(* time arithmetic                                                      *)

Lemma idx_lower : forall t0 iv t, 0 < iv -> t0 + rw_idx t0 iv t * iv <= t.
Proof.
  intros t0 iv t Hiv. unfold rw_idx.
  pose proof (Z.mul_div_le (t - t0) iv Hiv). lia.
Qed.

Lemma idx_mono : forall t0 iv t t', 0 < iv -> t <= t' -> rw_idx t0 iv t <= rw_idx t0 iv t'.
Proof.
  intros t0 iv t t' Hiv Ht. unfold rw_idx. apply Z.div_le_mono; lia.
Qed.

Lemma quot_since : forall t0 iv l t, 0 < iv -> t0 + l * iv <= t ->
  Z.quot (t - (t0 + l * iv)) iv = rw_idx t0 iv t - l.
Proof.
  intros t0 iv l t Hiv Ht. unfold rw_idx.
  rewrite Z.quot_div_nonneg by lia.
  replace (t - (t0 + l * iv)) with ((t - t0) + (- l) * iv) by lia.
  rewrite Z.div_add by lia. lia.
Qed.

Lemma align_since : forall t0 iv l t, 0 < iv -> t0 + l * iv <= t ->
  t - Z.rem (t - (t0 + l * iv)) iv = t0 + rw_idx t0 iv t * iv.
Proof.
  intros t0 iv l t Hiv Ht. unfold rw_idx.
  rewrite Z.rem_mod_nonneg by lia.
  replace (t - (t0 + l * iv)) with ((t - t0) + (- l) * iv) by lia.
  rewrite Z.mod_add by lia.
  pose proof (Z.div_mod (t - t0) iv ltac:(lia)). lia.
Qed.

(* ------------------------------------------------------------------ *)
(* histories                                                            *)

Lemma last_time_snoc : forall t0 h p, rw_last_time t0 (h ++ [p]) = fst p.
Proof.
  intros t0 h p. unfold rw_last_time. rewrite map_app. simpl. apply last_last.
Qed.

Lemma last_time_cons : forall t0 p h, rw_last_time t0 (p :: h) = rw_last_time (fst p) h.
Proof.
  intros t0 p h. unfold rw_last_time. simpl map. apply last_cons_default.
Qed.

(* every time of a monotone history lies between its start and its last time *)
Lemma mono_bounds : forall h t, rw_mono t h ->
  t <= rw_last_time t h /\ Forall (fun p => t <= fst p <= rw_last_time t h) h.
Proof.
  induction h as [|p h IH]; intros t Hm.
  - unfold rw_last_time. simpl. split; [lia|constructor].
  - destruct Hm as [Htp Hm]. rewrite last_time_cons.
    destruct (IH _ Hm) as [Hl Hall]. split; [lia|].
    constructor; [lia|].
    eapply Forall_impl; [|exact Hall]. intros q Hq. simpl in Hq. lia.
Qed.

Lemma mono_snoc : forall h t p, rw_mono t (h ++ [p]) <-> rw_mono t h /\ rw_last_time t h <= fst p.
Proof.
  induction h as [|q h IH]; intros t p.
  - unfold rw_last_time. simpl. tauto.
  - rewrite last_time_cons. simpl. rewrite IH. tauto.
Qed.

Lemma vals_at_snoc : forall t0 iv h t v i,
  rw_vals_at t0 iv (h ++ [(t, v)]) i =
  rw_vals_at t0 iv h i ++ (if rw_idx t0 iv t =? i then [v] else []).
Proof.
  intros t0 iv h t v i. unfold rw_vals_at. rewrite filter_app, map_app. simpl.
  destruct (rw_idx t0 iv t =? i); reflexivity.
Qed.

Lemma vals_at_none : forall t0 iv h i,
  Forall (fun p => rw_idx t0 iv (fst p) <> i) h -> rw_vals_at t0 iv h i = [].
Proof.
  intros t0 iv h i Hall. unfold rw_vals_at.
  induction Hall as [|p h Hp Hall IH]; [reflexivity|].
  simpl. destruct (Z.eqb_spec (rw_idx t0 iv (fst p)) i) as [E|E]; [contradiction|]. exact IH.
Qed.

Lemma vals_at_above : forall t0 iv h T i, 0 < iv ->
  Forall (fun p => t0 <= fst p <= T) h -> rw_idx t0 iv T < i -> rw_vals_at t0 iv h i = [].
Proof.
  intros t0 iv h T i Hiv Hall Hi. apply vals_at_none.
  eapply Forall_impl; [|exact Hall]. intros p Hp. simpl in Hp.
  pose proof (idx_mono t0 iv (fst p) T Hiv ltac:(lia)). lia.
Qed.

(* ------------------------------------------------------------------ *)
(* the invariant                                                        *)

Record winv (size : nat) (iv t0 : Z) (ig : bool) (h : list (Z * Z)) (l : Z) (w : rw) : Prop :=
  { wi_size : rsize w = size;
    wi_iv : rinterval w = iv;
    wi_ig : rignore w = ig;
    wi_len : length (rbuckets w) = size;
    wi_off : (roffset w < size)%nat;
    wi_last : rlast w = t0 + l * iv;
    wi_bkt : forall j, (j < size)%nat ->
      nth ((roffset w + size - j) mod size)%nat (rbuckets w) [] =
      rw_vals_at t0 iv h (l - Z.of_nat j) }.

(* span(), given the invariant: the number of boundaries crossed, clipped *)
Lemma span_eq : forall size iv t0 ig h l w t,
  0 < iv -> winv size iv t0 ig h l w -> t0 + l * iv <= t ->
  0 <= rw_idx t0 iv t - l /\
  rw_span w t = (if rw_idx t0 iv t - l <? Z.of_nat size
                 then Z.to_nat (rw_idx t0 iv t - l) else size).
Proof.
  intros size iv t0 ig h l w t Hiv I Ht.
  assert (Hge : 0 <= rw_idx t0 iv t - l).
  { unfold rw_idx. assert (l <= (t - t0) / iv); [|lia].
    apply Z.div_le_lower_bound; lia. }
  split; [exact Hge|].
  unfold rw_span. rewrite (wi_last _ _ _ _ _ _ _ I), (wi_iv _ _ _ _ _ _ _ I), (wi_size _ _ _ _ _ _ _ I).
  rewrite quot_since by assumption.
  destruct (Z.leb_spec 0 (rw_idx t0 iv t - l)); [|lia]. simpl. reflexivity.
Qed.

(* updateOffset re-aligns the window to the interval index of `t` *)
Lemma update_inv : forall size iv t0 ig h l w t,
  0 < iv -> winv size iv t0 ig h l w -> t0 + l * iv <= t ->
  (forall i, l < i -> rw_vals_at t0 iv h i = []) ->
  winv size iv t0 ig h (rw_idx t0 iv t) (rw_update w t).
Proof.
  intros size iv t0 ig h l w t Hiv I Ht Habove.
  destruct (span_eq _ _ _ _ _ _ _ _ Hiv I Ht) as [Hge Hspan].
  pose proof (wi_off _ _ _ _ _ _ _ I) as Hoff.
  pose proof (wi_len _ _ _ _ _ _ _ I) as Hlen.
  pose proof (wi_size _ _ _ _ _ _ _ I) as Hsize.
  set (N := rw_idx t0 iv t) in *.
  unfold rw_update. destruct (rw_span w t) as [|sp'] eqn:Esp.
  - (* no boundary crossed: N = l *)
    assert (N = l).
    { destruct (Z.ltb_spec (N - l) (Z.of_nat size)); lia. }
    subst l. exact I.
  - set (sp := S sp') in *.
    assert (Hsp : (1 <= sp <= size)%nat).
    { destruct (Z.ltb_spec (N - l) (Z.of_nat size)); lia. }
    assert (Hcase : (Z.of_nat sp = N - l /\ (sp < size)%nat) \/ (sp = size /\ Z.of_nat size <= N - l)).
    { destruct (Z.ltb_spec (N - l) (Z.of_nat size)); [left|right]; lia. }
    constructor; cbn [rsize rinterval rignore rbuckets roffset rlast].
    + exact Hsize.
    + exact (wi_iv _ _ _ _ _ _ _ I).
    + exact (wi_ig _ _ _ _ _ _ _ I).
    + rewrite reset_length. exact Hlen.
    + rewrite Hsize. apply Nat.mod_upper_bound. lia.
    + rewrite (wi_last _ _ _ _ _ _ _ I), (wi_iv _ _ _ _ _ _ _ I).
      apply align_since; assumption.
    + intros j Hj. rewrite Hsize.
      replace ((roffset w + sp) mod size + size - j)%nat
        with ((roffset w + sp) mod size + (size - j))%nat by lia.
      rewrite Nat.add_mod_idemp_l by lia.
      destruct (lt_dec j sp) as [Hjs|Hjs].
      * (* a bucket that was just reset: its interval is newer than anything added *)
        replace (roffset w + sp + (size - j))%nat with (roffset w + (sp - j) + size)%nat by lia.
        rewrite mod_add_self by lia.
        rewrite reset_hit by (try assumption; lia).
        symmetry. apply Habove. lia.
      * (* an older bucket: untouched *)
        destruct Hcase as [[Hd Hlt]|[Hd _]]; [|lia].
        replace (roffset w + sp + (size - j))%nat with (roffset w + (size - (j - sp)))%nat by lia.
        rewrite reset_miss.
        -- replace (roffset w + (size - (j - sp)))%nat with (roffset w + size - (j - sp))%nat by lia.
           rewrite (wi_bkt _ _ _ _ _ _ _ I) by lia.
           f_equal. lia.
        -- intros i Hi. apply mod_window_neq; lia.
Qed.

(* Add *)
Lemma add_inv : forall size iv t0 ig h l w t v,
  0 < iv -> winv size iv t0 ig h l w -> t0 + l * iv <= t ->
  (forall i, l < i -> rw_vals_at t0 iv h i = []) ->
  winv size iv t0 ig (h ++ [(t, v)]) (rw_idx t0 iv t) (rw_add w t v).
Proof.
  intros size iv t0 ig h l w t v Hiv I Ht Habove.
  pose proof (update_inv _ _ _ _ _ _ _ _ Hiv I Ht Habove) as U.
  set (N := rw_idx t0 iv t) in *.
  unfold rw_add. set (w' := rw_update w t) in *.
  pose proof (wi_off _ _ _ _ _ _ _ U) as Hoff.
  pose proof (wi_len _ _ _ _ _ _ _ U) as Hlen.
  pose proof (wi_size _ _ _ _ _ _ _ U) as Hsize.
  assert (Hpos : (roffset w' mod rsize w' = roffset w')%nat).
  { rewrite Hsize. apply Nat.mod_small. exact Hoff. }
  rewrite Hpos.
  constructor; cbn [rsize rinterval rignore rbuckets roffset rlast].
  - exact Hsize.
  - exact (wi_iv _ _ _ _ _ _ _ U).
  - exact (wi_ig _ _ _ _ _ _ _ U).
  - rewrite set_nth_length. exact Hlen.
  - exact Hoff.
  - exact (wi_last _ _ _ _ _ _ _ U).
  - intros j Hj. rewrite vals_at_snoc. fold N.
    destruct (Nat.eq_dec j 0) as [Hj0|Hj0].
    + subst j. rewrite Nat.sub_0_r, mod_add_self by lia.
      rewrite Nat.mod_small by exact Hoff.
      rewrite nth_set_nth_eq by lia.
      pose proof (wi_bkt _ _ _ _ _ _ _ U 0%nat ltac:(lia)) as B.
      rewrite Nat.sub_0_r, mod_add_self, Nat.mod_small in B by lia.
      rewrite B. simpl Z.of_nat. rewrite Z.sub_0_r, Z.eqb_refl. reflexivity.
    + rewrite nth_set_nth_neq.
      * rewrite (wi_bkt _ _ _ _ _ _ _ U) by exact Hj.
        destruct (Z.eqb_spec N (N - Z.of_nat j)); [lia|]. rewrite app_nil_r. reflexivity.
      * replace (roffset w') with ((roffset w' + size) mod size)%nat at 1
          by (rewrite mod_add_self by lia; apply Nat.mod_small; exact Hoff).
        replace (roffset w' + size - j)%nat with (roffset w' + (size - j))%nat by lia.
        apply not_eq_sym. apply mod_window_neq; lia.
Qed.

(* the window after any monotone history *)
Lemma run_inv : forall size iv t0 ig h,
  (1 <= size)%nat -> 0 < iv -> rw_mono t0 h ->
  winv size iv t0 ig h (rw_idx t0 iv (rw_last_time t0 h)) (rw_run (rw_new size iv t0 ig) h).
Proof.
  intros size iv t0 ig h Hs Hiv. induction h as [|p h IH] using rev_ind; intros Hm.
  - unfold rw_last_time, rw_run. simpl.
    assert (E : rw_idx t0 iv t0 = 0) by (unfold rw_idx; rewrite Z.sub_diag; apply Z.div_0_l; lia).
    rewrite E. constructor; cbn [rw_new rsize rinterval rignore rbuckets roffset rlast];
      [reflexivity|reflexivity|reflexivity|apply repeat_length|lia|lia|
       intros j Hj; rewrite nth_repeat_nil; reflexivity].
  - apply mono_snoc in Hm. destruct Hm as [Hm Hlast].
    specialize (IH Hm). destruct p as [t v]. simpl in Hlast.
    unfold rw_run. rewrite fold_left_app. simpl. fold (rw_run (rw_new size iv t0 ig) h).
    rewrite last_time_snoc. simpl fst.
    destruct (mono_bounds _ _ Hm) as [Hge Hall].
    apply add_inv with (l := rw_idx t0 iv (rw_last_time t0 h)); auto.
    + pose proof (idx_lower t0 iv (rw_last_time t0 h) Hiv). lia.
    + intros i Hi. eapply vals_at_above; eauto.
Qed.

(* ------------------------------------------------------------------ *)
(* Reduce                                                               *)

Lemma reduce_inv : forall size iv t0 ig h l w now,
  (1 <= size)%nat -> 0 < iv -> winv size iv t0 ig h l w -> t0 + l * iv <= now ->
  rw_reduce w now =
  map (rw_vals_at t0 iv h)
      (zrange (rw_idx t0 iv now - Z.of_nat size + 1) (Z.min l (rw_upper ig (rw_idx t0 iv now)))).
Proof.
  intros size iv t0 ig h l w now Hs Hiv I Ht.
  destruct (span_eq _ _ _ _ _ _ _ _ Hiv I Ht) as [Hge Hspan].
  pose proof (wi_size _ _ _ _ _ _ _ I) as Hsize.
  set (N := rw_idx t0 iv now) in *.
  unfold rw_reduce, zrange. cbv zeta. rewrite (wi_ig _ _ _ _ _ _ _ I), Hsize, map_map.
  set (sp := rw_span w now) in *.
  assert (Hcase : (Z.of_nat sp = N - l /\ (sp < size)%nat) \/ (sp = size /\ Z.of_nat size <= N - l)).
  { destruct (Z.ltb_spec (N - l) (Z.of_nat size)); [left|right]; lia. }
  set (diff := match sp with
               | O => if ig then (size - 1)%nat else (size - sp)%nat
               | S _ => (size - sp)%nat
               end).
  assert (Ediff : (match sp, ig with
                   | O, true => (size - 1)%nat
                   | _, _ => (size - sp)%nat
                   end) = diff).
  { unfold diff. destruct sp; destruct ig; reflexivity. }
  assert (Hcount : Z.to_nat (Z.min l (rw_upper ig N) - (N - Z.of_nat size + 1) + 1) = diff).
  { unfold diff, rw_upper. destruct Hcase as [[Hd Hlt]|[Hd Hle]].
    - destruct sp; destruct ig; lia.
    - destruct sp; destruct ig; lia. }
  rewrite Hcount.
  apply map_ext_in. intros i Hi. apply in_seq in Hi.
  assert (Hid : (i < size - sp)%nat).
  { unfold diff in Hi. destruct sp; destruct ig; lia. }
  destruct Hcase as [[Hd Hlt]|[Hd _]]; [|lia].
  replace (roffset w + sp + 1 + i)%nat with (roffset w + size - (size - sp - 1 - i))%nat by lia.
  rewrite (wi_bkt _ _ _ _ _ _ _ I) by lia.
  f_equal. lia.
Qed.

(* Reduce returns bucket-wise exactly the values of the last `size` interval
   indices that can hold values: one bucket per index from idx(now)-size+1 to the
   index of the last add, the current index left out when it is to be ignored. *)
Theorem reduce_visits_last_size_intervals : forall (size : nat) (iv t0 : Z) (ig : bool)
    (h : list (Z * Z)) (now : Z),
  (1 <= size)%nat -> 0 < iv -> rw_mono t0 h -> rw_last_time t0 h <= now ->
  rw_reduce (rw_run (rw_new size iv t0 ig) h) now = rw_reduce_spec size iv t0 ig h now.
Proof.
  intros size iv t0 ig h now Hs Hiv Hm Hnow.
  unfold rw_reduce_spec.
  eapply reduce_inv; eauto using run_inv.
  pose proof (idx_lower t0 iv (rw_last_time t0 h) Hiv). lia.
Qed.

(* ------------------------------------------------------------------ *)
(* concatenation: the values of the window, in order                    *)

Lemma filter_none : forall {A} (f : A -> bool) l,
  (forall x, In x l -> f x = false) -> filter f l = [].
Proof.
  induction l as [|x l IH]; intros H; [reflexivity|].
  simpl. rewrite (H x (or_introl eq_refl)). apply IH. intros y Hy. apply H. right. exact Hy.
Qed.

Lemma vals_in_split : forall t0 iv h t lo hi, 0 < iv -> rw_mono t h -> lo <= hi ->
  rw_vals_in t0 iv h lo hi = rw_vals_at t0 iv h lo ++ rw_vals_in t0 iv h (lo + 1) hi.
Proof.
  intros t0 iv. induction h as [|p h IH]; intros t lo hi Hiv Hm Hlh; [reflexivity|].
  destruct Hm as [Htp Hm].
  unfold rw_vals_in, rw_vals_at in *. cbn [filter].
  set (ip := rw_idx t0 iv (fst p)).
  destruct (Z.lt_trichotomy ip lo) as [Hlt|[Heq|Hgt]].
  - (* before the range *)
    replace (lo <=? ip) with false by (symmetry; apply Z.leb_gt; lia).
    replace (ip =? lo) with false by (symmetry; apply Z.eqb_neq; lia).
    replace (lo + 1 <=? ip) with false by (symmetry; apply Z.leb_gt; lia).
    cbn [andb]. apply (IH (fst p)); assumption.
  - replace (lo <=? ip) with true by (symmetry; apply Z.leb_le; lia).
    replace (ip <=? hi) with true by (symmetry; apply Z.leb_le; lia).
    replace (ip =? lo) with true by (symmetry; apply Z.eqb_eq; lia).
    replace (lo + 1 <=? ip) with false by (symmetry; apply Z.leb_gt; lia).
    cbn [andb map app]. f_equal. apply (IH (fst p)); assumption.
  - (* p and everything after it is past index lo *)
    replace (lo <=? ip) with true by (symmetry; apply Z.leb_le; lia).
    replace (ip =? lo) with false by (symmetry; apply Z.eqb_neq; lia).
    replace (lo + 1 <=? ip) with true by (symmetry; apply Z.leb_le; lia).
    cbn [andb].
    destruct (mono_bounds _ _ Hm) as [_ Hall].
    assert (Hnone : filter (fun q => rw_idx t0 iv (fst q) =? lo) h = []).
    { apply filter_none. intros q Hq. rewrite Forall_forall in Hall.
      specialize (Hall q Hq). simpl in Hall.
      pose proof (idx_mono t0 iv (fst p) (fst q) Hiv ltac:(lia)).
      apply Z.eqb_neq. lia. }
    rewrite Hnone. cbn [map app].
    assert (Hsame : filter (fun q => (lo <=? rw_idx t0 iv (fst q)) && (rw_idx t0 iv (fst q) <=? hi)) h =
                    filter (fun q => (lo + 1 <=? rw_idx t0 iv (fst q)) && (rw_idx t0 iv (fst q) <=? hi)) h).
    { apply filter_ext_in. intros q Hq.
      rewrite Forall_forall in Hall. specialize (Hall q Hq). simpl in Hall.
      pose proof (idx_mono t0 iv (fst p) (fst q) Hiv ltac:(lia)).
      replace (lo <=? rw_idx t0 iv (fst q)) with true by (symmetry; apply Z.leb_le; lia).
      replace (lo + 1 <=? rw_idx t0 iv (fst q)) with true by (symmetry; apply Z.leb_le; lia).
      reflexivity. }
    rewrite Hsame. reflexivity.
Qed.

Lemma zrange_cons : forall lo hi, lo <= hi -> zrange lo hi = lo :: zrange (lo + 1) hi.
Proof.
  intros lo hi H. unfold zrange.
  replace (Z.to_nat (hi - lo + 1)) with (S (Z.to_nat (hi - (lo + 1) + 1))) by lia.
  cbn [seq map]. f_equal; [simpl; lia|].
  rewrite <- seq_shift, map_map. apply map_ext. intros i. lia.
Qed.

Lemma zrange_nil : forall lo hi, hi < lo -> zrange lo hi = [].
Proof.
  intros lo hi H. unfold zrange. replace (Z.to_nat (hi - lo + 1)) with 0%nat by lia. reflexivity.
Qed.

Lemma vals_in_empty : forall t0 iv h lo hi, hi < lo -> rw_vals_in t0 iv h lo hi = [].
Proof.
  intros t0 iv h lo hi H. unfold rw_vals_in.
  induction h as [|p h IH]; [reflexivity|]. simpl.
  destruct (Z.leb_spec lo (rw_idx t0 iv (fst p))); destruct (Z.leb_spec (rw_idx t0 iv (fst p)) hi);
    simpl; try lia; exact IH.
Qed.

Lemma concat_vals_at : forall t0 iv h t n lo hi, 0 < iv -> rw_mono t h ->
  Z.to_nat (hi - lo + 1) = n ->
  concat (map (rw_vals_at t0 iv h) (zrange lo hi)) = rw_vals_in t0 iv h lo hi.
Proof.
  intros t0 iv h t n. induction n as [|n IH]; intros lo hi Hiv Hm Hn.
  - rewrite zrange_nil, vals_in_empty by lia. reflexivity.
  - rewrite zrange_cons by lia. cbn [map concat].
    rewrite (vals_in_split t0 iv h t lo hi) by (try assumption; lia).
    f_equal. apply IH; try assumption. lia.
Qed.

Lemma vals_in_extend : forall t0 iv h lo hi hi',
  hi <= hi' -> Forall (fun p => rw_idx t0 iv (fst p) <= hi) h ->
  rw_vals_in t0 iv h lo hi = rw_vals_in t0 iv h lo hi'.
Proof.
  intros t0 iv h lo hi hi' Hle Hall. unfold rw_vals_in. f_equal.
  apply filter_ext_in. intros p Hp. rewrite Forall_forall in Hall. specialize (Hall p Hp).
  simpl in Hall. f_equal.
  replace (rw_idx t0 iv (fst p) <=? hi) with true by (symmetry; apply Z.leb_le; lia).
  symmetry. apply Z.leb_le. lia.
Qed.

(* Reduce hands out, in order, exactly the values added during the interval indices
   (idx(now) - size, idx(now)]  (without idx(now) itself when the current bucket is
   ignored). *)
Theorem reduce_concat_window : forall (size : nat) (iv t0 : Z) (ig : bool)
    (h : list (Z * Z)) (now : Z),
  (1 <= size)%nat -> 0 < iv -> rw_mono t0 h -> rw_last_time t0 h <= now ->
  concat (rw_reduce (rw_run (rw_new size iv t0 ig) h) now) =
  rw_vals_in t0 iv h (rw_idx t0 iv now - Z.of_nat size + 1) (rw_upper ig (rw_idx t0 iv now)).
Proof.
  intros size iv t0 ig h now Hs Hiv Hm Hnow.
  rewrite reduce_visits_last_size_intervals by assumption.
  unfold rw_reduce_spec.
  rewrite (concat_vals_at t0 iv h t0 _ _ _ Hiv Hm eq_refl).
  destruct (mono_bounds _ _ Hm) as [_ Hall].
  destruct (Z.min_spec (rw_idx t0 iv (rw_last_time t0 h)) (rw_upper ig (rw_idx t0 iv now)))
    as [[Hlt E]|[Hge E]]; rewrite E; [|reflexivity].
  apply vals_in_extend; [lia|].
  eapply Forall_impl; [|exact Hall]. intros p Hp. simpl in Hp. apply idx_mono; lia.
Qed.

(* ------------------------------------------------------------------ *)
(* folds (what the breaker and the shedder do with Reduce)              *)

(* folding bucket by bucket is folding over the concatenation *)
Lemma fold_buckets_concat : forall {B} (g : Z -> B -> B) (bs : list (list Z)) (a : B),
  fold_right (fun b acc => fold_right g acc b) a bs = fold_right g a (concat bs).
Proof.
  intros B g bs a. induction bs as [|b bs IH]; [reflexivity|].
  simpl. rewrite fold_right_app, IH. reflexivity.
Qed.

(* any quantity accumulated per bucket (a monoid homomorphism out of the list of
   added values: sums, counts, the breaker's {Sum, Success, Failure, Drop}) and
   then combined over Reduce is that quantity over the values of the window *)
Theorem reduce_fold_window : forall {B} (g : Z -> B -> B) (a : B) (size : nat) (iv t0 : Z)
    (ig : bool) (h : list (Z * Z)) (now : Z),
  (1 <= size)%nat -> 0 < iv -> rw_mono t0 h -> rw_last_time t0 h <= now ->
  fold_right (fun b acc => fold_right g acc b) a (rw_reduce (rw_run (rw_new size iv t0 ig) h) now) =
  fold_right g a
    (rw_vals_in t0 iv h (rw_idx t0 iv now - Z.of_nat size + 1) (rw_upper ig (rw_idx t0 iv now))).
Proof.
  intros B g a size iv t0 ig h now Hs Hiv Hm Hnow.
  rewrite fold_buckets_concat, reduce_concat_window by assumption. reflexivity.
Qed.

Definition zsum (l : list Z) : Z := fold_right Z.add 0 l.

Lemma zsum_app : forall l1 l2, zsum (l1 ++ l2) = zsum l1 + zsum l2.
Proof.
  induction l1 as [|x l1 IH]; intros l2; simpl; [reflexivity|]. rewrite IH. lia.
Qed.

Lemma zsum_concat : forall bs, zsum (map zsum bs) = zsum (concat bs).
Proof.
  induction bs as [|b bs IH]; [reflexivity|]. simpl. rewrite zsum_app, IH. reflexivity.
Qed.

(* Sum over the buckets of Bucket.Sum = sum of the values added in the window;
   sum of Bucket.Count = their number *)
Theorem reduce_sum_window : forall (size : nat) (iv t0 : Z) (ig : bool) (h : list (Z * Z)) (now : Z),
  (1 <= size)%nat -> 0 < iv -> rw_mono t0 h -> rw_last_time t0 h <= now ->
  let w := rw_run (rw_new size iv t0 ig) h in
  let win := rw_vals_in t0 iv h (rw_idx t0 iv now - Z.of_nat size + 1) (rw_upper ig (rw_idx t0 iv now)) in
  zsum (map zsum (rw_reduce w now)) = zsum win /\
  zsum (map (fun b => Z.of_nat (length b)) (rw_reduce w now)) = Z.of_nat (length win).
Proof.
  intros size iv t0 ig h now Hs Hiv Hm Hnow w win.
  pose proof (reduce_concat_window size iv t0 ig h now Hs Hiv Hm Hnow) as E.
  fold w in E. fold win in E. rewrite <- E. split.
  - apply zsum_concat.
  - clear E. induction (rw_reduce w now) as [|b bs IH]; [reflexivity|].
    simpl. rewrite app_length, Nat2Z.inj_add. unfold zsum in IH. unfold zsum. simpl. rewrite <- IH.
    reflexivity.
Qed.

(* the state is never touched by Reduce and time only enters through `now`:
   an expired window (no add for `size` intervals or more) reduces to nothing *)
Theorem reduce_empty_after_size_intervals : forall (size : nat) (iv t0 : Z) (ig : bool)
    (h : list (Z * Z)) (now : Z),
  (1 <= size)%nat -> 0 < iv -> rw_mono t0 h -> rw_last_time t0 h <= now ->
  rw_idx t0 iv (rw_last_time t0 h) + Z.of_nat size <= rw_idx t0 iv now ->
  rw_reduce (rw_run (rw_new size iv t0 ig) h) now = [].
Proof.
  intros size iv t0 ig h now Hs Hiv Hm Hnow Hexp.
  rewrite reduce_visits_last_size_intervals by assumption.
  unfold rw_reduce_spec. rewrite zrange_nil; [reflexivity|]. lia.
Qed.

Print Assumptions reduce_visits_last_size_intervals.
Print Assumptions reduce_concat_window.
Print Assumptions reduce_fold_window.
Print Assumptions reduce_sum_window.
