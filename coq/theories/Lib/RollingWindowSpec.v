(* Specification vocabulary for the shared RollingWindow model (definitions only;
   the theorems are in Lib/RollingWindowProofs.v).

   A history is the list of (time, value) pairs handed to rw_add, oldest first.
   With t0 the creation time of the window and iv its interval, the interval index
   of a time t is  idx t0 iv t = (t - t0) / iv. *)
From Coq Require Import List ZArith Bool.
From GZ Require Import Lib.RollingWindow.
Import ListNotations.
Open Scope Z_scope.

Definition rw_idx (t0 iv t : Z) : Z := (t - t0) / iv.

(* the window after a history of adds *)
Definition rw_run (w : rw) (h : list (Z * Z)) : rw :=
  fold_left (fun w p => rw_add w (fst p) (snd p)) h w.

(* times are non-decreasing and not before t *)
Fixpoint rw_mono (t : Z) (h : list (Z * Z)) : Prop :=
  match h with
  | [] => True
  | p :: h' => t <= fst p /\ rw_mono (fst p) h'
  end.

Fixpoint rw_monob (t : Z) (h : list (Z * Z)) : bool :=
  match h with
  | [] => true
  | p :: h' => (t <=? fst p) && rw_monob (fst p) h'
  end.

(* time of the last add (t0 when there is none) *)
Definition rw_last_time (t0 : Z) (h : list (Z * Z)) : Z := last (map fst h) t0.

(* the values added during interval i, in order *)
Definition rw_vals_at (t0 iv : Z) (h : list (Z * Z)) (i : Z) : list Z :=
  map snd (filter (fun p => rw_idx t0 iv (fst p) =? i) h).

(* the values added during intervals lo..hi (inclusive), in order *)
Definition rw_vals_in (t0 iv : Z) (h : list (Z * Z)) (lo hi : Z) : list Z :=
  map snd (filter (fun p => (lo <=? rw_idx t0 iv (fst p)) && (rw_idx t0 iv (fst p) <=? hi)) h).

(* lo, lo+1, ..., hi  (empty when hi < lo) *)
Definition zrange (lo hi : Z) : list Z :=
  map (fun i => lo + Z.of_nat i) (seq 0 (Z.to_nat (hi - lo + 1))).

(* last interval index Reduce may visit: the current one, or the one before when
   the current bucket is ignored *)
Definition rw_upper (ignore : bool) (n : Z) : Z := if ignore then n - 1 else n.

(* Reduce, specified: one bucket per interval index from idx(now)-size+1 up to the
   index of the last add (buckets of later intervals were never written and are
   skipped), without the current interval when it is ignored. *)
Definition rw_reduce_spec (size : nat) (iv t0 : Z) (ignore : bool) (h : list (Z * Z)) (now : Z)
  : list (list Z) :=
  let n := rw_idx t0 iv now in
  let l := rw_idx t0 iv (rw_last_time t0 h) in
  map (rw_vals_at t0 iv h) (zrange (n - Z.of_nat size + 1) (Z.min l (rw_upper ignore n))).
