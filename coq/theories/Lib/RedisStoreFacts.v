(* Lemmas about Lib/RedisStore.v (association-list store, lazy expiry). *)
From Coq Require Import List ZArith String QArith Qround Bool Lia.
From GZ Require Import Lib.RedisStore.
Import ListNotations.
Open Scope Z_scope.

Lemma bulk_eqb_eq a b : bulk_eqb a b = true <-> a = b.
Proof.
  destruct a, b; cbn; split; intro H; try discriminate; try congruence.
  - apply Z.eqb_eq in H. congruence.
  - apply Z.eqb_eq. congruence.
  - apply String.eqb_eq in H. congruence.
  - apply String.eqb_eq. congruence.
Qed.

Lemma bulk_eqb_refl a : bulk_eqb a a = true.
Proof. apply bulk_eqb_eq. reflexivity. Qed.

Lemma bulk_eqb_neq a b : bulk_eqb a b = false <-> a <> b.
Proof.
  split; intro H.
  - intro E. apply bulk_eqb_eq in E. congruence.
  - destruct (bulk_eqb a b) eqn:E; [apply bulk_eqb_eq in E; contradiction | reflexivity].
Qed.

Lemma bulk_eqb_sym a b : bulk_eqb a b = bulk_eqb b a.
Proof.
  destruct (bulk_eqb a b) eqn:E.
  - apply bulk_eqb_eq in E. subst. symmetry. apply bulk_eqb_refl.
  - symmetry. apply bulk_eqb_neq. apply bulk_eqb_neq in E. congruence.
Qed.

Lemma find_put_same k e d : find k (put k e d) = Some e.
Proof.
  induction d as [|[k' e'] d IH]; cbn.
  - now rewrite bulk_eqb_refl.
  - destruct (bulk_eqb k k') eqn:E; cbn.
    + now rewrite bulk_eqb_refl.
    + now rewrite E.
Qed.

Lemma find_put_other k k' e d : bulk_eqb k' k = false -> find k' (put k e d) = find k' d.
Proof.
  intro N. induction d as [|[k2 e2] d IH]; cbn.
  - now rewrite N.
  - destruct (bulk_eqb k k2) eqn:E; cbn.
    + apply bulk_eqb_eq in E. subst k2. now rewrite N.
    + destruct (bulk_eqb k' k2); auto.
Qed.

Lemma find_remove_same k d : find k (remove k d) = None.
Proof.
  induction d as [|[k' e'] d IH]; cbn; auto.
  destruct (bulk_eqb k k') eqn:E; cbn; auto. now rewrite E.
Qed.

Lemma find_remove_other k k' d : bulk_eqb k' k = false -> find k' (remove k d) = find k' d.
Proof.
  intro N. induction d as [|[k2 e2] d IH]; cbn; auto.
  destruct (bulk_eqb k k2) eqn:E; cbn.
  - apply bulk_eqb_eq in E. subst k2. now rewrite N.
  - destruct (bulk_eqb k' k2); auto.
Qed.

Lemma lookup_put_same st k e :
  lookup (store_put st k e) k = if live (rnow st) e then Some e else None.
Proof. unfold lookup, store_put; cbn. now rewrite find_put_same. Qed.

Lemma lookup_put_other st k k' e : bulk_eqb k' k = false ->
  lookup (store_put st k e) k' = lookup st k'.
Proof. intro N. unfold lookup, store_put; cbn. now rewrite find_put_other. Qed.

Lemma lookup_del_same st k : lookup (store_del st k) k = None.
Proof. unfold lookup, store_del; cbn. now rewrite find_remove_same. Qed.

Lemma lookup_del_other st k k' : bulk_eqb k' k = false ->
  lookup (store_del st k) k' = lookup st k'.
Proof. intro N. unfold lookup, store_del; cbn. now rewrite find_remove_other. Qed.

Lemma lookup_live st k e : lookup st k = Some e -> live (rnow st) e = true.
Proof.
  unfold lookup. destruct (find k (rdata st)) as [e'|]; intro H; [|discriminate].
  destruct (live (rnow st) e') eqn:L; [|discriminate]. inversion H; subst. exact L.
Qed.

(* integers as Lua numbers *)
Lemma q_integral_inject z : q_integral (inject_Z z) = true.
Proof. unfold q_integral, inject_Z; cbn. rewrite Z.mod_1_r. reflexivity. Qed.

Lemma q_to_z_inject z : q_to_z (inject_Z z) = z.
Proof. unfold q_to_z, inject_Z; cbn. apply Z.div_1_r. Qed.

Lemma to_arg_znum z : to_arg (znum z) = Ok (BInt z).
Proof. unfold to_arg, znum. now rewrite q_integral_inject, q_to_z_inject. Qed.

Lemma Qeq_bool_inject a b : Qeq_bool (inject_Z a) (inject_Z b) = (a =? b).
Proof.
  unfold Qeq_bool, inject_Z; cbn. rewrite !Z.mul_1_r.
  apply eq_true_iff_eq. rewrite <- Zeq_is_eq_bool, Z.eqb_eq. reflexivity.
Qed.

Lemma Qle_bool_inject a b : Qle_bool (inject_Z a) (inject_Z b) = (a <=? b).
Proof. unfold Qle_bool, inject_Z; cbn. now rewrite !Z.mul_1_r. Qed.

Lemma qlt_inject a b : qlt (inject_Z a) (inject_Z b) = (a <? b).
Proof. unfold qlt. rewrite Qle_bool_inject. rewrite Z.ltb_antisym. reflexivity. Qed.

(* KEYS[i] / ARGV[i] on literal argument lists *)
Lemma index_1 a l : index (a :: l) 1 = a. Proof. reflexivity. Qed.
Lemma index_2 a b l : index (a :: b :: l) 2 = b. Proof. reflexivity. Qed.
Lemma index_3 a b c l : index (a :: b :: c :: l) 3 = c. Proof. reflexivity. Qed.
Lemma index_4 a b c d l : index (a :: b :: c :: d :: l) 4 = d. Proof. reflexivity. Qed.
Ltac index_simp := cbn [map]; rewrite ?index_1, ?index_2, ?index_3, ?index_4.
