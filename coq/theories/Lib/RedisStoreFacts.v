(* Lemmas about Lib/RedisStore.v (association-list store, lazy expiry). *)
From Coq Require Import List ZArith String QArith Qround Bool Lia.
From GZ Require Import Lib.RedisStore.
Import ListNotations.
Open Scope Z_scope.

Lemma bulk_eqb_eq a b : bulk_eqb a b = true <-> a = b.
Proof.
  destruct a, b; cbn; split; intro H; try discriminate; try congruence.
  - apply Z.eqb_eq in H. congruence.
  - apply Z.eqb_eq. congruence.
  - apply String.eqb_eq in H. congruence.
  - apply String.eqb_eq. congruence.
Qed.

Lemma bulk_eqb_refl a : bulk_eqb a a = true.
Proof. apply bulk_eqb_eq. reflexivity. Qed.

Lemma bulk_eqb_neq a b : bulk_eqb a b = false <-> a <> b.
Proof.
  split; intro H.
  - intro E. apply bulk_eqb_eq in E. congruence.
  - destruct (bulk_eqb a b) eqn:E; [apply bulk_eqb_eq in E; contradiction | reflexivity].
Qed.

Lemma bulk_eqb_sym a b : bulk_eqb a b = bulk_eqb b a.
Proof.
  destruct (bulk_eqb a b) eqn:E.
  - apply bulk_eqb_eq in E. subst. symmetry. apply bulk_eqb_refl.
  - symmetry. apply bulk_eqb_neq. apply bulk_eqb_neq in E. congruence.
Qed.

Lemma find_put_same k e d : find k (put k e d) = Some e.
Proof.
  induction d as [|[k' e'] d IH]; cbn.
  - now rewrite bulk_eqb_refl.
  - destruct (bulk_eqb k k') eqn:E; cbn.
    + now rewrite bulk_eqb_refl.
    + now rewrite E.
Qed.

Lemma find_put_other k k' e d : bulk_eqb k' k = false -> find k' (put k e d) = find k' d.
Proof.
  intro N. induction d as [|[k2 e2] d IH]; cbn.
  - now rewrite N.
  - destruct (bulk_eqb k k2) eqn:E; cbn.
    + apply bulk_eqb_eq in E. subst k2. now rewrite N.
    + destruct (bulk_eqb k' k2); auto.
Qed.

Lemma find_remove_same k d : find k (remove k d) = None.
Proof.
  induction d as [|[k' e'] d IH]; cbn; auto.
  destruct (bulk_eqb k k') eqn:E; cbn; auto. now rewrite E.
Qed.

Lemma find_remove_other k k' d : bulk_eqb k' k = false -> find k' (remove k d) = find k' d.
Proof.
  intro N. induction d as [|[k2 e2] d IH]; cbn; auto.
  destruct (bulk_eqb k k2) eqn:E; cbn.
  - apply bulk_eqb_eq in E. subst k2. now rewrite N.
  - destruct (bulk_eqb k' k2); auto.
Qed.

Lemma lookup_put_same st k e :
  lookup (store_put st k e) k = if live (expiry_inclusive st) (rnow st) e then Some e else None.
Proof. unfold lookup, store_put; cbn. now rewrite find_put_same. Qed.

Lemma lookup_put_other st k k' e : bulk_eqb k' k = false ->
  lookup (store_put st k e) k' = lookup st k'.
Proof. intro N. unfold lookup, store_put; cbn. now rewrite find_put_other. Qed.

Lemma lookup_del_same st k : lookup (store_del st k) k = None.
Proof. unfold lookup, store_del; cbn. now rewrite find_remove_same. Qed.

Lemma lookup_del_other st k k' : bulk_eqb k' k = false ->
  lookup (store_del st k) k' = lookup st k'.
Proof. intro N. unfold lookup, store_del; cbn. now rewrite find_remove_other. Qed.

Lemma lookup_live st k e : lookup st k = Some e -> live (expiry_inclusive st) (rnow st) e = true.
Proof.
  unfold lookup. destruct (find k (rdata st)) as [e'|]; intro H; [|discriminate].
  destruct (live (expiry_inclusive st) (rnow st) e') eqn:L; [|discriminate]. inversion H; subst. exact L.
Qed.

(* the two expiry conventions *)
Lemma before_lt incl x t : x < t -> before incl x t = true.
Proof. intro H. destruct incl; cbn; [apply Z.ltb_lt|apply Z.leb_le]; lia. Qed.

Lemma before_gt incl x t : t < x -> before incl x t = false.
Proof. intro H. destruct incl; cbn; [apply Z.ltb_ge|apply Z.leb_gt]; lia. Qed.

Lemma before_mono incl x y t : x <= y -> before incl y t = true -> before incl x t = true.
Proof.
  intros H. destruct incl; cbn; intro B; [apply Z.ltb_lt in B; apply Z.ltb_lt|apply Z.leb_le in B; apply Z.leb_le]; lia.
Qed.

Lemma before_false_mono incl x y t : x <= y -> before incl x t = false -> before incl y t = false.
Proof.
  intros H. destruct incl; cbn; intro B; [apply Z.ltb_ge in B; apply Z.ltb_ge|apply Z.leb_gt in B; apply Z.leb_gt]; lia.
Qed.

Lemma before_false_ge incl x t : before incl x t = false -> t <= x.
Proof. destruct incl; cbn; intro B; [apply Z.ltb_ge in B|apply Z.leb_gt in B]; lia. Qed.

Lemma before_true_le incl x t : before incl x t = true -> x <= t.
Proof. destruct incl; cbn; intro B; [apply Z.ltb_lt in B|apply Z.leb_le in B]; lia. Qed.

Lemma before_shift incl a x t : before incl (a + x) (a + t) = before incl x t.
Proof.
  destruct incl; cbn.
  - destruct (x <? t) eqn:E; [apply Z.ltb_lt in E; apply Z.ltb_lt|apply Z.ltb_ge in E; apply Z.ltb_ge]; lia.
  - destruct (x <=? t) eqn:E; [apply Z.leb_le in E; apply Z.leb_le|apply Z.leb_gt in E; apply Z.leb_gt]; lia.
Qed.

(* integers as Lua numbers *)
Lemma q_integral_inject z : q_integral (inject_Z z) = true.
Proof. unfold q_integral, inject_Z; cbn. rewrite Z.mod_1_r. reflexivity. Qed.

Lemma q_to_z_inject z : q_to_z (inject_Z z) = z.
Proof. unfold q_to_z, inject_Z; cbn. apply Z.div_1_r. Qed.

Lemma to_arg_znum z : to_arg (znum z) = Ok (BInt z).
Proof. unfold to_arg, znum. now rewrite q_integral_inject, q_to_z_inject. Qed.

Lemma Qeq_bool_inject a b : Qeq_bool (inject_Z a) (inject_Z b) = (a =? b).
Proof.
  unfold Qeq_bool, inject_Z; cbn. rewrite !Z.mul_1_r.
  apply eq_true_iff_eq. rewrite <- Zeq_is_eq_bool, Z.eqb_eq. reflexivity.
Qed.

Lemma Qle_bool_inject a b : Qle_bool (inject_Z a) (inject_Z b) = (a <=? b).
Proof. unfold Qle_bool, inject_Z; cbn. now rewrite !Z.mul_1_r. Qed.

Lemma qlt_inject a b : qlt (inject_Z a) (inject_Z b) = (a <? b).
Proof. unfold qlt. rewrite Qle_bool_inject. rewrite Z.ltb_antisym. reflexivity. Qed.

(* KEYS[i] / ARGV[i] on literal argument lists *)
Lemma index_1 a l : index (a :: l) 1 = a. Proof. reflexivity. Qed.
Lemma index_2 a b l : index (a :: b :: l) 2 = b. Proof. reflexivity. Qed.
Lemma index_3 a b c l : index (a :: b :: c :: l) 3 = c. Proof. reflexivity. Qed.
Lemma index_4 a b c d l : index (a :: b :: c :: d :: l) 4 = d. Proof. reflexivity. Qed.
Ltac index_simp := cbn [map]; rewrite ?index_1, ?index_2, ?index_3, ?index_4.

(* ---------------------------------------------------------------- Lua arithmetic on integers *)
Lemma znum_eq a b : a = b -> znum a = znum b.
Proof. congruence. Qed.

Lemma lua_add_z a b st : lua_add (znum a) (znum b) st = (Ok (znum (a + b)), st).
Proof. unfold lua_add, arith2, as_num, znum, lift, Qplus, inject_Z; cbn. rewrite !Z.mul_1_r. reflexivity. Qed.

Lemma lua_sub_z a b st : lua_sub (znum a) (znum b) st = (Ok (znum (a - b)), st).
Proof.
  unfold lua_sub, arith2, as_num, znum, lift, Qminus, Qplus, Qopp, inject_Z; cbn. rewrite !Z.mul_1_r.
  reflexivity.
Qed.

Lemma lua_mul_z a b st : lua_mul (znum a) (znum b) st = (Ok (znum (a * b)), st).
Proof. reflexivity. Qed.

Lemma lua_lt_z a b st : lua_lt (znum a) (znum b) st = (Ok (LBool (a <? b)), st).
Proof. unfold lua_lt, num2, znum, lift. now rewrite qlt_inject. Qed.

Lemma lua_ge_z a b st : lua_ge (znum a) (znum b) st = (Ok (LBool (b <=? a)), st).
Proof. unfold lua_ge, num2, znum, lift. now rewrite Qle_bool_inject. Qed.

Lemma lua_max_z a b st : lua_max (znum a) (znum b) st = (Ok (znum (Z.max a b)), st).
Proof.
  unfold lua_max, arith2, as_num, znum, lift. rewrite qlt_inject.
  destruct (a <? b) eqn:E.
  - apply Z.ltb_lt in E. replace (Z.max a b) with b by lia. reflexivity.
  - apply Z.ltb_ge in E. replace (Z.max a b) with a by lia. reflexivity.
Qed.

Lemma lua_min_z a b st : lua_min (znum a) (znum b) st = (Ok (znum (Z.min a b)), st).
Proof.
  unfold lua_min, arith2, as_num, znum, lift. rewrite qlt_inject.
  destruct (b <? a) eqn:E.
  - apply Z.ltb_lt in E. replace (Z.min a b) with b by lia. reflexivity.
  - apply Z.ltb_ge in E. replace (Z.min a b) with a by lia. reflexivity.
Qed.

Lemma lua_eq_z a b : lua_eq (znum a) (znum b) = LBool (a =? b).
Proof. unfold lua_eq, znum. now rewrite Qeq_bool_inject. Qed.

(* math.floor((a/b)*2) for b > 0 *)
Lemma lua_div_mul2_floor a b st : 0 < b ->
  (bind (lua_div (znum a) (znum b)) (fun t1 => bind (lua_mul t1 (znum 2)) (fun t2 => lua_floor t2))) st
  = (Ok (znum (a * 2 / b)), st).
Proof.
  intro Hb. destruct b as [|p|p]; try lia.
  unfold bind, lua_div, lua_mul, lua_floor, arith2, as_num, znum, lift, ret.
  unfold Qeq_bool, inject_Z; cbn.
  unfold Qfloor, Qdiv, Qmult, Qinv, inject_Z; cbn.
  rewrite Z.mul_1_r, Pos.mul_1_r. reflexivity.
Qed.

Lemma redis_call_kz c k z st : redis_call c [LStr k; znum z] st = exec c [k; BInt z] st.
Proof. unfold redis_call. cbn [to_args]. rewrite to_arg_znum. reflexivity. Qed.

Lemma redis_call_k c k st : redis_call c [LStr k] st = exec c [k] st.
Proof. reflexivity. Qed.

Lemma redis_call_kzz c k z1 z2 st :
  redis_call c [LStr k; znum z1; znum z2] st = exec c [k; BInt z1; BInt z2] st.
Proof. unfold redis_call. cbn [to_args]. rewrite !to_arg_znum. reflexivity. Qed.

Lemma exec_expire_ok k p st : exists x, fst (exec EXPIRE [k; BInt p] st) = Ok x.
Proof. cbn [exec]. destruct (lookup st k); [destruct (p <=? 0)|]; cbn; eauto. Qed.

Lemma lua_div_z a b st : 0 < b ->
  lua_div (znum a) (znum b) st = (Ok (LNum (inject_Z a / inject_Z b)), st).
Proof.
  intro Hb. unfold lua_div, arith2, as_num, znum, lift. change 0%Q with (inject_Z 0). rewrite Qeq_bool_inject.
  destruct (b =? 0) eqn:E; [apply Z.eqb_eq in E; lia | reflexivity].
Qed.

Lemma Qfloor_div2 a b : 0 < b -> Qfloor (inject_Z a / inject_Z b * inject_Z 2) = a * 2 / b.
Proof.
  intro Hb. destruct b as [|p|p]; try lia.
  unfold Qfloor, Qdiv, Qmult, Qinv, inject_Z; cbn. rewrite Z.mul_1_r, Pos.mul_1_r. reflexivity.
Qed.

(* the number a script reads back from a key: numerals only, nil otherwise *)
Definition stored_num (st : rstate) (k : bulk) : option Z :=
  match lookup st k with Some (mkEntry (BInt z) _) => Some z | _ => None end.

Lemma tonumber_get st k :
  lua_tonumber (match lookup st k with Some e => LStr (evalue e) | None => LBool false end) =
  match stored_num st k with Some z => znum z | None => LNil end.
Proof. unfold stored_num. destruct (lookup st k) as [[[z|s] ex]|]; reflexivity. Qed.

(* ---------------------------------------------------------------- stepping a script *)
Lemma bind_ret_l {A B} (a : A) (f : A -> M B) : bind (ret a) f = f a.
Proof. reflexivity. Qed.

Lemma ret_eq {A} (a b : A) : a = b -> @ret A a = ret b.
Proof. congruence. Qed.

Lemma lua_add_M a b : lua_add (znum a) (znum b) = ret (znum (a + b)).
Proof.
  change (ret (LNum (inject_Z a + inject_Z b)) = ret (znum (a + b))). apply ret_eq.
  unfold znum, Qplus, inject_Z; cbn. now rewrite !Z.mul_1_r.
Qed.
Lemma lua_sub_M a b : lua_sub (znum a) (znum b) = ret (znum (a - b)).
Proof.
  change (ret (LNum (inject_Z a - inject_Z b)) = ret (znum (a - b))). apply ret_eq.
  unfold znum, Qminus, Qplus, Qopp, inject_Z; cbn. now rewrite !Z.mul_1_r.
Qed.
Lemma lua_mul_M a b : lua_mul (znum a) (znum b) = ret (znum (a * b)).
Proof. reflexivity. Qed.
Lemma lua_mul_qM q z : lua_mul (LNum q) (znum z) = ret (LNum (q * inject_Z z)).
Proof. reflexivity. Qed.
Lemma lua_floor_M q : lua_floor (LNum q) = ret (znum (Qfloor q)).
Proof. reflexivity. Qed.
Lemma lua_div_M a b : 0 < b -> lua_div (znum a) (znum b) = ret (LNum (inject_Z a / inject_Z b)).
Proof.
  intro Hb. unfold lua_div, arith2, as_num, znum. change 0%Q with (inject_Z 0). rewrite Qeq_bool_inject.
  destruct (b =? 0) eqn:E; [apply Z.eqb_eq in E; lia | reflexivity].
Qed.
Lemma lua_lt_M a b : lua_lt (znum a) (znum b) = ret (LBool (a <? b)).
Proof. change (ret (LBool (qlt (inject_Z a) (inject_Z b))) = ret (LBool (a <? b))). now rewrite qlt_inject. Qed.
Lemma lua_ge_M a b : lua_ge (znum a) (znum b) = ret (LBool (b <=? a)).
Proof. change (ret (LBool (Qle_bool (inject_Z b) (inject_Z a))) = ret (LBool (b <=? a))). now rewrite Qle_bool_inject. Qed.
Lemma lua_max_M a b : lua_max (znum a) (znum b) = ret (znum (Z.max a b)).
Proof.
  change (ret (LNum (if qlt (inject_Z a) (inject_Z b) then inject_Z b else inject_Z a)) = ret (znum (Z.max a b))).
  apply ret_eq. rewrite qlt_inject. destruct (a <? b) eqn:E.
  - apply Z.ltb_lt in E. replace (Z.max a b) with b by lia. reflexivity.
  - apply Z.ltb_ge in E. replace (Z.max a b) with a by lia. reflexivity.
Qed.
Lemma lua_min_M a b : lua_min (znum a) (znum b) = ret (znum (Z.min a b)).
Proof.
  change (ret (LNum (if qlt (inject_Z b) (inject_Z a) then inject_Z b else inject_Z a)) = ret (znum (Z.min a b))).
  apply ret_eq. rewrite qlt_inject. destruct (b <? a) eqn:E.
  - apply Z.ltb_lt in E. replace (Z.min a b) with b by lia. reflexivity.
  - apply Z.ltb_ge in E. replace (Z.min a b) with a by lia. reflexivity.
Qed.

Definition get_val (st : rstate) (k : bulk) : lval :=
  match lookup st k with Some e => LStr (evalue e) | None => LBool false end.

Lemma bind_get {B} k (f : lval -> M B) st :
  bind (redis_call GET [LStr k]) f st = f (get_val st k) st.
Proof. reflexivity. Qed.

Lemma tonumber_get_val st k :
  lua_tonumber (get_val st k) = match stored_num st k with Some z => znum z | None => LNil end.
Proof. apply tonumber_get. Qed.

Lemma bind_setex {B} k ttl v (f : lval -> M B) st :
  bind (redis_call SETEX [LStr k; znum ttl; znum v]) f st =
  if ttl <=? 0 then (Err EExpire, st)
  else f (LStatus "OK") (store_put st k (mkEntry (BInt v) (Some (rnow st + ttl * 1000)))).
Proof.
  unfold bind. rewrite redis_call_kzz. cbn [exec]. destruct (ttl <=? 0); reflexivity.
Qed.

Lemma lua_le_M a b : lua_le (znum a) (znum b) = ret (LBool (a <=? b)).
Proof. change (ret (LBool (Qle_bool (inject_Z a) (inject_Z b))) = ret (LBool (a <=? b))). now rewrite Qle_bool_inject. Qed.
Lemma lua_gt_M a b : lua_gt (znum a) (znum b) = ret (LBool (b <? a)).
Proof. change (ret (LBool (qlt (inject_Z b) (inject_Z a))) = ret (LBool (b <? a))). now rewrite qlt_inject. Qed.

(* one step of integer arithmetic / comparison, whatever operation comes next *)
Ltac marith :=
  first [ rewrite lua_sub_M | rewrite lua_add_M | rewrite lua_mul_M | rewrite lua_max_M | rewrite lua_min_M
        | rewrite lua_ge_M | rewrite lua_le_M | rewrite lua_lt_M | rewrite lua_gt_M ];
  rewrite bind_ret_l; cbv beta.
