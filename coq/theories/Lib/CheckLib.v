(* Shared helpers for the correspondence checkers (executable only). *)
From Coq Require Import List ZArith Bool.
Import ListNotations.
Open Scope Z_scope.

Definition pair_leb (a b : Z * Z) : bool :=
  (fst a <? fst b) || ((fst a =? fst b) && (snd a <=? snd b)).

Fixpoint insert_pair (x : Z * Z) (l : list (Z * Z)) : list (Z * Z) :=
  match l with
  | [] => [x]
  | y :: l' => if pair_leb x y then x :: l else y :: insert_pair x l'
  end.

Definition sort_pairs (l : list (Z * Z)) : list (Z * Z) := fold_right insert_pair [] l.

Fixpoint insert_z (x : Z) (l : list Z) : list Z :=
  match l with
  | [] => [x]
  | y :: l' => if x <=? y then x :: l else y :: insert_z x l'
  end.
Definition sort_z (l : list Z) : list Z := fold_right insert_z [] l.

Fixpoint list_eqb {A} (eqb : A -> A -> bool) (l1 l2 : list A) : bool :=
  match l1, l2 with
  | [], [] => true
  | x :: l1', y :: l2' => eqb x y && list_eqb eqb l1' l2'
  | _, _ => false
  end.

Definition pair_eqb (a b : Z * Z) : bool := (fst a =? fst b) && (snd a =? snd b).
Definition pairs_eqb := list_eqb pair_eqb.
Definition zs_eqb := list_eqb Z.eqb.

Definition opt_eqb {A} (eqb : A -> A -> bool) (a b : option A) : bool :=
  match a, b with
  | Some x, Some y => eqb x y
  | None, None => true
  | _, _ => false
  end.
