(* C09 — the property's own vocabulary, over the plain LIST of registered routes
   (no trie).  Executable definitions only; no proofs in this file. *)
From Coq Require Import List String Ascii Bool ZArith.
From GZ Require Export C09.Model.
Import ListNotations.
Open Scope string_scope.

(* a registered route: method, pattern as cleaned segments, handler *)
Record route := mkRoute { tm : string; tpat : list string; th : handler }.
Definition table := list route.

Fixpoint segs_eqb (a b : list string) : bool :=
  match a, b with
  | [], [] => true
  | x :: a', y :: b' => (x =? y) && segs_eqb a' b'
  | _, _ => false
  end.

(* ---- matching: literal segments equal, `:name` segments match any single
   segment; the root path is the one-segment list [""] *)
Definition seg_match (pat seg : string) : Prop :=
  (is_var pat = false /\ pat = seg) \/ is_var pat = true.
Definition matches (pat segs : list string) : Prop := Forall2 seg_match pat segs.

Definition seg_matchb (pat seg : string) : bool := is_var pat || (pat =? seg).
Fixpoint matchesb (pat segs : list string) : bool :=
  match pat, segs with
  | [], [] => true
  | p :: pat', s :: segs' => seg_matchb p s && matchesb pat' segs'
  | _, _ => false
  end.

(* ---- preference: at the first segment where two patterns differ, [p] is not a
   variable facing a literal of [q] *)
Fixpoint not_worse (p q : list string) : bool :=
  match p, q with
  | a :: p', b :: q' =>
    if a =? b then not_worse p' q' else negb (is_var a && negb (is_var b))
  | _, _ => true
  end.

(* ---- the side condition: one variable name per position under a given prefix.
   Two patterns are compatible when, at the first segment where they differ, they
   are not two (differently named) variables. *)
Fixpoint compat (p q : list string) : bool :=
  match p, q with
  | a :: p', b :: q' =>
    if a =? b then compat p' q' else negb (is_var a && is_var b)
  | _, _ => true
  end.

Definition one_var_name_per_position (T : table) : bool :=
  forallb (fun t1 => forallb (fun t2 => negb (tm t1 =? tm t2) || compat (tpat t1) (tpat t2)) T) T.

(* ---- candidates and the best one *)
Definition candidate (m : string) (segs : list string) (t : route) : bool :=
  (tm t =? m) && matchesb (tpat t) segs.

Definition candidates (T : table) (m : string) (segs : list string) : list route :=
  filter (candidate m segs) T.

Definition is_best (T : table) (m : string) (segs : list string) (t : route) : Prop :=
  In t T /\ tm t = m /\ matches (tpat t) segs /\
  forall q, In q T -> tm q = m -> matches (tpat q) segs -> not_worse (tpat t) (tpat q) = true.

Definition best_of (T : table) (m : string) (segs : list string) : option route :=
  let cs := candidates T m segs in
  find (fun t => forallb (fun q => not_worse (tpat t) (tpat q)) cs) cs.

(* ---- the variables a route binds on a path.  pathvar.Vars is a map: when a
   pattern uses one name twice the leftmost binding is the one delivered. *)
Fixpoint binds (pat segs : list string) : params :=
  match pat, segs with
  | p :: pat', s :: segs' =>
    if is_var p then set_param (var_name p) s (binds pat' segs') else binds pat' segs'
  | _, _ => []
  end.

(* every (name, segment) pair of the variable positions, in order *)
Fixpoint raw_binds (pat segs : list string) : params :=
  match pat, segs with
  | p :: pat', s :: segs' =>
    if is_var p then (var_name p, s) :: raw_binds pat' segs' else raw_binds pat' segs'
  | _, _ => []
  end.

Definition var_names (pat : list string) : list string :=
  map var_name (filter is_var pat).

(* ---- registration: what Handle must answer, and the table it leaves *)
Definition same_route (m : string) (pat : list string) (t : route) : bool :=
  (tm t =? m) && segs_eqb (tpat t) pat.

Definition reg_spec (T : table) (m p : string) : reg_result :=
  if negb (valid_method m) then RegInvalidMethod
  else match clean_path p with
       | None => RegInvalidPath
       | Some pat => if existsb (same_route m pat) T then RegDuplicate else RegOk
       end.

Definition table_step (T : table) (g : reg) : table :=
  match reg_spec T (rmethod g) (rpath g), clean_path (rpath g) with
  | RegOk, Some pat => (T ++ [mkRoute (rmethod g) pat (rhandler g)])%list
  | _, _ => T
  end.

Definition table_of (regs : list reg) : table := fold_left table_step regs [].

Fixpoint reg_results (T : table) (regs : list reg) : list reg_result :=
  match regs with
  | [] => []
  | g :: regs' => reg_spec T (rmethod g) (rpath g) :: reg_results (table_step T g) regs'
  end.

(* ---- the Allow set: the other methods that have a matching route *)
Fixpoint dedup (l : list string) : list string :=
  match l with
  | [] => []
  | x :: l' => if existsb (String.eqb x) l' then dedup l' else x :: dedup l'
  end.

Definition allow_spec (T : table) (m : string) (segs : list string) : list string :=
  dedup (map tm (filter (fun t => negb (tm t =? m) && matchesb (tpat t) segs) T)).

(* ---- the whole response, from the route list *)
Definition spec_serve (T : table) (nf na : bool) (m p : string) : response :=
  let notfound := if nf then RNotFoundCustom else RNotFound in
  match clean_path p with
  | None => notfound
  | Some segs =>
    match best_of T m segs with
    | Some t => RHandler (th t) (binds (tpat t) segs)
    | None =>
      match allow_spec T m segs with
      | [] => notfound
      | allow => if na then RNotAllowedCustom else RNotAllowed allow
      end
    end
  end.

(* ---- what a response must be, in terms of the route list only (Prop level) *)
Definition no_own (T : table) (m : string) (segs : list string) : Prop :=
  forall t, In t T -> tm t = m -> ~ matches (tpat t) segs.

(* what a response must be, in terms of the route list only *)
Definition resp_ok (T : table) (nf na : bool) (m : string) (segs : list string) (resp : response) : Prop :=
  match resp with
  | RHandler h ps => exists t, is_best T m segs t /\ th t = h /\ ps = binds (tpat t) segs
  | RNotAllowed allow =>
    na = false /\ no_own T m segs /\ allow <> [] /\ NoDup allow /\
    forall m', In m' allow <-> (m' <> m /\ exists t, In t T /\ tm t = m' /\ matches (tpat t) segs)
  | RNotAllowedCustom =>
    na = true /\ no_own T m segs /\ exists t, In t T /\ tm t <> m /\ matches (tpat t) segs
  | RNotFound => nf = false /\ forall t, In t T -> ~ matches (tpat t) segs
  | RNotFoundCustom => nf = true /\ forall t, In t T -> ~ matches (tpat t) segs
  end.

(* the router after a list of Handle calls on NewRouter() *)
Definition router_of (nf na : bool) (regs : list reg) : router := build (new_router nf na) regs.
