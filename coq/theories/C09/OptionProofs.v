(* C09 — route options other than WithPrefix (WithTimeout, WithMaxBytes, WithPriority, WithSSE,
   WithJwt, WithJwtTransition, WithSignature: [OOther]) and the choice AddRoute / AddRoutes do not
   take part in WHICH routes a server binds, hence not in which handler a request reaches.  Round 4. *)
From Coq Require Import List String Ascii Bool ZArith Lia.
From GZ Require Import C09.Model C09.Spec C09.ServerModel C09.Proofs C09.ServerProofs.
Import ListNotations.
Open Scope string_scope.

Definition is_prefix_opt (o : ropt) : bool := match o with OPrefix _ => true | OOther => false end.

(* the same mount with every other option removed, registered through one AddRoutes call *)
Definition plain_mount (m : mount) : mount :=
  mkMount (msrv m) (mtab m) (mlo m) (mhi m) false (mmw m) (filter is_prefix_opt (mopts m)).

Definition plain_event (e : event) : event :=
  match e with EMount m => EMount (plain_mount m) | EStart s => EStart s end.

Lemma apply_prefixes_plain : forall os r,
  apply_prefixes (filter is_prefix_opt os) r = apply_prefixes os r.
Proof.
  unfold apply_prefixes. induction os as [|o os IH]; intro r; [reflexivity|].
  destruct o as [g|]; cbn; apply IH.
Qed.

Lemma mount_regs_plain : forall tables m, mount_regs tables (plain_mount m) = mount_regs tables m.
Proof.
  intros tables m. unfold mount_regs, written. cbn [plain_mount mopts mtab mlo mhi mmw].
  apply map_ext. intro r. apply apply_prefixes_plain.
Qed.

Lemma mounts_of_plain : forall s evs,
  mounts_of s (map plain_event evs) = map plain_mount (mounts_of s evs).
Proof.
  intros s. induction evs as [|e evs IH]; [reflexivity|]. destruct e as [m|s']; cbn.
  - destruct (Nat.eqb (msrv m) s); cbn; rewrite IH; reflexivity.
  - exact IH.
Qed.

Lemma before_start_plain : forall s evs,
  before_start s (map plain_event evs) = map plain_event (before_start s evs).
Proof.
  intros s. induction evs as [|e evs IH]; [reflexivity|]. destruct e as [m|s']; cbn.
  - rewrite IH. reflexivity.
  - destruct (Nat.eqb s' s); cbn; [reflexivity | rewrite IH; reflexivity].
Qed.

Lemma L_spec_regs_plain : forall tables evs s,
  spec_regs tables (map plain_event evs) s = spec_regs tables evs s.
Proof.
  intros tables evs s. unfold spec_regs. rewrite mounts_of_plain.
  induction (mounts_of s evs) as [|m ms IH]; [reflexivity|]. cbn. rewrite mount_regs_plain, IH. reflexivity.
Qed.

(* Start of every server ends alike, with the same router *)
Lemma L_other_options_transparent : forall cfgs tables evs s,
  spec_regs tables (map plain_event evs) s = spec_regs tables evs s /\
  spec_start cfgs tables (map plain_event evs) s = spec_start cfgs tables evs s.
Proof.
  intros cfgs tables evs s. split; [apply L_spec_regs_plain|].
  unfold spec_start. rewrite before_start_plain, L_spec_regs_plain. reflexivity.
Qed.

(* ... and so does the real registration sequence (heap model): what Start of server s did *)
Lemma L_other_options_transparent_run : forall cfgs tables evs s,
  start_of (wstarts (run opt_real cfgs tables (map plain_event evs))) s =
  start_of (wstarts (run opt_real cfgs tables evs)) s.
Proof.
  intros cfgs tables evs s. rewrite !L_start_is_spec.
  assert (H : has_start s (map plain_event evs) = has_start s evs).
  { induction evs as [|e evs IH]; [reflexivity|]. destruct e as [m|s']; cbn; [exact IH | rewrite IH; reflexivity]. }
  rewrite H. destruct (has_start s evs); [|reflexivity].
  f_equal. apply L_other_options_transparent.
Qed.
