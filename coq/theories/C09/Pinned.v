(* C09 — boundary of the theorems, by concrete witnesses (vm_compute):
   (1) outside the side condition the response really depends on the map iteration order
       (observed on the Go code too: GET /1 on {GET /:x, GET /:y} runs either handler);
   (2) a Search that tries variable children before literal ones, and
   (3) a Search that records variables on the way down (not cleared on backtracking)
       violate chosen_is_best / params_exact — these are the mutations the check must see. *)
From Coq Require Import List String Ascii Bool ZArith.
From GZ Require Import C09.Model C09.Spec.
(* the pinned variants of the seeded changes C09-4 .. C09-11 live in PinnedSeeds.v *)
From GZ Require Export C09.PinnedSeeds.
Import ListNotations.
Open Scope string_scope.

(* (1) *)
Definition two_names : list reg := [mkReg "GET" "/:x" 0%Z; mkReg "GET" "/:y" 1%Z].

Theorem side_condition_needed_refuted :
  exists regs m p r1 r2,
    one_var_name_per_position (table_of regs) = false /\
    In r1 (serve_allowed (router_of false false regs) m p) /\
    In r2 (serve_allowed (router_of false false regs) m p) /\ r1 <> r2.
Proof.
  exists two_names, "GET", "/1", (RHandler 0%Z [("x", "1")]), (RHandler 1%Z [("y", "1")]).
  vm_compute. split; [reflexivity|]. split; [auto|]. split; [auto | discriminate].
Qed.

(* (2) forEach iterating children[1] before children[0] *)
Definition for_each_vf {A} (n : node) (f : string * node -> list A) : list A :=
  match flat_map f (vars n) with
  | [] => flat_map f (lits n)
  | l => l
  end.

Fixpoint outcomes_vf (n : node) (segs : list string) {struct segs} : list (handler * params) :=
  match segs with
  | [] => []
  | s :: rest =>
    match rest with
    | [] =>
      match (if s =? "" then item n else None) with
      | Some h => [(h, [])]
      | None =>
        for_each_vf n (fun kv =>
          match match_seg (fst kv) s, item (snd kv) with
          | Some r, Some h => [(h, add_match r [])]
          | _, _ => []
          end)
      end
    | _ :: _ =>
      for_each_vf n (fun kv =>
        match match_seg (fst kv) s with
        | Some r => map (fun hp => (fst hp, add_match r (snd hp))) (outcomes_vf (snd kv) rest)
        | None => []
        end)
    end
  end.

Definition lit_and_var : list reg := [mkReg "GET" "/a/:x" 0%Z; mkReg "GET" "/a/b" 1%Z].

Theorem variable_first_refuted :
  exists regs m segs h ps,
    one_var_name_per_position (table_of regs) = true /\
    In (h, ps) (outcomes_vf (match assoc m (trees (router_of false false regs)) with
                             | Some t => t | None => empty_node end) segs) /\
    best_of (table_of regs) m segs <> None /\
    option_map th (best_of (table_of regs) m segs) <> Some h.
Proof.
  exists lit_and_var, "GET", ["a"; "b"], 0%Z, [("x", "b")].
  vm_compute. split; [reflexivity|]. split; [auto|]. split; discriminate.
Qed.

(* (3) variables written before descending and never removed when the branch fails *)
Fixpoint search_eager (n : node) (acc : params) (segs : list string) {struct segs}
  : params * option handler :=
  match segs with
  | [] => (acc, None)
  | s :: rest =>
    let step (sub : node -> params -> params * option handler)
             (st : params * option handler) (kv : string * node) :=
      match snd st with
      | Some _ => st
      | None =>
        match match_seg (fst kv) s with
        | Some r => sub (snd kv) (add_match r (fst st))   (* written before descending *)
        | None => st
        end
      end in
    match rest with
    | [] =>
      match (if s =? "" then item n else None) with
      | Some h => (acc, Some h)
      | None =>
        fold_left (step (fun c a => match item c with Some h => (a, Some h) | None => (acc, None) end))
                  (lits n ++ vars n)%list (acc, None)
      end
    | _ :: _ =>
      (* the map is shared: what a failed branch wrote stays *)
      fold_left (step (fun c a => search_eager c a rest)) (lits n ++ vars n)%list (acc, None)
    end
  end.

Theorem eager_params_refuted :
  exists regs m segs h ps,
    one_var_name_per_position (table_of regs) = true /\
    search_eager (match assoc m (trees (router_of false false regs)) with
                  | Some t => t | None => empty_node end) [] segs = (ps, Some h) /\
    (exists t, best_of (table_of regs) m segs = Some t /\ th t = h /\
               map fst ps <> map fst (binds (tpat t) segs)).
Proof.
  exists [mkReg "GET" "/a/:y/c/d" 0%Z; mkReg "GET" "/:x/b/c" 1%Z],
         "GET", ["a"; "b"; "c"], 1%Z, [("x", "a"); ("y", "b")].
  vm_compute. split; [reflexivity|]. split; [reflexivity|].
  eexists. split; [reflexivity|]. split; [reflexivity | discriminate].
Qed.

(* (4) seeded change C09-3: rest.WithPrefix rewrites Route.Path IN PLACE on the slice the group
   holds.  AddRoutes keeps the caller's slice, so the option now writes into the user's table
   and into every engine group that aliases it: a table mounted twice (or shared by two servers)
   gets its prefixes stacked.  Expressed as another option semantics for ServerModel.run. *)
From GZ Require Import C09.ServerModel.

Fixpoint write_at {A} (l : list A) (lo : nat) (new : list A) : list A :=
  match l, lo with
  | [], _ => []
  | x :: l', S lo' => x :: write_at l' lo' new
  | x :: l', O => match new with
                  | [] => l
                  | y :: new' => y :: write_at l' O new'
                  end
  end.

Fixpoint set_table (st : store) (t : nat) (l : list reg) : store :=
  match st, t with
  | [], _ => []
  | _ :: st', O => l :: st'
  | x :: st', S t' => x :: set_table st' t' l
  end.

Definition opt_inplace : optsem := fun st r o =>
  match o with
  | OPrefix g =>
    match r with
    | RAlias t lo hi =>
      (set_table st t (write_at (table_at st t) lo (map (prefix_reg g) (deref st r))), r)
    | RFresh l => (st, RFresh (map (prefix_reg g) l))
    end
  | OOther => (st, r)
  end.

Definition pin_users : list reg := [mkReg "GET" "/users/:id" 0%Z; mkReg "POST" "/users" 1%Z].
Definition pin_mount (s : nat) (g : string) : event := EMount (mkMount s 0 0 2 false None [OPrefix g]).

(* one server, the table under /v1 and /v2: the user's tables say Start succeeds and /v1/users/7
   is dispatched; with the in-place option Start dies with a duplicate (both groups read
   /v2/v1/...), and the user's own table has been rewritten *)
Theorem inplace_prefix_twice_refuted :
  exists cfgs tables evs s r,
    one_var_name_per_position (table_of (spec_regs tables (before_start s evs) s)) = true /\
    spec_start cfgs tables evs s = Started r /\
    serve r "GET" "/v1/users/7" = RHandler 0%Z [("id", "7")] /\
    start_of (wstarts (run opt_inplace cfgs tables evs)) s = Some (StartFailed RegDuplicate) /\
    wstore (run opt_inplace cfgs tables evs) <> tables.
Proof.
  exists [default_cfg], [pin_users], [pin_mount 0 "/v1"; pin_mount 0 "/v2"; EStart 0], 0%nat.
  eexists. vm_compute. repeat split; discriminate.
Qed.

(* two servers sharing the table (prefix /a on server 0, /b on server 1): no start-up error at
   all; server 0 answers 404 where the user's tables prescribe the handler, and serves a path no
   route was written for *)
Theorem inplace_prefix_shared_refuted :
  exists cfgs tables evs r_spec r_bad,
    spec_start cfgs tables evs 0 = Started r_spec /\
    start_of (wstarts (run opt_inplace cfgs tables evs)) 0 = Some (Started r_bad) /\
    serve r_spec "GET" "/a/users/7" = RHandler 0%Z [("id", "7")] /\
    serve r_bad "GET" "/a/users/7" = RNotFound /\
    serve r_spec "GET" "/b/a/users/7" = RNotFound /\
    serve r_bad "GET" "/b/a/users/7" = RHandler 0%Z [("id", "7")].
Proof.
  exists [default_cfg; default_cfg], [pin_users],
         [pin_mount 0 "/a"; pin_mount 1 "/b"; EStart 0; EStart 1].
  eexists. eexists. vm_compute. repeat split.
Qed.

(* with today's option the same two sequences behave as written *)
Example real_prefix_twice :
  exists r, start_of (wstarts (run opt_real [default_cfg] [pin_users]
                                 [pin_mount 0 "/v1"; pin_mount 0 "/v2"; EStart 0])) 0 = Some (Started r) /\
            serve r "GET" "/v1/users/7" = RHandler 0%Z [("id", "7")] /\
            serve r "POST" "/v2/users" = RHandler 1%Z [] /\
            serve r "GET" "/v2/v1/users/7" = RNotFound.
Proof. eexists. vm_compute. repeat split. Qed.

(* (5) seeded change C09-7: "recycle the params maps of search results".  The maps live in slots of a
   process-wide pool; Search takes a free slot (or a new one) when it binds a variable, ServeHTTP
   puts the slot back — cleared — when it returns, and the request keeps pointing at it.  A
   handler that outlives its ServeHTTP (route timeout, kept request) then reads whatever the slot
   holds now: nothing, or the variables of another request. *)
From GZ Require Import C09.History.

Record pstate := mkP
  { pslots : list params;            (* the maps, by slot number *)
    pfree : list nat;                (* sync.Pool: free slots, last put first *)
    powner : list (nat * nat);       (* request -> the slot its vars map is *)
    preads : list (nat * params) }.

Fixpoint set_nth {A} (l : list A) (i : nat) (x : A) : list A :=
  match l, i with
  | [], _ => []
  | _ :: l', O => x :: l'
  | y :: l', S i' => y :: set_nth l' i' x
  end.

Definition pstep (r : router) (reqs : list hreq) (st : pstate) (e : hev) : pstate :=
  match e with
  | HServe i =>
    match vars_of r (req_at reqs i) with
    | [] => st                                            (* addParam never called: no map at all *)
    | ps =>
      match pfree st with
      | k :: free => mkP (set_nth (pslots st) k ps) free ((i, k) :: powner st) (preads st)
      | [] => mkP (pslots st ++ [ps])%list [] ((i, List.length (pslots st)) :: powner st) (preads st)
      end
    end
  | HReturn i =>                                          (* defer result.Release() *)
    match lookup_nat i (powner st) with
    | Some k => mkP (set_nth (pslots st) k []) (k :: pfree st) (powner st) (preads st)
    | None => st
    end
  | HRead i =>
    match lookup_nat i (powner st) with
    | Some k => mkP (pslots st) (pfree st) (powner st) ((i, nth k (pslots st) []) :: preads st)
    | None => st
    end
  end.

Definition prun (r : router) (reqs : list hreq) (sched : list hev) : pstate :=
  fold_left (pstep r reqs) sched (mkP [] [] [] []).

Definition pool_regs : list reg :=
  [mkReg "GET" "/users/:id/orders/:order" 0%Z; mkReg "GET" "/users/:id/profile/:section" 1%Z].
Definition pool_reqs : list hreq := [("GET", "/users/alice/orders/42"); ("GET", "/users/bob/profile/settings")].

(* request 0 is answered by the timeout middleware while its handler is parked; request 1 is
   dispatched; the parked handler reads its variables: it gets request 1's, and after request 1
   returned too it gets nothing — while its own bindings are {id: alice, order: 42} *)
Theorem pooled_params_refuted :
  exists regs reqs sched i ps ps',
    one_var_name_per_position (table_of regs) = true /\
    vars_of (router_of false false regs) (req_at reqs i) = [("id", "alice"); ("order", "42")] /\
    In (i, ps) (preads (prun (router_of false false regs) reqs sched)) /\
    ps = [("id", "bob"); ("section", "settings")] /\
    In (i, ps') (preads (prun (router_of false false regs) reqs sched)) /\
    ps' = [].
Proof.
  exists pool_regs, pool_reqs,
         [HServe 0; HRead 0; HReturn 0; HServe 1; HRead 0; HReturn 1; HRead 0], 0%nat.
  eexists. eexists. vm_compute. repeat split; auto.
Qed.

(* today's model on the same schedule: every read is the request's own binding *)
Example fresh_params_same_schedule :
  hreads (hrun (router_of false false pool_regs) pool_reqs
            [HServe 0; HRead 0; HReturn 0; HServe 1; HRead 0; HReturn 1; HRead 0; HRead 1])
  = [(1%nat, [("id", "bob"); ("section", "settings")]);
     (0%nat, [("id", "alice"); ("order", "42")]); (0%nat, [("id", "alice"); ("order", "42")]);
     (0%nat, [("id", "alice"); ("order", "42")])].
Proof. vm_compute. reflexivity. Qed.
