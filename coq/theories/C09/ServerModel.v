(* C09 — how routes reach the router in a real server: executable model of
     rest/server.go   AddRoutes / AddRoute, WithPrefix (path.Join), Routes(),
                      WithNotFoundHandler / WithNotAllowedHandler, WithCors, Use
     rest/engine.go   addRoutes, bindRoutes / bindFeaturedRoutes / bindRoute
                      (router.Handle per route, Start dies at the first error),
                      notFoundHandler wrapper (transparent: status 404 either way)
     rest/internal/cors  Middleware (every OPTIONS request answered 204 before the
                      router is consulted) and NotAllowedHandler (404 without Allow).
   No proofs in this file.  Per-route chains (JWT, signature, timeout, breaker ...) are
   not modelled: the executor runs with all built-in middlewares switched off. *)
From Coq Require Import List String Ascii Bool ZArith.
From GZ Require Export C09.Model C09.Spec.
Import ListNotations.
Open Scope string_scope.

(* one AddRoutes call *)
Record group := mkGroup
  { gprefix : option string;     (* rest.WithPrefix(p) given? *)
    gmw : bool;                  (* routes wrapped by rest.WithMiddlewares([tag = index of the group]) *)
    groutes : list reg }.        (* Method, Path, Handler (numbered consecutively over all groups) *)

(* path.Join(group, path) before cleaning: empty elements are ignored *)
Definition prefix_path (g p : string) : string :=
  if g =? "" then p else if p =? "" then g else g ++ String slash p.

(* path.Join(group, path): the cleaned string for a rooted result; an unrooted result is
   left as it is (Clean keeps it unrooted, and Handle rejects every unrooted pattern) *)
Definition join_path (g p : string) : string :=
  let x := prefix_path g p in
  match clean_string x with Some s => s | None => x end.

Definition with_prefix (g : group) : list reg :=
  match gprefix g with
  | None => groutes g
  | Some pre => map (fun r => mkReg (rmethod r) (join_path pre (rpath r)) (rhandler r)) (groutes g)
  end.

(* Server.Routes(), which is also the order in which engine.bindRoutes walks them *)
Definition server_routes (gs : list group) : list reg := flat_map with_prefix gs.

Inductive start_result :=
| Started (r : router)            (* all routes bound; the server would now listen *)
| StartFailed (e : reg_result).   (* Start panics with the first router.Handle error *)

(* engine.bindRoutes *)
Fixpoint bind_routes (r : router) (regs : list reg) : start_result :=
  match regs with
  | [] => Started r
  | g :: rest =>
    match handle_reg r g with
    | (r', RegOk) => bind_routes r' rest
    | (_, e) => StartFailed e
    end
  end.

(* NewServer(opts) ... AddRoutes ... Start.  [nf]/[na]: a user 404 / 405 handler given;
   [cors]: rest.WithCors(), which installs its own not-allowed handler *)
Definition server_start (nf na cors : bool) (gs : list group) : start_result :=
  bind_routes (new_router nf (na || cors)) (server_routes gs).

Inductive sresponse :=
| SResp (r : response)
| SCors204.                      (* answered by the CORS middleware, nothing dispatched *)

(* what cors.NotAllowedHandler makes of a would-be 405 for a non-OPTIONS method: 404, no Allow *)
Definition cors_view (r : response) : response :=
  match r with RNotAllowedCustom => RNotFound | x => x end.

Definition sserve_allowed (cors : bool) (r : router) (m p : string) : list sresponse :=
  if cors && (m =? "OPTIONS") then [SCors204]
  else map (fun x => SResp (if cors then cors_view x else x)) (serve_allowed r m p).

Definition sserve (cors : bool) (r : router) (m p : string) : sresponse :=
  if cors && (m =? "OPTIONS") then SCors204
  else SResp (if cors then cors_view (serve r m p) else serve r m p).

(* middleware tags a handler must see, outermost first: Server.Use (tag 1000), then the tag
   of its own group if that group was wrapped *)
Fixpoint group_tag (gs : list group) (i : Z) (h : handler) : list Z :=
  match gs with
  | [] => []
  | g :: gs' =>
    if existsb (fun r => Z.eqb (rhandler r) h) (groutes g)
    then (if gmw g then [i] else [])
    else group_tag gs' (i + 1)%Z h
  end.

Definition mw_expected (use : bool) (gs : list group) (h : handler) : list Z :=
  ((if use then [1000%Z] else []) ++ group_tag gs 0%Z h)%list.
