(* C09 — how routes reach the router in a real server: executable model of
     rest/server.go   AddRoutes / AddRoute (the caller's slice is KEPT, not copied),
                      RouteOptions applied in order: WithPrefix (path.Join, builds a fresh slice),
                      WithTimeout / WithMaxBytes / WithPriority / WithSSE / WithJwt (do not touch
                      methods and paths), WithMiddlewares (fresh slice, wrapped handlers),
                      Routes(), WithNotFoundHandler / WithNotAllowedHandler, WithCors, WithChain, Use
     rest/engine.go   addRoutes, bindRoutes / bindFeaturedRoutes / bindRoute at Start
                      (router.Handle per route, Start dies at the first error)
     rest/internal/cors  Middleware (every OPTIONS request answered 204 before the router is
                      consulted) and NotAllowedHandler (404 without Allow).

   The user's route tables live in a STORE (one backing array per table); a group kept by the
   engine is either an ALIAS of (a sub-slice of) a user's table or a fresh slice.  Aliased groups
   are read when Start binds them, so anything that writes into a user's table between AddRoutes
   and Start would change what is served.  The semantics of an option is a parameter ([optsem]):
   [opt_real] is today's code (no option writes the store), Pinned.v has the in-place variant.

   No proofs in this file.  Per-route chains (JWT, timeout, breaker ...) are transparent for
   dispatch and not modelled; the executor sends a valid token with every request. *)
From Coq Require Import List String Ascii Bool ZArith.
From GZ Require Export C09.Model C09.Spec.
Import ListNotations.
Open Scope string_scope.

(* ------------------------------------------------------------------ path.Join *)

(* path.Join(group, path) before cleaning: empty elements are ignored *)
Definition prefix_path (g p : string) : string :=
  if g =? "" then p else if p =? "" then g else g ++ String slash p.

(* path.Join(group, path): the cleaned string for a rooted result; an unrooted result is
   left as it is (Clean keeps it unrooted, and Handle rejects every unrooted pattern) *)
Definition join_path (g p : string) : string :=
  let x := prefix_path g p in
  match clean_string x with Some s => s | None => x end.

Definition prefix_reg (g : string) (r : reg) : reg :=
  mkReg (rmethod r) (join_path g (rpath r)) (rhandler r).

(* ------------------------------------------------------------ slices and store *)

Definition store := list (list reg).

Inductive rref :=
| RAlias (t lo hi : nat)        (* table[lo:hi] of the user's table number t *)
| RFresh (l : list reg).        (* a slice nobody else holds *)

Definition slice {A} (l : list A) (lo hi : nat) : list A := firstn (hi - lo) (skipn lo l).

Definition table_at (st : store) (t : nat) : list reg := nth t st [].

Definition deref (st : store) (r : rref) : list reg :=
  match r with
  | RAlias t lo hi => slice (table_at st t) lo hi
  | RFresh l => l
  end.

(* ------------------------------------------------------------------- options *)

Inductive ropt :=
| OPrefix (g : string)          (* rest.WithPrefix(g) *)
| OOther.                       (* WithTimeout / WithMaxBytes / WithPriority / WithSSE / WithJwt *)

Definition optsem := store -> rref -> ropt -> store * rref.

(* today's code: WithPrefix builds a fresh slice from whatever the group holds *)
Definition opt_real : optsem := fun st r o =>
  match o with
  | OPrefix g => (st, RFresh (map (prefix_reg g) (deref st r)))
  | OOther => (st, r)
  end.

Definition apply_opts (sem : optsem) (st : store) (r : rref) (os : list ropt) : store * rref :=
  fold_left (fun sr o => sem (fst sr) (snd sr) o) os (st, r).

(* ------------------------------------------------------------------- events *)

(* rest.WithMiddlewares([tag], rs...): a fresh slice whose handlers are wrapped; the wrapped
   handler is a different function, identified by (route id, tag) *)
Definition wrap_id (tag : Z) (h : handler) : handler := (h + 100000 * (tag + 1))%Z.
Definition wrap_reg (tag : Z) (r : reg) : reg := mkReg (rmethod r) (rpath r) (wrap_id tag (rhandler r)).

Record mount := mkMount
  { msrv : nat;                  (* which server *)
    mtab : nat; mlo : nat; mhi : nat;   (* tables[mtab][mlo:mhi] *)
    msingle : bool;              (* AddRoute per route instead of one AddRoutes *)
    mmw : option Z;              (* wrapped by WithMiddlewares with this tag first *)
    mopts : list ropt }.         (* the RouteOptions, in order *)

Inductive event :=
| EMount (m : mount)
| EStart (s : nat).

Record scfg := mkCfg
  { sc_nf : bool; sc_na : bool;  (* user 404 / 405 handler given *)
    sc_cors : bool;              (* rest.WithCors(): installs its own not-allowed handler *)
    sc_use : bool;               (* Server.Use(tag 1000) *)
    sc_chain : bool }.           (* rest.WithChain(tag 2000) *)

Definition default_cfg : scfg := mkCfg false false false false false.

Inductive start_result :=
| Started (r : router)            (* all routes bound; the server would now listen *)
| StartFailed (e : reg_result).   (* Start panics with the first router.Handle error *)

(* engine.bindRoutes *)
Fixpoint bind_routes (r : router) (regs : list reg) : start_result :=
  match regs with
  | [] => Started r
  | g :: rest =>
    match handle_reg r g with
    | (r', RegOk) => bind_routes r' rest
    | (_, e) => StartFailed e
    end
  end.

Definition start_server (cfgs : list scfg) (s : nat) (regs : list reg) : start_result :=
  let c := nth s cfgs default_cfg in
  bind_routes (new_router (sc_nf c) (sc_na c || sc_cors c)) regs.

Record world := mkWorld
  { wstore : store;                          (* the user's tables *)
    wgroups : list (nat * rref);             (* (server, engine group), in order of AddRoutes *)
    wstarts : list (nat * start_result) }.   (* (server, how Start ended), in order of Start *)

(* the slice value handed to AddRoutes *)
Definition mount_arg (st : store) (m : mount) : rref :=
  match mmw m with
  | Some tag => RFresh (map (wrap_reg tag) (slice (table_at st (mtab m)) (mlo m) (mhi m)))
  | None => RAlias (mtab m) (mlo m) (mhi m)
  end.

(* AddRoutes(rs, opts...) / for each r: AddRoute(r, opts...) = AddRoutes([]Route{r}, opts...) *)
Definition do_mount (sem : optsem) (st : store) (m : mount) : store * list rref :=
  if msingle m then
    fold_left (fun acc x =>
                 let sg := apply_opts sem (fst acc) (RFresh [x]) (mopts m) in
                 (fst sg, (snd acc ++ [snd sg])%list))
              (deref st (mount_arg st m)) (st, [])
  else
    let sg := apply_opts sem st (mount_arg st m) (mopts m) in (fst sg, [snd sg]).

(* the groups of server s, read NOW *)
Definition engine_regs (st : store) (gs : list (nat * rref)) (s : nat) : list reg :=
  flat_map (fun g => deref st (snd g)) (filter (fun g => Nat.eqb (fst g) s) gs).

Definition step (sem : optsem) (cfgs : list scfg) (w : world) (e : event) : world :=
  match e with
  | EMount m =>
    let sg := do_mount sem (wstore w) m in
    mkWorld (fst sg) (wgroups w ++ map (fun g => (msrv m, g)) (snd sg))%list (wstarts w)
  | EStart s =>
    mkWorld (wstore w) (wgroups w)
            (wstarts w ++ [(s, start_server cfgs s (engine_regs (wstore w) (wgroups w) s))])%list
  end.

Definition run (sem : optsem) (cfgs : list scfg) (tables : store) (evs : list event) : world :=
  fold_left (step sem cfgs) evs (mkWorld tables [] []).

(* how the (first) Start of server s ended *)
Fixpoint start_of (l : list (nat * start_result)) (s : nat) : option start_result :=
  match l with
  | [] => None
  | (s', r) :: l' => if Nat.eqb s' s then Some r else start_of l' s
  end.

(* ------------------------------------------------- the specification side
   what the user wrote: the tables, and for every AddRoutes call its options.  The routes a
   mount contributes = its slice of the table AS WRITTEN, every prefix applied in order. *)

Definition apply_prefixes (os : list ropt) (r : reg) : reg :=
  fold_left (fun r o => match o with OPrefix g => prefix_reg g r | OOther => r end) os r.

Definition written (tables : store) (m : mount) : list reg :=
  let l := slice (table_at tables (mtab m)) (mlo m) (mhi m) in
  match mmw m with Some tag => map (wrap_reg tag) l | None => l end.

Definition mount_regs (tables : store) (m : mount) : list reg :=
  map (apply_prefixes (mopts m)) (written tables m).

Fixpoint mounts_of (s : nat) (evs : list event) : list mount :=
  match evs with
  | [] => []
  | EMount m :: evs' => if Nat.eqb (msrv m) s then m :: mounts_of s evs' else mounts_of s evs'
  | EStart _ :: evs' => mounts_of s evs'
  end.

(* the union of the prefix-extended tables mounted on server s *)
Definition spec_regs (tables : store) (evs : list event) (s : nat) : list reg :=
  flat_map (mount_regs tables) (mounts_of s evs).

(* the events before the first Start of server s *)
Fixpoint before_start (s : nat) (evs : list event) : list event :=
  match evs with
  | [] => []
  | EStart s' :: evs' => if Nat.eqb s' s then [] else EStart s' :: before_start s evs'
  | e :: evs' => e :: before_start s evs'
  end.

Fixpoint has_start (s : nat) (evs : list event) : bool :=
  match evs with
  | [] => false
  | EStart s' :: evs' => Nat.eqb s' s || has_start s evs'
  | _ :: evs' => has_start s evs'
  end.

(* is some table mounted on server s AFTER its Start?  (the API allows it; such routes appear in
   Routes() but are never bound to the router — "register before Start" is the documented use) *)
Fixpoint mounts_after_start (s : nat) (started : bool) (evs : list event) : bool :=
  match evs with
  | [] => false
  | EStart s' :: evs' => mounts_after_start s (started || Nat.eqb s' s) evs'
  | EMount m :: evs' => (started && Nat.eqb (msrv m) s) || mounts_after_start s started evs'
  end.

(* what Start of server s must do, from what the user wrote only *)
Definition spec_start (cfgs : list scfg) (tables : store) (evs : list event) (s : nat) : start_result :=
  start_server cfgs s (spec_regs tables (before_start s evs) s).

(* ------------------------------------------------------------- serving *)

Inductive sresponse :=
| SResp (r : response)
| SCors204.                      (* answered by the CORS middleware, nothing dispatched *)

(* what cors.NotAllowedHandler makes of a would-be 405 for a non-OPTIONS method: 404, no Allow *)
Definition cors_view (r : response) : response :=
  match r with RNotAllowedCustom => RNotFound | x => x end.

Definition sserve_allowed (cors : bool) (r : router) (m p : string) : list sresponse :=
  if cors && (m =? "OPTIONS") then [SCors204]
  else map (fun x => SResp (if cors then cors_view x else x)) (serve_allowed r m p).

Definition sserve (cors : bool) (r : router) (m p : string) : sresponse :=
  if cors && (m =? "OPTIONS") then SCors204
  else SResp (if cors then cors_view (serve r m p) else serve r m p).

(* middleware tags a handler must see, outermost first: WithChain (2000), Server.Use (1000),
   then the WithMiddlewares tag its identity carries *)
Definition mw_expected (c : scfg) (h : handler) : list Z :=
  ((if sc_chain c then [2000%Z] else []) ++ (if sc_use c then [1000%Z] else []) ++
   (if (100000 <=? h)%Z then [(h / 100000 - 1)%Z] else []))%list.
