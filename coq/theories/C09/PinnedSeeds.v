(* C09 — pinned variants of the router for the independent seeded changes C09-4 .. C09-11
   (seeded/C09-k/patch.diff), each expressed in the vocabulary of Model.v / Spec.v and refuted by
   a concrete witness (vm_compute): a route table INSIDE the side condition and one request on
   which the variant leaves the answer that the property's specification (Spec.spec_serve, proved
   equal to today's model in SpecProofs.v) prescribes, while today's model gives exactly that
   answer.  The witnesses are the shapes the deterministic corpus of tools/props/c09.py contains. *)
From Coq Require Import List String Ascii Bool ZArith.
From GZ Require Import C09.Model C09.Spec C09.Target.
Import ListNotations.
Open Scope string_scope.

(* ServeHTTP with the three places the seeds touch made explicit: how the segments are obtained
   from URL.Path, how the request's own tree is searched, how the other trees are probed *)
Definition serve_with (segs_of : string -> option (list string))
                      (srch : node -> list string -> option (handler * params))
                      (probe : string -> node -> list string -> bool)
                      (own : string -> list string -> bool)
                      (r : router) (m p : string) : response :=
  match segs_of p with
  | None => not_found r
  | Some segs =>
    match (if own m segs then match assoc m (trees r) with Some t => srch t segs | None => None end
           else None) with
    | Some (h, ps) => RHandler h ps
    | None =>
      match map fst (filter (fun mt => negb (fst mt =? m) && probe (fst mt) (snd mt) segs) (trees r)) with
      | [] => not_found r
      | allow => if custom_na r then RNotAllowedCustom else RNotAllowed allow
      end
    end
  end.

Definition found (t : node) (segs : list string) : bool :=
  match search t segs with Some _ => true | None => false end.

(* today's ServeHTTP is the instance with path.Clean, Search, Search *)
Lemma serve_with_today : forall r m p,
  serve_with clean_path search (fun _ => found) (fun _ _ => true) r m p = serve r m p.
Proof. intros. reflexivity. Qed.

(* the common shape of the refutations: inside the side condition, the specification and
   today's model give [good]; the variant gives something else *)
Definition refutes (variant : list reg -> string -> string -> response)
                   (regs : list reg) (m p : string) (good : response) : Prop :=
  one_var_name_per_position (table_of regs) = true /\
  spec_serve (table_of regs) false false m p = good /\
  serve (router_of false false regs) m p = good /\
  variant regs m p <> good.

(* ---------------------------------------------------------------------------------- C09-4
   "skip path.Clean for request paths that are already canonical": a single trailing slash
   is left in place.  Tree.Search("/files/") then looks for the EMPTY last token below /files. *)
Fixpoint ends_with_empty (l : list string) : bool :=
  match l with
  | [] => false
  | [x] => x =? ""
  | _ :: l' => ends_with_empty l'
  end.

Definition canonical_but_trailing (l : list string) : bool :=
  ends_with_empty l && (1 <? List.length l)%nat
  && forallb (fun s => negb ((s =? "") || (s =? ".") || (s =? ".."))) (removelast l).

Definition lazy_clean (p : string) : option (list string) :=
  match p with
  | String c t => if Ascii.eqb c slash
                  then (if canonical_but_trailing (split t) then Some (split t) else Some (clean_segs (split t)))
                  else None
  | EmptyString => None
  end.

Definition serve_c4 (regs : list reg) (m p : string) : response :=
  serve_with lazy_clean search (fun _ => found) (fun _ _ => true) (router_of false false regs) m p.

Theorem trailing_slash_kept_refuted :
  exists regs m p good, refutes serve_c4 regs m p good /\
    serve_c4 regs m p = RHandler 0%Z [("name", "")].
Proof.
  exists [mkReg "GET" "/files/:name" 0%Z], "GET", "/files/", RNotFound.
  vm_compute. repeat split; discriminate.
Qed.

(* ---------------------------------------------------------------------------------- C09-5
   add(): the last segment always stores a fresh leaf unless the existing child already has an
   item — an inner node (and the routes below it) is dropped. *)
Fixpoint add_flat (n : node) (segs : list string) (h : handler) {struct segs} : node + add_err :=
  match segs with
  | [] => set_item n h
  | s :: rest =>
    match rest with
    | [] =>
      if s =? "" then set_item n h
      else match child n s with
           | Some c => match item c with
                       | Some _ => inr ErrDupItem
                       | None => inl (put_child n s (Node (Some h) [] []))
                       end
           | None => inl (put_child n s (Node (Some h) [] []))
           end
    | _ :: _ =>
      if s =? "" then inr ErrDupSlash
      else match add_flat (match child n s with Some c => c | None => empty_node end) rest h with
           | inl c' => inl (put_child n s c')
           | inr e => inr e
           end
    end
  end.

Definition handle_flat (r : router) (g : reg) : router :=
  if negb (valid_method (rmethod g)) then r
  else match clean_path (rpath g) with
       | None => r
       | Some segs =>
         match add_flat (match assoc (rmethod g) (trees r) with Some t => t | None => empty_node end)
                        segs (rhandler g) with
         | inl t' => mkRouter (put (rmethod g) t' (trees r)) (custom_nf r) (custom_na r)
         | inr _ => r
         end
       end.

Definition serve_c5 (regs : list reg) (m p : string) : response :=
  serve (fold_left handle_flat regs (new_router false false)) m p.

Theorem shorter_after_longer_refuted :
  exists regs m p good, refutes serve_c5 regs m p good /\ serve_c5 regs m p = RNotFound.
Proof.
  exists [mkReg "GET" "/api/users/:id/profile" 0%Z; mkReg "GET" "/api/users/:id" 1%Z],
         "GET", "/api/users/7/profile", (RHandler 0%Z [("id", "7")]).
  vm_compute. repeat split; discriminate.
Qed.

(* the other registration order is harmless for the variant: the order matters, which
   Props.registration_order_irrelevant excludes for today's code *)
Example shorter_before_longer_same :
  serve_c5 [mkReg "GET" "/api/users/:id" 1%Z; mkReg "GET" "/api/users/:id/profile" 0%Z]
           "GET" "/api/users/7/profile" = RHandler 0%Z [("id", "7")].
Proof. vm_compute. reflexivity. Qed.

(* ---------------------------------------------------------------------------------- C09-6
   405 answered from ONE lookup in a method-independent union tree: Allow lists the methods of
   the single most-preferred matching pattern only. *)
Definition allow_union (T : table) (m : string) (segs : list string) : list string :=
  match best_of (map (fun t => mkRoute "" (tpat t) (th t)) T) "" segs with
  | Some b => dedup (map tm (filter (fun t => negb (tm t =? m) && segs_eqb (tpat t) (tpat b)) T))
  | None => []
  end.

Definition serve_c6 (regs : list reg) (m p : string) : response :=
  match clean_path p with
  | None => RNotFound
  | Some segs =>
    match best_of (table_of regs) m segs with
    | Some t => RHandler (th t) (binds (tpat t) segs)
    | None => match allow_union (table_of regs) m segs with
              | [] => RNotFound
              | allow => RNotAllowed allow
              end
    end
  end.

Theorem allow_from_best_pattern_only_refuted :
  exists regs m p good, refutes serve_c6 regs m p good /\ serve_c6 regs m p = RNotAllowed ["GET"].
Proof.
  exists [mkReg "GET" "/users/me" 0%Z; mkReg "POST" "/users/:id" 1%Z], "PUT", "/users/me",
         (RNotAllowed ["GET"; "POST"]).
  vm_compute. repeat split; discriminate.
Qed.

(* ---------------------------------------------------------------------------------- C09-8
   methodsAllowed probes the other trees with a params-free twin Has() whose first line is
   `if len(route) == 0 { return n.item != nil }`: for the root path the top-level variable
   children are never looked at. *)
Definition has_short (t : node) (segs : list string) : bool :=
  match segs with
  | [s] => if s =? "" then match item t with Some _ => true | None => false end else found t segs
  | _ => found t segs
  end.

Definition serve_c8 (regs : list reg) (m p : string) : response :=
  serve_with clean_path search (fun _ => has_short) (fun _ _ => true) (router_of false false regs) m p.

Theorem root_probe_shortcut_refuted :
  exists regs m p good, refutes serve_c8 regs m p good /\ serve_c8 regs m p = RNotFound.
Proof.
  exists [mkReg "POST" "/:id" 0%Z], "GET", "/a/..", (RNotAllowed ["POST"]).
  vm_compute. repeat split; discriminate.
Qed.

(* dispatch itself is untouched by that variant: POST / still reaches POST /:id *)
Example root_probe_shortcut_dispatch :
  serve_c8 [mkReg "POST" "/:id" 0%Z] "POST" "/" = RHandler 0%Z [("id", "")].
Proof. vm_compute. reflexivity. Qed.

(* ---------------------------------------------------------------------------------- C09-9
   per method a bit set of segment counts, computed from the RAW pattern at Handle, from the
   CLEANED path at ServeHTTP; a tree is skipped when the bit is not set. *)
Fixpoint count_slash (s : string) : nat :=
  match s with
  | EmptyString => O
  | String c t => if Ascii.eqb c slash then S (count_slash t) else count_slash t
  end.

Definition depth_bit (regs : list reg) (m : string) (segs : list string) : bool :=
  existsb (fun g => (rmethod g =? m) && valid_method (rmethod g)
                    && match clean_path (rpath g) with Some _ => true | None => false end
                    && (count_slash (rpath g) =? List.length segs)%nat) regs.

Definition serve_c9 (regs : list reg) (m p : string) : response :=
  serve_with clean_path search (fun m' t segs => depth_bit regs m' segs && found t segs)
             (depth_bit regs) (router_of false false regs) m p.

Theorem depth_of_raw_pattern_refuted :
  exists regs m p good, refutes serve_c9 regs m p good /\ serve_c9 regs m p = RNotFound.
Proof.
  exists [mkReg "GET" "/users/:id/" 0%Z], "GET", "/users/7", (RHandler 0%Z [("id", "7")]).
  vm_compute. repeat split; discriminate.
Qed.

(* with a pattern that needs no cleaning the bit set is exact *)
Example depth_of_canonical_pattern :
  serve_c9 [mkReg "GET" "/users/:id" 0%Z] "GET" "/users/7/" = RHandler 0%Z [("id", "7")].
Proof. vm_compute. reflexivity. Qed.

(* ---------------------------------------------------------------------------------- C09-10
   match(): a `:name` pattern segment is found only for a NON-EMPTY token.  The root path is one
   empty segment: a top-level `/:name` route no longer matches it. *)
Definition match_seg_ne (pat token : string) : option (option (string * string)) :=
  if is_var pat then (if token =? "" then None else Some (Some (var_name pat, token)))
  else if pat =? token then Some None
  else None.

Definition last_step_m (mt : string -> string -> option (option (string * string)))
                       (n : node) (s : string) : list (handler * params) :=
  match (if s =? "" then item n else None) with
  | Some h => [(h, [])]
  | None =>
    for_each n (fun kv =>
      match mt (fst kv) s, item (snd kv) with
      | Some r, Some h => [(h, add_match r [])]
      | _, _ => []
      end)
  end.

Fixpoint outcomes_m (mt : string -> string -> option (option (string * string)))
                    (n : node) (segs : list string) {struct segs} : list (handler * params) :=
  match segs with
  | [] => last_step_m mt n ""
  | s :: rest =>
    match rest with
    | [] => last_step_m mt n s
    | _ :: _ =>
      for_each n (fun kv =>
        match mt (fst kv) s with
        | Some r => map (fun hp => (fst hp, add_match r (snd hp))) (outcomes_m mt (snd kv) rest)
        | None => []
        end)
    end
  end.

Definition search_m mt (n : node) (segs : list string) := hd_error (outcomes_m mt n segs).

(* the generalised search is today's search for today's match *)
Lemma outcomes_m_today : forall segs n, outcomes_m match_seg n segs = outcomes n segs.
Proof.
  induction segs as [|s rest IH]; intro n; [reflexivity|].
  destruct rest as [|s' rest']; [reflexivity|].
  cbn [outcomes_m outcomes]. unfold for_each.
  assert (E : forall l : list (string * node),
    flat_map (fun kv => match match_seg (fst kv) s with
                        | Some r => map (fun hp => (fst hp, add_match r (snd hp))) (outcomes_m match_seg (snd kv) (s' :: rest'))
                        | None => [] end) l =
    flat_map (fun kv => match match_seg (fst kv) s with
                        | Some r => map (fun hp => (fst hp, add_match r (snd hp))) (outcomes (snd kv) (s' :: rest'))
                        | None => [] end) l).
  { intro l. apply flat_map_ext. intro kv. rewrite IH. reflexivity. }
  rewrite !E. reflexivity.
Qed.

Definition serve_c10 (regs : list reg) (m p : string) : response :=
  serve_with clean_path (search_m match_seg_ne)
             (fun _ t segs => match search_m match_seg_ne t segs with Some _ => true | None => false end)
             (fun _ _ => true) (router_of false false regs) m p.

Theorem nonempty_variable_refuted :
  exists regs m p good, refutes serve_c10 regs m p good /\ serve_c10 regs m p = RNotFound.
Proof.
  exists [mkReg "GET" "/:name" 0%Z], "GET", "//", (RHandler 0%Z [("name", "")]).
  vm_compute. repeat split; discriminate.
Qed.

Theorem nonempty_variable_allow_refuted :
  exists regs m p good, refutes serve_c10 regs m p good /\ serve_c10 regs m p = RNotAllowed ["PUT"].
Proof.
  exists [mkReg "GET" "/:name" 0%Z; mkReg "PUT" "/" 1%Z], "POST", "/", (RNotAllowed ["GET"; "PUT"]).
  vm_compute. repeat split; discriminate.
Qed.

(* ---------------------------------------------------------------------------------- C09-11
   Tree.next looks the literal child up with the helper add() uses, getChildren(token)[token]
   ([Model.child]): a REQUEST token that starts with ':' is looked up in the VARIABLE map, and a
   token spelled exactly like the route's `:name` segment "matches literally": the search goes
   through the variable child without addParam. *)
Definition last_step_lk (n : node) (s : string) : list (handler * params) :=
  match (if s =? "" then item n else None) with
  | Some h => [(h, [])]
  | None =>
    match match child n s with
          | Some c => match item c with Some h => [(h, [])] | None => [] end
          | None => []
          end with
    | [] => flat_map (fun kv => match item (snd kv) with
                                | Some h => [(h, [(var_name (fst kv), s)])]
                                | None => []
                                end) (vars n)
    | l => l
    end
  end.

Fixpoint outcomes_lk (n : node) (segs : list string) {struct segs} : list (handler * params) :=
  match segs with
  | [] => last_step_lk n ""
  | s :: rest =>
    match rest with
    | [] => last_step_lk n s
    | _ :: _ =>
      match match child n s with Some c => outcomes_lk c rest | None => [] end with
      | [] => flat_map (fun kv => map (fun hp => (fst hp, set_param (var_name (fst kv)) s (snd hp)))
                                      (outcomes_lk (snd kv) rest)) (vars n)
      | l => l
      end
    end
  end.

Definition search_lk (n : node) (segs : list string) := hd_error (outcomes_lk n segs).

Definition serve_c11 (regs : list reg) (m p : string) : response :=
  serve_with clean_path search_lk
             (fun _ t segs => match search_lk t segs with Some _ => true | None => false end)
             (fun _ _ => true) (router_of false false regs) m p.

(* last segment: the variable is missing altogether *)
Theorem pattern_spelling_last_refuted :
  exists regs m p good, refutes serve_c11 regs m p good /\ serve_c11 regs m p = RHandler 0%Z [].
Proof.
  exists [mkReg "GET" "/users/:id" 0%Z], "GET", "/users/:id", (RHandler 0%Z [("id", ":id")]).
  vm_compute. repeat split; discriminate.
Qed.

(* intermediate segment: only that variable is lost *)
Theorem pattern_spelling_inner_refuted :
  exists regs m p good, refutes serve_c11 regs m p good /\ serve_c11 regs m p = RHandler 0%Z [("pid", "7")].
Proof.
  exists [mkReg "GET" "/users/:id/posts/:pid" 0%Z], "GET", "/users/:id/posts/7",
         (RHandler 0%Z [("id", ":id"); ("pid", "7")]).
  vm_compute. repeat split; discriminate.
Qed.

(* any other spelling, also a colon-prefixed one, is answered as today *)
Example other_spelling_same :
  serve_c11 [mkReg "GET" "/users/:id" 0%Z; mkReg "GET" "/users/me" 1%Z] "GET" "/users/:uid"
  = RHandler 0%Z [("id", ":uid")] /\
  serve_c11 [mkReg "GET" "/users/:id" 0%Z; mkReg "GET" "/users/me" 1%Z] "GET" "/users/me"
  = RHandler 1%Z [].
Proof. vm_compute. split; reflexivity. Qed.

(* ---------------------------------------------------------------------------------- C09-12
   ServeHTTP routes on path.Clean(URL.RawPath) whenever net/url kept a RawPath, and url.PathUnescape()s the
   bound variables afterwards.  RawPath is kept for EVERY spelling that differs from the default encoding
   (an unreserved character sent as %XX, lower-case hex digits, %2e dot segments), not only for %2F: literal
   route segments are then compared with the still-escaped text and path.Clean runs on the escaped text. *)
Definition routed_rawpath (pr : string * string) : string :=
  if snd pr =? "" then fst pr else snd pr.

Definition unescape_vars (resp : response) : response :=
  match resp with
  | RHandler h ps => RHandler h (map (fun kv => (fst kv, match unescape (snd kv) with Some v => v | None => snd kv end)) ps)
  | x => x
  end.

Definition serve_c12 (regs : list reg) (m t : string) : option response :=
  option_map (fun pr => if snd pr =? "" then serve (router_of false false regs) m (fst pr)
                        else unescape_vars (serve (router_of false false regs) m (routed_rawpath pr)))
             (parse_target t).

(* the shape of these refutations: the target is well-formed, the specification applied to the DECODED path and
   today's model give [good]; the variant gives something else *)
Definition refutes_target (regs : list reg) (m t : string) (good : response) : Prop :=
  one_var_name_per_position (table_of regs) = true /\
  option_map (fun pr => spec_serve (table_of regs) false false m (fst pr)) (parse_target t) = Some good /\
  serve_target (router_of false false regs) m t = Some good /\
  serve_c12 regs m t <> Some good.

Definition c12_regs : list reg :=
  [mkReg "GET" "/files/readme" 0%Z; mkReg "GET" "/files/:name" 1%Z; mkReg "GET" "/a/:x/b" 2%Z; mkReg "GET" "/b" 3%Z;
   mkReg "POST" "/docs/café" 4%Z].

(* an unreserved character escaped: the literal route loses against its variable sibling *)
Theorem rawpath_routing_literal_refuted :
  exists m t good, refutes_target c12_regs m t good /\
    serve_c12 c12_regs m t = Some (RHandler 1%Z [("name", "readme")]).
Proof.
  exists "GET", "/files/%72eadme", (RHandler 0%Z []). vm_compute. repeat split; try reflexivity; discriminate.
Qed.

(* an encoded dot segment: Clean runs on the escaped text, ".." is bound to a variable *)
Theorem rawpath_routing_dot_segment_refuted :
  exists m t good, refutes_target c12_regs m t good /\
    serve_c12 c12_regs m t = Some (RHandler 2%Z [("x", "..")]).
Proof.
  exists "GET", "/a/%2e%2e/b", (RHandler 3%Z []). vm_compute. repeat split; try reflexivity; discriminate.
Qed.

(* lower-case hex digits: 404 instead of the 405 the table prescribes *)
Theorem rawpath_routing_lowercase_hex_refuted :
  exists m t good, refutes_target c12_regs m t good /\ serve_c12 c12_regs m t = Some RNotFound.
Proof.
  exists "GET", "/docs/caf%c3%a9", (RNotAllowed ["POST"]). vm_compute. repeat split; try reflexivity; discriminate.
Qed.

(* the default encoding (no RawPath) is answered as today, which is why the variant passes the existing tests *)
Example rawpath_routing_default_encoding_same :
  serve_c12 c12_regs "POST" "/docs/caf%C3%A9" = Some (RHandler 4%Z []) /\
  serve_c12 c12_regs "GET" "/files/readme?x=%72" = Some (RHandler 0%Z []).
Proof. vm_compute. split; reflexivity. Qed.
