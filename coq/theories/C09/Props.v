(* C09 — property theorems only.  Every theorem is closed by [exact] of a lemma proved
   in Proofs.v and followed by [Print Assumptions].

   Vocabulary (Spec.v): [regs] is any list of Handle calls made on NewRouter();
   [router_of nf na regs] the router they leave; [table_of regs] the plain list of
   accepted routes (method, cleaned pattern segments, handler), computed WITHOUT any
   trie; [clean_path p = Some segs] the segments of path.Clean(p) for a rooted p (the
   root is [""]); [matches pat segs] = Forall2 (literal equal / variable matches
   anything); [is_best T m segs t] = t is a matching route of method m that is not
   worse (variable facing a literal at the first difference) than any other;
   [one_var_name_per_position] the property's side condition;
   [serve_allowed r m p] the responses ServeHTTP may give depending on the order in
   which Go iterates its maps, [serve r m p] the first of them. *)
From Coq Require Import List String Ascii Bool ZArith.
From GZ Require Import C09.Model C09.Spec C09.Proofs C09.ServerModel C09.ServerProofs C09.Check C09.SpecProofs C09.History C09.CleanProofs C09.OptionProofs C09.Target C09.TargetProofs.
Import ListNotations.
Open Scope string_scope.

(* The invariant behind everything: after ANY list of Handle calls, the per-method tries
   contain exactly the accepted routes. *)
Theorem trie_represents_routes : forall nf na regs m q h, cleanp q ->
  (has (tree_of (router_of nf na regs) m) q h <-> In (mkRoute m q h) (table_of regs)).
Proof. exact L_trie_represents_routes. Qed.
Print Assumptions trie_represents_routes.

(* Inside the side condition the response is a function of the routes and the request:
   Go's map iteration order cannot influence it. *)
Theorem map_order_irrelevant : forall nf na regs m p resp,
  one_var_name_per_position (table_of regs) = true ->
  In resp (serve_allowed (router_of nf na regs) m p) -> resp = serve (router_of nf na regs) m p.
Proof. exact L_map_order_irrelevant. Qed.
Print Assumptions map_order_irrelevant.

(* A handler runs iff some route registered for the method matches the cleaned path
   (for every map order, and for [serve]); no side condition needed. *)
Theorem dispatch_iff_match : forall nf na regs m p segs,
  clean_path p = Some segs ->
  let r := router_of nf na regs in
  let T := table_of regs in
  ((exists h ps, In (RHandler h ps) (serve_allowed r m p)) <->
   (exists t, In t T /\ tm t = m /\ matches (tpat t) segs)) /\
  ((exists h ps, serve r m p = RHandler h ps) <->
   (exists t, In t T /\ tm t = m /\ matches (tpat t) segs)).
Proof. exact L_dispatch_iff_match. Qed.
Print Assumptions dispatch_iff_match.

(* The handler that runs belongs to a best route: a matching route of the method that
   prefers a literal over a variable at the first segment where it differs from any other
   matching route ... *)
Theorem chosen_is_best : forall nf na regs m p segs h ps,
  clean_path p = Some segs ->
  In (RHandler h ps) (serve_allowed (router_of nf na regs) m p) ->
  exists t, is_best (table_of regs) m segs t /\ th t = h.
Proof. exact L_chosen_is_best. Qed.
Print Assumptions chosen_is_best.

(* ... and inside the side condition there is only one such route. *)
Theorem best_is_unique : forall regs m p segs t1 t2,
  clean_path p = Some segs ->
  one_var_name_per_position (table_of regs) = true ->
  is_best (table_of regs) m segs t1 -> is_best (table_of regs) m segs t2 -> t1 = t2.
Proof. exact L_best_is_unique. Qed.
Print Assumptions best_is_unique.

(* The variables delivered are exactly the bindings of THE best route (pathvar.Vars is a
   map: [binds] keeps the leftmost segment for a name used twice in one pattern) ... *)
Theorem params_exact : forall nf na regs m p segs t h ps,
  clean_path p = Some segs ->
  one_var_name_per_position (table_of regs) = true ->
  is_best (table_of regs) m segs t ->
  In (RHandler h ps) (serve_allowed (router_of nf na regs) m p) ->
  h = th t /\ ps = binds (tpat t) segs.
Proof. exact L_params_exact. Qed.
Print Assumptions params_exact.

(* ... which, for a pattern with pairwise distinct names, is the plain list of
   (name, segment) pairs of its variable positions. *)
Theorem binds_are_the_bound_segments : forall pat segs,
  matches pat segs -> NoDup (var_names pat) -> binds pat segs = raw_binds pat segs.
Proof. exact binds_raw. Qed.
Print Assumptions binds_are_the_bound_segments.

(* In general (a name possibly used twice in one pattern): every delivered pair is the
   (name, segment) pair of some variable position, every variable name is delivered, and
   no name is delivered twice. *)
Theorem delivered_vars_are_bound_segments : forall pat segs, matches pat segs ->
  (forall kv, In kv (binds pat segs) -> In kv (raw_binds pat segs)) /\
  (forall k, In k (map fst (binds pat segs)) <-> In k (var_names pat)) /\
  NoDup (map fst (binds pat segs)).
Proof. exact L_binds_general. Qed.
Print Assumptions delivered_vars_are_bound_segments.

(* The complete case table of a response to a rooted path, for every map order:
   handler of a best route with its bindings; else 405 whose Allow lists exactly the OTHER
   methods that have a matching route, each once (or the custom not-allowed handler);
   else 404 (or the custom not-found handler) and then no route of any method matches. *)
Theorem allow_header_exact : forall nf na regs m p segs resp,
  clean_path p = Some segs ->
  In resp (serve_allowed (router_of nf na regs) m p) ->
  resp_ok (table_of regs) nf na m segs resp.
Proof. exact L_allowed_cases. Qed.
Print Assumptions allow_header_exact.

Theorem not_allowed_iff : forall nf na regs m p segs,
  clean_path p = Some segs ->
  let T := table_of regs in
  ((exists allow, serve (router_of nf na regs) m p = RNotAllowed allow) \/
   serve (router_of nf na regs) m p = RNotAllowedCustom) <->
  (no_own T m segs /\ exists t, In t T /\ tm t <> m /\ matches (tpat t) segs).
Proof. exact L_not_allowed_iff. Qed.
Print Assumptions not_allowed_iff.

Theorem not_found_iff : forall nf na regs m p segs,
  clean_path p = Some segs ->
  (serve (router_of nf na regs) m p = (if nf then RNotFoundCustom else RNotFound) <->
   forall t, In t (table_of regs) -> ~ matches (tpat t) segs).
Proof. exact L_not_found_iff. Qed.
Print Assumptions not_found_iff.

(* a request path that does not start with '/' is never routed *)
Theorem unrooted_not_found : forall nf na regs m p,
  clean_path p = None ->
  serve (router_of nf na regs) m p = (if nf then RNotFoundCustom else RNotFound).
Proof. exact L_unrooted_not_found. Qed.
Print Assumptions unrooted_not_found.

(* Registration: Handle answers what the route list prescribes; a rejected call leaves
   the router unchanged; an accepted one extends the table by exactly that route. *)
Theorem registration_rejects : forall nf na regs m p h,
  let r := router_of nf na regs in
  let T := table_of regs in
  snd (handle r m p h) = reg_spec T m p /\
  (snd (handle r m p h) <> RegOk -> fst (handle r m p h) = r) /\
  fst (handle r m p h) = router_of nf na (regs ++ [mkReg m p h]) /\
  table_of (regs ++ [mkReg m p h]) = table_step T (mkReg m p h).
Proof. exact L_registration_rejects. Qed.
Print Assumptions registration_rejects.

(* ... where the prescription is: unsupported method; pattern not starting with '/';
   same method and same pattern after cleaning already accepted; accepted otherwise. *)
Theorem registration_cases : forall T m p,
  (reg_spec T m p = RegInvalidMethod <-> valid_method m = false) /\
  (reg_spec T m p = RegInvalidPath <->
     valid_method m = true /\ (p = "" \/ exists c t, p = String c t /\ c <> slash)) /\
  (reg_spec T m p = RegDuplicate <->
     valid_method m = true /\ exists pat h0, clean_path p = Some pat /\ In (mkRoute m pat h0) T) /\
  (reg_spec T m p = RegOk <->
     valid_method m = true /\ exists pat, clean_path p = Some pat /\ forall h0, ~ In (mkRoute m pat h0) T) /\
  reg_spec T m p <> RegOther.
Proof. exact L_reg_spec_cases. Qed.
Print Assumptions registration_cases.

Theorem registration_history : forall nf na regs,
  build_results (new_router nf na) regs = reg_results [] regs.
Proof. exact L_registration_history. Qed.
Print Assumptions registration_history.

(* ---- non-vacuity: a table inside the side condition with a literal and a variable
   competing at two depths, a duplicate after cleaning, a bad method, an unrooted
   pattern; requests that need backtracking and cleaning. *)
Definition ex_regs : list reg :=
  [ mkReg "GET" "/a/:y/b" 0%Z; mkReg "GET" "/:x/a/a" 1%Z; mkReg "GET" "/a/a/a" 2%Z;
    mkReg "POST" "/a//a/b/" 3%Z; mkReg "GET" "/a/./a/a" 4%Z; mkReg "FOO" "/z" 5%Z; mkReg "GET" "z" 6%Z ].

Example ex_registration :
  build_results (new_router false false) ex_regs =
  [RegOk; RegOk; RegOk; RegOk; RegDuplicate; RegInvalidMethod; RegInvalidPath].
Proof. vm_compute. reflexivity. Qed.

Example ex_side_condition : one_var_name_per_position (table_of ex_regs) = true.
Proof. vm_compute. reflexivity. Qed.

(* the literal child "a" is entered first, fails on the last segment, the variable
   sibling is taken, and only its binding is delivered *)
Example ex_backtracking :
  serve (router_of false false ex_regs) "GET" "/a//a/./b/" = RHandler 0%Z [("y", "a")]
  /\ serve_allowed (router_of false false ex_regs) "GET" "/a/a/b" = [RHandler 0%Z [("y", "a")]]
  /\ clean_path "/a//a/./b/" = Some ["a"; "a"; "b"].
Proof. vm_compute. repeat split. Qed.

Example ex_literal_preferred :
  serve (router_of false false ex_regs) "GET" "/a/a/a" = RHandler 2%Z []
  /\ serve (router_of false false ex_regs) "GET" "/b/x/../a/a" = RHandler 1%Z [("x", "b")].
Proof. vm_compute. repeat split. Qed.

Example ex_405_404 :
  serve (router_of false false ex_regs) "PUT" "/a/a/b" = RNotAllowed ["GET"; "POST"]
  /\ serve (router_of false false ex_regs) "GET" "/zz" = RNotFound
  /\ serve (router_of true true ex_regs) "PUT" "/a/a/b" = RNotAllowedCustom
  /\ serve (router_of true true ex_regs) "GET" "a/a/b" = RNotFoundCustom.
Proof. vm_compute. repeat split. Qed.

(* the hypotheses of params_exact / best_is_unique are met by a concrete route *)
Example ex_is_best :
  is_best (table_of ex_regs) "GET" ["a"; "a"; "b"] (mkRoute "GET" ["a"; ":y"; "b"] 0%Z).
Proof.
  split; [vm_compute; auto|]. split; [reflexivity|]. split.
  - constructor; [left; split; reflexivity|]. constructor; [right; reflexivity|].
    constructor; [left; split; reflexivity|]. constructor.
  - intros q I. vm_compute in I. intros E M.
    destruct I as [I|[I|[I|[I|[]]]]]; subst q; try reflexivity; try discriminate.
    exfalso. apply matchesb_iff in M. discriminate.
Qed.

(* the root path is the one-segment path [""]: "/:x" matches it with x = "" *)
Example ex_root :
  serve (router_of false false [mkReg "GET" "/:x" 0%Z]) "GET" "/" = RHandler 0%Z [("x", "")]
  /\ serve (router_of false false [mkReg "GET" "/:x" 0%Z; mkReg "GET" "/" 1%Z]) "GET" "/.." = RHandler 1%Z [].
Proof. vm_compute. repeat split. Qed.

(* ====================================================================== server level
   rest.Server: the user's route tables (slices) are mounted by ANY sequence of AddRoutes /
   AddRoute calls (same slice or sub-slices of it any number of times, on any number of
   servers, RouteOptions in any order) and bound by Start (ServerModel.v: [run opt_real], a heap
   model in which engine groups may alias the user's slices).  [spec_regs tables evs s] is what
   the user wrote: the union, in order, of the table slices mounted on server s, every
   WithPrefix applied in order — no store, no aliasing. *)

(* Registration is a function of what the user wrote: after every sequence of events the user's
   tables are as written, Server.Routes() of every server is [spec_regs], and every Start ended
   as binding [spec_regs] (of the events before it) on a new router ends. *)
Theorem registration_is_union_of_prefixed_tables : forall cfgs tables evs,
  let w := run opt_real cfgs tables evs in
  wstore w = tables /\
  (forall s, engine_regs tables (wgroups w) s = spec_regs tables evs s) /\
  wstarts w = starts_from cfgs tables [] evs.
Proof. exact L_run_real. Qed.
Print Assumptions registration_is_union_of_prefixed_tables.

Theorem user_tables_untouched : forall cfgs tables evs,
  wstore (run opt_real cfgs tables evs) = tables.
Proof. exact L_tables_untouched. Qed.
Print Assumptions user_tables_untouched.

Theorem start_binds_what_the_user_wrote : forall cfgs tables evs s,
  start_of (wstarts (run opt_real cfgs tables evs)) s =
  if has_start s evs then Some (spec_start cfgs tables evs s) else None.
Proof. exact L_start_is_spec. Qed.
Print Assumptions start_binds_what_the_user_wrote.

(* what happens on other servers (mounts of the same tables, their Start) does not matter *)
Theorem other_servers_irrelevant : forall tables evs s,
  spec_regs tables evs s = spec_regs tables (filter (concerns s) evs) s.
Proof. exact L_other_servers_irrelevant. Qed.
Print Assumptions other_servers_irrelevant.

(* Dispatch through a started server = the property's dispatch on the union of the
   prefix-extended tables: the router is [router_of] of that list (so EVERY theorem above
   applies with regs := spec_regs ...), every Handle call was accepted, the table is the list of
   routes itself, each cleaned, and every response obeys the full case table. *)
Theorem server_dispatch_on_user_tables : forall cfgs tables evs s r,
  start_of (wstarts (run opt_real cfgs tables evs)) s = Some (Started r) ->
  let c := nth s cfgs default_cfg in
  let regs := spec_regs tables (before_start s evs) s in
  r = router_of (sc_nf c) (sc_na c || sc_cors c) regs /\
  all_ok (reg_results [] regs) /\
  table_of regs = map to_route regs /\
  forall m p segs resp, clean_path p = Some segs -> In resp (serve_allowed r m p) ->
    resp_ok (map to_route regs) (sc_nf c) (sc_na c || sc_cors c) m segs resp.
Proof. exact L_server_dispatch. Qed.
Print Assumptions server_dispatch_on_user_tables.

(* otherwise Start died with the first rejection that list prescribes (duplicate after
   prefixing and cleaning, bad method, unrooted result) *)
Theorem server_start_fails_as_prescribed : forall cfgs tables evs s e,
  start_of (wstarts (run opt_real cfgs tables evs)) s = Some (StartFailed e) ->
  let regs := spec_regs tables (before_start s evs) s in
  e <> RegOk /\
  exists pre g post, regs = (pre ++ g :: post)%list /\ all_ok (reg_results [] pre) /\
                     reg_spec (table_of pre) (rmethod g) (rpath g) = e.
Proof. exact L_server_start_fails. Qed.
Print Assumptions server_start_fails_as_prescribed.

Theorem server_starts_iff_no_rejection : forall cfgs tables evs s, has_start s evs = true ->
  ((exists r, start_of (wstarts (run opt_real cfgs tables evs)) s = Some (Started r)) <->
   all_ok (reg_results [] (spec_regs tables (before_start s evs) s))).
Proof. exact L_server_starts_iff. Qed.
Print Assumptions server_starts_iff_no_rejection.

(* a rooted prefix: the pattern the router sees is the cleaning of
   (segments of the prefix ++ segments of the route path) *)
Theorem prefixed_route_segments : forall gt p, p <> "" ->
  clean_path (prefix_path (String slash gt) p) = Some (clean_segs (split gt ++ split p)).
Proof. exact L_prefixed_segments. Qed.
Print Assumptions prefixed_route_segments.

(* rest.WithCors() replaces the 405/Allow clause: OPTIONS is always 204 (a registered
   OPTIONS route is never dispatched) and a would-be 405 is a 404 without Allow.  This is
   the option's documented purpose; it is outside the property's quantifier (route tables on
   the router with its default not-allowed behaviour) and is pinned here so that it cannot
   change unnoticed. *)
Theorem cors_replaces_405 : forall nf na regs r m p segs,
  bind_routes (new_router nf (na || true)) regs = Started r ->
  clean_path p = Some segs ->
  let T := map to_route regs in
  sserve true r "OPTIONS" p = SCors204 /\
  (m <> "OPTIONS" -> no_own T m segs ->
   (exists t, In t T /\ tm t <> m /\ matches (tpat t) segs) ->
   sserve true r m p = SResp RNotFound).
Proof. exact L_cors_behaviour. Qed.
Print Assumptions cors_replaces_405.

(* ---- non-vacuity: ONE table of three routes; mounted under /v1 and (a sub-slice, wrapped) under
   /v2 on server 0, shared with server 1 under two stacked prefixes through AddRoute; server 0
   starts before server 1 mounts anything. *)
Definition ex_users : list reg := [mkReg "GET" "/users/:id" 0%Z; mkReg "POST" "/users" 1%Z; mkReg "GET" "users/" 2%Z].
Definition ex_events : list event :=
  [ EMount (mkMount 0 0 0 3 false None [OPrefix "/v1"; OOther]);
    EMount (mkMount 0 0 0 2 false (Some 1%Z) [OOther; OPrefix "/v2/"]);
    EStart 0;
    EMount (mkMount 1 0 1 3 true None [OPrefix "/in"; OPrefix "/out"]);
    EStart 1 ].
Definition ex_cfgs : list scfg := [mkCfg false false false true false; default_cfg].

Example ex_spec_regs :
  map (fun g => (rmethod g, rpath g, rhandler g)) (spec_regs [ex_users] ex_events 0) =
  [("GET", "/v1/users/:id", 0%Z); ("POST", "/v1/users", 1%Z); ("GET", "/v1/users", 2%Z);
   ("GET", "/v2/users/:id", 200000%Z); ("POST", "/v2/users", 200001%Z)]
  /\ map (fun g => (rmethod g, rpath g)) (spec_regs [ex_users] ex_events 1) =
     [("POST", "/out/in/users"); ("GET", "/out/in/users")].
Proof. vm_compute. split; reflexivity. Qed.

Example ex_server_serves :
  exists r0 r1,
    start_of (wstarts (run opt_real ex_cfgs [ex_users] ex_events)) 0 = Some (Started r0) /\
    start_of (wstarts (run opt_real ex_cfgs [ex_users] ex_events)) 1 = Some (Started r1) /\
    serve r0 "GET" "/v1/users/7" = RHandler 0%Z [("id", "7")] /\
    serve r0 "GET" "/v2/users/8" = RHandler 200000%Z [("id", "8")] /\
    serve r0 "GET" "/v2/v1/users/7" = RNotFound /\
    serve r0 "PUT" "/v1/users" = RNotAllowed ["GET"; "POST"] /\
    serve r1 "GET" "/out/in/users" = RHandler 2%Z [] /\
    serve r1 "GET" "/v1/users/7" = RNotFound /\
    mw_expected (nth 0 ex_cfgs default_cfg) 200000%Z = [1000%Z; 1%Z] /\
    mw_expected (nth 0 ex_cfgs default_cfg) 0%Z = [1000%Z].
Proof. eexists. eexists. vm_compute. repeat split. Qed.

Example ex_server_duplicate_across_mounts :
  spec_start [default_cfg] [ex_users]
    [EMount (mkMount 0 0 0 3 false None [OPrefix "/v1"]); EMount (mkMount 0 0 0 1 false None [OPrefix "/v1/"]); EStart 0] 0
  = StartFailed RegDuplicate
  /\ spec_start [default_cfg] [ex_users] [EMount (mkMount 0 0 0 3 false None [OPrefix "v1"]); EStart 0] 0
     = StartFailed RegInvalidPath
  /\ spec_start [default_cfg] [ex_users] [EMount (mkMount 0 0 0 3 false None []); EStart 0] 0
     = StartFailed RegInvalidPath.
Proof. vm_compute. repeat split; reflexivity. Qed.

(* ====================================================================== the executable specs
   [spec_serve] (best_of / binds / allow_spec over the plain route list) and the boolean
   judgement [prop_ok] applies to responses observed on the Go code are not oracles: *)

(* the executable reference matcher picks a best route, and finds one whenever there is one *)
Theorem best_of_is_best : forall T m segs t, best_of T m segs = Some t -> is_best T m segs t.
Proof. exact best_of_sound. Qed.
Print Assumptions best_of_is_best.

Theorem best_of_finds_one : forall T m segs t, is_best T m segs t -> exists t', best_of T m segs = Some t'.
Proof. exact best_of_complete. Qed.
Print Assumptions best_of_finds_one.

(* the search-tree router with backtracking REFINES the declarative reference: inside the side
   condition ServeHTTP answers exactly what spec_serve computes from the route list (same
   handler, same variables, same status; the Allow list up to order) *)
Theorem router_answers_spec_serve : forall nf na regs m p,
  one_var_name_per_position (table_of regs) = true ->
  resp_equiv (serve (router_of nf na regs) m p) (spec_serve (table_of regs) nf na m p).
Proof. exact L_serve_is_spec. Qed.
Print Assumptions router_answers_spec_serve.

(* the judgement of an observed response IS the case table [obs_ok] (= resp_ok with the
   variables clause in the form observable on a map) *)
Theorem judgement_is_the_case_table : forall T nf na q segs, clean_path (qp q) = Some segs ->
  (response_ok T nf na q = true <-> obs_ok T nf na (qm q) segs (qres q)).
Proof. exact L_response_ok_iff. Qed.
Print Assumptions judgement_is_the_case_table.

Theorem judgement_unrooted : forall T nf na q, clean_path (qp q) = None ->
  (response_ok T nf na q = true <-> qres q = (if nf then RNotFoundCustom else RNotFound)).
Proof. exact L_response_ok_unrooted. Qed.
Print Assumptions judgement_unrooted.

Theorem case_table_implies_observable_form : forall T nf na m segs resp,
  resp_ok T nf na m segs resp -> obs_ok T nf na m segs resp.
Proof. exact L_resp_ok_obs_ok. Qed.
Print Assumptions case_table_implies_observable_form.

(* for a pattern with pairwise distinct names the observable variables clause is exact *)
Theorem observable_vars_exact_for_distinct_names : forall ps pat segs,
  matches pat segs -> NoDup (var_names pat) -> params_spec ps pat segs ->
  forall kv, In kv ps <-> In kv (raw_binds pat segs).
Proof. exact params_spec_distinct. Qed.
Print Assumptions observable_vars_exact_for_distinct_names.

(* no false alarm: every response the verified model can give passes the judgement *)
Theorem model_passes_judgement : forall nf na regs q,
  In (qres q) (serve_allowed (router_of nf na regs) (qm q) (qp q)) ->
  response_ok (table_of regs) nf na q = true.
Proof. exact L_model_passes_judgement. Qed.
Print Assumptions model_passes_judgement.

(* prop_ok of a router case, unfolded *)
Theorem prop_ok_router_meaning : forall c,
  r_prop_ok c = true <->
  ((one_var_name_per_position (table_of (cregs c)) = true ->
    map accepted (cregobs c) = map accepted (reg_results [] (cregs c))) /\
   Forall (fun q => one_var_name_per_position (table_at_req c q) = true ->
                    req_judged (table_at_req c q) (cnf c) (cna c) q) (creqs c)).
Proof. exact L_r_prop_ok_iff. Qed.
Print Assumptions prop_ok_router_meaning.

(* server cases: what the verified registration + router model answers passes the judgement that
   is computed from the user's tables only; and a passing judgement means the case table *)
Theorem server_model_passes_judgement : forall s q r,
  start_of (wstarts (run opt_real (scfgs s) (stables s) (sevents s))) (sqs q) = Some (Started r) ->
  let c := nth (sqs q) (scfgs s) default_cfg in
  In (sqres q) (sserve_allowed (sc_cors c) r (sqm q) (sqp q)) ->
  match sqres q with
  | SResp (RHandler _ ps) => Forall (eq ps) (sqlate q)      (* every later read = the first one *)
  | _ => sqlate q = []
  end ->
  sreq_ok s q = true.
Proof. exact L_server_model_passes. Qed.
Print Assumptions server_model_passes_judgement.

Theorem server_judgement_means : forall s q segs resp,
  server_in_scope s (sqs q) = true ->
  let c := nth (sqs q) (scfgs s) default_cfg in
  sc_cors c = false -> sqres q = SResp resp -> clean_path (sqp q) = Some segs ->
  sreq_ok s q = true ->
  all_ok (reg_results [] (user_regs s (sqs q))) /\
  obs_ok (table_of (user_regs s (sqs q))) (sc_nf c) (sc_na c) (sqm q) segs resp.
Proof. exact L_server_judgement_means. Qed.
Print Assumptions server_judgement_means.

Example ex_spec_serve :
  spec_serve (table_of ex_regs) false false "GET" "/a//a/./b/" = RHandler 0%Z [("y", "a")]
  /\ spec_serve (table_of ex_regs) false false "PUT" "/a/a/b" = RNotAllowed ["GET"; "POST"]
  /\ spec_serve (table_of ex_regs) false false "GET" "/zz" = RNotFound.
Proof. vm_compute. repeat split. Qed.

(* inside the side condition the case table leaves no freedom: two responses obeying it are the
   same (Allow up to order) *)
Theorem case_table_determines_response : forall regs nf na m p segs r1 r2,
  clean_path p = Some segs ->
  one_var_name_per_position (table_of regs) = true ->
  resp_ok (table_of regs) nf na m segs r1 -> resp_ok (table_of regs) nf na m segs r2 ->
  resp_equiv r1 r2.
Proof. exact L_case_table_functional. Qed.
Print Assumptions case_table_determines_response.

(* two registration histories leaving the same SET of routes answer every request alike: the
   order of Handle calls (hence of AddRoutes calls, groups, mounts) is irrelevant *)
Theorem registration_order_irrelevant : forall nf na regs regs' m p,
  (forall t, In t (table_of regs) <-> In t (table_of regs')) ->
  one_var_name_per_position (table_of regs) = true ->
  resp_equiv (serve (router_of nf na regs) m p) (serve (router_of nf na regs') m p).
Proof. exact L_registration_order_irrelevant. Qed.
Print Assumptions registration_order_irrelevant.

Example ex_order_irrelevant :
  serve (router_of false false [mkReg "GET" "/a/:x" 0%Z; mkReg "GET" "/a/b" 1%Z; mkReg "POST" "/a/b" 2%Z]) "PUT" "/a/b"
  = RNotAllowed ["GET"; "POST"] /\
  serve (router_of false false [mkReg "POST" "/a/b" 2%Z; mkReg "GET" "/a/b" 1%Z; mkReg "GET" "/a/:x" 0%Z]) "PUT" "/a/b"
  = RNotAllowed ["POST"; "GET"].
Proof. vm_compute. split; reflexivity. Qed.

(* ====================================================================== request histories
   One long-lived router, any schedule of Serve / Return / Read events over numbered requests
   (History.v): a handler may read its path variables long after ServeHTTP returned for it (route
   timeout answered by rest's timeout middleware, kept request or map), with any other requests
   served in between or concurrently. *)

(* every read returns the bindings of the reading request itself: a function of the router (hence
   of the table) and request i only *)
Theorem reads_are_own_bindings : forall r reqs sched i ps,
  In (i, ps) (hreads (hrun r reqs sched)) -> ps = vars_of r (req_at reqs i).
Proof. exact L_reads_are_own_bindings. Qed.
Print Assumptions reads_are_own_bindings.

(* ... independent of every other request and of the schedule *)
Theorem reads_independent_of_other_requests : forall r reqs reqs' sched sched' i ps ps',
  req_at reqs i = req_at reqs' i ->
  In (i, ps) (hreads (hrun r reqs sched)) -> In (i, ps') (hreads (hrun r reqs' sched')) -> ps = ps'.
Proof. exact L_reads_independent_of_other_requests. Qed.
Print Assumptions reads_independent_of_other_requests.

(* ... and exactly the segments bound by the best route *)
Theorem reads_are_best_route_bindings : forall nf na regs reqs sched i ps segs t,
  In (i, ps) (hreads (hrun (router_of nf na regs) reqs sched)) ->
  clean_path (snd (req_at reqs i)) = Some segs ->
  one_var_name_per_position (table_of regs) = true ->
  is_best (table_of regs) (fst (req_at reqs i)) segs t ->
  ps = binds (tpat t) segs.
Proof. exact L_reads_are_best_route_bindings. Qed.
Print Assumptions reads_are_best_route_bindings.

(* what prop_ok says of the later reads observed on the Go code *)
Theorem late_reads_judged_like_the_first : forall T nf na m p r l,
  lates_ok T nf na m p r l = true <-> lates_judged T nf na m p r l.
Proof. exact lates_ok_iff. Qed.
Print Assumptions late_reads_judged_like_the_first.

Theorem server_late_reads_judged : forall s q resp,
  server_in_scope s (sqs q) = true ->
  let c := nth (sqs q) (scfgs s) default_cfg in
  sc_cors c = false -> sqres q = SResp resp ->
  sreq_ok s q = true ->
  lates_judged (table_of (user_regs s (sqs q))) (sc_nf c) (sc_na c) (sqm q) (sqp q) resp (sqlate q).
Proof. exact L_server_lates_judged. Qed.
Print Assumptions server_late_reads_judged.

Example ex_history :
  hreads (hrun (router_of false false ex_regs) [("GET", "/a/1/b"); ("GET", "/2/a/a")]
            [HServe 0; HReturn 0; HServe 1; HRead 0; HRead 1; HReturn 1; HRead 0])
  = [(0%nat, [("y", "1")]); (1%nat, [("x", "2")]); (0%nat, [("y", "1")])].
Proof. vm_compute. reflexivity. Qed.

(* ====================================================================== agreement implies the property
   For every case term (router or server kind, whatever was observed): if the verified model
   reproduces the observations ([agrees]), then the property judgement computed from the route
   tables only ([prop_ok]) holds.  So [prop_ok] can only fail where the implementation left the
   model, and — with the theorems above — everything [prop_ok] demands is something the model is
   proved to do. *)
Theorem agrees_implies_prop_ok : forall c, agrees c = true -> prop_ok c = true.
Proof. exact L_agrees_implies_prop_ok. Qed.
Print Assumptions agrees_implies_prop_ok.

(* the case table does not distinguish observations that differ only in the order a map or the
   Allow list is written in *)
Theorem case_table_up_to_listing_order : forall T nf na m segs a b, response_eqb a b = true ->
  obs_ok T nf na m segs b -> obs_ok T nf na m segs a.
Proof. exact obs_ok_eqb. Qed.
Print Assumptions case_table_up_to_listing_order.

(* ====================================================================== round 4: path.Clean and the custom handlers
   "including paths needing cleaning": what cleaning does, for EVERY path — so that the theorems above, which speak of
   [clean_path p = Some segs], say something about the path as it was sent.
   [real s] = the segment is neither empty nor "." nor "..". *)

(* the router looks at a request path, and Handle at a pattern, only through path.Clean *)
Theorem router_sees_only_the_cleaned_path : forall r m p q, clean_path p = clean_path q ->
  serve r m p = serve r m q /\ serve_allowed r m p = serve_allowed r m q.
Proof. exact L_serve_through_clean. Qed.
Print Assumptions router_sees_only_the_cleaned_path.

Theorem handle_sees_only_the_cleaned_pattern : forall r m p q h, clean_path p = clean_path q ->
  handle r m p h = handle r m q h.
Proof. exact L_handle_through_clean. Qed.
Print Assumptions handle_sees_only_the_cleaned_pattern.

(* the segments searched with are the root [""] or contain no empty, "." or ".." segment *)
Theorem cleaned_path_is_canonical : forall l,
  clean_segs l = [""] \/ (clean_segs l <> [] /\ forallb real (clean_segs l) = true).
Proof. exact L_clean_segs_canonical. Qed.
Print Assumptions cleaned_path_is_canonical.

Theorem path_clean_idempotent : forall l, clean_segs (clean_segs l) = clean_segs l.
Proof. exact L_clean_segs_idem. Qed.
Print Assumptions path_clean_idempotent.

(* a trailing slash changes neither dispatch nor registration (so "/users/7/" is "/users/7", and the pattern
   "/users/:id/" is the pattern "/users/:id" — registering both is a duplicate) *)
Theorem trailing_slash_irrelevant : forall r m p h, clean_path p <> None ->
  serve r m (p ++ "/") = serve r m p /\ handle r m (p ++ "/") h = handle r m p h.
Proof. exact L_trailing_slash_irrelevant. Qed.
Print Assumptions trailing_slash_irrelevant.

(* empty segments ("//") and "." segments anywhere in a rooted path change nothing *)
Theorem empty_segment_irrelevant : forall a b, clean_path a <> None ->
  clean_path (a ++ "//" ++ b) = clean_path (a ++ "/" ++ b).
Proof. exact L_clean_double_slash. Qed.
Print Assumptions empty_segment_irrelevant.

Theorem dot_segment_irrelevant : forall a b, clean_path a <> None ->
  clean_path (a ++ "/./" ++ b) = clean_path (a ++ "/" ++ b).
Proof. exact L_clean_dot_segment. Qed.
Print Assumptions dot_segment_irrelevant.

(* "x/.." cancels for every kept segment x; ".." at the root stays at the root *)
Theorem dotdot_cancels : forall a s b, real s = true ->
  clean_segs (a ++ s :: ".." :: b) = clean_segs (a ++ b).
Proof. exact L_clean_dotdot. Qed.
Print Assumptions dotdot_cancels.

Theorem dotdot_at_root : forall b, clean_segs (".." :: b) = clean_segs b.
Proof. exact L_clean_dotdot_root. Qed.
Print Assumptions dotdot_at_root.

(* SetNotFoundHandler / SetNotAllowedHandler (rest.WithNotFoundHandler / WithNotAllowedHandler) replace the default
   404 / 405 answers and nothing else: which handler runs and with which variables does not depend on them *)
Theorem custom_handlers_only_relabel : forall nf na regs m p,
  serve (router_of nf na regs) m p = relabel nf na (serve (router_of false false regs) m p).
Proof. exact L_custom_handlers_only_relabel. Qed.
Print Assumptions custom_handlers_only_relabel.

Theorem custom_handlers_dispatch_same : forall nf na regs m p h ps,
  serve (router_of nf na regs) m p = RHandler h ps <-> serve (router_of false false regs) m p = RHandler h ps.
Proof. exact L_custom_handlers_dispatch_same. Qed.
Print Assumptions custom_handlers_dispatch_same.

(* concrete instances: cleaning in requests and patterns; HEAD is not GET; OPTIONS is an ordinary method of the bare
   router; a request segment spelled like the pattern's own `:id` is bound like any other segment *)
Example ex_cleaning :
  let r := router_of false false [mkReg "GET" "/users/:id/" 0%Z; mkReg "HEAD" "/h" 1%Z; mkReg "OPTIONS" "//o/./x/.." 2%Z] in
  serve r "GET" "/users//7/" = RHandler 0%Z [("id", "7")] /\
  serve r "GET" "/a/../users/./:id" = RHandler 0%Z [("id", ":id")] /\
  serve r "GET" "/h" = RNotAllowed ["HEAD"] /\
  serve r "HEAD" "/users/7" = RNotAllowed ["GET"] /\
  serve r "OPTIONS" "/o" = RHandler 2%Z [] /\
  serve r "GET" "/users/7/.." = RNotFound /\
  snd (handle r "GET" "/users/:id" 9%Z) = RegDuplicate.
Proof. vm_compute. repeat split. Qed.

(* ====================================================================== round 4: route binding (rest/engine.go)
   engine.bindRoutes is a sequence of router.Handle calls: every route of the engine's groups in order, up to and
   including the first one the router rejects ([bind_calls]).  From the plain route list alone ([spec_calls], no trie):
   the same calls with the same results.  The executor observes them on the user's own router (rest.WithRouter). *)
Theorem route_binding_calls : forall nf na regs, bind_calls (new_router nf na) regs = spec_calls [] regs.
Proof. exact L_bind_calls_are_spec. Qed.
Print Assumptions route_binding_calls.

(* ... and the list is the union, in order, of the prefix-extended tables mounted before Start, as written *)
Theorem start_binds_the_union_in_order : forall tables cfgs evs i,
  bound_regs tables cfgs evs i = spec_regs tables (before_start i evs) i.
Proof. exact L_bound_regs_spec. Qed.
Print Assumptions start_binds_the_union_in_order.

(* Route options other than WithPrefix (timeout, max-bytes, priority, SSE, JWT, JWT transition, signature) and the choice
   AddRoute / AddRoutes do not take part in which routes a server binds: dropping them all ([plain_event]) leaves
   the route list, how Start ends and the router it leaves unchanged — for every event sequence, at specification level
   and in the heap model of the real registration sequence. *)
Theorem other_options_transparent : forall cfgs tables evs s,
  spec_regs tables (map plain_event evs) s = spec_regs tables evs s /\
  spec_start cfgs tables (map plain_event evs) s = spec_start cfgs tables evs s.
Proof. exact L_other_options_transparent. Qed.
Print Assumptions other_options_transparent.

Theorem other_options_transparent_run : forall cfgs tables evs s,
  start_of (wstarts (run opt_real cfgs tables (map plain_event evs))) s =
  start_of (wstarts (run opt_real cfgs tables evs)) s.
Proof. exact L_other_options_transparent_run. Qed.
Print Assumptions other_options_transparent_run.

Example ex_binding :
  let tables := [[mkReg "GET" "/users/:id" 0%Z; mkReg "POST" "/users" 1%Z]] in
  let evs := [EMount (mkMount 0 0 0 2 true None [OOther; OPrefix "/v1"; OOther]);
              EMount (mkMount 0 0 1 2 false None [OPrefix "/v1/"]); EStart 0] in
  map (fun x => (rpath (fst x), snd x)) (bind_calls (new_router false false) (bound_regs tables [default_cfg] evs 0))
  = [("/v1/users/:id", RegOk); ("/v1/users", RegOk); ("/v1/users", RegDuplicate)] /\
  spec_regs tables (map plain_event evs) 0 = spec_regs tables evs 0.
Proof. vm_compute. split; reflexivity. Qed.

(* ====================================================================== round 4b: the request target (Target.v)
   [parse_target t] = (URL.Path, URL.RawPath) as net/http + net/url compute them for an origin-form target
   (control bytes refused, query cut at the first '?', percent-decoding, RawPath kept iff the spelling is not the
   default encoding); [serve_target r m t] = ServeHTTP on that request line (None: refused by net/http).
   Compared with Go's Path / RawPath on every request of the "target" cases. *)

(* two well-formed targets that decode to the same path — whatever their spelling (which characters are escaped,
   upper / lower-case hex), their query strings, and whether net/url kept a RawPath — get the same route, the same
   variables and the same 404 / 405 / Allow, for every router (and for every map order) *)
Theorem dispatch_depends_on_decoded_path_only : forall r m t1 t2,
  has_ctl t1 = false -> origin_form t1 = true -> has_ctl t2 = false -> origin_form t2 = true ->
  unescape (before_query t1) = unescape (before_query t2) ->
  serve_target r m t1 = serve_target r m t2 /\
  option_map (fun pr => serve_allowed r m (routed_path pr)) (parse_target t1) =
  option_map (fun pr => serve_allowed r m (routed_path pr)) (parse_target t2).
Proof. exact L_dispatch_depends_on_decoded_path_only. Qed.
Print Assumptions dispatch_depends_on_decoded_path_only.

Theorem target_is_served_as_its_decoded_path : forall r m t p raw, parse_target t = Some (p, raw) ->
  serve_target r m t = Some (serve r m p).
Proof. exact L_serve_target_is_serve_decoded. Qed.
Print Assumptions target_is_served_as_its_decoded_path.

Theorem parsed_target_is_the_decoded_path : forall t p raw, parse_target t = Some (p, raw) ->
  has_ctl t = false /\ origin_form t = true /\ unescape (before_query t) = Some p /\
  (raw = "" \/ raw = before_query t).
Proof. exact L_parse_target_path. Qed.
Print Assumptions parsed_target_is_the_decoded_path.

(* the variables the handler gets are the segments of the DECODED, cleaned path bound by the best route for it *)
Theorem decoded_variables_are_decoded_segments : forall nf na regs m t p raw segs h ps,
  one_var_name_per_position (table_of regs) = true ->
  parse_target t = Some (p, raw) -> clean_path p = Some segs ->
  serve_target (router_of nf na regs) m t = Some (RHandler h ps) ->
  exists rt, is_best (table_of regs) m segs rt /\ th rt = h /\ ps = binds (tpat rt) segs.
Proof. exact L_decoded_variables_are_decoded_segments. Qed.
Print Assumptions decoded_variables_are_decoded_segments.

(* net/url's default encoding decodes to what was encoded and leaves no RawPath: every rooted path is the
   decoded path of a target (so the theorems about [serve r m p] speak about real requests) *)
Theorem unescape_escape : forall s, unescape (escape s) = Some s.
Proof. exact L_unescape_escape. Qed.
Print Assumptions unescape_escape.

Theorem default_encoding_has_no_rawpath : forall p, origin_form p = true -> parse_target (escape p) = Some (p, "").
Proof. exact L_default_encoding_no_rawpath. Qed.
Print Assumptions default_encoding_has_no_rawpath.

Theorem every_path_has_a_target : forall r m p, origin_form p = true ->
  serve_target r m (escape p) = Some (serve r m p).
Proof. exact L_every_path_has_a_target. Qed.
Print Assumptions every_path_has_a_target.

Example ex_targets :
  let r := router_of false false [mkReg "GET" "/files/readme" 0%Z; mkReg "GET" "/files/:name" 1%Z; mkReg "GET" "/b" 2%Z] in
  parse_target "/files/%72eadme?x=%zz" = Some ("/files/readme", "/files/%72eadme") /\
  serve_target r "GET" "/files/%72eadme?x=%zz" = Some (RHandler 0%Z []) /\
  serve_target r "GET" "/files/a%2Fb" = Some RNotFound /\
  serve_target r "GET" "/files/%2e%2E/b/" = Some (RHandler 2%Z []) /\
  serve_target r "GET" "/files/%3aid" = Some (RHandler 1%Z [("name", ":id")]) /\
  serve_target r "GET" "/files/%zz" = None /\
  parse_target "/files/a b" = Some ("/files/a b", "/files/a b") /\ parse_target "/b?" = Some ("/b", "").
Proof. vm_compute. repeat split. Qed.
