(* C09 — the request target (Target.v): dispatch depends on the DECODED path only; the variables
   delivered are segments of the decoded, cleaned path; a target in net/url's default encoding has
   no RawPath.  Round 4b. *)
From Coq Require Import List String Ascii Bool ZArith NArith Lia.
From GZ Require Import C09.Model C09.Spec C09.Proofs C09.Target.
Import ListNotations.
Open Scope string_scope.

(* ---- what parse_target returns *)
Lemma L_parse_target_path : forall t p raw, parse_target t = Some (p, raw) ->
  has_ctl t = false /\ origin_form t = true /\ unescape (before_query t) = Some p /\
  (raw = "" \/ raw = before_query t).
Proof.
  intros t p raw H. unfold parse_target in H.
  destruct (has_ctl t); [discriminate|]. destruct (origin_form t); [|discriminate]. cbn in H.
  destruct (unescape (before_query t)) as [path|]; [|discriminate].
  inversion H; subst. repeat split; try reflexivity.
  destruct (escape p =? before_query t); auto.
Qed.

Lemma L_parse_target_some : forall t p, has_ctl t = false -> origin_form t = true ->
  unescape (before_query t) = Some p -> exists raw, parse_target t = Some (p, raw).
Proof.
  intros t p C O U. unfold parse_target. rewrite C, O, U. cbn. eexists. reflexivity.
Qed.

(* ---- dispatch depends on the decoded path only: two well-formed targets that decode to the
   same path (whatever their spelling, query string, RawPath) are answered alike — same route,
   same variables, same 404 / 405 / Allow — for every router and every map order *)
Lemma L_dispatch_depends_on_decoded_path_only : forall r m t1 t2,
  has_ctl t1 = false -> origin_form t1 = true -> has_ctl t2 = false -> origin_form t2 = true ->
  unescape (before_query t1) = unescape (before_query t2) ->
  serve_target r m t1 = serve_target r m t2 /\
  option_map (fun pr => serve_allowed r m (routed_path pr)) (parse_target t1) =
  option_map (fun pr => serve_allowed r m (routed_path pr)) (parse_target t2).
Proof.
  intros r m t1 t2 C1 O1 C2 O2 U. unfold serve_target, serve_target_with, parse_target.
  rewrite C1, O1, C2, O2, U. cbn. destruct (unescape (before_query t2)); split; reflexivity.
Qed.

(* the answer to a target is the router's answer to its decoded path *)
Lemma L_serve_target_is_serve_decoded : forall r m t p raw, parse_target t = Some (p, raw) ->
  serve_target r m t = Some (serve r m p).
Proof. intros r m t p raw H. unfold serve_target, serve_target_with. rewrite H. reflexivity. Qed.

(* ---- the variables delivered are the segments, of the decoded and cleaned path, bound by the
   best route for that path *)
Lemma L_decoded_variables_are_decoded_segments : forall nf na regs m t p raw segs h ps,
  one_var_name_per_position (table_of regs) = true ->
  parse_target t = Some (p, raw) -> clean_path p = Some segs ->
  serve_target (router_of nf na regs) m t = Some (RHandler h ps) ->
  exists rt, is_best (table_of regs) m segs rt /\ th rt = h /\ ps = binds (tpat rt) segs.
Proof.
  intros nf na regs m t p raw segs h ps W PT CP S.
  rewrite (L_serve_target_is_serve_decoded _ _ _ _ _ PT) in S. inversion S as [S'].
  assert (I : In (RHandler h ps) (serve_allowed (router_of nf na regs) m p))
    by (rewrite <- S'; apply serve_in_allowed).
  destruct (L_chosen_is_best nf na regs m p segs h ps CP I) as [rt [B E]].
  exists rt. split; [exact B|]. split; [exact E|].
  apply (L_params_exact nf na regs m p segs rt h ps CP W B I).
Qed.

(* ---- Go's default encoding: escape, then unescape, is the identity; such a target has no RawPath *)
Lemma hex_roundtrip : forall c,
  is_hex (hex_digit (byte c / 16)) && is_hex (hex_digit (byte c mod 16)) = true /\
  ascii_of_N (16 * hex_val (hex_digit (byte c / 16)) + hex_val (hex_digit (byte c mod 16))) = c.
Proof.
  intros [b0 b1 b2 b3 b4 b5 b6 b7].
  destruct b0, b1, b2, b3, b4, b5, b6, b7; vm_compute; split; reflexivity.
Qed.

Lemma unescaped_not_percent : forall c, should_escape c = false -> Ascii.eqb c "%"%char = false.
Proof.
  intros [b0 b1 b2 b3 b4 b5 b6 b7].
  destruct b0, b1, b2, b3, b4, b5, b6, b7; vm_compute; intro H; try reflexivity; discriminate.
Qed.

Lemma L_unescape_escape : forall s, unescape (escape s) = Some s.
Proof.
  induction s as [|c s IH]; [reflexivity|]. cbn [escape].
  destruct (should_escape c) eqn:E.
  - cbn [unescape]. change (Ascii.eqb "%"%char "%"%char) with true. cbv iota.
    destruct (hex_roundtrip c) as [H1 H2]. rewrite H1, H2, IH. reflexivity.
  - cbn [unescape]. rewrite (unescaped_not_percent c E), IH. reflexivity.
Qed.

Lemma escaped_plain : forall c, should_escape c = false ->
  Ascii.eqb c "?"%char = false /\ ((byte c <? 32)%N || (byte c =? 127)%N) = false.
Proof.
  intros [b0 b1 b2 b3 b4 b5 b6 b7].
  destruct b0, b1, b2, b3, b4, b5, b6, b7; vm_compute; intro H; try (split; reflexivity); discriminate.
Qed.

Lemma hex_digit_plain : forall c,
  let h := hex_digit (byte c / 16) in let l := hex_digit (byte c mod 16) in
  Ascii.eqb h "?"%char = false /\ Ascii.eqb l "?"%char = false /\
  ((byte h <? 32)%N || (byte h =? 127)%N) = false /\ ((byte l <? 32)%N || (byte l =? 127)%N) = false.
Proof.
  intros [b0 b1 b2 b3 b4 b5 b6 b7].
  destruct b0, b1, b2, b3, b4, b5, b6, b7; vm_compute; repeat split; reflexivity.
Qed.

Lemma before_query_escape : forall s, before_query (escape s) = escape s.
Proof.
  induction s as [|c s IH]; [reflexivity|]. cbn [escape]. destruct (should_escape c) eqn:E.
  - destruct (hex_digit_plain c) as [H [L _]]. cbn zeta in H, L. cbn [before_query].
    change (Ascii.eqb "%"%char "?"%char) with false. cbv iota. rewrite H, L, IH. reflexivity.
  - cbn [before_query]. destruct (escaped_plain c E) as [Q _]. rewrite Q, IH. reflexivity.
Qed.

Lemma has_ctl_escape : forall s, has_ctl (escape s) = false.
Proof.
  unfold has_ctl. induction s as [|c s IH]; [reflexivity|]. cbn [escape]. destruct (should_escape c) eqn:E.
  - destruct (hex_digit_plain c) as [_ [_ [H L]]]. cbn zeta in H, L.
    cbn [list_ascii_of_string existsb]. rewrite H, L, IH. reflexivity.
  - cbn [list_ascii_of_string existsb]. destruct (escaped_plain c E) as [_ Q]. rewrite Q, IH. reflexivity.
Qed.

Lemma L_default_encoding_no_rawpath : forall p, origin_form p = true ->
  parse_target (escape p) = Some (p, "").
Proof.
  intros p O. unfold parse_target. rewrite has_ctl_escape.
  assert (OE : origin_form (escape p) = true).
  { destruct p as [|c p']; [discriminate|]. cbn in O. apply Ascii.eqb_eq in O. subst c. reflexivity. }
  rewrite OE. cbn. rewrite before_query_escape, L_unescape_escape, String.eqb_refl. reflexivity.
Qed.

(* so every rooted path is the decoded path of some target, and is served as such *)
Lemma L_every_path_has_a_target : forall r m p, origin_form p = true ->
  serve_target r m (escape p) = Some (serve r m p).
Proof. intros r m p O. apply (L_serve_target_is_serve_decoded r m _ p ""). apply L_default_encoding_no_rawpath. exact O. Qed.
