(* C09 — HTTP router: executable model of
     core/search/tree.go      (node, add, Search/next, match, addParam)
     rest/router/patrouter.go (Handle, ServeHTTP, methodsAllowed, validMethod)
     path.Clean               (for rooted paths, on segment lists)
   No proofs in this file, so that the model still runs when a proof breaks.

   Data refinement w.r.t. the Go code (checked by the correspondence run):
   - a route / request path is the list of its '/'-separated segments after the
     leading '/' ([split]); "/" is the one-element list [""], exactly as the Go
     code sees the empty remainder [route[1:] = ""];
   - [node.children[0]] / [children[1]] (Go maps) are association lists [lits] /
     [vars] keyed by the whole token (":x" for a variable), in insertion order;
   - Go iterates a map in an unspecified order.  [outcomes] therefore computes the
     SET of results Tree.next can return: any literal child whose sub-search
     succeeds may be the first one found; only when no literal child succeeds,
     any succeeding variable child.  [search] is the first of them (insertion
     order).  Under the property's side condition all outcomes coincide
     (Props.map_order_irrelevant), so [search] is THE result;
   - [Result.Params] (a Go map filled on the way back from the recursion) is an
     association list with unique keys ([set_param] overwrites);
   - handlers are numbers (the index of the registration);
   - errInvalidState (nil child) and errEmptyItem (nil handler) are not modelled;
     on errDupSlash (unreachable through the router, which cleans patterns) Go
     leaves the freshly created empty nodes behind, the model leaves the tree
     unchanged — such nodes are invisible to Search. *)
From Coq Require Import List String Ascii Bool ZArith.
Import ListNotations.
Open Scope string_scope.

(* ------------------------------------------------------------------ strings *)

Definition colon : ascii := ":"%char.
Definition slash : ascii := "/"%char.

(* pat[0] == ':' *)
Definition is_var (s : string) : bool :=
  match s with
  | String c _ => Ascii.eqb c colon
  | EmptyString => false
  end.

(* pat[1:] *)
Definition var_name (s : string) : string :=
  match s with
  | String _ t => t
  | EmptyString => EmptyString
  end.

(* strings.Split(s, "/") : never empty *)
Fixpoint split (s : string) : list string :=
  match s with
  | EmptyString => [EmptyString]
  | String c t =>
    if Ascii.eqb c slash then EmptyString :: split t
    else match split t with
         | x :: r => String c x :: r
         | [] => [String c EmptyString]
         end
  end.

Fixpoint join (l : list string) : string :=
  match l with
  | [] => EmptyString
  | [x] => x
  | x :: r => x ++ String slash (join r)
  end.

(* ------------------------------------------------------------- path.Clean *)

(* one component of a rooted path; [st] is the stack of kept components,
   innermost first *)
Definition clean_step (st : list string) (s : string) : list string :=
  if (s =? "") || (s =? ".") then st
  else if s =? ".." then tl st
  else s :: st.

(* the components of path.Clean("/" ++ join l); the root is [""] *)
Definition clean_segs (l : list string) : list string :=
  match fold_left clean_step l [] with
  | [] => [""]
  | st => rev st
  end.

(* segments of path.Clean(p) when p is rooted; None when p does not start
   with '/' (then Clean(p) does not either) *)
Definition clean_path (p : string) : option (list string) :=
  match p with
  | String c t => if Ascii.eqb c slash then Some (clean_segs (split t)) else None
  | EmptyString => None
  end.

(* the string path.Clean returns for a rooted path *)
Definition clean_string (p : string) : option string :=
  match clean_path p with
  | Some l => Some (String slash (join l))
  | None => None
  end.

(* ----------------------------------------------------------- search.Tree *)

Definition handler := Z.
Definition params := list (string * string).

Inductive node :=
| Node (item : option handler) (lits : list (string * node)) (vars : list (string * node)).

Definition item (n : node) := match n with Node i _ _ => i end.
Definition lits (n : node) := match n with Node _ l _ => l end.
Definition vars (n : node) := match n with Node _ _ v => v end.

Definition empty_node : node := Node None [] [].

Fixpoint assoc {A} (k : string) (l : list (string * A)) : option A :=
  match l with
  | [] => None
  | (k', v) :: l' => if k' =? k then Some v else assoc k l'
  end.

(* replace the binding of k, or append a new one *)
Fixpoint put {A} (k : string) (v : A) (l : list (string * A)) : list (string * A) :=
  match l with
  | [] => [(k, v)]
  | (k', v') :: l' => if k' =? k then (k, v) :: l' else (k', v') :: put k v l'
  end.

(* nd.getChildren(token)[token] *)
Definition child (n : node) (s : string) : option node :=
  if is_var s then assoc s (vars n) else assoc s (lits n).

Definition put_child (n : node) (s : string) (c : node) : node :=
  if is_var s then Node (item n) (lits n) (put s c (vars n))
  else Node (item n) (put s c (lits n)) (vars n).

Inductive add_err := ErrDupItem | ErrDupSlash.

(* if nd.item != nil { return errDupItem }; nd.item = item *)
Definition set_item (n : node) (h : handler) : node + add_err :=
  match item n with
  | Some _ => inr ErrDupItem
  | None => inl (Node (Some h) (lits n) (vars n))
  end.

(* func add(nd, route, item): [segs] are the components of [route] *)
Fixpoint add (n : node) (segs : list string) (h : handler) {struct segs} : node + add_err :=
  match segs with
  | [] => set_item n h
  | s :: rest =>
    match rest with
    | [] =>
      if s =? "" then set_item n h                      (* len(route) == 0 *)
      else                                              (* no slash left *)
        match set_item (match child n s with Some c => c | None => empty_node end) h with
        | inl c' => inl (put_child n s c')
        | inr e => inr e
        end
    | _ :: _ =>
      if s =? "" then inr ErrDupSlash                   (* route[0] == '/' *)
      else
        match add (match child n s with Some c => c | None => empty_node end) rest h with
        | inl c' => inl (put_child n s c')
        | inr e => inr e
        end
    end
  end.

(* func match(pat, token): None = not found, Some None = literal hit,
   Some (Some (k, v)) = named hit *)
Definition match_seg (pat token : string) : option (option (string * string)) :=
  if is_var pat then Some (Some (var_name pat, token))
  else if pat =? token then Some None
  else None.

(* result.Params[k] = v *)
Definition set_param (k v : string) (ps : params) : params :=
  (k, v) :: filter (fun kv => negb (fst kv =? k)) ps.

Definition add_match (r : option (string * string)) (ps : params) : params :=
  match r with
  | Some (k, v) => set_param k v ps
  | None => ps
  end.

(* nd.forEach(fn): children[0] in some order, then children[1] in some order,
   stopping at the first success.  The set of possible results: *)
Definition for_each {A} (n : node) (f : string * node -> list A) : list A :=
  match flat_map f (lits n) with
  | [] => flat_map f (vars n)
  | l => l
  end.

(* the last token of the route (no slash left) *)
Definition last_step (n : node) (s : string) : list (handler * params) :=
  match (if s =? "" then item n else None) with
  | Some h => [(h, [])]                       (* len(route) == 0 && n.item != nil *)
  | None =>
    for_each n (fun kv =>
      match match_seg (fst kv) s, item (snd kv) with
      | Some r, Some h => [(h, add_match r [])]
      | _, _ => []
      end)
  end.

(* func (t *Tree) next(n, route, result): all results it can return *)
Fixpoint outcomes (n : node) (segs : list string) {struct segs} : list (handler * params) :=
  match segs with
  | [] => last_step n ""
  | s :: rest =>
    match rest with
    | [] => last_step n s
    | _ :: _ =>
      for_each n (fun kv =>
        match match_seg (fst kv) s with
        | Some r => map (fun hp => (fst hp, add_match r (snd hp))) (outcomes (snd kv) rest)
        | None => []
        end)
    end
  end.

Definition search (n : node) (segs : list string) : option (handler * params) :=
  hd_error (outcomes n segs).

(* ------------------------------------------------------------- patRouter *)

Record router := mkRouter
  { trees : list (string * node);      (* pr.trees, in order of creation *)
    custom_nf : bool;                  (* pr.notFound != nil *)
    custom_na : bool }.                (* pr.notAllowed != nil *)

Definition new_router (nf na : bool) : router := mkRouter [] nf na.

Definition valid_methods : list string :=
  ["DELETE"; "GET"; "HEAD"; "OPTIONS"; "PATCH"; "POST"; "PUT"].

Definition valid_method (m : string) : bool := existsb (String.eqb m) valid_methods.

Inductive reg_result := RegOk | RegInvalidMethod | RegInvalidPath | RegDuplicate | RegOther.

(* func (pr *patRouter) Handle(method, reqPath, handler) error *)
Definition handle (r : router) (m p : string) (h : handler) : router * reg_result :=
  if negb (valid_method m) then (r, RegInvalidMethod)
  else match clean_path p with
       | None => (r, RegInvalidPath)
       | Some segs =>
         let t := match assoc m (trees r) with Some t => t | None => empty_node end in
         match add t segs h with
         | inl t' => (mkRouter (put m t' (trees r)) (custom_nf r) (custom_na r), RegOk)
         | inr ErrDupItem => (r, RegDuplicate)
         | inr ErrDupSlash => (r, RegOther)
         end
       end.

Inductive response :=
| RHandler (h : handler) (ps : params)   (* the handler ran, with pathvar.Vars *)
| RNotAllowed (allow : list string)      (* 405 + Allow header *)
| RNotAllowedCustom                      (* pr.notAllowed ran *)
| RNotFound                              (* http.NotFound *)
| RNotFoundCustom.                       (* pr.notFound ran *)

(* methodsAllowed: the other methods whose tree has a match *)
Definition methods_allowed (r : router) (m : string) (segs : list string) : list string :=
  map fst (filter (fun mt => negb (fst mt =? m) &&
                             match search (snd mt) segs with Some _ => true | None => false end)
                  (trees r)).

Definition not_found (r : router) : response :=
  if custom_nf r then RNotFoundCustom else RNotFound.

(* everything ServeHTTP does after the method's own tree has been searched *)
Definition fallback (r : router) (m : string) (segs : list string) : response :=
  match methods_allowed r m segs with
  | [] => not_found r
  | allow => if custom_na r then RNotAllowedCustom else RNotAllowed allow
  end.

(* func (pr *patRouter) ServeHTTP *)
Definition serve (r : router) (m p : string) : response :=
  match clean_path p with
  | None => not_found r            (* Clean(p) is not rooted: every Search fails *)
  | Some segs =>
    match match assoc m (trees r) with Some t => search t segs | None => None end with
    | Some (h, ps) => RHandler h ps
    | None => fallback r m segs
    end
  end.

(* the responses ServeHTTP can give, whatever order Go iterates its maps in *)
Definition serve_allowed (r : router) (m p : string) : list response :=
  match clean_path p with
  | None => [not_found r]
  | Some segs =>
    match match assoc m (trees r) with Some t => outcomes t segs | None => [] end with
    | [] => [fallback r m segs]
    | l => map (fun hp => RHandler (fst hp) (snd hp)) l
    end
  end.

(* a registration = one call of Handle *)
Record reg := mkReg { rmethod : string; rpath : string; rhandler : handler }.

Definition handle_reg (r : router) (g : reg) : router * reg_result :=
  handle r (rmethod g) (rpath g) (rhandler g).

Fixpoint build (r : router) (regs : list reg) : router :=
  match regs with
  | [] => r
  | g :: regs' => build (fst (handle_reg r g)) regs'
  end.

Fixpoint build_results (r : router) (regs : list reg) : list reg_result :=
  match regs with
  | [] => []
  | g :: regs' => snd (handle_reg r g) :: build_results (fst (handle_reg r g)) regs'
  end.
